package main

// Suite "report" (C12): the evaluation views of one file at one instant, through the real command line.
//
//	report-run <y> <m> <d> <h> <mi> <aggregate> <fill 0/1> <diff 0/1> <now 0/1> <hex file>
//	report-filtered <y> <m> <d> <h> <mi> <aggregate> <fill> <diff> <now> <n> <flag_1> ... <flag_n> <hex file>
//
// runs `klog report --aggregate … [--fill] [--diff] [--now]`, `klog total --diff [--now]`,
// `klog today --diff [--now]` (all `--decimal --no-style --no-warn`) and `klog print --with-totals --no-style`
// on the same file and prints every numeric cell, with the row keys rebuilt from the label columns
// (a blank year / month cell repeats the one above, as the aggregators leave it out when unchanged).

import (
	"fmt"
	"github.com/jotaen/klog/klog/parser"
	"os"
	"path/filepath"
	"regexp"
	"strconv"
	"strings"
	gotime "time"

	"github.com/jotaen/klog/klog"
)

var monthNames = map[string]int{"Jan": 1, "Feb": 2, "Mar": 3, "Apr": 4, "May": 5, "Jun": 6, "Jul": 7, "Aug": 8, "Sep": 9, "Oct": 10, "Nov": 11, "Dec": 12}
var dayNames = map[string]int{"Mon": 1, "Tue": 2, "Wed": 3, "Thu": 4, "Fri": 5, "Sat": 6, "Sun": 7}
var intRe = regexp.MustCompile(`^-?\d+$`)

type viewResult struct {
	status string // ok, err, crash, fail
	toks   []string
}

func viewFail(tag string, what string, detail string) viewResult {
	return viewResult{"fail", []string{tag, "fail", what, hx(detail)}}
}

// classify maps the exit of a klog command to a section status; ok = proceed with parsing stdout
// refusedNow is set by views() for the request at hand (the harness handles one request at a time).
var refusedNow func(args ...string) bool

func classify(tag string, code int, errText string, args ...string) (viewResult, bool) {
	if code == -1 {
		return viewResult{"crash", []string{tag, "crash"}}, false
	}
	if code != 0 {
		if refusedNow != nil && refusedNow(args...) {
			return viewResult{"err", []string{tag, "err"}}, false
		}
		return viewFail(tag, "exit"+strconv.Itoa(code), errText), false
	}
	return viewResult{}, true
}

// canonYear: the year of a label as a number (how many digits a year is padded to is presentation)
func canonYear(s string) string {
	if n, err := strconv.Atoi(s); err == nil {
		return strconv.Itoa(n)
	}
	return s
}

func cellsOf(fields []string, want int) (string, bool) {
	if len(fields) != want {
		return "", false
	}
	for _, f := range fields {
		if !intRe.MatchString(f) {
			return "", false
		}
	}
	return strings.Join(fields, ","), true
}

// col cuts the fixed-width label column [from, from+width) out of a table row
func col(line string, from, width int) (string, bool) {
	if len(line) < from+width {
		return "", false
	}
	return strings.TrimSpace(line[from : from+width]), true
}

// parseReport turns the report table into "<n> key=cells … G cells"
func parseReport(out string, agg byte, withDiff bool) ([]string, string) {
	if out == "" {
		return []string{"none"}, ""
	}
	if !strings.HasSuffix(out, "\n") {
		return nil, "no final newline"
	}
	lines := strings.Split(strings.TrimSuffix(out, "\n"), "\n")
	if len(lines) < 4 {
		return nil, "too few lines"
	}
	nvals := 1
	if withDiff {
		nvals = 3
	}
	// label columns: widths are fixed by the header cells of the aggregators
	var widths []int
	switch agg {
	case 'd':
		widths = []int{4, 3, 6, 3}
	case 'w':
		widths = []int{4, 8}
	case 'm':
		widths = []int{4, 3}
	case 'q':
		widths = []int{4, 2}
	case 'y':
		widths = []int{4}
	}
	prefixLen := 0
	for _, w := range widths {
		prefixLen += w + 1
	}
	prefixLen-- // no separator after the last label column; the value columns start with one
	head := strings.Fields(lines[0])
	wantHead := []string{"Total"}
	if withDiff {
		wantHead = []string{"Total", "Should", "Diff"}
	}
	if strings.Join(head, " ") != strings.Join(wantHead, " ") {
		return nil, "header"
	}
	sepLine := lines[len(lines)-2]
	if strings.TrimSpace(strings.ReplaceAll(sepLine, "=", "")) != "" || !strings.Contains(sepLine, "=") {
		return nil, "separator line"
	}
	if len(sepLine) < prefixLen || strings.TrimSpace(sepLine[:prefixLen]) != "" || len(strings.Fields(sepLine)) != nvals {
		return nil, "separator line shape"
	}
	last := lines[len(lines)-1]
	if len(last) < prefixLen || strings.TrimSpace(last[:prefixLen]) != "" {
		return nil, "grand total line"
	}
	grand, ok := cellsOf(strings.Fields(last[prefixLen:]), nvals)
	if !ok {
		return nil, "grand total cells"
	}
	rows := lines[1 : len(lines)-2]
	toks := []string{strconv.Itoa(len(rows))}
	year, month := "", 0
	haveYear := false
	for _, ln := range rows {
		if len(ln) < prefixLen {
			return nil, "short row"
		}
		var labels []string
		at := 0
		for _, w := range widths {
			c, _ := col(ln, at, w)
			labels = append(labels, c)
			at += w + 1
		}
		if agg != 'y' {
			if labels[0] != "" {
				year, haveYear = canonYear(labels[0]), true
				month = 0
			}
			if !haveYear {
				// a first row without a year label (the aggregators start from the sentinel year -1)
				year = "?"
			}
		}
		key := ""
		switch agg {
		case 'd':
			if labels[1] != "" {
				m, ok := monthNames[labels[1]]
				if !ok {
					return nil, "month name"
				}
				month = m
			}
			if month == 0 {
				return nil, "row without month"
			}
			wd, ok := dayNames[labels[2]]
			if !ok {
				return nil, "weekday name"
			}
			if !strings.HasSuffix(labels[3], ".") {
				return nil, "day cell"
			}
			d, err := strconv.Atoi(strings.TrimSuffix(labels[3], "."))
			if err != nil {
				return nil, "day number"
			}
			key = fmt.Sprintf("%s-%d-%d-%d", year, month, d, wd)
		case 'w':
			if !strings.HasPrefix(labels[1], "Week ") {
				return nil, "week cell"
			}
			w, err := strconv.Atoi(strings.TrimSpace(strings.TrimPrefix(labels[1], "Week ")))
			if err != nil {
				return nil, "week number"
			}
			key = fmt.Sprintf("%s-%d", year, w)
		case 'm':
			m, ok := monthNames[labels[1]]
			if !ok {
				return nil, "month name"
			}
			key = fmt.Sprintf("%s-%d", year, m)
		case 'q':
			if len(labels[1]) != 2 || labels[1][0] != 'Q' {
				return nil, "quarter cell"
			}
			key = fmt.Sprintf("%s-%c", year, labels[1][1])
		case 'y':
			key = canonYear(labels[0])
		}
		if y := strings.SplitN(strings.TrimPrefix(key, "-"), "-", 2)[0]; y != "?" && !intRe.MatchString(y) {
			return nil, "year cell"
		}
		vals := strings.Fields(ln[prefixLen:])
		if len(vals) == 0 {
			toks = append(toks, key+"=_")
			continue
		}
		c, ok := cellsOf(vals, nvals)
		if !ok {
			return nil, "row cells"
		}
		toks = append(toks, key+"="+c)
	}
	return append(toks, "G", grand), ""
}

var totalDiffRe = regexp.MustCompile(`^Total: (-?\d+)\nShould: (-?\d+)\nDiff: (-?\d+)\n\(In (\d+) records?\)\n$`)

// parseToday turns the today table into "<today|yesterday> <current> <other> <all>"
func parseToday(out string, withNow bool) ([]string, string) {
	lines := strings.Split(strings.TrimSuffix(out, "\n"), "\n")
	if len(lines) != 5 {
		return nil, "line count"
	}
	wantHead := "Total Should Diff"
	n := 3
	if withNow {
		wantHead += " End-Time"
		n = 4
	}
	if strings.Join(strings.Fields(lines[0]), " ") != wantHead {
		return nil, "header"
	}
	cur := strings.Fields(lines[1])
	if len(cur) != n+1 {
		return nil, "current row"
	}
	label := ""
	switch cur[0] {
	case "Today":
		label = "today"
	case "Yesterday":
		label = "yesterday"
	default:
		return nil, "current label"
	}
	curTok := ""
	if cur[1] == "n/a" {
		for _, c := range cur[1:] {
			if c != "n/a" {
				return nil, "mixed n/a"
			}
		}
		curTok = "n/a"
	} else {
		c, ok := cellsOf(cur[1:4], 3)
		if !ok {
			return nil, "current cells"
		}
		curTok = c
		if withNow {
			curTok += "," + cur[4]
		}
	}
	oth := strings.Fields(lines[2])
	if len(oth) != 4 || oth[0] != "Other" {
		return nil, "other row"
	}
	othTok, ok := cellsOf(oth[1:], 3)
	if !ok {
		return nil, "other cells"
	}
	if strings.TrimSpace(strings.ReplaceAll(lines[3], "=", "")) != "" || len(strings.Fields(lines[3])) != 3 {
		return nil, "separator"
	}
	all := strings.Fields(lines[4])
	if len(all) != n+1 || all[0] != "All" {
		return nil, "all row"
	}
	allTok, ok := cellsOf(all[1:4], 3)
	if !ok {
		return nil, "all cells"
	}
	if withNow {
		allTok += "," + all[4]
	}
	return []string{label, curTok, othTok, allTok}, ""
}

func durationMinutes(s string) (string, bool) {
	d, err := klog.NewDurationFromString(s)
	if err != nil {
		return "", false
	}
	return strconv.Itoa(d.InMinutes()), true
}

// parseWithTotals turns `print --with-totals` into "<n> total:e1,e2 …" (minutes)
func parseWithTotals(out string) ([]string, string) {
	if out == "" {
		return []string{"none"}, ""
	}
	if !strings.HasPrefix(out, "\n") || !strings.HasSuffix(out, "\n\n") {
		return nil, "frame"
	}
	body := strings.TrimSuffix(strings.TrimPrefix(out, "\n"), "\n\n")
	var recs []string
	inRecord := false
	total := ""
	var entries []string
	flush := func() {
		if inRecord {
			e := "_"
			if len(entries) > 0 {
				e = strings.Join(entries, ",")
			}
			recs = append(recs, total+":"+e)
		}
		inRecord, total, entries = false, "", nil
	}
	for _, ln := range strings.Split(body, "\n") {
		if ln == "" {
			flush()
			continue
		}
		i := strings.Index(ln, "  |  ")
		if i < 0 {
			return nil, "line without separator"
		}
		p := strings.TrimSpace(ln[:i])
		if !inRecord {
			m, ok := durationMinutes(p)
			if !ok {
				return nil, "record prefix"
			}
			inRecord, total = true, m
			continue
		}
		if p == "" {
			continue
		}
		m, ok := durationMinutes(p)
		if !ok {
			return nil, "entry prefix"
		}
		entries = append(entries, m)
	}
	flush()
	return append([]string{strconv.Itoa(len(recs))}, recs...), ""
}

// views runs the commands on one file and prints the canonical line. filter: extra command-line flags for
// report, total and print (then `klog today`, which takes no filter, is left out).
func views(now gotime.Time, aggArg string, fill, withDiff, withNow bool, filter []string, text string) string {
	dir := scratchDir()
	defer os.RemoveAll(dir)
	f := filepath.Join(dir, "in.klg")
	writeFile(f, text)
	useNow := withNow
	run := func(args ...string) (int, string, string) {
		e := &cliEnv{Home: dir, Sticky: true, Clock: []gotime.Time{now}}
		if useNow && args[0] != "print" {
			args = append(args, "--now")
		}
		if args[0] != "today" {
			args = append(args, filter...)
		}
		return runSafely(e, append(args, f)...)
	}
	// The failures are told apart by what makes them go away, not by the wording of klog's messages:
	//  - refusedNow: the command fails with --now and ends differently (succeeds, or fails in another way) without it;
	//  - argument error: the command line fails on an empty file as well;
	//  - invalid file: the parser reports errors for the text.
	refusedNow = func(args ...string) bool {
		if !withNow || args[0] == "print" {
			return false
		}
		code1, _, err1 := run(args...)
		useNow = false
		code2, _, err2 := run(args...)
		useNow = withNow
		return code1 > 0 && (code2 != code1 || err2 != err1)
	}
	failsOnEmptyFile := func(args ...string) bool {
		writeFile(f, "")
		code, _, _ := run(args...)
		writeFile(f, text)
		return code > 0
	}
	agg := byte('d')
	if aggArg != "" {
		agg = strings.ToLower(aggArg[:1])[0]
	}
	var secs []viewResult

	// klog report
	rargs := []string{"report", "--aggregate", aggArg, "--decimal", "--no-style", "--no-warn"}
	if fill {
		rargs = append(rargs, "--fill")
	}
	if withDiff {
		rargs = append(rargs, "--diff")
	}
	code, out, errText := run(rargs...)
	if code > 0 && failsOnEmptyFile(rargs...) {
		return "argerr"
	}
	if code > 0 {
		if _, _, errs := parser.NewSerialParser().Parse(text); errs != nil {
			return "invalid"
		}
	}
	if v, ok := classify("R", code, errText, rargs...); !ok {
		secs = append(secs, v)
	} else if toks, why := parseReport(out, agg, withDiff); why != "" {
		secs = append(secs, viewFail("R", why, out))
	} else {
		secs = append(secs, viewResult{"ok", append([]string{"R"}, toks...)})
	}

	// klog total
	code, out, errText = run("total", "--decimal", "--no-style", "--no-warn", "--diff")
	if v, ok := classify("T", code, errText, "total", "--decimal", "--no-style", "--no-warn", "--diff"); !ok {
		secs = append(secs, v)
	} else if m := totalDiffRe.FindStringSubmatch(out); m == nil {
		secs = append(secs, viewFail("T", "unparsed", out))
	} else {
		secs = append(secs, viewResult{"ok", []string{"T", m[1], m[2], m[3], m[4]}})
	}

	// klog today
	if filter == nil {
		code, out, errText = run("today", "--decimal", "--no-style", "--no-warn", "--diff")
		if v, ok := classify("D", code, errText, "today", "--decimal", "--no-style", "--no-warn", "--diff"); !ok {
			secs = append(secs, v)
		} else if toks, why := parseToday(out, withNow); why != "" {
			secs = append(secs, viewFail("D", why, out))
		} else {
			secs = append(secs, viewResult{"ok", append([]string{"D"}, toks...)})
		}
	}

	// klog print --with-totals
	code, out, errText = run("print", "--with-totals", "--no-style", "--no-warn")
	if v, ok := classify("P", code, errText, "print", "--with-totals", "--no-style", "--no-warn"); !ok {
		secs = append(secs, v)
	} else if toks, why := parseWithTotals(out); why != "" {
		secs = append(secs, viewFail("P", why, out))
	} else {
		secs = append(secs, viewResult{"ok", append([]string{"P"}, toks...)})
	}

	status := "ok"
	rank := map[string]int{"ok": 0, "err": 1, "fail": 2, "crash": 3}
	var toks []string
	for _, s := range secs {
		if rank[s.status] > rank[status] {
			status = s.status
		}
		toks = append(toks, s.toks...)
	}
	return status + " " + strings.Join(toks, " ")
}

func init() {
	instant := func(a []string) gotime.Time {
		y, _ := strconv.Atoi(a[0])
		mo, _ := strconv.Atoi(a[1])
		d, _ := strconv.Atoi(a[2])
		h, _ := strconv.Atoi(a[3])
		mi, _ := strconv.Atoi(a[4])
		return gotime.Date(y, gotime.Month(mo), d, h, mi, 30, 0, gotime.Local)
	}
	register("report-run", func(a []string) string {
		return views(instant(a), a[5], a[6] == "1", a[7] == "1", a[8] == "1", nil, argBytes(a[9]))
	})
	register("report-filtered", func(a []string) string {
		n, _ := strconv.Atoi(a[9])
		filter := queryArgs(a[10:10+n], "-")
		if filter == nil {
			filter = []string{}
		}
		return views(instant(a), a[5], a[6] == "1", a[7] == "1", a[8] == "1", filter, argBytes(a[10+n]))
	})
}
