#!/bin/bash
# run_all.sh [tier]: every check once on /repo, sequentially; prints one line per property
cd "$(dirname "$0")/.."
tier=${1:-quick}
for p in C01 C02 C03 C04 C05 C06 C07 C08 C09 C10 C11 C12 C13 C14 C15 C16 C17 C18 C19 C20; do
  s=$(date +%s)
  out=$(python3 check.py $p --tier $tier 2>&1)
  rc=$?
  echo "$p rc=$rc $(( $(date +%s) - s ))s $(echo "$out" | grep -c KNOWN-FINDING) known $(echo "$out" | grep VIOLATION | head -2 | tr '\n' ' ')"
done
