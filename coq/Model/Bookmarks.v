(* Bookmarks: klog/app/bookmark.go, the bookmark parts of context.go (ReadBookmarks, ManipulateBookmarks,
   ReadInputs), retriever.go (FileRetriever) and cli/bookmarks.go. Definitions only.

   State: the database file bookmarks.json as a byte string; an absent file and an empty file are the same
   thing to klog (ReadBookmarks), so absent is modelled as the empty byte string.

   The Go map[Name]Bookmark is represented canonically: an association list with strictly ascending names
   (byte order, which is Go's < on strings). [set] is the map assignment, [remove] is delete, [all] is
   All() (an explicit sort, as in the code; on the canonical representation it changes nothing, see
   Proofs/Bookmarks.v all_sorted_id and all_perm).

   What belongs to the operating system is NOT defined here; it is a variable of the section, and the
   theorems about this file (Proofs/Bookmarks.v) carry exactly these hypotheses about it:
     abs  : bytes -> bytes       filepath.Abs (filepath.Join p) in the process's working directory
                                 (app.NewFile); hypotheses used:
                                   abs_is_abs : is_abs (abs p) = true
                                   abs_idem   : abs (abs p) = abs p            (an absolute clean path is a fixed point)
                                   abs_utf8   : valid_utf8 p -> valid_utf8 (abs p)
     fstat : bytes -> fstatus    what reading the file at an absolute path gives: missing / not a valid klog
                                 file / valid (os.ReadFile + the parser); no hypothesis
     dir_of, base_of             filepath.Dir, filepath.Base (bookmarks info --dir / --file); no hypothesis
   filepath.IsAbs is modelled for Unix: the path starts with a slash.
   A concrete Unix instance (lexical Clean / Join / Abs / Dir / Base) is given at the end for the executable
   model; the correspondence suite compares it with the real functions.

   Exit codes are klog's app.Code values: 1 general, 2 no input, 4 IO, 5 config, 6 no such bookmark, 8 parser errors. *)
From Klog Require Import Base.Prelude Base.Utf8 Model.Json.
Open Scope N_scope.

(* ---------- names ---------- *)

Fixpoint trim_left_at (s : bytes) : bytes :=
  match s with
  | c :: r => if c =? 64 then trim_left_at r else s
  | [] => []
  end.

Definition default_name : bytes := b!"default".

(* NewName: strings.TrimLeft(name, "@"), empty -> "default" *)
Definition new_name (s : bytes) : bytes :=
  match trim_left_at s with
  | [] => default_name
  | v => v
  end.

(* ValuePretty *)
Definition name_pretty (n : bytes) : bytes := 64 :: n.

(* IsValidBookmarkName: strings.HasPrefix(value, "@") *)
Definition is_bookmark_arg (s : bytes) : bool :=
  match s with c :: _ => c =? 64 | [] => false end.

(* filepath.IsAbs on Unix *)
Definition is_abs (p : bytes) : bool :=
  match p with c :: _ => c =? 47 | [] => false end.

(* ---------- the collection ---------- *)

Definition coll := list (bytes * bytes).    (* name |-> absolute path of the target *)

Fixpoint bytes_ltb (a b : bytes) : bool :=
  match a, b with
  | _, [] => false
  | [], _ :: _ => true
  | x :: a', y :: b' => (x <? y) || ((x =? y) && bytes_ltb a' b')
  end.

Fixpoint get (n : bytes) (c : coll) : option bytes :=
  match c with
  | [] => None
  | (n', p) :: r => if bytes_eqb n n' then Some p else get n r
  end.

Definition has (n : bytes) (c : coll) : bool :=
  match get n c with Some _ => true | None => false end.

(* bc.bookmarks[name] = b *)
Fixpoint set (n p : bytes) (c : coll) : coll :=
  match c with
  | [] => [(n, p)]
  | (n', p') :: r =>
    if bytes_ltb n n' then (n, p) :: c
    else if bytes_eqb n n' then (n, p) :: r
    else (n', p') :: set n p r
  end.

(* delete(bc.bookmarks, n) *)
Fixpoint remove (n : bytes) (c : coll) : coll :=
  match c with
  | [] => []
  | (n', p') :: r => if bytes_eqb n n' then r else (n', p') :: remove n r
  end.

(* All(): sort.Slice by name *)
Fixpoint insert_sorted (e : bytes * bytes) (l : coll) : coll :=
  match l with
  | [] => [e]
  | x :: r => if bytes_ltb (fst x) (fst e) then x :: insert_sorted e r else e :: l
  end.
Definition all (c : coll) : coll := fold_right insert_sorted [] c.

(* ---------- serialisation (ToJson) ---------- *)

Definition key_name : bytes := b!"name".
Definition key_path : bytes := b!"path".

Definition entry_json (e : bytes * bytes) : json :=
  JObj [(key_name, JStr (fst e)); (key_path, JStr (snd e))].

(* empty collection -> empty file; otherwise Encoder with SetIndent("", "  "), SetEscapeHTML(false) *)
Definition to_json (c : coll) : bytes :=
  match all c with
  | [] => []
  | l => encoder_output true (JArr (map entry_json l))
  end.

(* ---------- deserialisation (NewBookmarksCollectionFromJson) ---------- *)

(* struct bookmarkJson { Name *string; Path *string }, None = nil *)
Record raw_entry := { re_name : option bytes; re_path : option bytes }.

Definition ascii_lower (c : N) : N := if (65 <=? c) && (c <=? 90) then c + 32 else c.
(* encoding/json matches a key to a field exactly or under case folding; for the letters of
   "name" and "path" Unicode simple folding adds nothing to ASCII case *)
Definition key_is (field key : bytes) : bool := bytes_eqb (map ascii_lower key) field.

(* json.Unmarshal of one object into the struct; None = UnmarshalTypeError *)
Fixpoint decode_fields (l : list (bytes * json)) (e : raw_entry) : option raw_entry :=
  match l with
  | [] => Some e
  | (k, v) :: r =>
    if key_is key_name k then
      match v with
      | JStr s => decode_fields r {| re_name := Some s; re_path := re_path e |}
      | JNull => decode_fields r {| re_name := None; re_path := re_path e |}
      | _ => None
      end
    else if key_is key_path k then
      match v with
      | JStr s => decode_fields r {| re_name := re_name e; re_path := Some s |}
      | JNull => decode_fields r {| re_name := re_name e; re_path := None |}
      | _ => None
      end
    else decode_fields r e
  end.

Definition decode_entry (v : json) : option raw_entry :=
  match v with
  | JObj l => decode_fields l {| re_name := None; re_path := None |}
  | JNull => Some {| re_name := None; re_path := None |}
  | _ => None
  end.

Fixpoint decode_entries (l : list json) : option (list raw_entry) :=
  match l with
  | [] => Some []
  | v :: r =>
    match decode_entry v, decode_entries r with
    | Some e, Some es => Some (e :: es)
    | _, _ => None
    end
  end.

Definition malformed_db {A} : outcome A := Err (EOther 5).

Section OS.
  Variable abs : bytes -> bytes.

  Inductive fstatus := FMissing | FInvalid | FValid.
  Variable fstat : bytes -> fstatus.
  Variable dir_of : bytes -> bytes.
  Variable base_of : bytes -> bytes.

  (* app.NewFile: Abs, then NewFileOrPanic *)
  Definition new_file (p : bytes) : outcome bytes :=
    let a := abs p in
    if is_abs a then Ok a else Crash CExplicitPanic.

  Fixpoint load_entries (l : list raw_entry) (c : coll) : outcome coll :=
    match l with
    | [] => Ok c
    | e :: r =>
      match re_name e, re_path e with
      | Some n, Some p =>
        if is_abs p then
          let* f := new_file p in load_entries r (set (new_name n) f c)
        else malformed_db
      | _, _ => malformed_db
      end
    end.

  Definition from_json (s : bytes) : outcome coll :=
    match s with
    | [] => Ok []
    | _ =>
      match parse_json s with
      | Ok JNull => Ok []
      | Ok (JArr l) =>
        match decode_entries l with
        | Some es => load_entries es []
        | None => malformed_db
        end
      | Ok _ => malformed_db
      | Err _ => malformed_db
      | Crash c => Crash c
      end
    end.

  (* ---------- resolution of file arguments (FileRetriever.Retrieve, ReadInputs) ---------- *)

  (* removeBlankEntries: strings.TrimLeft(f, " ") == "" *)
  Definition is_blank_arg (a : bytes) : bool := forallb (fun c => c =? 32) a.

  Definition resolve_arg (c : coll) (a : bytes) : option bytes :=
    if is_bookmark_arg a then get (new_name a) c else Some a.

  (* the loop over the arguments: files that could be read, and whether any error was collected *)
  Fixpoint retrieve_each (c : coll) (args : list bytes) : outcome (list bytes * bool) :=
    match args with
    | [] => Ok ([], false)
    | a :: r =>
      match resolve_arg c a with
      | None => let* (fs, _) := retrieve_each c r in Ok (fs, true)
      | Some p =>
        let* f := new_file p in
        let* (fs, e) := retrieve_each c r in
        match fstat f with
        | FMissing => Ok (fs, true)
        | _ => Ok (f :: fs, e)
        end
      end
    end.

  Definition retrieve (c : coll) (args : list bytes) : outcome (list bytes) :=
    let args1 := filter (fun a => negb (is_blank_arg a)) args in
    let args2 := match args1 with
                 | [] => match get default_name c with Some p => [p] | None => [] end
                 | _ => args1
                 end in
    let* (fs, e) := retrieve_each c args2 in
    if e then Err (EOther 4) else Ok fs.

  (* ReadInputs with nothing piped to stdin: the files whose records are evaluated *)
  Definition read_inputs (file : bytes) (args : list bytes) : outcome (list bytes) :=
    let* c := from_json file in
    let* fs := retrieve c args in
    match fs with
    | [] => Err (EOther 2)
    | _ => if forallb (fun f => match fstat f with FValid => true | _ => false end) fs
           then Ok fs else Err (EOther 8)
    end.

  (* ---------- the commands: database file before -> (database file after, stdout), or exit code ---------- *)

  Definition arrow : bytes := b!" -> ".
  Definition line_of (e : bytes * bytes) : bytes := name_pretty (fst e) ++ arrow ++ snd e ++ [10].

  Inductive info_kind := IPath | IDir | IFile.

  Inductive op :=
  | OpSet (path name : bytes) (force : bool)   (* bookmarks set [--force] PATH [NAME]; no NAME = empty NAME *)
  | OpUnset (name : bytes)                     (* bookmarks unset NAME *)
  | OpClear                                    (* bookmarks clear --yes *)
  | OpList                                     (* bookmarks list *)
  | OpInfo (name : bytes) (k : info_kind)      (* bookmarks info [--dir|--file] NAME *)
  | OpResolve (args : list bytes).             (* any evaluating command's file arguments, e.g. klog total ARGS *)

  Definition cmd_set (path name : bytes) (force : bool) (file : bytes) : outcome (bytes * bytes) :=
    let* f := new_file path in
    let* _ := (if force then Ok tt
               else match read_inputs file [f] with
                    | Ok _ => Ok tt
                    | Err _ => Err (EOther 1)
                    | Crash c => Crash c
                    end) in
    (* NewDefaultBookmark for an empty name, NewBookmark(name) otherwise: both are new_name *)
    let n := match name with [] => new_name default_name | _ => new_name name end in
    let* c := from_json file in
    let existed := has n c in
    Ok (to_json (set n f c),
        (if existed then b!"Changed bookmark" else b!"Created new bookmark") ++ [58; 10] ++ line_of (n, f)).

  Definition cmd_unset (name : bytes) (file : bytes) : outcome (bytes * bytes) :=
    let n := new_name name in
    let* c := from_json file in
    if has n c then Ok (to_json (remove n c), b!"Removed bookmark " ++ name_pretty n ++ [10])
    else Err (EOther 6).

  Definition cmd_clear (file : bytes) : outcome (bytes * bytes) :=
    let* c := from_json file in
    Ok (to_json [], b!"Cleared all bookmarks" ++ [10]).

  Definition cmd_list (file : bytes) : outcome (bytes * bytes) :=
    let* c := from_json file in
    match c with
    | [] => Ok (file, b!"There are no bookmarks defined yet." ++ [10])
    | _ => Ok (file, flat_map line_of (all c))
    end.

  Definition info_text (k : info_kind) (p : bytes) : bytes :=
    match k with IPath => p | IDir => dir_of p | IFile => base_of p end.

  Definition cmd_info (name : bytes) (k : info_kind) (file : bytes) : outcome (bytes * bytes) :=
    let* c := from_json file in
    match get (new_name name) c with
    | Some p => Ok (file, info_text k p ++ [10])
    | None => Err (EOther 6)
    end.

  (* stdout stands for the list of files the command then evaluates, each followed by a NUL byte
     (which no path contains) *)
  Definition cmd_resolve (args : list bytes) (file : bytes) : outcome (bytes * bytes) :=
    let* fs := read_inputs file args in
    Ok (file, flat_map (fun f => f ++ [0]) fs).

  Definition run_op (o : op) (file : bytes) : outcome (bytes * bytes) :=
    match o with
    | OpSet p n f => cmd_set p n f file
    | OpUnset n => cmd_unset n file
    | OpClear => cmd_clear file
    | OpList => cmd_list file
    | OpInfo n k => cmd_info n k file
    | OpResolve a => cmd_resolve a file
    end.

  (* what a command invocation shows: exit code and stdout (a failed command prints nothing and writes nothing) *)
  Inductive reply := ROk (stdout : bytes) | RFail (e : error) | RPanic.

  Definition step {S} (run : S -> outcome (S * bytes)) (st : S) : S * reply :=
    match run st with
    | Ok (st', out) => (st', ROk out)
    | Err e => (st, RFail e)
    | Crash _ => (st, RPanic)
    end.

  (* the state after every command of a history, with what the command showed *)
  Fixpoint trace {S} (run : op -> S -> outcome (S * bytes)) (ops : list op) (st : S) : list (S * reply) :=
    match ops with
    | [] => []
    | o :: r => let sr := step (run o) st in sr :: trace run r (fst sr)
    end.

  Definition run_history (ops : list op) (file : bytes) : list (bytes * reply) := trace run_op ops file.

  (* ---------- the specification: the same commands on a plain map (no file, no JSON) ---------- *)

  Definition spec_resolve (m : coll) (args : list bytes) : outcome (list bytes) :=
    let* fs := retrieve m args in
    match fs with
    | [] => Err (EOther 2)
    | _ => if forallb (fun f => match fstat f with FValid => true | _ => false end) fs
           then Ok fs else Err (EOther 8)
    end.

  Definition spec_op (o : op) (m : coll) : outcome (coll * bytes) :=
    match o with
    | OpSet path name force =>
      let f := abs path in
      let n := new_name name in
      if force || match fstat f with FValid => true | _ => false end then
        Ok (set n f m,
            (if has n m then b!"Changed bookmark" else b!"Created new bookmark") ++ [58; 10] ++ line_of (n, f))
      else Err (EOther 1)
    | OpUnset name =>
      if has (new_name name) m
      then Ok (remove (new_name name) m, b!"Removed bookmark " ++ name_pretty (new_name name) ++ [10])
      else Err (EOther 6)
    | OpClear => Ok ([], b!"Cleared all bookmarks" ++ [10])
    | OpList =>
      match m with
      | [] => Ok (m, b!"There are no bookmarks defined yet." ++ [10])
      | _ => Ok (m, flat_map line_of m)
      end
    | OpInfo name k =>
      match get (new_name name) m with
      | Some p => Ok (m, info_text k p ++ [10])
      | None => Err (EOther 6)
      end
    | OpResolve args =>
      let* fs := spec_resolve m args in Ok (m, flat_map (fun f => f ++ [0]) fs)
    end.

  Definition spec_history (ops : list op) (m : coll) : list (coll * reply) := trace spec_op ops m.
End OS.

(* ---------- argv ---------- *)

(* kong hands every argument string to the command through json.Marshal / json.Unmarshal (mapper.go
   jsonTranscode): an argument that is not valid UTF-8 reaches klog with each offending byte replaced by
   U+FFFD; valid UTF-8 is unchanged (Proofs/Json.v kong_arg_valid). *)
Definition kong_arg (s : bytes) : bytes :=
  match decode_string (encode_string s) with
  | Ok d => d
  | _ => s
  end.

(* ---------- a concrete Unix instance of the OS functions (lexical; used by the executable model) ---------- *)

Definition slash : N := 47.

Fixpoint split_slash (s : bytes) (cur : bytes) : list bytes :=
  match s with
  | [] => [rev cur]
  | x :: r => if x =? slash then rev cur :: split_slash r [] else split_slash r (x :: cur)
  end.

(* one step of filepath.Clean over the path elements, the cleaned elements kept in reverse *)
Definition clean_step (rooted : bool) (stack : list bytes) (el : bytes) : list bytes :=
  if match el with [] => true | [46] => true | _ => false end then stack
  else if bytes_eqb el [46; 46] then
    match stack with
    | top :: rest => if bytes_eqb top [46; 46] then el :: stack else rest
    | [] => if rooted then [] else [el]
    end
  else el :: stack.

(* filepath.Clean *)
Definition unix_clean (p : bytes) : bytes :=
  match p with
  | [] => [46]
  | _ =>
    let rooted := is_abs p in
    let els := rev (fold_left (clean_step rooted) (split_slash p []) []) in
    if rooted then slash :: join [slash] els
    else match els with [] => [46] | _ => join [slash] els end
  end.

(* app.NewFile(p) in working directory cwd: filepath.Abs(filepath.Join(p)) *)
Definition unix_abs (cwd p : bytes) : bytes :=
  let q := match p with [] => [] | _ => unix_clean p end in
  if is_abs q then unix_clean q
  else match q with
       | [] => unix_clean cwd
       | _ => unix_clean (cwd ++ [slash] ++ q)
       end.

Fixpoint strip_trailing_slashes_rev (r : bytes) : bytes :=
  match r with
  | 47 :: r' => strip_trailing_slashes_rev r'
  | _ => r
  end.

(* the text after the last slash, and the text up to and including it *)
Definition last_element (p : bytes) : bytes := rev (fst (span (fun c => negb (c =? slash)) (rev p))).
Definition upto_last_slash (p : bytes) : bytes := rev (snd (span (fun c => negb (c =? slash)) (rev p))).

(* filepath.Dir *)
Definition unix_dir (p : bytes) : bytes := unix_clean (upto_last_slash p).

(* filepath.Base *)
Definition unix_base (p : bytes) : bytes :=
  match p with
  | [] => [46]
  | _ =>
    match rev (strip_trailing_slashes_rev (rev p)) with
    | [] => [slash]
    | q => last_element q
    end
  end.
