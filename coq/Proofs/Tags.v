(* Lemmas about Model/Tags.v (C14).
   Part A: the declarative definition of "the tags of a line" and its equivalence with the matcher.
   Part B: tags, tag sets, Contains, Merge.
   Part C: AggregateTotalsByTags.
   Part D: Summary.Tags() on bytes equals the matcher's view (second regexp run, quote trimming, no panic).
   Part E: the instance at the Go toolchain's Unicode tables.
   Part F: statements at the Go tables, data for the examples.
   Part G: the keys of the output are distinct, hence its order is determined; the multi-line witness.
   Part H: NewTagFromString on arbitrary strings. *)
From Klog Require Import Base.Prelude Base.Utf8 Model.Calendar Model.Values Model.Record Gen.UnicodeTables Model.Tags Proofs.TagsUtf8.
From Coq Require Import ZifyBool Permutation Sorted RelationClasses.
Open Scope N_scope.

(* ===================================================================== *)
(* Part A — recognition                                                  *)
(* ===================================================================== *)

Section Recognition.
  Variable is_letter : N -> bool.
  Variable A : Type.
  Variable code : A -> N.

  Notation nc := (name_char is_letter A code).
  Notation rmatch := (rmatch A).

  (* ---- the declarative definition, from Specification.md "Tag" ---- *)

  Definition all_name (s : list A) : Prop := Forall (fun c => nc c = true) s.
  (* s does not continue a run of name characters *)
  Definition not_name_head (s : list A) : Prop := match s with [] => True | c :: _ => nc c = false end.

  (* `=` followed by a quote, a body free of that quote (and of newlines) and the matching closing quote *)
  Definition quoted_at (after body rest : list A) : Prop :=
    exists e q cl, after = e :: q :: body ++ cl :: rest /\ code e = ch_eq /\ (code q = ch_dq \/ code q = ch_sq) /\
      code cl = code q /\ Forall (fun c => code c <> code q /\ code c <> ch_nl) body.

  (* `=` followed by a non-empty maximal run of name characters *)
  Definition unquoted_at (after run rest : list A) : Prop :=
    exists e, after = e :: run ++ rest /\ code e = ch_eq /\ run <> [] /\ all_name run /\ not_name_head rest.

  (* the value of a tag whose name ends where [after] begins, and the text following the tag;
     an empty or unterminated value is absent (the empty list) *)
  Inductive value_at (after : list A) : list A -> list A -> Prop :=
  | VQuoted body rest : quoted_at after body rest -> value_at after body rest
  | VUnquoted run rest : unquoted_at after run rest -> value_at after run rest
  | VAbsent : (forall b r, ~ quoted_at after b r) -> (forall v r, ~ unquoted_at after v r) -> value_at after [] after.

  (* a tag at the head of the text: `#`, a non-empty maximal run of name characters, optionally a value *)
  Inductive tag_at : list A -> list A -> list A -> list A -> Prop :=
  | TagAt h name after value rest :
      code h = ch_hash -> name <> [] -> all_name name -> not_name_head after ->
      value_at after value rest -> tag_at (h :: name ++ after) name value rest.

  Definition tag_starts (s : list A) : Prop := exists h c r, s = h :: c :: r /\ code h = ch_hash /\ nc c = true.

  (* the tags of a line, left to right, not overlapping: (name as written, value) *)
  Inductive spec_tags : list A -> list (list A * list A) -> Prop :=
  | SNil : spec_tags [] []
  | STag s name value rest ts : tag_at s name value rest -> spec_tags rest ts -> spec_tags s ((name, value) :: ts)
  | SSkip c s ts : ~ tag_starts (c :: s) -> spec_tags s ts -> spec_tags (c :: s) ts.

  Definition no_newline (s : list A) : Prop := Forall (fun c => code c <> ch_nl) s.

  (* ---- span ---- *)

  Lemma span_eq (p : A -> bool) l : l = fst (span p l) ++ snd (span p l).
  Proof. symmetry. apply span_app. Qed.

  Lemma span_fst_all (p : A -> bool) l : Forall (fun c => p c = true) (fst (span p l)).
  Proof.
    induction l as [|x r IH]; simpl; [constructor|].
    destruct (p x) eqn:E; [|constructor]. destruct (span p r). simpl in *. constructor; assumption.
  Qed.

  Lemma span_snd_head (p : A -> bool) l : match snd (span p l) with [] => True | c :: _ => p c = false end.
  Proof.
    induction l as [|x r IH]; simpl; [exact I|].
    destruct (p x) eqn:E; [|exact E]. destruct (span p r). simpl in *. exact IH.
  Qed.

  Lemma span_unique (p : A -> bool) a b :
    Forall (fun c => p c = true) a -> match b with [] => True | c :: _ => p c = false end -> span p (a ++ b) = (a, b).
  Proof.
    intros Ha Hb. induction Ha as [|x a Hx _ IH]; simpl.
    - destruct b as [|c b]; [reflexivity|]. simpl. rewrite Hb. reflexivity.
    - rewrite Hx, IH. reflexivity.
  Qed.

  Lemma name_split_unique a b a' b' :
    all_name a -> not_name_head b -> all_name a' -> not_name_head b' -> a ++ b = a' ++ b' -> a = a' /\ b = b'.
  Proof.
    intros Ha Hb Ha' Hb' E.
    pose proof (span_unique nc a b Ha Hb) as H1. pose proof (span_unique nc a' b' Ha' Hb') as H2.
    rewrite E in H1. rewrite H1 in H2. injection H2 as -> ->. split; reflexivity.
  Qed.

  (* ---- until_quote ---- *)

  Lemma until_quote_some q s body cl rest :
    until_quote A code q s = Some (body, cl, rest) <->
    s = body ++ cl :: rest /\ code cl = q /\ Forall (fun c => code c <> q) body.
  Proof.
    revert body. induction s as [|c r IH]; intros body; simpl.
    - split; [discriminate|]. intros (E & _). destruct body; discriminate.
    - destruct (code c =? q) eqn:Ec.
      + apply N.eqb_eq in Ec. split.
        * intros [= <- <- <-]. repeat split; [exact Ec | constructor].
        * intros (E & Hcl & Hb). destruct body as [|b body].
          -- injection E as <- <-. reflexivity.
          -- injection E as <- _. inversion Hb; subst. congruence.
      + apply N.eqb_neq in Ec. destruct (until_quote A code q r) as [[[b0 cl0] rest0]|] eqn:Eu.
        * split.
          -- intros [= <- <- <-]. destruct (proj1 (IH b0) eq_refl) as (-> & Hcl & Hb).
             repeat split; [exact Hcl | constructor; assumption].
          -- intros (E & Hcl & Hb). destruct body as [|b body].
             ++ injection E as <- _. congruence.
             ++ injection E as <- E. inversion Hb; subst.
                assert (Some (b0, cl0, rest0) = Some (body, cl, rest)) as [= -> -> ->] by (apply IH; auto).
                reflexivity.
        * split; [discriminate|]. intros (E & Hcl & Hb). destruct body as [|b body].
          -- injection E as <- _. congruence.
          -- injection E as <- E. inversion Hb; subst.
             assert (None = Some (body, cl, rest)) by (apply IH; auto). discriminate.
  Qed.

  Lemma until_quote_none q s : until_quote A code q s = None -> Forall (fun c => code c <> q) s.
  Proof.
    induction s as [|c r IH]; simpl; [constructor|].
    destruct (code c =? q) eqn:Ec; [discriminate|]. apply N.eqb_neq in Ec.
    destruct (until_quote A code q r) as [[[? ?] ?]|]; [discriminate|]. intros _. constructor; auto.
  Qed.

  (* ---- quote trimming on symbols ---- *)

  Lemma drop_code_head q s : match s with [] => True | c :: _ => code c <> q end -> drop_code A code q s = s.
  Proof. destruct s as [|c r]; [reflexivity|]. simpl. intros H. apply N.eqb_neq in H. rewrite H. reflexivity. Qed.

  Lemma trim_quoted q op body cl :
    code op = q -> code cl = q -> Forall (fun c => code c <> q) body ->
    trim_code A code q (op :: body ++ [cl]) = body.
  Proof.
    intros Hop Hcl Hb. unfold trim_code. cbn [drop_code]. rewrite (proj2 (N.eqb_eq _ _) Hop).
    destruct body as [|b body].
    - simpl. rewrite (proj2 (N.eqb_eq _ _) Hcl). reflexivity.
    - cbn [app]. rewrite (drop_code_head q (b :: body ++ [cl])) by (simpl; inversion Hb; assumption).
      change (b :: body ++ [cl]) with ((b :: body) ++ [cl]).
      rewrite rev_app_distr. cbn [rev app drop_code]. rewrite (proj2 (N.eqb_eq _ _) Hcl).
      rewrite (drop_code_head q (rev body ++ [b])).
      + change (rev body ++ [b]) with (rev (b :: body)). apply rev_involutive.
      + destruct (rev body ++ [b]) as [|x l] eqn:E; [exact I|].
        assert (Hin : In x (b :: body)).
        { apply in_rev. cbn [rev]. rewrite E. left. reflexivity. }
        rewrite Forall_forall in Hb. apply Hb. exact Hin.
  Qed.

  (* ---- fuel ---- *)

  Lemma match_value_length after g2 g3 rest :
    match_value is_letter A code after = (g2, g3, rest) -> (length rest <= length after)%nat.
  Proof.
    unfold match_value. destruct after as [|e r]; [intros [= <- <- <-]; simpl; lia|].
    destruct (code e =? ch_eq); [|intros [= <- <- <-]; simpl; lia].
    assert (Hun : forall g2 g3 rest, (let '(run, rest) := span nc r in (e :: run, run, rest)) = (g2, g3, rest) ->
                                     (length rest <= length (e :: r))%nat).
    { intros g2' g3' rest'. pose proof (span_eq nc r) as Hs. destruct (span nc r) as [run rs]. simpl in Hs.
      intros [= <- <- <-]. simpl. rewrite (f_equal (@length A) Hs), app_length. lia. }
    destruct r as [|q r']; [apply Hun|].
    destruct ((code q =? ch_dq) || (code q =? ch_sq)); [|apply Hun].
    destruct (until_quote A code (code q) r') as [[[body cl] rest0]|] eqn:Eu; [|apply Hun].
    intros [= <- <- <-]. apply until_quote_some in Eu as (-> & _). simpl. rewrite app_length. simpl. lia.
  Qed.

  Lemma match_at_length s m rest : match_at is_letter A code s = Some (m, rest) -> (length rest < length s)%nat.
  Proof.
    unfold match_at. destruct s as [|h r]; [discriminate|].
    destruct (code h =? ch_hash); [|discriminate].
    pose proof (span_eq nc r) as Hs. destruct (span nc r) as [name after]. simpl in Hs.
    destruct name as [|n0 name]; [discriminate|].
    destruct (match_value is_letter A code after) as [[g2 g3] rest0] eqn:Ev.
    intros [= <- <-]. apply match_value_length in Ev. rewrite Hs. simpl. rewrite app_length. lia.
  Qed.

  Lemma find_all_fuel_enough n : forall m s, (length s <= n)%nat -> (length s <= m)%nat ->
    find_all_fuel is_letter A code n s = find_all_fuel is_letter A code m s.
  Proof.
    induction n as [|n IH]; intros m s Hn Hm.
    - destruct s; [|simpl in Hn; lia]. destruct m; reflexivity.
    - destruct s as [|c r]; [destruct m; reflexivity|].
      destruct m as [|m]; [simpl in Hm; lia|].
      cbn [find_all_fuel]. destruct (match_at is_letter A code (c :: r)) as [[mm rest]|] eqn:E.
      + apply match_at_length in E. f_equal. apply IH; simpl in *; lia.
      + apply IH; simpl in *; lia.
  Qed.

  Lemma find_all_nil : find_all is_letter A code [] = [].
  Proof. reflexivity. Qed.

  Lemma find_all_cons c r :
    find_all is_letter A code (c :: r) =
    match match_at is_letter A code (c :: r) with
    | Some (m, rest) => m :: find_all is_letter A code rest
    | None => find_all is_letter A code r
    end.
  Proof.
    unfold find_all. cbn [length find_all_fuel].
    destruct (match_at is_letter A code (c :: r)) as [[m rest]|] eqn:E.
    - apply match_at_length in E. f_equal. apply find_all_fuel_enough; simpl in *; lia.
    - reflexivity.
  Qed.

  Lemma match_at_not_hash c r : code c <> ch_hash -> match_at is_letter A code (c :: r) = None.
  Proof. intros H. unfold match_at. apply N.eqb_neq in H. rewrite H. reflexivity. Qed.

  (* a symbol that is not `#` is skipped *)
  Lemma find_all_skip c r : code c <> ch_hash -> find_all is_letter A code (c :: r) = find_all is_letter A code r.
  Proof. intros H. rewrite find_all_cons, match_at_not_hash by exact H. reflexivity. Qed.

  (* ---- the specification is functional ---- *)

  Hypothesis dq_not_letter : is_letter ch_dq = false.
  Hypothesis sq_not_letter : is_letter ch_sq = false.

  Lemma quote_not_name c : code c = ch_dq \/ code c = ch_sq -> nc c = false.
  Proof.
    unfold name_char, name_code. intros [-> | ->].
    - rewrite dq_not_letter. reflexivity.
    - rewrite sq_not_letter. reflexivity.
  Qed.

  Lemma split_first_unique q b cl r b' cl' r' :
    code cl = q -> Forall (fun c => code c <> q) b -> code cl' = q -> Forall (fun c => code c <> q) b' ->
    b ++ cl :: r = b' ++ cl' :: r' -> b = b' /\ r = r'.
  Proof.
    intros Hc Hb Hc' Hb' E.
    assert (H1 : until_quote A code q (b ++ cl :: r) = Some (b, cl, r)) by (apply until_quote_some; auto).
    assert (H2 : until_quote A code q (b' ++ cl' :: r') = Some (b', cl', r')) by (apply until_quote_some; auto).
    rewrite E in H1. rewrite H1 in H2. injection H2 as -> _ ->. split; reflexivity.
  Qed.

  Lemma quoted_unquoted_excl after b r v r' : quoted_at after b r -> unquoted_at after v r' -> False.
  Proof.
    intros (e & q & cl & -> & _ & Hq & _) (e' & E & _ & Hne & Hall & _).
    destruct v as [|x v]; [congruence|]. injection E as _ <- _.
    inversion Hall; subst. rewrite quote_not_name in H1 by exact Hq. discriminate.
  Qed.

  Lemma value_at_fun after v1 r1 v2 r2 : value_at after v1 r1 -> value_at after v2 r2 -> v1 = v2 /\ r1 = r2.
  Proof.
    intros H1 H2. destruct H1 as [b r Hq | v r Hu | Hnq Hnu]; destruct H2 as [b' r' Hq' | v' r' Hu' | Hnq' Hnu'].
    - destruct Hq as (e & q & cl & -> & _ & _ & Hcl & Hb). destruct Hq' as (e' & q' & cl' & E & _ & _ & Hcl' & Hb').
      injection E as <- <- E.
      apply (split_first_unique (code q)) in E; auto.
      + eapply Forall_impl; [|exact Hb]. simpl. tauto.
      + eapply Forall_impl; [|exact Hb']. simpl. tauto.
    - exfalso. eapply quoted_unquoted_excl; eassumption.
    - exfalso. eapply Hnq'; eassumption.
    - exfalso. eapply quoted_unquoted_excl; eassumption.
    - destruct Hu as (e & -> & _ & _ & Ha & Hh). destruct Hu' as (e' & E & _ & _ & Ha' & Hh').
      injection E as <- E. apply name_split_unique in E; auto.
    - exfalso. eapply Hnu'; eassumption.
    - exfalso. eapply Hnq; eassumption.
    - exfalso. eapply Hnu; eassumption.
    - split; reflexivity.
  Qed.

  Lemma tag_at_fun s n1 v1 r1 n2 v2 r2 : tag_at s n1 v1 r1 -> tag_at s n2 v2 r2 -> n1 = n2 /\ v1 = v2 /\ r1 = r2.
  Proof.
    intros H1 H2. destruct H1 as [h name after value rest Hh Hne Ha Hnh Hv].
    inversion H2 as [h' name' after' value' rest' Hh' Hne' Ha' Hnh' Hv' E]; subst.
    apply name_split_unique in H as [-> ->]; auto.
    destruct (value_at_fun _ _ _ _ _ Hv Hv') as [-> ->]. repeat split.
  Qed.

  Lemma tag_at_starts s n v r : tag_at s n v r -> tag_starts s.
  Proof.
    intros [h name after value rest Hh Hne Ha _ _]. destruct name as [|c name]; [congruence|].
    inversion Ha; subst. exists h, c, (name ++ after). repeat split; assumption.
  Qed.

  Lemma spec_tags_fun s : forall t1 t2, spec_tags s t1 -> spec_tags s t2 -> t1 = t2.
  Proof.
    intros t1 t2 H1. revert t2. induction H1 as [| s name value rest ts Ht _ IH | c s ts Hns _ IH]; intros t2 H2.
    - inversion H2; subst; [reflexivity|]. inversion H.
    - inversion H2; subst.
      + inversion Ht.
      + destruct (tag_at_fun _ _ _ _ _ _ _ Ht H) as (-> & -> & ->). f_equal. apply IH. assumption.
      + exfalso. apply H. eapply tag_at_starts; eassumption.
    - inversion H2; subst.
      + exfalso. apply Hns. eapply tag_at_starts; eassumption.
      + apply IH. assumption.
  Qed.

  (* ---- the matcher satisfies the specification ---- *)

  Lemma no_newline_app a b : no_newline (a ++ b) -> no_newline a /\ no_newline b.
  Proof. unfold no_newline. rewrite Forall_app. tauto. Qed.

  (* what the optional group finds is the specification's value; the search resumes at the same place,
     or one `=` later *)
  Lemma match_value_spec after g2 g3 rest' : no_newline after ->
    match_value is_letter A code after = (g2, g3, rest') ->
    exists rest, value_at after (value_syms A code g3) rest /\
                 (rest = rest' \/ exists e, code e = ch_eq /\ rest = e :: rest').
  Proof.
    intros Hnl. unfold match_value. destruct after as [|e r].
    { intros [= <- <- <-]. exists []. split; [|left; reflexivity]. apply VAbsent.
      - intros b r (e & q & cl & E & _). discriminate.
      - intros v r (e & E & _). discriminate. }
    destruct (code e =? ch_eq) eqn:Ee.
    2:{ intros [= <- <- <-]. exists (e :: r). split; [|left; reflexivity]. apply N.eqb_neq in Ee. apply VAbsent.
        - intros b r0 (e0 & q & cl & E & He & _). injection E as <- _. congruence.
        - intros v r0 (e0 & E & He & _). injection E as <- _. congruence. }
    apply N.eqb_eq in Ee.
    (* the unquoted alternative, given that no quoted value starts here *)
    assert (Hun : (forall b r0, ~ quoted_at (e :: r) b r0) ->
                  (let '(run, rest) := span nc r in (e :: run, run, rest)) = (g2, g3, rest') ->
                  exists rest, value_at (e :: r) (value_syms A code g3) rest /\
                               (rest = rest' \/ exists e0, code e0 = ch_eq /\ rest = e0 :: rest')).
    { intros Hnq. pose proof (span_eq nc r) as Hs. pose proof (span_fst_all nc r) as Hall.
      pose proof (span_snd_head nc r) as Hhead. destruct (span nc r) as [run rs]. simpl in Hs, Hall, Hhead.
      intros [= <- <- <-]. destruct run as [|x run].
      - simpl in Hs. subst r. exists (e :: rs). split; [|right; exists e; split; [exact Ee | reflexivity]].
        apply VAbsent; [exact Hnq|].
        intros v r0 (e0 & E & _ & Hne & Ha & Hh). injection E as _ E.
        destruct v as [|y v]; [congruence|]. inversion Ha; subst.
        simpl in Hhead. congruence.
      - exists rs. split; [|left; reflexivity].
        assert (Hv : value_syms A code (x :: run) = x :: run).
        { unfold value_syms. inversion Hall; subst.
          destruct (code x =? ch_dq) eqn:E1; [apply N.eqb_eq in E1; rewrite quote_not_name in H1 by auto; discriminate|].
          destruct (code x =? ch_sq) eqn:E2; [apply N.eqb_eq in E2; rewrite quote_not_name in H1 by auto; discriminate|].
          reflexivity. }
        rewrite Hv. apply VUnquoted. exists e. repeat split; auto; [congruence | discriminate]. }
    destruct r as [|q r'].
    { apply Hun. intros b r0 (e0 & q & cl & E & _). destruct b; discriminate. }
    destruct ((code q =? ch_dq) || (code q =? ch_sq)) eqn:Eq.
    2:{ apply Hun. intros b r0 (e0 & q0 & cl & E & _ & Hq0 & _). injection E as _ <- _.
        apply orb_false_iff in Eq as [E1 E2]. apply N.eqb_neq in E1, E2. tauto. }
    assert (Hq : code q = ch_dq \/ code q = ch_sq).
    { apply orb_true_iff in Eq as [E1 | E1]; apply N.eqb_eq in E1; auto. }
    destruct (until_quote A code (code q) r') as [[[body cl] rest0]|] eqn:Eu.
    - intros [= <- <- <-]. apply until_quote_some in Eu as (-> & Hcl & Hb).
      exists rest0. split; [|left; reflexivity].
      assert (Hv : value_syms A code (q :: body ++ [cl]) = body).
      { unfold value_syms. destruct Hq as [Hq | Hq].
        - rewrite Hq in *. rewrite N.eqb_refl. apply trim_quoted; assumption.
        - rewrite Hq in *. change (ch_sq =? ch_dq) with false. rewrite N.eqb_refl. apply trim_quoted; assumption. }
      rewrite Hv. apply VQuoted. exists e, q, cl. repeat split; auto.
      unfold no_newline in Hnl. inversion Hnl as [|? ? _ Hnl']; subst. inversion Hnl' as [|? ? _ Hnl'']; subst.
      apply Forall_app in Hnl'' as [Hnb _].
      rewrite Forall_forall in *. intros c Hc. split; [apply Hb | apply Hnb]; exact Hc.
    - apply Hun. intros b r0 (e0 & q0 & cl & E & _ & _ & Hcl & Hb). injection E as _ <- E.
      apply until_quote_none in Eu. rewrite E in Eu. apply Forall_app in Eu as [_ Eu].
      inversion Eu; subst. congruence.
  Qed.

  Lemma match_at_none s : match_at is_letter A code s = None -> ~ tag_starts s.
  Proof.
    intros H (h & c & r & -> & Hh & Hc). unfold match_at in H.
    rewrite (proj2 (N.eqb_eq _ _) Hh) in H. cbn [span] in H. rewrite Hc in H.
    destruct (span nc r) as [run rs]. destruct (match_value is_letter A code rs) as [[? ?] ?]. discriminate.
  Qed.

  Lemma match_at_spec s m rest' : no_newline s -> match_at is_letter A code s = Some (m, rest') ->
    exists rest, tag_at s (m_name m) (value_syms A code (m_val m)) rest /\
                 (rest = rest' \/ exists e, code e = ch_eq /\ rest = e :: rest').
  Proof.
    intros Hnl. unfold match_at. destruct s as [|h r]; [discriminate|].
    destruct (code h =? ch_hash) eqn:Eh; [|discriminate]. apply N.eqb_eq in Eh.
    pose proof (span_eq nc r) as Hs. pose proof (span_fst_all nc r) as Hall. pose proof (span_snd_head nc r) as Hhead.
    destruct (span nc r) as [name after]. simpl in Hs, Hall, Hhead.
    destruct name as [|n0 name]; [discriminate|].
    destruct (match_value is_letter A code after) as [[g2 g3] rest0] eqn:Ev.
    intros [= <- <-]. cbn [m_name m_val].
    assert (Hnl' : no_newline after).
    { inversion Hnl; subst. apply no_newline_app in H2. tauto. }
    destruct (match_value_spec _ _ _ _ Hnl' Ev) as (rest & Hv & Hr).
    exists rest. split; [|exact Hr]. rewrite Hs. constructor; auto. discriminate.
  Qed.

  Lemma tag_at_suffix s n v rest : tag_at s n v rest -> exists pre, s = pre ++ rest.
  Proof.
    intros [h name after value rest0 _ _ _ _ Hv]. destruct Hv as [b r (e & q & cl & -> & _) | v0 r (e & -> & _) |].
    - exists (h :: name ++ e :: q :: b ++ [cl]). simpl. repeat (rewrite <- app_assoc; simpl). reflexivity.
    - exists (h :: name ++ e :: v0). simpl. repeat (rewrite <- app_assoc; simpl). reflexivity.
    - exists (h :: name). reflexivity.
  Qed.

  Lemma find_all_sound_aux n : forall s, (length s <= n)%nat -> no_newline s ->
    spec_tags s (map (match_view A code) (find_all is_letter A code s)).
  Proof.
    induction n as [|n IH]; intros s Hn Hnl.
    - destruct s; [constructor | simpl in Hn; lia].
    - destruct s as [|c r]; [constructor|].
      rewrite find_all_cons. destruct (match_at is_letter A code (c :: r)) as [[m rest']|] eqn:E.
      + pose proof (match_at_length _ _ _ E) as Hlen.
        destruct (match_at_spec _ _ _ Hnl E) as (rest & Ht & Hr).
        cbn [map]. unfold match_view at 1. apply (STag _ _ _ rest); [exact Ht|].
        destruct (tag_at_suffix _ _ _ _ Ht) as (pre & Epre).
        assert (Hnlr : no_newline rest) by (rewrite Epre in Hnl; apply no_newline_app in Hnl; tauto).
        destruct Hr as [-> | (e & He & ->)].
        * apply IH; [simpl in *; lia | exact Hnlr].
        * apply SSkip.
          -- intros (h & c0 & r0 & E0 & Hh & _). injection E0 as <- _. rewrite He in Hh. discriminate.
          -- apply IH; [simpl in *; lia | inversion Hnlr; assumption].
      + apply SSkip; [apply match_at_none; exact E|].
        apply IH; [simpl in *; lia | inversion Hnl; assumption].
  Qed.

  (* THEOREM 1: on a single line the matcher finds exactly the specification's tags *)
  Theorem find_tags_spec s : no_newline s ->
    forall ts, spec_tags s ts <-> map (match_view A code) (find_all is_letter A code s) = ts.
  Proof.
    intros Hnl ts. pose proof (find_all_sound_aux (length s) s (le_n _) Hnl) as H. split.
    - intros Hs. eapply spec_tags_fun; eassumption.
    - intros <-. exact H.
  Qed.
End Recognition.

(* ===================================================================== *)
(* Part B — tags, tag sets, Contains, Merge                              *)
(* ===================================================================== *)

Lemma tag_eqb_eq a b : tag_eqb a b = true <-> a = b.
Proof.
  unfold tag_eqb. rewrite andb_true_iff, !bytes_eqb_eq. destruct a, b; simpl. split.
  - intros [-> ->]. reflexivity.
  - intros [= -> ->]. split; reflexivity.
Qed.

Lemma tag_eqb_refl a : tag_eqb a a = true.
Proof. apply tag_eqb_eq. reflexivity. Qed.

Lemma tag_eqb_neq a b : tag_eqb a b = false <-> a <> b.
Proof. rewrite <- tag_eqb_eq. destruct (tag_eqb a b); split; congruence. Qed.

Lemma tag_eqb_sym a b : tag_eqb a b = tag_eqb b a.
Proof.
  destruct (tag_eqb a b) eqn:E1, (tag_eqb b a) eqn:E2; try reflexivity.
  - apply tag_eqb_eq in E1. subst. rewrite tag_eqb_refl in E2. discriminate.
  - apply tag_eqb_eq in E2. subst. rewrite tag_eqb_refl in E1. discriminate.
Qed.

Lemma existsb_tag_In t l : existsb (tag_eqb t) l = true <-> In t l.
Proof.
  rewrite existsb_exists. split.
  - intros (x & Hin & E). apply tag_eqb_eq in E. subst. exact Hin.
  - intros Hin. exists t. split; [exact Hin | apply tag_eqb_refl].
Qed.

Lemma Forall2_in_l {X Y} (R : X -> Y -> Prop) l l' x : Forall2 R l l' -> In x l -> exists y, In y l' /\ R x y.
Proof.
  induction 1 as [|a b l l' Hab _ IH]; intros Hin; [destruct Hin|].
  destruct Hin as [<- | Hin]; [exists b; split; [left; reflexivity | exact Hab]|].
  destruct (IH Hin) as (y & Hy & Hr). exists y. split; [right; exact Hy | exact Hr].
Qed.

Lemma Forall2_in_r {X Y} (R : X -> Y -> Prop) l l' y : Forall2 R l l' -> In y l' -> exists x, In x l /\ R x y.
Proof.
  induction 1 as [|a b l l' Hab _ IH]; intros Hin; [destruct Hin|].
  destruct Hin as [<- | Hin]; [exists a; split; [left; reflexivity | exact Hab]|].
  destruct (IH Hin) as (x & Hx & Hr). exists x. split; [right; exact Hx | exact Hr].
Qed.

Lemma NoDup_snoc {X} (l : list X) t : NoDup l -> ~ In t l -> NoDup (l ++ [t]).
Proof.
  induction 1 as [|a l Ha _ IH]; simpl; intros Hn.
  - repeat constructor. intros [].
  - constructor.
    + rewrite in_app_iff. simpl. intros [H2 | [H2 | []]]; [auto | subst; apply Hn; left; reflexivity].
    + apply IH. intros Hin. apply Hn. right. exact Hin.
Qed.

Definition is_nil (s : bytes) : bool := match s with [] => true | _ => false end.

(* the data tag t is selected by the key (query) k: same name; k without value, or the same value *)
Definition tag_matches (t k : tag) : bool :=
  bytes_eqb (t_name t) (t_name k) && (is_nil (t_value k) || bytes_eqb (t_value t) (t_value k)).
Definition carries (found : list tag) (k : tag) : bool := existsb (fun t => tag_matches t k) found.

Section TagSets.
  Variable to_lower : N -> N.
  Hypothesis lower_idem : forall r, to_lower (to_lower r) = to_lower r.
  Hypothesis lower_scalar : forall r, is_scalar r = true -> is_scalar (to_lower r) = true.

  Notation stl := (str_to_lower to_lower).
  Notation mk_tag := (mk_tag to_lower).
  Notation bare := (bare to_lower).
  Notation ts_put := (ts_put to_lower).
  Notation set_add := Model.Tags.set_add.

  Lemma lowered_scalar s : Forall (fun r => is_scalar r = true) (map to_lower (utf8_decode s)).
  Proof.
    pose proof (utf8_decode_scalar s) as H. induction H; simpl; constructor; auto.
  Qed.

  (* strings.ToLower is idempotent on every byte string *)
  Lemma str_to_lower_idem s : stl (stl s) = stl s.
  Proof.
    unfold str_to_lower. rewrite utf8_decode_encode by apply lowered_scalar.
    rewrite map_map. f_equal. apply map_ext. intros r. apply lower_idem.
  Qed.

  (* names are compared after lower-casing, rune by rune; values literally *)
  Lemma str_to_lower_eq_runes a b :
    stl a = stl b <-> map to_lower (utf8_decode a) = map to_lower (utf8_decode b).
  Proof.
    unfold str_to_lower. split.
    - intros H. apply (f_equal utf8_decode) in H.
      rewrite !utf8_decode_encode in H by apply lowered_scalar. exact H.
    - intros ->. reflexivity.
  Qed.

  Theorem tag_eq_spec n1 v1 n2 v2 :
    mk_tag n1 v1 = mk_tag n2 v2 <->
    map to_lower (utf8_decode n1) = map to_lower (utf8_decode n2) /\ v1 = v2.
  Proof.
    rewrite <- str_to_lower_eq_runes. unfold Model.Tags.mk_tag. split.
    - intros [= H1 H2]. split; assumption.
    - intros [-> ->]. reflexivity.
  Qed.

  Definition tag_norm (t : tag) : Prop := stl (t_name t) = t_name t.

  Lemma mk_tag_norm n v : tag_norm (mk_tag n v).
  Proof. unfold tag_norm, Model.Tags.mk_tag. simpl. apply str_to_lower_idem. Qed.

  Lemma bare_norm t : tag_norm (bare t).
  Proof. apply mk_tag_norm. Qed.

  Lemma bare_of_norm t : tag_norm t -> bare t = {| t_name := t_name t; t_value := [] |}.
  Proof. unfold tag_norm, Model.Tags.bare, Model.Tags.mk_tag. intros ->. reflexivity. Qed.

  Lemma bare_bare t : bare (bare t) = bare t.
  Proof. unfold Model.Tags.bare, Model.Tags.mk_tag. simpl. rewrite str_to_lower_idem. reflexivity. Qed.

  (* a key equals the tag or its bare name  <->  it selects the tag *)
  Lemma matches_iff t k : tag_norm t -> (k = t \/ k = bare t) <-> tag_matches t k = true.
  Proof.
    intros Hn. unfold tag_matches. rewrite andb_true_iff, orb_true_iff, !bytes_eqb_eq.
    rewrite (bare_of_norm t Hn). destruct t as [tn tv], k as [kn kv]. simpl. split.
    - intros [[= -> ->] | [= -> ->]]; split; auto.
    - intros [-> [Hnil | ->]]; [right | left; reflexivity].
      destruct kv; [reflexivity | discriminate].
  Qed.

  (* ---- the lookup set ---- *)

  Lemma set_add_In x t l : In x (set_add t l) <-> x = t \/ In x l.
  Proof.
    unfold Model.Tags.set_add. destruct (existsb (tag_eqb t) l) eqn:E.
    - apply existsb_tag_In in E. split; [auto|]. intros [-> | H]; assumption.
    - rewrite in_app_iff. simpl. split; [intros [H | [<- | []]]; auto | intros [-> | H]; auto].
  Qed.

  Lemma set_add_NoDup t l : NoDup l -> NoDup (set_add t l).
  Proof.
    intros H. unfold Model.Tags.set_add. destruct (existsb (tag_eqb t) l) eqn:E; [exact H|].
    assert (Hn : ~ In t l) by (intros Hin; apply existsb_tag_In in Hin; congruence).
    apply NoDup_snoc; assumption.
  Qed.

  Lemma put_lookup_In x ts t : In x (ts_lookup (ts_put ts t)) <-> In x (ts_lookup ts) \/ x = t \/ x = bare t.
  Proof. unfold Model.Tags.ts_put. simpl. rewrite !set_add_In. tauto. Qed.

  Lemma put_lookup_NoDup ts t : NoDup (ts_lookup ts) -> NoDup (ts_lookup (ts_put ts t)).
  Proof. intros H. unfold Model.Tags.ts_put. simpl. apply set_add_NoDup, set_add_NoDup, H. Qed.

  Lemma put_all_lookup_In l : forall ts x,
    In x (ts_lookup (fold_left ts_put l ts)) <-> In x (ts_lookup ts) \/ exists t, In t l /\ (x = t \/ x = bare t).
  Proof.
    induction l as [|t l IH]; intros ts x; simpl.
    - split; [auto | intros [H | (t & [] & _)]; exact H].
    - rewrite IH, put_lookup_In. split.
      + intros [[H | H] | (t' & Hin & H)]; [left; exact H | right; exists t; auto | right; exists t'; auto].
      + intros [H | (t' & [<- | Hin] & H)]; [left; left; exact H | left; right; exact H | right; exists t'; auto].
  Qed.

  Lemma put_all_lookup_NoDup l : forall ts, NoDup (ts_lookup ts) -> NoDup (ts_lookup (fold_left ts_put l ts)).
  Proof. induction l as [|t l IH]; intros ts H; simpl; [exact H|]. apply IH, put_lookup_NoDup, H. Qed.

  Lemma put_all_original l : forall ts, ts_original (fold_left ts_put l ts) = ts_original ts ++ l.
  Proof.
    induction l as [|t l IH]; intros ts; simpl; [symmetry; apply app_nil_r|].
    rewrite IH. simpl. rewrite <- app_assoc. reflexivity.
  Qed.

  Lemma contains_In ts q : ts_contains ts q = true <-> In q (ts_lookup ts).
  Proof. apply existsb_tag_In. Qed.

  Lemma carries_iff found k : Forall tag_norm found ->
    carries found k = true <-> exists t, In t found /\ (k = t \/ k = bare t).
  Proof.
    intros Hn. unfold carries. rewrite existsb_exists. rewrite Forall_forall in Hn.
    split; intros (t & Hin & H); exists t; (split; [exact Hin|]); apply (matches_iff t k (Hn t Hin)); exact H.
  Qed.

  (* THEOREM 2b, general form: a set built by Put contains exactly the keys that select one of the tags put *)
  Lemma contains_put_all l k : Forall tag_norm l ->
    ts_contains (fold_left ts_put l (ts_empty)) k = carries l k.
  Proof.
    intros Hn. apply eq_true_iff_eq. rewrite contains_In, put_all_lookup_In, carries_iff by exact Hn.
    simpl. tauto.
  Qed.

  Lemma is_subset_spec qs ts : is_subset_of qs ts = true <-> forall q, In q qs -> ts_contains ts q = true.
  Proof. unfold is_subset_of. apply forallb_forall. Qed.

  (* ---- Merge ---- *)

  Lemma merge_lists_In ls : forall x,
    In x (ts_lookup (merge_lists to_lower ls)) <-> exists l t, In l ls /\ In t l /\ (x = t \/ x = bare t).
  Proof.
    unfold merge_lists.
    assert (H : forall ls ts x, In x (ts_lookup (fold_left (fun acc l => fold_left ts_put l acc) ls ts)) <->
                                In x (ts_lookup ts) \/ exists l t, In l ls /\ In t l /\ (x = t \/ x = bare t)).
    { clear ls. induction ls as [|l ls IH]; intros ts x; simpl.
      - split; [auto | intros [H | (l & t & [] & _)]; exact H].
      - rewrite IH, put_all_lookup_In. split.
        + intros [[H | (t & Hin & H)] | (l' & t & Hl & Hin & H)].
          * left; exact H.
          * right. exists l, t. auto.
          * right. exists l', t. auto.
        + intros [H | (l' & t & [<- | Hl] & Hin & H)].
          * left; left; exact H.
          * left; right. exists t. auto.
          * right. exists l', t. auto. }
    intros x. rewrite H. simpl. tauto.
  Qed.

  Lemma merge_lists_NoDup ls : NoDup (ts_lookup (merge_lists to_lower ls)).
  Proof.
    unfold merge_lists.
    assert (H : forall ls ts, NoDup (ts_lookup ts) -> NoDup (ts_lookup (fold_left (fun acc l => fold_left ts_put l acc) ls ts))).
    { clear ls. induction ls as [|l ls IH]; intros ts Hts; simpl; [exact Hts|]. apply IH, put_all_lookup_NoDup, Hts. }
    apply H. constructor.
  Qed.

  (* the order in which Merge walks the Go maps is immaterial for the resulting set *)
  Lemma merge_lists_perm ls ls' : Forall2 (@Permutation tag) ls ls' ->
    (forall q, ts_contains (merge_lists to_lower ls) q = ts_contains (merge_lists to_lower ls') q) /\
    Permutation (ts_lookup (merge_lists to_lower ls)) (ts_lookup (merge_lists to_lower ls')).
  Proof.
    intros HP.
    assert (Hmem : forall x, In x (ts_lookup (merge_lists to_lower ls)) <-> In x (ts_lookup (merge_lists to_lower ls'))).
    { intros x. rewrite !merge_lists_In. split.
      - intros (l & t & Hl & Ht & H).
        destruct (Forall2_in_l _ _ _ _ HP Hl) as (l' & Hl' & Hp).
        exists l', t. repeat split; auto. eapply Permutation_in; eassumption.
      - intros (l' & t & Hl' & Ht & H).
        destruct (Forall2_in_r _ _ _ _ HP Hl') as (l & Hl & Hp).
        exists l, t. repeat split; auto. eapply Permutation_in; [apply Permutation_sym|]; eassumption. }
    split.
    - intros q. apply eq_true_iff_eq. rewrite !contains_In. apply Hmem.
    - apply NoDup_Permutation; [apply merge_lists_NoDup | apply merge_lists_NoDup | exact Hmem].
  Qed.
End TagSets.

(* ===================================================================== *)
(* Part D — Summary.Tags() on bytes is the matcher's view                *)
(* ===================================================================== *)

(* the shape of a symbol cut out of a decoded string *)
Definition sym_ok (x : sym) : Prop :=
  (fst x < 128 /\ snd x = [fst x]) \/ (128 <= fst x /\ snd x <> [] /\ Forall (fun b => 128 <= b) (snd x)).

Lemma wf_syms_ok l : wf_syms l -> Forall sym_ok l.
Proof.
  intros Hwf. apply Forall_forall. intros x Hin.
  destruct (wf_syms_In x l Hwf Hin) as [H | [H1 H2]]; [left; exact H|].
  right. repeat split; auto.
  apply in_split in Hin as (l1 & l2 & ->). apply wf_syms_suffix in Hwf.
  apply (wf_syms_cons_inv x l2 Hwf).
Qed.

Lemma sym_ok_ascii x c : sym_ok x -> fst x = c -> c < 128 -> snd x = [c].
Proof. intros [[_ H] | [H _]] <- Hc; [exact H | lia]. Qed.

Lemma raw_cons x l : raw (x :: l) = snd x ++ raw l.
Proof. reflexivity. Qed.

(* an ASCII byte occurs in the bytes only where a symbol has that code *)
Lemma raw_no_byte l c : Forall sym_ok l -> c < 128 -> Forall (fun x => fst x <> c) l -> Forall (fun b => b <> c) (raw l).
Proof.
  intros Hok Hc Hne. induction Hok as [|x l Hx _ IH]; [constructor|].
  inversion Hne; subst. rewrite raw_cons. apply Forall_app. split; [|apply IH; assumption].
  destruct Hx as [[_ ->] | (_ & _ & Hb)]; [repeat constructor; assumption|].
  eapply Forall_impl; [|exact Hb]. simpl. intros b Hb'. lia.
Qed.

Lemma has_byte_false c s : Forall (fun b => b <> c) s -> has_byte c s = false.
Proof.
  unfold has_byte. induction 1 as [|b s Hb _ IH]; [reflexivity|]. simpl. rewrite IH.
  apply N.eqb_neq in Hb. rewrite N.eqb_sym in Hb. rewrite Hb. reflexivity.
Qed.

Section Bridge.
  Variable is_letter : N -> bool.
  Variable to_lower : N -> N.
  Hypothesis dq_not_letter : is_letter ch_dq = false.
  Hypothesis sq_not_letter : is_letter ch_sq = false.

  Notation nc := (name_char is_letter sym fst).
  Notation s_match_at := (match_at is_letter sym fst).
  Notation s_find_all := (find_all is_letter sym fst).
  Notation s_find_first := (find_first is_letter sym fst).
  Notation all_name := (all_name is_letter sym fst).
  Notation not_name_head := (not_name_head is_letter sym fst).

  (* what group 2 and group 3 of a match look like *)
  Definition val_shape (g2 g3 : list sym) : Prop :=
    (g2 = [] /\ g3 = []) \/
    (exists e q body cl, g2 = e :: g3 /\ g3 = q :: body ++ [cl] /\ fst e = ch_eq /\ (fst q = ch_dq \/ fst q = ch_sq) /\
       fst cl = fst q /\ Forall (fun c => fst c <> fst q) body) \/
    (exists e, g2 = e :: g3 /\ fst e = ch_eq /\ all_name g3).

  Lemma match_value_shape after g2 g3 rest : not_name_head after ->
    match_value is_letter sym fst after = (g2, g3, rest) -> after = g2 ++ rest /\ val_shape g2 g3.
  Proof.
    intros Hh. unfold match_value. destruct after as [|e r].
    { intros [= <- <- <-]. split; [reflexivity | left; auto]. }
    destruct (fst e =? ch_eq) eqn:Ee; [|intros [= <- <- <-]; split; [reflexivity | left; auto]].
    apply N.eqb_eq in Ee.
    assert (Hun : (let '(run, rest) := span nc r in (e :: run, run, rest)) = (g2, g3, rest) ->
                  e :: r = g2 ++ rest /\ val_shape g2 g3).
    { pose proof (span_eq sym nc r) as Hs. pose proof (span_fst_all sym nc r) as Hall.
      destruct (span nc r) as [run rs]. simpl in Hs, Hall. intros [= <- <- <-]. split; [simpl; congruence|].
      right; right. exists e. repeat split; auto. }
    destruct r as [|q r']; [exact Hun|].
    destruct ((fst q =? ch_dq) || (fst q =? ch_sq)) eqn:Eq; [|exact Hun].
    destruct (until_quote sym fst (fst q) r') as [[[body cl] rest0]|] eqn:Eu; [|exact Hun].
    intros [= <- <- <-]. apply until_quote_some in Eu as (-> & Hcl & Hb). split.
    - simpl. rewrite <- app_assoc. reflexivity.
    - right; left. exists e, q, body, cl. repeat split; auto.
      apply orb_true_iff in Eq as [E1 | E1]; apply N.eqb_eq in E1; auto.
  Qed.

  Definition match_shape (m : rmatch sym) : Prop :=
    exists h g2, m_all m = h :: m_name m ++ g2 /\ fst h = ch_hash /\ m_name m <> [] /\ all_name (m_name m) /\
                 val_shape g2 (m_val m) /\ not_name_head g2.

  Lemma match_at_shape s m rest : s_match_at s = Some (m, rest) -> s = m_all m ++ rest /\ match_shape m.
  Proof.
    unfold match_at. destruct s as [|h r]; [discriminate|].
    destruct (fst h =? ch_hash) eqn:Eh; [|discriminate]. apply N.eqb_eq in Eh.
    pose proof (span_eq sym nc r) as Hs. pose proof (span_fst_all sym nc r) as Hall.
    pose proof (span_snd_head sym nc r) as Hhead.
    destruct (span nc r) as [name after]. simpl in Hs, Hall, Hhead.
    destruct name as [|n0 name]; [discriminate|].
    destruct (match_value is_letter sym fst after) as [[g2 g3] rest0] eqn:Ev.
    intros [= <- <-]. cbn [m_all m_name m_val].
    destruct (match_value_shape _ _ _ _ Hhead Ev) as (-> & Hsh). split.
    - rewrite Hs. simpl. rewrite <- !app_assoc. reflexivity.
    - exists h, g2. repeat split; auto; [discriminate|]. destruct g2; [exact I | exact Hhead].
  Qed.

  Lemma find_all_In n : forall s m, (length s <= n)%nat -> In m (s_find_all s) ->
    exists pre post, s = pre ++ m_all m ++ post /\ match_shape m.
  Proof.
    induction n as [|n IH]; intros s m Hn Hin.
    - destruct s; [destruct Hin | simpl in Hn; lia].
    - destruct s as [|c r]; [destruct Hin|].
      rewrite find_all_cons in Hin. destruct (s_match_at (c :: r)) as [[m0 rest]|] eqn:E.
      + pose proof (match_at_length _ _ _ _ _ _ E) as Hlen. destruct (match_at_shape _ _ _ E) as (Es & Hsh).
        destruct Hin as [<- | Hin].
        * exists [], rest. split; [exact Es | exact Hsh].
        * destruct (IH rest m ltac:(simpl in *; lia) Hin) as (pre & post & -> & Hm).
          exists (m_all m0 ++ pre), post. split; [|exact Hm]. rewrite Es, <- app_assoc. reflexivity.
      + destruct (IH r m ltac:(simpl in *; lia) Hin) as (pre & post & -> & Hm).
        exists (c :: pre), post. split; [reflexivity | exact Hm].
  Qed.

  (* the second regexp run, on group 0 of a match, finds that match again *)
  Lemma rematch m : match_shape m -> s_match_at (m_all m) = Some (m, []).
  Proof.
    intros (h & g2 & Hall & Hh & Hne & Hname & Hv & Hg2). rewrite Hall. unfold match_at.
    rewrite (proj2 (N.eqb_eq _ _) Hh).
    rewrite (span_unique sym nc (m_name m) g2 Hname Hg2).
    destruct (m_name m) as [|n0 name] eqn:En; [congruence|].
    assert (Hmv : match_value is_letter sym fst g2 = (g2, m_val m, [])).
    { unfold match_value. destruct Hv as [[-> ->] | [(e & q & body & cl & -> & Hg3 & He & Hq & Hcl & Hb) | (e & -> & He & Ha)]].
      - reflexivity.
      - rewrite Hg3. rewrite (proj2 (N.eqb_eq _ _) He).
        replace ((fst q =? ch_dq) || (fst q =? ch_sq)) with true
          by (symmetry; apply orb_true_iff; destruct Hq as [-> | ->]; [left | right]; reflexivity).
        rewrite (proj2 (until_quote_some sym fst (fst q) (body ++ [cl]) body cl [])) by auto.
        reflexivity.
      - rewrite (proj2 (N.eqb_eq _ _) He).
        assert (Hsp : span nc (m_val m) = (m_val m, [])).
        { rewrite <- (app_nil_r (m_val m)) at 1. apply span_unique; [exact Ha | exact I]. }
        destruct (m_val m) as [|q r'] eqn:Ev; [reflexivity|].
        replace ((fst q =? ch_dq) || (fst q =? ch_sq)) with false.
        + rewrite Hsp. reflexivity.
        + symmetry. apply orb_false_iff. inversion Ha; subst.
          split; apply N.eqb_neq; intros Hq; rewrite (quote_not_name is_letter sym fst dq_not_letter sq_not_letter) in H1 by auto; discriminate. }
    rewrite Hmv. f_equal. f_equal. destruct m as [ma mn mv]. simpl in *. subst. reflexivity.
  Qed.

  Lemma find_first_head s m rest : s_match_at s = Some (m, rest) -> s_find_first s = Some m.
  Proof. destruct s as [|c r]; [discriminate|]. simpl. intros ->. reflexivity. Qed.

  Lemma value_syms_names run : all_name run -> value_syms sym fst run = run.
  Proof.
    intros Ha. destruct run as [|x run]; [reflexivity|]. unfold value_syms. inversion Ha; subst.
    destruct (fst x =? ch_dq) eqn:E1;
      [apply N.eqb_eq in E1; rewrite (quote_not_name is_letter sym fst dq_not_letter sq_not_letter) in H1 by auto; discriminate|].
    destruct (fst x =? ch_sq) eqn:E2;
      [apply N.eqb_eq in E2; rewrite (quote_not_name is_letter sym fst dq_not_letter sq_not_letter) in H1 by auto; discriminate|].
    reflexivity.
  Qed.

  Lemma names_no_quote run q : all_name run -> q = ch_dq \/ q = ch_sq -> Forall (fun x : sym => fst x <> q) run.
  Proof.
    intros Ha Hq. eapply Forall_impl; [|exact Ha]. simpl. intros x Hx E.
    rewrite (quote_not_name is_letter sym fst dq_not_letter sq_not_letter) in Hx by (destruct Hq; subst; auto). discriminate.
  Qed.

  (* the closure `value` of NewTagFromString computes, on bytes, the matcher's value; and it never holds both quotes *)
  Lemma tag_value_raw g2 g3 : Forall sym_ok g3 -> val_shape g2 g3 ->
    tag_value (raw g3) = raw (value_syms sym fst g3) /\
    has_byte ch_dq (raw (value_syms sym fst g3)) && has_byte ch_sq (raw (value_syms sym fst g3)) = false.
  Proof.
    intros Hok [[_ ->] | [(e & q & body & cl & _ & -> & _ & Hq & Hcl & Hb) | (e & _ & _ & Ha)]].
    - split; reflexivity.
    - assert (Hokb : Forall sym_ok body).
      { inversion Hok; subst. apply Forall_app in H2. tauto. }
      assert (Hokq : sym_ok q) by (inversion Hok; assumption).
      assert (Hokc : sym_ok cl).
      { inversion Hok; subst. apply Forall_app in H2 as [_ H2]. inversion H2; assumption. }
      assert (Hq128 : fst q < 128) by (destruct Hq as [-> | ->]; reflexivity).
      pose proof (sym_ok_ascii q (fst q) Hokq eq_refl Hq128) as Hrq.
      pose proof (sym_ok_ascii cl (fst q) Hokc Hcl Hq128) as Hrc.
      pose proof (raw_no_byte body (fst q) Hokb Hq128 Hb) as Hnb.
      assert (Hsyms : value_syms sym fst (q :: body ++ [cl]) = body).
      { unfold value_syms. destruct Hq as [Hq | Hq]; rewrite Hq in *.
        - rewrite N.eqb_refl. apply trim_quoted; assumption.
        - change (ch_sq =? ch_dq) with false. rewrite N.eqb_refl. apply trim_quoted; assumption. }
      assert (Hraw : raw (q :: body ++ [cl]) = fst q :: raw body ++ [fst q]).
      { rewrite raw_cons, raw_app, Hrq. unfold raw at 2. simpl. rewrite app_nil_r. do 2 f_equal. exact Hrc. }
      rewrite Hsyms, Hraw. split.
      + unfold tag_value, trim_byte. destruct Hq as [Hq | Hq]; rewrite Hq in *.
        * rewrite N.eqb_refl. apply (trim_quoted N (fun c => c)); auto.
        * change (ch_sq =? ch_dq) with false. rewrite N.eqb_refl. apply (trim_quoted N (fun c => c)); auto.
      + destruct Hq as [Hq | Hq]; rewrite Hq in Hnb.
        * rewrite (has_byte_false _ _ Hnb). reflexivity.
        * rewrite (has_byte_false _ _ Hnb). apply andb_false_r.
    - rewrite (value_syms_names g3 Ha).
      assert (Hn1 : Forall (fun b => b <> ch_dq) (raw g3)).
      { apply raw_no_byte; [exact Hok | reflexivity | apply names_no_quote; auto]. }
      assert (Hn2 : Forall (fun b => b <> ch_sq) (raw g3)).
      { apply raw_no_byte; [exact Hok | reflexivity | apply names_no_quote; auto]. }
      split; [|rewrite (has_byte_false _ _ Hn1); reflexivity].
      unfold tag_value. destruct (raw g3) as [|c r]; [reflexivity|].
      inversion Hn1; subst. inversion Hn2; subst.
      apply N.eqb_neq in H1, H3. rewrite H1, H3. reflexivity.
  Qed.

  (* NewTagFromString applied to group 0 of a match of a decoded line returns the tag the match denotes *)
  Lemma new_tag_of_match line m : In m (s_find_all (decode_syms line)) ->
    new_tag_from_string is_letter to_lower (raw (m_all m)) = Ok (Some (tag_of_match to_lower m)).
  Proof.
    intros Hin.
    destruct (find_all_In _ _ m (le_n _) Hin) as (pre & post & Es & Hsh).
    pose proof (wf_decode_syms line) as Hwf. rewrite Es in Hwf.
    pose proof (wf_syms_middle _ _ _ Hwf) as Hwm.
    pose proof (wf_syms_ok _ Hwm) as Hok.
    destruct Hsh as (h & g2 & Hall & Hh & Hne & Hname & Hv & Hg2).
    assert (Hsh : match_shape m) by (exists h, g2; repeat split; auto).
    assert (Hokh : sym_ok h) by (rewrite Hall in Hok; inversion Hok; assumption).
    assert (Hrawh : raw (m_all m) = ch_hash :: raw (m_name m ++ g2)).
    { rewrite Hall, raw_cons. rewrite (sym_ok_ascii h ch_hash Hokh Hh eq_refl). reflexivity. }
    unfold new_tag_from_string. rewrite Hrawh. rewrite N.eqb_refl. rewrite <- Hrawh.
    rewrite Hwm. rewrite (find_first_head _ _ _ (rematch m Hsh)).
    rewrite Nat.eqb_refl.
    assert (Hokv : Forall sym_ok (m_val m)).
    { rewrite Hall in Hok. inversion Hok; subst. apply Forall_app in H2 as [_ H2].
      destruct Hv as [[_ ->] | [(e & q & body & cl & -> & _) | (e & -> & _)]]; [constructor | inversion H2; assumption | inversion H2; assumption]. }
    destruct (tag_value_raw g2 (m_val m) Hokv Hv) as (Htv & Hnp).
    unfold new_tag_or_panic. rewrite Htv, Hnp. reflexivity.
  Qed.

  (* ---- folding ---- *)

  Lemma fold_o_ok {X Y} (f : Y -> X -> outcome Y) (g : Y -> X -> Y) l :
    (forall acc x, In x l -> f acc x = Ok (g acc x)) -> forall acc, fold_o f l acc = Ok (fold_left g l acc).
  Proof.
    induction l as [|x l IH]; intros H acc; [reflexivity|]. simpl.
    rewrite H by (left; reflexivity). simpl. apply IH. intros a y Hy. apply H. right. exact Hy.
  Qed.

  Lemma line_tags_o_eq ts line :
    line_tags_o is_letter to_lower ts line = Ok (fold_left (ts_put to_lower) (line_tags is_letter to_lower line) ts).
  Proof.
    unfold line_tags_o, line_tags.
    rewrite (fold_o_ok _ (fun acc m => ts_put to_lower acc (tag_of_match to_lower m))).
    - f_equal. generalize (s_find_all (decode_syms line)) as l. intros l. revert ts.
      induction l as [|m l IH]; intros ts; [reflexivity|]. simpl. apply IH.
    - intros acc m Hin. unfold put_match. rewrite (new_tag_of_match line m Hin). reflexivity.
  Qed.

  (* Summary.Tags() never panics and is the set of the tags the matcher's matches denote, in order *)
  Theorem summary_tags_o_eq lines :
    summary_tags_o is_letter to_lower lines = Ok (summary_tags is_letter to_lower lines).
  Proof.
    unfold summary_tags_o, summary_tags, found_tags.
    rewrite (fold_o_ok _ (fun acc line => fold_left (ts_put to_lower) (line_tags is_letter to_lower line) acc)).
    - f_equal. generalize (ts_empty) as ts. induction lines as [|l lines IH]; intros ts; [reflexivity|].
      simpl. rewrite fold_left_app. apply IH.
    - intros acc line _. apply line_tags_o_eq.
  Qed.
End Bridge.

(* ===================================================================== *)
(* Part C — AggregateTotalsByTags                                        *)
(* ===================================================================== *)

(* ---- sorting ---- *)

Lemma bytes_ltb_asym a : forall b, bytes_ltb a b = true -> bytes_ltb b a = false.
Proof.
  induction a as [|x a IH]; intros [|y b]; simpl; try congruence.
  destruct (x <? y) eqn:E1; destruct (y <? x) eqn:E2; try congruence; try lia.
  apply IH.
Qed.

Lemma bytes_ltb_irrefl a : bytes_ltb a a = false.
Proof. induction a as [|x a IH]; simpl; [reflexivity|]. rewrite N.ltb_irrefl. exact IH. Qed.

Lemma bytes_ltb_trans a : forall b c, bytes_ltb a b = true -> bytes_ltb b c = true -> bytes_ltb a c = true.
Proof.
  induction a as [|x a IH]; intros [|y b] [|z c]; simpl; try congruence.
  destruct (x <? y) eqn:E1; destruct (y <? x) eqn:E2; destruct (y <? z) eqn:E3; destruct (z <? y) eqn:E4;
  destruct (x <? z) eqn:E5; destruct (z <? x) eqn:E6; try congruence; try lia.
  apply IH.
Qed.

Lemma bytes_ltb_total a : forall b, bytes_ltb a b = false -> bytes_ltb b a = false -> a = b.
Proof.
  induction a as [|x a IH]; intros [|y b]; simpl; try congruence.
  destruct (x <? y) eqn:E1; destruct (y <? x) eqn:E2; try congruence.
  intros H1 H2. assert (x = y) by lia. subst. f_equal. apply IH; assumption.
Qed.

Section Sorting.
  Context {X : Type} (lt : X -> X -> bool).
  Hypothesis lt_asym : forall a b, lt a b = true -> lt b a = false.
  Definition le_of (a b : X) : Prop := lt b a = false.

  Lemma insert_by_In x l y : In y (insert_by lt x l) <-> y = x \/ In y l.
  Proof.
    induction l as [|z l IH]; simpl; [intuition congruence|].
    destruct (lt z x); simpl; [rewrite IH|]; split; intuition congruence.
  Qed.

  Lemma insert_by_perm x l : Permutation (insert_by lt x l) (x :: l).
  Proof.
    induction l as [|z l IH]; simpl; [reflexivity|].
    destruct (lt z x); [|reflexivity]. rewrite IH. apply perm_swap.
  Qed.

  Lemma sort_by_perm l : Permutation (sort_by lt l) l.
  Proof. induction l as [|x l IH]; simpl; [reflexivity|]. rewrite insert_by_perm. constructor. exact IH. Qed.

  Lemma insert_by_hdrel y x l : HdRel le_of y l -> le_of y x -> HdRel le_of y (insert_by lt x l).
  Proof. intros H Hx. destruct l as [|z l]; simpl; [constructor; exact Hx|]. destruct (lt z x); constructor; [inversion H; assumption | exact Hx]. Qed.

  Lemma insert_by_sorted x l : Sorted le_of l -> Sorted le_of (insert_by lt x l).
  Proof.
    induction 1 as [|z l Hs IH Hh]; simpl; [repeat constructor|].
    destruct (lt z x) eqn:E.
    - constructor; [exact IH|]. apply insert_by_hdrel; [exact Hh|]. unfold le_of. apply lt_asym. exact E.
    - constructor; [constructor; assumption|]. constructor. exact E.
  Qed.

  Lemma sort_by_sorted l : Sorted le_of (sort_by lt l).
  Proof. induction l as [|x l IH]; simpl; [constructor|]. apply insert_by_sorted. exact IH. Qed.
End Sorting.

(* ---- the statistics dictionary ---- *)

Open Scope Z_scope.

Definition stat_find (k : tag) (l : list stat) : option (Z * Z) :=
  match find (fun s => tag_eqb (st_tag s) k) l with
  | Some s => Some (st_total s, st_count s)
  | None => None
  end.

Definition bump (o : option (Z * Z)) (d : Z) : option (Z * Z) :=
  match o with Some (s, c) => Some (s + d, c + 1) | None => Some (d, 1) end.

Definition tot (k : tag) (l : list stat) : Z := match stat_find k l with Some (s, _) => s | None => 0 end.

Definition tags_of (l : list stat) : list tag := map st_tag l.

(* sum and number of a list of durations, None when there is none *)
Definition agg_expect (ms : list Z) : option (Z * Z) :=
  match ms with [] => None | _ => Some (fold_right Z.add 0 ms, Z.of_nat (length ms)) end.

Lemma add64_some a b v : add64 a b = Some v -> v = a + b.
Proof. unfold add64. destruct (sm_ok a && sm_ok b && sm_ok (a + b)); congruence. Qed.

Lemma dur_plus_ok a b v : dur_plus a b = Ok v -> v = a + b.
Proof. unfold dur_plus. destruct (add64 a b) eqn:E; [|discriminate]. intros [= <-]. apply add64_some. exact E. Qed.

Lemma dur_plus_fits a b : Z.abs a <= max_int64 -> Z.abs b <= max_int64 -> Z.abs (a + b) <= max_int64 ->
  dur_plus a b = Ok (a + b).
Proof.
  intros Ha Hb Hab. unfold dur_plus, add64, sm_ok, sm_min.
  replace ((- max_int64 <=? a) && (a <=? max_int64) && ((- max_int64 <=? b) && (b <=? max_int64)) &&
           ((- max_int64 <=? a + b) && (a + b <=? max_int64))) with true by lia.
  reflexivity.
Qed.

Lemma stat_find_cons k s l :
  stat_find k (s :: l) = if tag_eqb (st_tag s) k then Some (st_total s, st_count s) else stat_find k l.
Proof. unfold stat_find. simpl. destruct (tag_eqb (st_tag s) k); reflexivity. Qed.

Lemma stat_find_none k l : ~ In k (tags_of l) -> stat_find k l = None.
Proof.
  induction l as [|s l IH]; intros H; [reflexivity|]. rewrite stat_find_cons.
  destruct (tag_eqb (st_tag s) k) eqn:E.
  - apply tag_eqb_eq in E. exfalso. apply H. left. exact E.
  - apply IH. intros Hin. apply H. right. exact Hin.
Qed.

Section StatsPut.
  Variable is_letter : N -> bool.
  Variable to_lower : N -> N.
  Notation stats_put := (stats_put).

  Lemma stats_put_ok tbt : forall t d tbt', stats_put tbt t d = Ok tbt' ->
    (forall k, stat_find k tbt' = if tag_eqb t k then bump (stat_find k tbt) d else stat_find k tbt) /\
    (forall x, In x (tags_of tbt') <-> x = t \/ In x (tags_of tbt)) /\
    (NoDup (tags_of tbt) -> NoDup (tags_of tbt')).
  Proof.
    induction tbt as [|s r IH]; intros t d tbt'; simpl.
    - destruct (dur_plus 0 d) as [v| |] eqn:E; simpl; try discriminate. intros [= <-].
      apply dur_plus_ok in E. subst v. split; [|split].
      + intros k. rewrite stat_find_cons. simpl. destruct (tag_eqb t k); reflexivity.
      + intros x. simpl. intuition congruence.
      + intros _. simpl. repeat constructor. intros [].
    - destruct (tag_eqb (st_tag s) t) eqn:Et.
      + apply tag_eqb_eq in Et. destruct (dur_plus (st_total s) d) as [v| |] eqn:E; simpl; try discriminate.
        intros [= <-]. apply dur_plus_ok in E. subst v. split; [|split].
        * intros k. rewrite !stat_find_cons. simpl. rewrite Et. destruct (tag_eqb t k); reflexivity.
        * intros x. simpl. intuition congruence.
        * simpl. auto.
      + destruct (stats_put r t d) as [r'| |] eqn:E; simpl; try discriminate. intros [= <-].
        destruct (IH _ _ _ E) as (Hf & Hin & Hnd). split; [|split].
        * intros k. rewrite !stat_find_cons, Hf. destruct (tag_eqb (st_tag s) k) eqn:Es; [|reflexivity].
          apply tag_eqb_eq in Es. subst k. rewrite tag_eqb_sym, Et. reflexivity.
        * intros x. simpl. rewrite Hin. tauto.
        * simpl. intros Hn. inversion Hn; subst. constructor; [|auto].
          rewrite Hin. intros [E0 | H]; [rewrite E0, tag_eqb_refl in Et; discriminate | contradiction].
  Qed.

  Lemma stats_put_exists tbt : forall t d, Z.abs (tot t tbt) + Z.abs d <= max_int64 ->
    exists tbt', stats_put tbt t d = Ok tbt'.
  Proof.
    induction tbt as [|s r IH]; intros t d Hb; simpl.
    - unfold tot in Hb. simpl in Hb. rewrite dur_plus_fits by (unfold max_int64 in *; lia). simpl. eauto.
    - unfold tot in Hb. rewrite stat_find_cons in Hb. destruct (tag_eqb (st_tag s) t) eqn:Et.
      + rewrite dur_plus_fits by lia. simpl. eauto.
      + destruct (IH t d Hb) as (r' & ->). simpl. eauto.
  Qed.

  (* one entry: every key of the entry's merged tag set is bumped once *)
  Lemma keys_fold_ok d keys : NoDup keys -> forall acc acc',
    fold_o (fun a t => stats_put a t d) keys acc = Ok acc' ->
    (forall k, stat_find k acc' = if existsb (tag_eqb k) keys then bump (stat_find k acc) d else stat_find k acc) /\
    (NoDup (tags_of acc) -> NoDup (tags_of acc')).
  Proof.
    induction 1 as [|t keys Hnin _ IH]; intros acc acc'; simpl.
    - intros [= <-]. split; auto.
    - destruct (stats_put acc t d) as [acc1| |] eqn:E; simpl; try discriminate. intros H.
      destruct (stats_put_ok _ _ _ _ E) as (Hf1 & _ & Hn1). destruct (IH _ _ H) as (Hf2 & Hn2).
      split; [|auto]. intros k. rewrite Hf2, Hf1. rewrite (tag_eqb_sym k t).
      destruct (tag_eqb t k) eqn:Et; simpl; [|reflexivity].
      apply tag_eqb_eq in Et. subst k.
      replace (existsb (tag_eqb t) keys) with false; [reflexivity|].
      symmetry. apply not_true_is_false. intros Hex. apply existsb_tag_In in Hex. contradiction.
  Qed.

  Lemma tot_bump k acc d o : stat_find k acc = bump o d ->
    tot k acc = (match o with Some (s, _) => s | None => 0 end) + d.
  Proof. unfold tot. intros ->. destruct o as [[s c]|]; simpl; lia. Qed.

  Lemma keys_fold_exists d keys : NoDup keys -> forall acc,
    (forall k, In k keys -> Z.abs (tot k acc) + Z.abs d <= max_int64) ->
    exists acc', fold_o (fun a t => stats_put a t d) keys acc = Ok acc'.
  Proof.
    induction 1 as [|t keys Hnin _ IH]; intros acc Hb; simpl; [eauto|].
    destruct (stats_put_exists acc t d (Hb t (or_introl eq_refl))) as (acc1 & E). rewrite E. simpl.
    apply IH. intros k Hk. destruct (stats_put_ok _ _ _ _ E) as (Hf & _).
    assert (Hne : tag_eqb t k = false).
    { apply tag_eqb_neq. intros ->. contradiction. }
    unfold tot. rewrite Hf, Hne. apply Hb. right. exact Hk.
  Qed.
End StatsPut.

Section Aggregate.
  Variable is_letter : N -> bool.
  Variable to_lower : N -> N.
  Hypothesis dq_not_letter : is_letter ch_dq = false.
  Hypothesis sq_not_letter : is_letter ch_sq = false.
  Hypothesis lower_idem : forall r, to_lower (to_lower r) = to_lower r.
  Hypothesis lower_scalar : forall r, is_scalar r = true -> is_scalar (to_lower r) = true.

  Notation found := (found_tags is_letter to_lower).
  Notation s_tags := (summary_tags is_letter to_lower).

  (* the tags an entry carries: those of its record's summary and its own *)
  Definition entry_found (r : record) (e : entry) : list tag := found (rec_summary r) ++ found (e_summary e).

  Definition entry_keys (r : record) (e : entry) : list tag :=
    ts_lookup (ts_merge to_lower [s_tags (rec_summary r); s_tags (e_summary e)]).

  Lemma found_norm lines : Forall (tag_norm to_lower) (found lines).
  Proof.
    unfold found_tags. apply Forall_forall. intros t Hin. apply in_flat_map in Hin as (l & _ & Hin).
    unfold line_tags in Hin. apply in_map_iff in Hin as (m & <- & _). apply mk_tag_norm; assumption.
  Qed.

  Lemma entry_found_norm r e : Forall (tag_norm to_lower) (entry_found r e).
  Proof. unfold entry_found. apply Forall_app. split; apply found_norm. Qed.

  Lemma summary_lookup_In lines x :
    In x (ts_lookup (s_tags lines)) <-> exists t, In t (found lines) /\ (x = t \/ x = bare to_lower t).
  Proof. unfold summary_tags. rewrite put_all_lookup_In. simpl. tauto. Qed.

  Lemma entry_keys_In r e k : In k (entry_keys r e) <-> carries (entry_found r e) k = true.
  Proof.
    unfold entry_keys, ts_merge. rewrite merge_lists_In, (carries_iff to_lower) by apply entry_found_norm.
    unfold entry_found. split.
    - intros (l & t & Hl & Ht & Hk). simpl in Hl.
      assert (Hex : exists u, In u (found (rec_summary r) ++ found (e_summary e)) /\ (t = u \/ t = bare to_lower u)).
      { destruct Hl as [<- | [<- | []]]; apply summary_lookup_In in Ht as (u & Hu & H); exists u; (split; [|exact H]);
        apply in_or_app; [left | right]; exact Hu. }
      destruct Hex as (u & Hu & Htu). exists u. split; [exact Hu|].
      destruct Hk as [-> | ->]; destruct Htu as [-> | ->]; auto.
      right. apply bare_bare; assumption.
    - intros (u & Hu & Hk). apply in_app_or in Hu as [Hu | Hu].
      + exists (ts_lookup (s_tags (rec_summary r))), u. split; [left; reflexivity|]. split; [|exact Hk].
        apply summary_lookup_In. exists u. auto.
      + exists (ts_lookup (s_tags (e_summary e))), u. split; [right; left; reflexivity|]. split; [|exact Hk].
        apply summary_lookup_In. exists u. auto.
  Qed.

  Lemma entry_keys_NoDup r e : NoDup (entry_keys r e).
  Proof. apply merge_lists_NoDup. Qed.

  Lemma entry_keys_existsb r e k : existsb (tag_eqb k) (entry_keys r e) = carries (entry_found r e) k.
  Proof. apply eq_true_iff_eq. rewrite existsb_tag_In. apply entry_keys_In. Qed.

  Lemma entry_put_eq r acc e :
    entry_put is_letter to_lower r acc e = fold_o (fun a t => stats_put a t (entry_minutes e)) (entry_keys r e) acc.
  Proof.
    unfold entry_put. rewrite !(summary_tags_o_eq is_letter to_lower dq_not_letter sq_not_letter). reflexivity.
  Qed.

  Definition entry_step (r : record) (k : tag) (o : option (Z * Z)) (e : entry) : option (Z * Z) :=
    if carries (entry_found r e) k then bump o (entry_minutes e) else o.

  Lemma entries_fold_ok r es : forall acc acc', NoDup (tags_of acc) ->
    fold_o (entry_put is_letter to_lower r) es acc = Ok acc' ->
    NoDup (tags_of acc') /\ forall k, stat_find k acc' = fold_left (entry_step r k) es (stat_find k acc).
  Proof.
    induction es as [|e es IH]; intros acc acc' Hn; simpl.
    - intros [= <-]. auto.
    - destruct (entry_put is_letter to_lower r acc e) as [acc1| |] eqn:E; simpl; try discriminate. intros H.
      rewrite entry_put_eq in E. destruct (keys_fold_ok _ _ (entry_keys_NoDup r e) _ _ E) as (Hf & Hn1).
      destruct (IH _ _ (Hn1 Hn) H) as (Hn2 & Hf2). split; [exact Hn2|].
      intros k. rewrite Hf2, Hf, entry_keys_existsb. reflexivity.
  Qed.

  Lemma records_fold_ok rs : forall acc acc', NoDup (tags_of acc) ->
    fold_o (record_put is_letter to_lower) rs acc = Ok acc' ->
    NoDup (tags_of acc') /\
    forall k, stat_find k acc' = fold_left (fun o r => fold_left (entry_step r k) (rec_entries r) o) rs (stat_find k acc).
  Proof.
    induction rs as [|r rs IH]; intros acc acc' Hn; simpl.
    - intros [= <-]. auto.
    - destruct (record_put is_letter to_lower acc r) as [acc1| |] eqn:E; simpl; try discriminate. intros H.
      unfold record_put in E. destruct (entries_fold_ok _ _ _ _ Hn E) as (Hn1 & Hf1).
      destruct (IH _ _ Hn1 H) as (Hn2 & Hf2). split; [exact Hn2|]. intros k. rewrite Hf2, Hf1. reflexivity.
  Qed.

  (* ---- from the folds to sums ---- *)

  (* the durations of the entries that carry key k, in file order *)
  Definition matching (rs : list record) (k : tag) : list Z :=
    flat_map (fun r => map entry_minutes (filter (fun e => carries (entry_found r e) k) (rec_entries r))) rs.

  Lemma fold_bump ms : forall o, fold_left bump ms o =
    match o with
    | None => agg_expect ms
    | Some (s, c) => Some (s + fold_right Z.add 0 ms, c + Z.of_nat (length ms))
    end.
  Proof.
    induction ms as [|m ms IH]; intros o.
    - destruct o as [[s c]|]; simpl; [f_equal; f_equal; lia | reflexivity].
    - cbn [fold_left]. rewrite IH. destruct o as [[s c]|]; cbn [bump agg_expect fold_right length]; f_equal; f_equal; lia.
  Qed.

  Lemma entries_fold_bump r k es : forall o,
    fold_left (entry_step r k) es o =
    fold_left bump (map entry_minutes (filter (fun e => carries (entry_found r e) k) es)) o.
  Proof.
    induction es as [|e es IH]; intros o; [reflexivity|]. simpl. unfold entry_step at 2.
    destruct (carries (entry_found r e) k); simpl; apply IH.
  Qed.

  Lemma records_fold_bump k rs : forall o,
    fold_left (fun o r => fold_left (entry_step r k) (rec_entries r) o) rs o = fold_left bump (matching rs k) o.
  Proof.
    induction rs as [|r rs IH]; intros o; [reflexivity|]. simpl.
    unfold matching. simpl. rewrite fold_left_app, IH, entries_fold_bump. reflexivity.
  Qed.

  (* ---- sorting keeps the dictionary ---- *)

  Lemma stat_asym a b : stat_ltb a b = true -> stat_ltb b a = false.
  Proof. unfold stat_ltb, tag_ltb. apply bytes_ltb_asym. Qed.

  Lemma stat_find_insert k x l : ~ In (st_tag x) (tags_of l) ->
    stat_find k (insert_by stat_ltb x l) = stat_find k (x :: l).
  Proof.
    induction l as [|y l IH]; intros Hn; [reflexivity|]. simpl.
    destruct (stat_ltb y x); [|reflexivity].
    rewrite stat_find_cons, IH by (intros H; apply Hn; right; exact H). rewrite !stat_find_cons.
    destruct (tag_eqb (st_tag y) k) eqn:E1; destruct (tag_eqb (st_tag x) k) eqn:E2; try reflexivity.
    apply tag_eqb_eq in E1, E2. exfalso. apply Hn. left. congruence.
  Qed.

  Lemma stat_find_sort k l : NoDup (tags_of l) -> stat_find k (sort_by stat_ltb l) = stat_find k l.
  Proof.
    induction l as [|x l IH]; intros Hn; [reflexivity|]. simpl. inversion Hn; subst.
    rewrite stat_find_insert.
    - rewrite !stat_find_cons, IH by assumption. reflexivity.
    - intros Hin. apply H1. unfold tags_of in *. apply in_map_iff in Hin as (y & Ey & Hy).
      apply in_map_iff. exists y. split; [exact Ey|]. eapply Permutation_in; [apply sort_by_perm | exact Hy].
  Qed.

  (* THEOREM 3: whenever `klog tags` returns, every tag and every tag=value reported carries exactly the sum and the
     number of the entries it selects (each entry once), nothing else is reported, and the list is sorted by key *)
  Theorem tag_totals rs out : aggregate_o is_letter to_lower rs = Ok out ->
    (forall k, stat_find k out = agg_expect (matching rs k)) /\
    Sorted (fun a b => bytes_ltb (tag_key (st_tag b)) (tag_key (st_tag a)) = false) out /\
    NoDup (tags_of out).
  Proof.
    unfold aggregate_o. destruct (fold_o (record_put is_letter to_lower) rs []) as [tbt| |] eqn:E; simpl; try discriminate.
    intros [= <-]. destruct (records_fold_ok rs [] tbt (NoDup_nil _) E) as (Hn & Hf). split; [|split].
    - intros k. rewrite stat_find_sort, Hf, records_fold_bump, fold_bump by exact Hn. reflexivity.
    - apply (sort_by_sorted stat_ltb stat_asym).
    - unfold tags_of. eapply Permutation_NoDup; [|exact Hn]. apply Permutation_map, Permutation_sym, sort_by_perm.
  Qed.

  (* ---- the no-overflow guard ---- *)

  Definition sum_abs_entries (es : list entry) : Z := fold_right Z.add 0 (map (fun e => Z.abs (entry_minutes e)) es).
  Definition sum_abs (rs : list record) : Z := fold_right Z.add 0 (map (fun r => sum_abs_entries (rec_entries r)) rs).

  Lemma sum_abs_entries_nonneg es : 0 <= sum_abs_entries es.
  Proof. induction es; unfold sum_abs_entries in *; simpl; lia. Qed.

  Lemma sum_abs_nonneg rs : 0 <= sum_abs rs.
  Proof. induction rs as [|r rs IH]; unfold sum_abs in *; simpl; [lia|]. pose proof (sum_abs_entries_nonneg (rec_entries r)). lia. Qed.

  Lemma entries_fold_exists r es : forall acc B, 0 <= B ->
    (forall k, Z.abs (tot k acc) <= B) -> B + sum_abs_entries es <= max_int64 ->
    exists acc', fold_o (entry_put is_letter to_lower r) es acc = Ok acc' /\
                 forall k, Z.abs (tot k acc') <= B + sum_abs_entries es.
  Proof.
    induction es as [|e es IH]; intros acc B HB Hb Hs.
    - exists acc. split; [reflexivity|]. intros k. unfold sum_abs_entries. simpl. rewrite Z.add_0_r. apply Hb.
    - unfold sum_abs_entries in Hs. simpl in Hs. fold (sum_abs_entries es) in Hs.
      pose proof (sum_abs_entries_nonneg es) as Hnn.
      simpl. rewrite entry_put_eq.
      destruct (keys_fold_exists (entry_minutes e) _ (entry_keys_NoDup r e) acc) as (acc1 & E).
      { intros k _. specialize (Hb k). lia. }
      rewrite E. simpl.
      destruct (keys_fold_ok _ _ (entry_keys_NoDup r e) _ _ E) as (Hf & _).
      destruct (IH acc1 (B + Z.abs (entry_minutes e))) as (acc' & E' & Hb').
      + lia.
      + intros k. specialize (Hb k). unfold tot in *. rewrite Hf.
        destruct (existsb (tag_eqb k) (entry_keys r e)); [|lia].
        destruct (stat_find k acc) as [[s c]|]; simpl in *; lia.
      + lia.
      + exists acc'. split; [exact E'|]. intros k. specialize (Hb' k).
        unfold sum_abs_entries. simpl. fold (sum_abs_entries es). lia.
  Qed.

  Lemma records_fold_exists rs : forall acc B, 0 <= B ->
    (forall k, Z.abs (tot k acc) <= B) -> B + sum_abs rs <= max_int64 ->
    exists acc', fold_o (record_put is_letter to_lower) rs acc = Ok acc'.
  Proof.
    induction rs as [|r rs IH]; intros acc B HB Hb Hs; simpl; [eauto|].
    unfold sum_abs in Hs. simpl in Hs. fold (sum_abs rs) in Hs.
    pose proof (sum_abs_nonneg rs). pose proof (sum_abs_entries_nonneg (rec_entries r)).
    unfold record_put at 1.
    destruct (entries_fold_exists r (rec_entries r) acc B HB Hb ltac:(lia)) as (acc1 & E & Hb1).
    rewrite E. simpl. apply (IH acc1 (B + sum_abs_entries (rec_entries r))); [lia | exact Hb1 | lia].
  Qed.

  (* as long as the absolute durations of all entries together fit an int64, `klog tags` returns *)
  Theorem tag_totals_no_overflow rs : sum_abs rs <= max_int64 -> exists out, aggregate_o is_letter to_lower rs = Ok out.
  Proof.
    intros H. destruct (records_fold_exists rs [] 0 ltac:(lia)) as (tbt & E).
    - intros k. unfold tot. simpl. lia.
    - lia.
    - unfold aggregate_o. rewrite E. simpl. eauto.
  Qed.
End Aggregate.

(* ===================================================================== *)
(* Part E — the instance at the Go toolchain's Unicode tables            *)
(* ===================================================================== *)

Open Scope N_scope.

(* ---- the lower-case table: every rune it moves is listed in its domain ---- *)

Definition run_members (x : N * N * N * N) : list N :=
  let '(lo, hi, step, _) := x in
  map (fun k => lo + N.of_nat k * step) (seq 0 (S (N.to_nat ((hi - lo) / step)))).

Definition lower_domain (T : list (N * N * N * N)) : list N := flat_map run_members T.

Definition steps_ok (T : list (N * N * N * N)) : bool := forallb (fun x => let '(_, _, step, _) := x in negb (step =? 0)) T.

Ltac Zify.zify_post_hook ::= Z.to_euclidean_division_equations.

Lemma lower_moved_in_domain T r : steps_ok T = true -> lower_lookup T r <> r -> In r (lower_domain T).
Proof.
  induction T as [|[[[lo hi] step] tgt] T IH]; intros Hs Hm; [simpl in Hm; congruence|].
  cbn [steps_ok forallb] in Hs. apply andb_true_iff in Hs as [Hstep Hs]. apply negb_true_iff, N.eqb_neq in Hstep.
  cbn [lower_lookup] in Hm.
  change (lower_domain ((lo, hi, step, tgt) :: T)) with (run_members (lo, hi, step, tgt) ++ lower_domain T).
  apply in_or_app.
  destruct (r <? lo) eqn:E1; [congruence|].
  destruct ((r <=? hi) && ((r - lo) mod step =? 0)) eqn:E2; [|right; apply IH; assumption].
  left. apply andb_true_iff in E2 as [E2 E3]. apply N.leb_le in E2. apply N.eqb_eq in E3. apply N.ltb_ge in E1.
  unfold run_members. apply in_map_iff. exists (N.to_nat ((r - lo) / step)). split.
  - rewrite N2Nat.id. pose proof (N.div_mod (r - lo) step Hstep) as Hdm. rewrite E3, N.add_0_r, N.mul_comm in Hdm.
    rewrite <- Hdm. clear Hdm E3. lia.
  - apply in_seq. split; [apply Nat.le_0_l|]. clear E3 Hm.
    assert (Hle : (r - lo) / step <= (hi - lo) / step) by (apply N.div_le_mono; [exact Hstep | lia]).
    revert Hle. generalize ((r - lo) / step) ((hi - lo) / step). intros a b Hab. lia.
Qed.

Lemma lower_table_forall (P : N -> bool) T :
  steps_ok T = true -> forallb (fun r => P r) (lower_domain T) = true ->
  forall r, lower_lookup T r <> r -> P r = true.
Proof.
  intros Hs Hall r Hm. rewrite forallb_forall in Hall. apply Hall. apply lower_moved_in_domain; assumption.
Qed.

Lemma go_steps_ok : steps_ok unicode_lower = true.
Proof. vm_compute. reflexivity. Qed.

(* unicode.ToLower is idempotent *)
Lemma go_lower_idem r : go_to_lower (go_to_lower r) = go_to_lower r.
Proof.
  destruct (N.eq_dec (go_to_lower r) r) as [E | E]; [rewrite !E; reflexivity|].
  apply N.eqb_eq.
  apply (lower_table_forall (fun r => go_to_lower (go_to_lower r) =? go_to_lower r) unicode_lower go_steps_ok); [|exact E].
  vm_compute. reflexivity.
Qed.

(* unicode.ToLower maps scalar values to scalar values *)
Lemma go_lower_scalar r : is_scalar r = true -> is_scalar (go_to_lower r) = true.
Proof.
  intros Hr. destruct (N.eq_dec (go_to_lower r) r) as [E | E]; [rewrite E; exact Hr|].
  apply (lower_table_forall (fun r => is_scalar (go_to_lower r)) unicode_lower go_steps_ok); [|exact E].
  vm_compute. reflexivity.
Qed.

Lemma go_dq_not_letter : go_is_letter ch_dq = false.
Proof. vm_compute. reflexivity. Qed.
Lemma go_sq_not_letter : go_is_letter ch_sq = false.
Proof. vm_compute. reflexivity. Qed.

(* the linear table lookup is membership in one of the ranges when the table is sorted *)
Fixpoint ranges_sorted (l : list (N * N)) : bool :=
  match l with
  | (lo, hi) :: (((lo', _) :: _) as t) => (lo <=? hi) && (hi <? lo') && ranges_sorted t
  | [(lo, hi)] => lo <=? hi
  | [] => true
  end.

Lemma in_ranges_spec l r : ranges_sorted l = true ->
  in_ranges l r = existsb (fun x => (fst x <=? r) && (r <=? snd x)) l.
Proof.
  induction l as [|[lo hi] t IH]; intros Hs; [reflexivity|]. cbn [in_ranges existsb fst snd].
  assert (Ht : ranges_sorted t = true /\ lo <= hi /\ forall x, In x t -> hi < fst x).
  { destruct t as [|[lo' hi'] t'].
    - simpl in Hs. repeat split; [lia | intros x []].
    - cbn [ranges_sorted] in Hs. apply andb_true_iff in Hs as [Hs Hs2]. apply andb_true_iff in Hs as [Ha Hb].
      split; [exact Hs2|]. split; [lia|].
      clear IH. revert lo' hi' Hb Hs2. induction t' as [|[lo2 hi2] t2 IH2]; intros lo' hi' Hb Hs2 x [<- | Hin]; simpl; try lia; try contradiction.
      cbn [ranges_sorted] in Hs2. destruct t2 as [|[lo3 hi3] t3].
      + destruct Hin as [<- | []]. simpl. apply andb_true_iff in Hs2 as [Hs2 _]. lia.
      + apply andb_true_iff in Hs2 as [Hs2 Hs3]. apply (IH2 lo2 hi2); [lia | exact Hs3 | exact Hin]. }
  destruct Ht as (Ht & Hlh & Hgt).
  destruct (r <? lo) eqn:E1.
  - replace ((lo <=? r) && (r <=? hi)) with false by lia. simpl. symmetry. apply not_true_is_false.
    intros Hex. apply existsb_exists in Hex as (x & Hin & Hx). specialize (Hgt x Hin). lia.
  - destruct (r <=? hi) eqn:E2.
    + replace (lo <=? r) with true by lia. reflexivity.
    + replace ((lo <=? r) && false) with false by (destruct (lo <=? r); reflexivity). simpl. apply IH. exact Ht.
Qed.

Lemma go_letters_sorted : ranges_sorted unicode_L = true.
Proof. vm_compute. reflexivity. Qed.

(* \p{L}: r is a letter iff it lies in one of the generated ranges *)
Lemma go_is_letter_spec r : go_is_letter r = true <-> exists lo hi, In (lo, hi) unicode_L /\ lo <= r <= hi.
Proof.
  unfold go_is_letter. rewrite in_ranges_spec by exact go_letters_sorted. rewrite existsb_exists. split.
  - intros ([lo hi] & Hin & H). exists lo, hi. simpl in H. split; [exact Hin | lia].
  - intros (lo & hi & Hin & H). exists (lo, hi). simpl. split; [exact Hin | lia].
Qed.

(* ---- lines of bytes ---- *)

Lemma decode_syms_no_newline line : ~ In ch_nl line -> no_newline sym fst (decode_syms line).
Proof.
  intros Hn. apply Forall_forall. intros x Hin E. apply Hn.
  pose proof (wf_syms_ok _ (wf_decode_syms line)) as Hok. rewrite Forall_forall in Hok.
  pose proof (sym_ok_ascii x ch_nl (Hok x Hin) E eq_refl) as Hs.
  rewrite <- (raw_decode_syms line). unfold raw. apply in_flat_map. exists x. split; [exact Hin|]. destruct x as [xr xb]. simpl in *. subst xb. left. reflexivity.
Qed.

Lemma no_newline_dec {A} (code : A -> N) s : forallb (fun c => negb (code c =? ch_nl)) s = true -> no_newline A code s.
Proof.
  intros H. apply Forall_forall. intros c Hc. rewrite forallb_forall in H. specialize (H c Hc).
  apply negb_true_iff, N.eqb_neq in H. exact H.
Qed.

(* the tags of a line of bytes are those the specification finds among its symbols: names lower-cased, values as written *)
Definition tag_of_view (to_lower : N -> N) (nv : list sym * list sym) : tag := mk_tag to_lower (raw (fst nv)) (raw (snd nv)).

Lemma line_tags_spec is_letter to_lower line :
  is_letter ch_dq = false -> is_letter ch_sq = false -> ~ In ch_nl line ->
  forall ts, spec_tags is_letter sym fst (decode_syms line) ts ->
             line_tags is_letter to_lower line = map (tag_of_view to_lower) ts.
Proof.
  intros Hd Hs Hn ts Hspec.
  apply (find_tags_spec is_letter sym fst Hd Hs _ (decode_syms_no_newline line Hn)) in Hspec. subst ts.
  unfold line_tags. rewrite map_map. apply map_ext. intros m. reflexivity.
Qed.

Lemma summary_original is_letter to_lower lines :
  ts_original (summary_tags is_letter to_lower lines) = found_tags is_letter to_lower lines.
Proof. unfold summary_tags. rewrite put_all_original. reflexivity. Qed.

Lemma contains_spec is_letter to_lower :
  (forall r, to_lower (to_lower r) = to_lower r) ->
  (forall r, is_scalar r = true -> is_scalar (to_lower r) = true) ->
  forall lines q, ts_contains (summary_tags is_letter to_lower lines) q = carries (found_tags is_letter to_lower lines) q.
Proof.
  intros Hi Hs lines q. unfold summary_tags. apply contains_put_all. apply found_norm; assumption.
Qed.

(* Merge and the aggregation loop walk Go maps; no observable depends on the order *)
Lemma merged_order_irrelevant to_lower ls ls' : Forall2 (@Permutation tag) ls ls' ->
  forall q, ts_contains (merge_lists to_lower ls) q = ts_contains (merge_lists to_lower ls') q.
Proof. intros H. apply (merge_lists_perm to_lower ls ls' H). Qed.

(* ===================================================================== *)
(* Part F — statements at the Go tables, data for the examples           *)
(* ===================================================================== *)

(* a rune list is a list of symbols that are their own code *)
Definition rune_id (r : N) : N := r.

Lemma not_in_bytes_dec c (s : bytes) : forallb (fun b => negb (b =? c)) s = true -> ~ In c s.
Proof.
  intros H Hin. rewrite forallb_forall in H. specialize (H c Hin). rewrite N.eqb_refl in H. discriminate.
Qed.

Lemma go_line_tags_spec line : ~ In ch_nl line ->
  exists ts, spec_tags go_is_letter sym fst (decode_syms line) ts /\
             (forall ts', spec_tags go_is_letter sym fst (decode_syms line) ts' -> ts' = ts) /\
             line_tags go_is_letter go_to_lower line = map (tag_of_view go_to_lower) ts.
Proof.
  intros Hn. pose proof (decode_syms_no_newline line Hn) as Hnl.
  exists (map (match_view sym fst) (find_all go_is_letter sym fst (decode_syms line))). split; [|split].
  - apply (find_tags_spec go_is_letter sym fst go_dq_not_letter go_sq_not_letter _ Hnl). reflexivity.
  - intros ts' H. symmetry. apply (find_tags_spec go_is_letter sym fst go_dq_not_letter go_sq_not_letter _ Hnl). exact H.
  - apply (line_tags_spec go_is_letter go_to_lower line go_dq_not_letter go_sq_not_letter Hn).
    apply (find_tags_spec go_is_letter sym fst go_dq_not_letter go_sq_not_letter _ Hnl). reflexivity.
Qed.

Lemma go_summary_tags lines :
  go_summary_tags_o lines = Ok (summary_tags go_is_letter go_to_lower lines) /\
  ts_original (summary_tags go_is_letter go_to_lower lines) = found_tags go_is_letter go_to_lower lines.
Proof.
  split; [apply summary_tags_o_eq; [exact go_dq_not_letter | exact go_sq_not_letter] | apply summary_original].
Qed.

Definition ex_date : date := {| dt := {| c_year := 2024; c_month := 2; c_day := 29 |}; dt_dashes := true |}.
Definition ex_entry (m : Z) (summary : list bytes) : entry := {| e_value := VDuration (mk_dur m); e_summary := summary |}.
Definition ex_record (summary : list bytes) (es : list entry) : record :=
  {| rec_date := ex_date; rec_should := None; rec_summary := summary; rec_entries := es |}.
Definition ex_tag (n v : bytes) : tag := {| t_name := n; t_value := v |}.
Definition ex_stat (n v : bytes) (total count : Z) : stat := {| st_tag := ex_tag n v; st_total := total; st_count := count |}.

(* ===================================================================== *)
(* Part G — the output order is determined: keys are distinct            *)
(* ===================================================================== *)

Lemma stat_find_some k l s c : stat_find k l = Some (s, c) ->
  exists x, In x l /\ st_tag x = k /\ st_total x = s /\ st_count x = c.
Proof.
  unfold stat_find. destruct (find (fun s0 => tag_eqb (st_tag s0) k) l) as [x|] eqn:E; [|discriminate].
  intros [= <- <-]. apply find_some in E as (Hin & Ht). apply tag_eqb_eq in Ht. exists x. auto.
Qed.

Lemma stat_find_In l x : NoDup (tags_of l) -> In x l -> stat_find (st_tag x) l = Some (st_total x, st_count x).
Proof.
  induction l as [|y l IH]; intros Hn Hin; [destruct Hin|]. rewrite stat_find_cons.
  simpl in Hn. inversion Hn; subst. destruct Hin as [-> | Hin].
  - rewrite tag_eqb_refl. reflexivity.
  - destruct (tag_eqb (st_tag y) (st_tag x)) eqn:E; [|apply IH; assumption].
    apply tag_eqb_eq in E. exfalso. apply H1. rewrite E. apply in_map. exact Hin.
Qed.

Lemma stat_find_tags k l : In k (tags_of l) <-> stat_find k l <> None.
Proof.
  split.
  - intros Hin Hn. induction l as [|y l IH]; [destruct Hin|]. rewrite stat_find_cons in Hn.
    destruct (tag_eqb (st_tag y) k) eqn:E; [discriminate|]. destruct Hin as [Hin | Hin]; [|auto].
    rewrite Hin, tag_eqb_refl in E. discriminate.
  - intros Hn. destruct (stat_find k l) as [[s c]|] eqn:E; [|congruence].
    apply stat_find_some in E as (x & Hin & <- & _). apply in_map. exact Hin.
Qed.

Lemma stat_eta (x y : stat) : st_tag x = st_tag y -> st_total x = st_total y -> st_count x = st_count y -> x = y.
Proof. destruct x, y; simpl; intros -> -> ->; reflexivity. Qed.

(* name=value is injective on tags whose name holds no `=` *)
Lemma tag_key_inj a b : ~ In ch_eq (t_name a) -> ~ In ch_eq (t_name b) -> tag_key a = tag_key b -> a = b.
Proof.
  unfold tag_key. intros Ha Hb E. cbn [app] in E.
  destruct (split_first_unique N (fun c => c) ch_eq (t_name a) ch_eq (t_value a) (t_name b) ch_eq (t_value b)) as [E1 E2]; auto.
  - apply Forall_forall. intros x Hx ->. contradiction.
  - apply Forall_forall. intros x Hx ->. contradiction.
  - destruct a, b; simpl in *; congruence.
Qed.

Definition key_lt (a b : stat) : Prop := bytes_ltb (tag_key (st_tag a)) (tag_key (st_tag b)) = true.
Definition key_le (a b : stat) : Prop := bytes_ltb (tag_key (st_tag b)) (tag_key (st_tag a)) = false.
Definition good_name (x : stat) : Prop := ~ In ch_eq (t_name (st_tag x)).

Lemma key_lt_trans : Transitive key_lt.
Proof. intros a b c. unfold key_lt. apply bytes_ltb_trans. Qed.

Lemma sorted_strict l : Forall good_name l -> NoDup (tags_of l) -> Sorted key_le l -> StronglySorted key_lt l.
Proof.
  intros Hg Hn Hs. apply Sorted_StronglySorted; [exact key_lt_trans|].
  induction Hs as [|a l Hs IH Hh]; [constructor|].
  inversion Hg; subst. simpl in Hn. inversion Hn; subst. constructor; [apply IH; assumption|].
  destruct Hh as [|b l Hab]; constructor. unfold key_lt, key_le in *.
  destruct (bytes_ltb (tag_key (st_tag a)) (tag_key (st_tag b))) eqn:E; [reflexivity|].
  exfalso. apply H3. left. symmetry.
  inversion H2; subst. apply tag_key_inj; auto. apply bytes_ltb_total; assumption.
Qed.

Lemma strongly_sorted_perm_unique l : forall l', StronglySorted key_lt l -> StronglySorted key_lt l' -> Permutation l l' -> l = l'.
Proof.
  induction l as [|a l IH]; intros l' Hs Hs' Hp.
  - apply Permutation_nil in Hp. congruence.
  - destruct l' as [|b l']; [apply Permutation_sym, Permutation_nil in Hp; discriminate|].
    inversion Hs as [|? ? Hsl Hal]; subst. inversion Hs' as [|? ? Hsl' Hbl']; subst.
    assert (a = b).
    { assert (Ha : In a (b :: l')) by (eapply Permutation_in; [exact Hp | left; reflexivity]).
      assert (Hb : In b (a :: l)) by (eapply Permutation_in; [apply Permutation_sym; exact Hp | left; reflexivity]).
      destruct Ha as [-> | Ha]; [reflexivity|]. destruct Hb as [-> | Hb]; [reflexivity|].
      rewrite Forall_forall in Hal, Hbl'. specialize (Hal b Hb). specialize (Hbl' a Ha).
      unfold key_lt in *. apply bytes_ltb_asym in Hal. congruence. }
    subst b. f_equal. apply IH; auto. eapply Permutation_cons_inv. exact Hp.
Qed.

Section Determined.
  Variable is_letter : N -> bool.
  Variable to_lower : N -> N.
  Hypothesis dq_not_letter : is_letter ch_dq = false.
  Hypothesis sq_not_letter : is_letter ch_sq = false.
  Hypothesis eq_not_letter : is_letter ch_eq = false.
  Hypothesis lower_idem : forall r, to_lower (to_lower r) = to_lower r.
  Hypothesis lower_scalar : forall r, is_scalar r = true -> is_scalar (to_lower r) = true.
  Hypothesis lower_not_eq : forall r, to_lower r = ch_eq -> r = ch_eq.

  Lemma encode_no_ascii c rs : c < 128 -> In c (utf8_encode rs) -> In c rs.
  Proof.
    intros Hc Hin. unfold utf8_encode in Hin. apply in_flat_map in Hin as (r & Hr & Hin).
    destruct (encode_rune_bytes r) as [[_ E] | [_ Hb]].
    - rewrite E in Hin. destruct Hin as [<- | []]. exact Hr.
    - rewrite Forall_forall in Hb. specialize (Hb c Hin). lia.
  Qed.

  (* a tag name taken from a summary never holds `=` *)
  Lemma found_name_no_eq lines t : In t (found_tags is_letter to_lower lines) -> ~ In ch_eq (t_name t).
  Proof.
    unfold found_tags. intros Hin. apply in_flat_map in Hin as (line & _ & Hin).
    unfold line_tags in Hin. apply in_map_iff in Hin as (m & <- & Hm).
    destruct (find_all_In is_letter dq_not_letter sq_not_letter _ _ m (le_n _) Hm)
      as (pre & post & Es & (h & g2 & Hall & _ & _ & Hname & _)).
    pose proof (wf_decode_syms line) as Hwf. rewrite Es in Hwf. apply wf_syms_middle in Hwf.
    rewrite Hall in Hwf. change (h :: m_name m ++ g2) with ([h] ++ m_name m ++ g2) in Hwf. apply wf_syms_middle in Hwf.
    unfold tag_of_match, mk_tag, str_to_lower. cbn [t_name]. intros Hin.
    apply encode_no_ascii in Hin; [|reflexivity].
    rewrite utf8_decode_syms, Hwf, map_map in Hin. apply in_map_iff in Hin as (x & Hx & Hxin).
    apply lower_not_eq in Hx. unfold all_name in Hname. rewrite Forall_forall in Hname. specialize (Hname x Hxin).
    unfold name_char, name_code in Hname. rewrite Hx, eq_not_letter in Hname. discriminate.
  Qed.

  Lemma out_names_good rs out : aggregate_o is_letter to_lower rs = Ok out -> Forall good_name out.
  Proof.
    intros Hagg.
    destruct (tag_totals is_letter to_lower dq_not_letter sq_not_letter lower_idem lower_scalar rs out Hagg) as (Hf & _ & _).
    apply Forall_forall. intros x Hx. unfold good_name.
    assert (Hne : stat_find (st_tag x) out <> None) by (apply stat_find_tags, in_map; exact Hx).
    rewrite Hf in Hne. unfold agg_expect in Hne.
    destruct (matching is_letter to_lower rs (st_tag x)) as [|m0 ms] eqn:Em; [congruence|]. clear Hne.
    assert (Hin : In m0 (matching is_letter to_lower rs (st_tag x))) by (rewrite Em; left; reflexivity).
    unfold matching in Hin. apply in_flat_map in Hin as (r & _ & Hin). apply in_map_iff in Hin as (e & _ & He).
    apply filter_In in He as (_ & Hc).
    apply (carries_iff to_lower) in Hc; [|apply entry_found_norm; assumption].
    destruct Hc as (t & Ht & Hk).
    assert (Hgood : ~ In ch_eq (t_name t)).
    { unfold entry_found in Ht. apply in_app_or in Ht as [Ht | Ht]; eapply found_name_no_eq; eassumption. }
    destruct Hk as [-> | ->]; [exact Hgood|].
    assert (Hnorm : tag_norm to_lower t).
    { pose proof (entry_found_norm is_letter to_lower lower_idem lower_scalar r e) as Hn.
      rewrite Forall_forall in Hn. apply Hn. exact Ht. }
    rewrite (bare_of_norm to_lower t Hnorm). exact Hgood.
  Qed.

  (* the reported list is STRICTLY increasing in name=value: no two keys are equal *)
  Theorem tag_totals_strict rs out : aggregate_o is_letter to_lower rs = Ok out -> StronglySorted key_lt out.
  Proof.
    intros Hagg.
    destruct (tag_totals is_letter to_lower dq_not_letter sq_not_letter lower_idem lower_scalar rs out Hagg) as (_ & Hs & Hn).
    apply sorted_strict; [eapply out_names_good; eassumption | exact Hn | exact Hs].
  Qed.

  (* hence the output does not depend on the order in which the Go maps are walked: ANY list holding the same
     dictionary (no key twice) and sorted by key is the model's output *)
  Theorem tag_totals_determined rs out out' : aggregate_o is_letter to_lower rs = Ok out ->
    NoDup (tags_of out') -> (forall k, stat_find k out' = stat_find k out) -> Sorted key_le out' -> out' = out.
  Proof.
    intros Hagg Hn' Hf' Hs'.
    destruct (tag_totals is_letter to_lower dq_not_letter sq_not_letter lower_idem lower_scalar rs out Hagg) as (Hf & Hs & Hn).
    pose proof (out_names_good rs out Hagg) as Hg.
    assert (Hmem : forall x, In x out' <-> In x out).
    { assert (Hdir : forall l1 l2, NoDup (tags_of l1) -> (forall k, stat_find k l1 = stat_find k l2) -> forall x, In x l1 -> In x l2).
      { intros l1 l2 Hn1 Hff x Hx. pose proof (stat_find_In l1 x Hn1 Hx) as E. rewrite Hff in E.
        apply stat_find_some in E as (y & Hy & E1 & E2 & E3). rewrite (stat_eta x y); auto. }
      intros x. split; [apply Hdir; auto | apply Hdir; auto]. }
    assert (Hg' : Forall good_name out').
    { rewrite Forall_forall in *. intros x Hx. apply Hg. apply Hmem. exact Hx. }
    symmetry. apply strongly_sorted_perm_unique.
    - apply sorted_strict; assumption.
    - apply sorted_strict; assumption.
    - apply NoDup_Permutation.
      + eapply NoDup_map_inv. exact Hn.
      + eapply NoDup_map_inv. exact Hn'.
      + intros x. symmetry. apply Hmem.
  Qed.
End Determined.

(* ---- the two extra table facts ---- *)

Lemma go_eq_not_letter : go_is_letter ch_eq = false.
Proof. vm_compute. reflexivity. Qed.

Lemma go_lower_not_eq r : go_to_lower r = ch_eq -> r = ch_eq.
Proof.
  intros H. destruct (N.eq_dec (go_to_lower r) r) as [E | E]; [congruence|]. exfalso.
  assert (Hc : negb (go_to_lower r =? ch_eq) = true).
  { apply (lower_table_forall (fun r => negb (go_to_lower r =? ch_eq)) unicode_lower go_steps_ok); [|exact E].
    vm_compute. reflexivity. }
  rewrite H in Hc. discriminate.
Qed.

(* Go's negated class [^D]* (D = the double quote) also matches a line feed: on text that is NOT a single line the matcher lets a quoted value span
   the line feed, where the specification treats the value as absent. No summary line contains a line feed
   (the parser splits at them), so this is outside every reachable input; it shows that the single-line
   hypothesis of find_tags_spec cannot be dropped. Witness: # a = D LF D *)
Lemma find_tags_multiline_differs :
  exists (s : list N) ts, spec_tags go_is_letter N rune_id s ts /\
                          map (match_view N rune_id) (find_all go_is_letter N rune_id s) <> ts.
Proof.
  exists [35; 97; 61; 34; 10; 34], [([97], [])]. split.
  - apply (STag _ _ _ _ _ _ [61; 34; 10; 34]).
    + change [35; 97; 61; 34; 10; 34] with (35 :: [97] ++ [61; 34; 10; 34]). constructor.
      * reflexivity.
      * discriminate.
      * repeat constructor.
      * vm_compute. reflexivity.
      * apply VAbsent.
        -- intros b r (e & q & cl & E & He & Hq & Hcl & Hb). injection E as <- <- E.
           destruct b as [|b0 b].
           ++ injection E as <- _. vm_compute in Hcl. discriminate.
           ++ injection E as <- _. inversion Hb; subst. destruct H1 as [_ H1]. apply H1. reflexivity.
        -- intros v r (e & E & _ & Hne & Ha & _). injection E as _ E. destruct v as [|v0 v]; [congruence|].
           injection E as <- _. inversion Ha; subst. vm_compute in H1. discriminate.
    + repeat (apply SSkip; [intros (h & c & r & E & Hh & _); injection E as <- _; vm_compute in Hh; discriminate|]).
      constructor.
  - vm_compute. discriminate.
Qed.

(* ===================================================================== *)
(* Part H — NewTagFromString on arbitrary strings (the --tag argument)   *)
(* ===================================================================== *)

Section QueryTag.
  Variable is_letter : N -> bool.
  Variable to_lower : N -> N.
  Hypothesis dq_not_letter : is_letter ch_dq = false.
  Hypothesis sq_not_letter : is_letter ch_sq = false.

  Lemma find_first_In s : forall m, find_first is_letter sym fst s = Some m ->
    exists pre post, s = pre ++ m_all m ++ post /\ match_shape is_letter m.
  Proof.
    induction s as [|c r IH]; intros m; [discriminate|]. cbn [find_first].
    destruct (match_at is_letter sym fst (c :: r)) as [[m0 rest]|] eqn:E.
    - intros [= <-]. destruct (match_at_shape is_letter _ _ _ E) as (Es & Hsh).
      exists [], rest. split; [exact Es | exact Hsh].
    - intros H. destruct (IH m H) as (pre & post & -> & Hsh). exists (c :: pre), post. split; [reflexivity | exact Hsh].
  Qed.

  Definition with_hash (s : bytes) : bytes :=
    match s with
    | c :: _ => if c =? ch_hash then s else ch_hash :: s
    | [] => [ch_hash]
    end.

  (* NewTagFromString: the leftmost match of the (hash-prefixed) string must span it; the result is the tag that
     match denotes; the call never panics *)
  Lemma new_tag_from_string_spec s :
    new_tag_from_string is_letter to_lower s =
    match find_first is_letter sym fst (decode_syms (with_hash s)) with
    | Some m => if Nat.eqb (length (raw (m_all m))) (length (with_hash s)) then Ok (Some (tag_of_match to_lower m)) else Ok None
    | None => Ok None
    end.
  Proof.
    unfold new_tag_from_string. cbv zeta.
    change (match s with [] => [ch_hash] | c :: _ => if c =? ch_hash then s else ch_hash :: s end) with (with_hash s).
    destruct (find_first is_letter sym fst (decode_syms (with_hash s))) as [m|] eqn:E; [|reflexivity].
    destruct (Nat.eqb (length (raw (m_all m))) (length (with_hash s))); [|reflexivity].
    destruct (find_first_In _ _ E) as (pre & post & Es & (h & g2 & Hall & Hh & Hne & Hname & Hv & Hg2)).
    pose proof (wf_decode_syms (with_hash s)) as Hwf. rewrite Es in Hwf. apply wf_syms_middle in Hwf.
    pose proof (wf_syms_ok _ Hwf) as Hok.
    assert (Hokv : Forall sym_ok (m_val m)).
    { rewrite Hall in Hok. inversion Hok; subst. apply Forall_app in H2 as [_ H2].
      destruct Hv as [[_ ->] | [(e & q & body & cl & -> & _) | (e & -> & _)]]; [constructor | inversion H2; assumption | inversion H2; assumption]. }
    destruct (tag_value_raw is_letter dq_not_letter sq_not_letter g2 (m_val m) Hokv Hv) as (Htv & Hnp).
    unfold new_tag_or_panic. rewrite Htv, Hnp. reflexivity.
  Qed.

  Lemma new_tag_from_string_total s : exists o, new_tag_from_string is_letter to_lower s = Ok o.
  Proof.
    rewrite new_tag_from_string_spec. destruct (find_first is_letter sym fst (decode_syms (with_hash s))) as [m|]; [|eauto].
    destruct (Nat.eqb (length (raw (m_all m))) (length (with_hash s))); eauto.
  Qed.
End QueryTag.
