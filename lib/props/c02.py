"""C02 — total, should-total and diff follow the specification's evaluation rules."""
import sys, os, datetime
sys.path.insert(0, os.path.dirname(os.path.dirname(os.path.abspath(__file__))))
from check import Suite
import specgen
from props.parsing import docs

EXPECT = {}

def gen_total(tier, rng):
    n = 1200 if tier == "quick" else 100000
    out = []
    for d in docs(rng, n, max_records=6, max_entries=8):
        if not d.records:
            continue
        # keep numbers inside int64 (beyond it: known finding K1)
        if any(abs(e.minutes()) > 10**14 for r in d.records for e in r.entries):
            continue
        # reference instant: on, one day after, or far from the date of some record
        r0 = rng.choice(d.records)
        y, m, dd = r0.ymd
        ok_date = 1 <= y <= 9998
        use_now = rng.random() < 0.6 and ok_date
        if ok_date:
            base = datetime.date(y, m, dd) + datetime.timedelta(days=rng.choice([0, 0, 1, 1, 2, -1]))
        else:
            base = datetime.date(2020, 6, 15)
        h, mi = rng.randrange(24), rng.randrange(60)
        req = "eval-total %d %d %d %d %d %d %s" % (base.year, base.month, base.day, h, mi, 1 if use_now else 0, d.render().hex())
        # what the specification says
        total = sum(r.total() for r in d.records)
        should = sum(r.should.mins() for r in d.records if r.should is not None)
        status = "ok"
        if use_now:
            now_off = h * 60 + mi
            for r in d.records:
                for e in r.entries:
                    if e.kind == "open":
                        try:
                            rd = datetime.date(*r.ymd)
                        except ValueError:
                            rd = None
                        if rd == base: end = now_off
                        elif rd is not None and rd + datetime.timedelta(days=1) == base: end = now_off + 1440
                        else: status = "err"; continue
                        if end < e.a.off: status = "err"
                        else: total += end - e.a.off
        EXPECT[req] = "err uncloseable" if status == "err" else "ok %d %d %d %d" % (total, should, total - should, len(d.records))
        out.append(req)
    return out

def oracle_total(req, out):
    want = EXPECT.get(req)
    if want is None: return None
    if out != want:
        return "klog total reports %r, the evaluation rules of the specification give %r" % (out, want)
    return None

def suites():
    return [
        Suite("total", gen_total, oracle=oracle_total,
              rule="`klog total --diff [--now]` on conforming documents (mixed +/-/0 durations, all shift combinations, open ranges, duplicate dates, missing/negative should-totals) at an instant on / one day after / away from a record's date; non-trivial = a total was reported",
              nontrivial=lambda r, o: o.startswith("ok")),
    ]
