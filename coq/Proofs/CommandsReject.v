(* CommandsReject: C04, the rejecting half for track, start, stop, switch and create — what the abstract model rejects,
   the command refuses with the same error class, and (by the definition of [exec]) the file stays as it was.
   (`pause`, which writes several times, is in Proofs/CommandsPauseReject.v.) *)
From Klog Require Import Base.Prelude Base.Utf8 Model.Calendar Model.Values Model.Record Model.Lines Model.Parser
  Model.Tags Model.Serialiser Model.Reconcile Model.Commands Proofs.Lines Proofs.Parser Proofs.TagsUtf8 Proofs.Calendar
  Proofs.Values Spec.Spec Proofs.SpecValues Proofs.SpecEntry Proofs.SpecRecord Proofs.SpecDoc Proofs.Print
  Proofs.Style Proofs.Reconcile Proofs.Commands Proofs.Rounding Proofs.CommandsSpec Proofs.CommandsRefine Proofs.CommandsStop
  Proofs.CommandsPause Proofs.CommandsArgs Proofs.CommandsHistory Proofs.CommandsTrackReject.
From Coq Require Import ZifyBool.
Open Scope Z_scope.

Lemma exec_of_simple_err now cfg c file e : is_pause_cmd c = false -> exec_simple now cfg c file = CErr e ->
  exec now cfg c file = (file, CErr e).
Proof. intros Hc H. destruct c; try discriminate Hc; unfold exec; rewrite H; reflexivity. Qed.

Lemma resolve_summary_err s cur prev e : resolve_summary s cur prev = CErr e -> e = CEManipulation.
Proof.
  unfold resolve_summary. destruct (s_text s).
  - destruct (s_resume s || negb (s_nth s =? 0)); [intros [= <-]; reflexivity|discriminate].
  - destruct (s_resume s && negb (s_nth s =? 0)); [intros [= <-]; reflexivity|].
    destruct (s_resume s).
    + destruct (find_nth_entry cur (-1)); [discriminate|]. destruct prev as [p|]; [destruct (find_nth_entry p (-1))|]; discriminate.
    + destruct (negb (s_nth s =? 0)); [|discriminate]. destruct (find_nth_entry cur (s_nth s)); [discriminate|intros [= <-]; reflexivity].
Qed.

Lemma resolve_summary_no_crash s cur prev : resolve_summary s cur prev <> CCrash.
Proof.
  unfold resolve_summary. destruct (s_text s).
  - destruct (s_resume s || negb (s_nth s =? 0)); discriminate.
  - destruct (s_resume s && negb (s_nth s =? 0)); [discriminate|].
    destruct (s_resume s).
    + destruct (find_nth_entry cur (-1)); [discriminate|]. destruct prev as [p|]; [destruct (find_nth_entry p (-1))|]; discriminate.
    + destruct (negb (s_nth s =? 0)); [|discriminate]. destruct (find_nth_entry cur (s_nth s)); discriminate.
Qed.

(* ---------------------------------------------------------------- start *)

Theorem start_rejects now cfg a s file recs d t e :
  spec_state file recs -> at_date now (a_date a) = Ok d -> at_time now cfg a = COk t ->
  valid_cdate (dt d) = true -> should_fits (cfg_should cfg) ->
  a_start cfg d (date_format cfg (a_date a)) t (time_format cfg a) s (denote_recs recs) = CErr e ->
  exec_simple now cfg (Start a s) file = CErr e.
Proof.
  intros (lead & gs & C & Hsafe) Hd Ht Hv Hsh Ha. unfold spec_file in C. unfold a_start in Ha.
  unfold exec_simple. rewrite Hd. cbn [of_outcome cbind]. rewrite Ht. cbn [cbind].
  rewrite (reconcile_file_one file _ _ _ _ (spec_file_parse file lead gs recs C)).
  set (rs := denote_recs recs) in *.
  destruct (find_record_idx (dt d) rs 0) as [i|] eqn:Hf.
  - destruct (find_record_idx_nth _ _ _ _ Hf) as (k & r & -> & Hn & _). cbn [Nat.add] in *. rewrite Hn in Ha.
    pose proof Hn as Hn'. unfold rs, denote_recs in Hn'. rewrite nth_error_map in Hn'. destruct (nth_error recs k) as [rg|] eqn:Hrg; [|discriminate].
    injection Hn' as <-.
    destruct (Forall2_nth_r _ _ _ _ _ (cf_groups _ _ _ _ C) Hrg) as (g & Hg & _).
    destruct (at_record_conforming _ lead gs recs (dt d) k rg g C Hf Hrg Hg) as (rc & Hrc & F).
    unfold first_creator, at_record. fold rs in Hrc. rewrite Hrc. cbn [flat_map app cbind].
    rewrite (arf_record _ _ _ _ _ _ _ _ F). unfold finish.
    destruct (existsb is_open (rec_entries (denote_record (fst rg)))) eqn:Eopen.
    + injection Ha as <-.
      destruct (resolve_summary s (denote_record (fst rg)) (previous_record (dt d) rs)) as [summary|e'|] eqn:Hres; cbn [cbind].
      * unfold start_open_range. rewrite (arf_record _ _ _ _ _ _ _ _ F).
        destruct (find_open_index (denote_record (fst rg)) =? -1) eqn:Eo; [|reflexivity].
        apply Z.eqb_eq, find_open_index_none in Eo. rewrite Eopen in Eo. discriminate.
      * rewrite (resolve_summary_err _ _ _ _ Hres). reflexivity.
      * exfalso. exact (resolve_summary_no_crash _ _ _ Hres).
    + destruct (resolve_summary s (denote_record (fst rg)) (previous_record (dt d) rs)) as [summary|e'|] eqn:Hres; cbn [cbind] in *; [discriminate| |discriminate].
      injection Ha as <-. reflexivity.
  - destruct (resolve_summary s _ (previous_record (dt d) rs)) as [summary|e'|] eqn:Hres; cbn [cbind] in Ha; [discriminate| |discriminate].
    injection Ha as <-.
    destruct (new_record_conforming _ lead gs recs d (date_format cfg (a_date a)) (cfg_should cfg) [] I4 C Hsafe Hv Hsh eq_refl eq_refl)
      as (rc & lead' & gs' & recs' & k & g_new & gap & Hrc & _).
    fold rs in Hrc. cbn [map] in Hrc.
    unfold first_creator, at_record, new_record. rewrite (find_record_idx_none_at _ _ _ Hf), Hrc. cbn [of_outcome flat_map app cbind].
    assert (Hrec : rc_record rc = {| rec_date := d; rec_should := cfg_should cfg; rec_summary := []; rec_entries := [] |}).
    { unfold reconciler_for_new_record in Hrc. cbv zeta in Hrc.
      destruct rs as [|r0 rs0]; [|destruct (negb _); [|destruct (nth_error _ _); [|discriminate]]];
        match type of Hrc with bind ?x _ = _ => destruct x; cbn [bind] in Hrc; [|discriminate|discriminate] end;
        injection Hrc as <-; reflexivity. }
    rewrite Hrec, Hres. reflexivity.
Qed.

(* ---------------------------------------------------------------- stop *)

Lemma end_first_open_none es end_ : existsb is_open es = false -> end_first_open es end_ = None.
Proof.
  induction es as [|e es IH]; [reflexivity|]. cbn [existsb]. intros H. apply orb_false_iff in H as [He H]. cbn [end_first_open].
  unfold is_open in He. destruct (e_value e); try discriminate; rewrite (IH H); reflexivity.
Qed.

Lemma close_rejects_chrono es end_ end' add : time_offset end' = time_offset end_ ->
  existsb is_open es = true -> a_close_entries es end' add = None -> end_first_open es end_ = Some None.
Proof.
  intros Hoff. induction es as [|e es IH]; [discriminate|]. cbn [existsb a_close_entries end_first_open]. intros Hex Ha.
  destruct (e_value e) as [dd|rr|o] eqn:Ev.
  - unfold is_open in Hex. rewrite Ev in Hex. cbn [orb] in Hex.
    destruct (a_close_entries es end' add) eqn:E; [discriminate|]. rewrite (IH Hex eq_refl). reflexivity.
  - unfold is_open in Hex. rewrite Ev in Hex. cbn [orb] in Hex.
    destruct (a_close_entries es end' add) eqn:E; [discriminate|]. rewrite (IH Hex eq_refl). reflexivity.
  - destruct (time_geb end' (o_start o)) eqn:G; [discriminate|]. unfold new_range.
    replace (time_geb end_ (o_start o)) with false; [reflexivity|]. unfold time_geb in *. rewrite <- Hoff. symmetry. exact G.
Qed.

Lemma close_at_record_rejects file lead gs recs dd i rg t' fmt add :
  conforms (lines_of file) lead gs recs ->
  find_record_idx dd (denote_recs recs) 0 = Some i -> nth_error recs i = Some rg ->
  a_close_in i t' fmt add (denote_recs recs) = None ->
  exists rc, reconciler_at_record dd (denote_recs recs) (expect_blocks 0 lead gs) = Some rc /\
             lift_r (close_open_range rc t' fmt add) = CErr CEManipulation.
Proof.
  intros C Hf Hrg Ha.
  destruct (Forall2_nth_r _ _ _ _ _ (cf_groups _ _ _ _ C) Hrg) as (g & Hg & _).
  destruct (at_record_conforming _ lead gs recs dd i rg g C Hf Hrg Hg) as (rc & Hrc & F).
  exists rc. split; [exact Hrc|].
  unfold a_close_in in Ha. rewrite (nth_error_denote_recs _ _ _ Hrg) in Ha. cbv zeta in Ha.
  set (r := denote_record (fst rg)) in *.
  set (end' := reformat_time t' fmt _) in Ha.
  destruct (a_close_entries (rec_entries r) end' add) eqn:Ecl; [discriminate|].
  assert (Hoff : time_offset end' = time_offset t').
  { unfold end', reformat_time. destruct (apply_reformat _ _); [|reflexivity]. rewrite !offset_spec. reflexivity. }
  unfold close_open_range. cbv zeta. rewrite (arf_record _ _ _ _ _ _ _ _ F). fold r.
  destruct (find_open_index r =? -1) eqn:Eo; [reflexivity|].
  assert (Hex : existsb is_open (rec_entries r) = true).
  { destruct (existsb is_open (rec_entries r)) eqn:Ex; [reflexivity|]. apply find_open_index_none in Ex. lia. }
  rewrite (close_rejects_chrono _ t' end' add Hoff Hex Ecl). reflexivity.
Qed.

Theorem stop_rejects now cfg a summary file recs d t y e :
  spec_state file recs -> at_date now (a_date a) = Ok d -> at_time now cfg a = COk t ->
  plus_days (dt d) (-1) = Ok y -> valid_cdate (dt d) = true ->
  a_stop (was_automatic a) d y t (time_format cfg a) (match summary with Some s => s | None => [] end) (denote_recs recs) = CErr e ->
  exec_simple now cfg (Stop a summary) file = CErr e.
Proof.
  intros (lead & gs & C & Hsafe) Hd Ht Hy Hvd Ha. unfold spec_file in C.
  rewrite (stop_unfold now cfg a summary file d t y _ _ Hd Ht Hy Hvd (spec_file_parse file lead gs recs C)). cbv zeta.
  unfold a_stop, a_close_or_fail in Ha.
  destruct (find_record_idx (dt d) (denote_recs recs) 0) as [i|] eqn:Hf.
  - destruct (a_close_in i t _ _ (denote_recs recs)) eqn:Hc; [discriminate|]. injection Ha as <-.
    destruct (find_record_idx_nth _ _ _ _ Hf) as (k & r & -> & Hn & _). cbn [Nat.add] in *.
    unfold denote_recs in Hn. rewrite nth_error_map in Hn. destruct (nth_error recs k) as [rg|] eqn:Hrg; [|discriminate].
    destruct (close_at_record_rejects file lead gs recs (dt d) k rg t _ _ C Hf Hrg Hc) as (rc & Hrc & Hrej).
    rewrite Hrc. unfold finish. rewrite Hrej. reflexivity.
  - rewrite (find_record_idx_none_at _ _ _ Hf).
    destruct (was_automatic a); [|injection Ha as <-; reflexivity].
    destruct (find_record_idx y (denote_recs recs) 0) as [i|] eqn:Hfy; [|rewrite (find_record_idx_none_at _ _ _ Hfy); injection Ha as <-; reflexivity].
    destruct (find_record_idx_nth _ _ _ _ Hfy) as (k & r & -> & Hn & _). cbn [Nat.add] in *.
    unfold denote_recs in Hn. rewrite nth_error_map in Hn. destruct (nth_error recs k) as [rg|] eqn:Hrg; [|discriminate].
    destruct (Forall2_nth_r _ _ _ _ _ (cf_groups _ _ _ _ C) Hrg) as (g & Hg & _).
    destruct (at_record_conforming _ lead gs recs y k rg g C Hfy Hrg Hg) as (rc0 & Hrc0 & _). rewrite Hrc0.
    destruct (stop_time (time_plus t 1440)) as [t'| |] eqn:Est; cbn [cbind] in *; [|injection Ha as <-; reflexivity|discriminate].
    destruct (a_close_in k t' _ _ (denote_recs recs)) eqn:Hc; [discriminate|]. injection Ha as <-.
    destruct (close_at_record_rejects file lead gs recs y k rg t' _ _ C Hfy Hrg Hc) as (rc & Hrc & Hrej).
    rewrite Hrc in Hrc0. injection Hrc0 as <-. unfold finish. rewrite Hrej. reflexivity.
Qed.

(* ---------------------------------------------------------------- switch *)

Theorem switch_rejects now cfg a s file recs d t e :
  spec_state file recs -> at_date now (a_date a) = Ok d -> at_time now cfg a = COk t -> valid_time t ->
  (forall rg, In rg recs -> open_entry_ok (fst rg)) ->
  a_switch d t (time_format cfg a) s (denote_recs recs) = CErr e ->
  exec_simple now cfg (Switch a s) file = CErr e.
Proof.
  intros (lead & gs & C & Hsafe) Hd Ht Hvt Hnb Ha. unfold spec_file in C. unfold a_switch in Ha.
  unfold exec_simple. rewrite Hd. cbn [of_outcome cbind]. rewrite Ht. cbn [cbind].
  rewrite reconcile_file_unfold, (spec_file_parse file lead gs recs C). cbn [cbind].
  set (rs := denote_recs recs) in *. set (fmt := time_format cfg a) in *.
  destruct (find_record_idx (dt d) rs 0) as [i|] eqn:Hf.
  - destruct (find_record_idx_nth _ _ _ _ Hf) as (k & r & -> & Hn & _). cbn [Nat.add] in *. rewrite Hn in Ha.
    pose proof Hn as Hn'. unfold rs, denote_recs in Hn'. rewrite nth_error_map in Hn'. destruct (nth_error recs k) as [rg|] eqn:Hrg; [|discriminate].
    injection Hn' as <-.
    destruct (a_close_in k t fmt [] rs) as [rs1|] eqn:Hc.
    + destruct (close_at_record_state file lead gs recs (dt d) k rg t fmt [] rs1 C Hsafe Hf Hrg Hvt ltac:(split; [exact I|reflexivity]) (Hnb rg (nth_error_In _ _ Hrg)) Hc)
        as (rc & rc' & g & g' & r1 & Hrc & Hg & F & Hclose & C' & S' & Hden & Hst' & Hlast' & Hind1 & Hne1 & Hne & Hadd0).
      destruct (Hadd0 eq_refl) as (_ & _ & _ & Hsums & _). cbn [map] in Hclose.
      assert (Hk : (k < length recs)%nat) by (apply nth_error_Some; congruence).
      assert (Hn1 : nth_error rs1 k = Some (denote_record r1)).
      { rewrite <- Hden, denote_recs_set_nth, nth_error_set_nth by (unfold denote_recs; rewrite map_length; exact Hk). rewrite Nat.eqb_refl. reflexivity. }
      rewrite Hn1 in Ha.
      destruct (resolve_summary s (denote_record r1) None) as [summary|e'|] eqn:Hres; cbn [cbind] in Ha; [discriminate| |discriminate].
      injection Ha as <-.
      unfold first_creator, at_record. fold rs in Hrc. rewrite Hrc. cbn [flat_map app cbind run_steps fold_left].
      fold fmt. rewrite Hclose. cbn [lift_r cbind].
      rewrite (resolve_summary_ext s (rc_record rc') (denote_record r1) None Hsums), Hres. reflexivity.
    + injection Ha as <-.
      destruct (close_at_record_rejects file lead gs recs (dt d) k rg t fmt [] C Hf Hrg Hc) as (rc & Hrc & Hrej).
      unfold first_creator, at_record. fold rs in Hrc. rewrite Hrc. cbn [flat_map app cbind run_steps fold_left].
      fold fmt. rewrite Hrej. reflexivity.
  - injection Ha as <-. unfold first_creator, at_record. rewrite (find_record_idx_none_at _ _ _ Hf). reflexivity.
Qed.

(* ---------------------------------------------------------------- every command but pause: what the model rejects fails *)

Definition rejecting (sc : scommand) : bool :=
  match sc with SPause _ _ _ _ => false | _ => true end.

Theorem exec_rejects now cfg sc file recs e : rejecting sc = true ->
  spec_state file recs -> step_pre now cfg sc recs ->
  a_exec now cfg sc (denote_recs recs) = CErr e ->
  exec now cfg (to_command sc) file = (file, CErr e).
Proof.
  intros Hr S Hpre Ha. destruct sc as [ds se|a s|a add_r|a s|ds should srunes|sr no_tags extend ticks]; try discriminate Hr;
    cbn [a_exec to_command step_pre] in *.
  - (* track: the only rejection is a second open range, caught by the safeguard re-parse *)
    destruct Hpre as (Hv & Hsh & We & Hcr).
    destruct (at_date now ds) as [d| |] eqn:Hd; cbn [of_outcome cbind] in Ha; [|discriminate|discriminate].
    unfold a_track in Ha.
    assert (Hex : is_open (denote_entry se) = true /\ existsb is_open (entries_before (dt d) (denote_recs recs)) = true /\ e = CEInvalidResult).
    { unfold entries_before. destruct (find_record_idx (dt d) (denote_recs recs) 0) as [i|]; [|discriminate Ha].
      destruct (nth_error (denote_recs recs) i) as [r|]; [|discriminate Ha].
      destruct (is_open (denote_entry se)); [|discriminate Ha]. destruct (existsb is_open (rec_entries r)); [|discriminate Ha].
      injection Ha as <-. auto. }
    destruct Hex as (Ho & Hex & ->).
    exact (track_second_open_rejects now cfg ds file recs d se S Hd (at_date_valid now _ d Hv Hd) Hsh We Hcr Ho Hex).
  - apply exec_of_simple_err; [reflexivity|]. destruct Hpre as (Hv & Hsh & Hvt & Hsa & Hncr).
    destruct (at_date now (a_date a)) as [d| |] eqn:Hd; cbn [of_outcome cbind] in Ha; [|discriminate|discriminate].
    destruct (at_time now cfg a) as [t|e'|] eqn:Ht; cbn [cbind] in Ha; [| |discriminate].
    + exact (start_rejects now cfg a s file recs d t e S Hd Ht (at_date_valid now _ d Hv Hd) Hsh Ha).
    + injection Ha as <-. unfold exec_simple. rewrite Hd. cbn [of_outcome cbind]. rewrite Ht. reflexivity.
  - apply exec_of_simple_err; [reflexivity|]. destruct Hpre as (Hv & Hvt & Hadd & Hnb).
    destruct (at_date now (a_date a)) as [d| |] eqn:Hd; cbn [of_outcome cbind] in Ha; [|discriminate|discriminate].
    destruct (at_time now cfg a) as [t|e'|] eqn:Ht; cbn [cbind] in Ha; [| |discriminate].
    + destruct (plus_days (dt d) (-1)) as [y| |] eqn:Hy; cbn [of_outcome cbind] in Ha; [|discriminate|discriminate].
      apply (stop_rejects now cfg a (option_map (map utf8_encode) add_r) file recs d t y e S Hd Ht Hy (at_date_valid now _ d Hv Hd)).
      destruct add_r; exact Ha.
    + injection Ha as <-. unfold exec_simple. rewrite Hd. cbn [of_outcome cbind]. rewrite Ht. reflexivity.
  - apply exec_of_simple_err; [reflexivity|]. destruct Hpre as (Hvt & Hnb & Hsa & Hncr).
    destruct (at_date now (a_date a)) as [d| |] eqn:Hd; cbn [of_outcome cbind] in Ha; [|discriminate|discriminate].
    destruct (at_time now cfg a) as [t|e'|] eqn:Ht; cbn [cbind] in Ha; [| |discriminate].
    + exact (switch_rejects now cfg a s file recs d t e S Hd Ht (at_time_valid now cfg a t Hvt Ht) Hnb Ha).
    + injection Ha as <-. unfold exec_simple. rewrite Hd. cbn [of_outcome cbind]. rewrite Ht. reflexivity.
  - (* create: the model never rejects *)
    destruct (at_date now ds) as [d| |]; cbn [of_outcome cbind] in Ha; discriminate Ha.
Qed.

(* ---------------------------------------------------------------- why the guards of C04 are there: two witnesses *)

Definition records_of (o : outcome parse_result) : option (list record) :=
  match o with Ok (Parsed rs _) => Some rs | _ => None end.

Definition w_now : Commands.clock := {| now_date := {| c_year := 2020; c_month := 1; c_day := 1 |}; now_h := 9; now_m := 30 |}.
Definition w_cfg : config := {| cfg_round := None; cfg_should := None; cfg_dashes := None; cfg_24h := None |}.
Definition w_args : at_args := {| a_date := DDefault; a_time := None; a_round := None |}.

(* [last_line_safe]: a file whose last line lacks its newline and ends in a carriage return. `track` gives that line a
   bare LF; CR LF then reads as the line ending, and the summary of the EXISTING entry loses its last character *)
Definition w_file_cr : bytes := b!"2020-01-01
  1h foo" ++ [13%N].

Lemma last_line_cr_witness :
  exists file', exec_simple w_now w_cfg (Track DDefault [b!"2h"]) w_file_cr = COk file' /\
    option_map (map (fun r => map e_summary (rec_entries r))) (records_of (parse_text w_file_cr)) = Some [[[b!"foo" ++ [13%N]]]] /\
    option_map (map (fun r => map e_summary (rec_entries r))) (records_of (parse_text file')) = Some [[[b!"foo"]; [[]]]].
Proof. eexists. split; [vm_compute; reflexivity|]. split; vm_compute; reflexivity. Qed.

(* [open_entry_ok]: two files that parse to the SAME records - an open range with and without a blank after the
   placeholder - on which the same `stop --summary x` yields DIFFERENT records: no model on parsed records can be exact *)
Definition w_file_blank : bytes := b!"2020-01-01
  8:00 - ? 
".
Definition w_file_noblank : bytes := b!"2020-01-01
  8:00 - ?
".

Lemma trailing_blank_witness :
  records_of (parse_text w_file_blank) = records_of (parse_text w_file_noblank) /\
  records_of (parse_text w_file_blank) <> None /\
  exists f1 f2, exec_simple w_now w_cfg (Stop w_args (Some [b!"x"])) w_file_blank = COk f1 /\
                exec_simple w_now w_cfg (Stop w_args (Some [b!"x"])) w_file_noblank = COk f2 /\
                option_map (map (fun r => map e_summary (rec_entries r))) (records_of (parse_text f1)) = Some [[[b!" x"]]] /\
                option_map (map (fun r => map e_summary (rec_entries r))) (records_of (parse_text f2)) = Some [[[b!"x"]]].
Proof.
  split; [vm_compute; reflexivity|]. split; [vm_compute; discriminate|].
  eexists; eexists. split; [vm_compute; reflexivity|]. split; [vm_compute; reflexivity|]. split; vm_compute; reflexivity.
Qed.
