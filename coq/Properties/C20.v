(* C20 — the JSON output is well-formed and faithful to the data.
   Property theorems only; each is closed by [exact <lemma>] and followed by Print Assumptions.

   Model: Model/JsonView.v on top of Model/Json.v (Go's encoding/json), Model/Parser.v, Model/Eval.v, Model/Tags.v.
     [to_json file result pretty]     the text `klog json [--pretty] file` prints (without the final newline) for a file
                                      at path [file] whose parse result is [result]; [to_json_inputs] for several files;
     [document inputs]                (Proofs/JsonView.v) the JSON value handed to the encoder, as a pure function;
     [inputs_fit inputs]              no total / diff of any record leaves safemath's range (otherwise klog panics: K1);
     [san v]                          v with every string passed through string([]rune(s)) (invalid bytes -> U+FFFD);
     [of_document], [of_view]         the decoding of the record objects; [data_of] the record without the notation JSON
                                      never shows (dash spacing, placeholder length, explicit + / signed zero);
     [terminal_report], [read_block]  the report every other command prints for the same errors (colours off) and the
                                      numbers a reader takes from one of its blocks.
   All theorems are unconditional in the file contents (every byte string). *)
From Klog Require Import Base.Prelude Base.Utf8 Model.Calendar Model.Values Model.Record Model.Lines Model.Parser
  Model.Eval Model.Tags Model.Json Model.JsonView.
From Klog Require Import Proofs.Values Proofs.Json Proofs.JsonView.
Open Scope Z_scope.

(* ---------------------------------------------------------------- 1. one well-formed document, always *)

(* the command never ends in an error value; it prints the document, or panics with an integer overflow — and it
   panics exactly when there is no syntax error and some record does not fit (known finding K1) *)
Theorem C20_total : forall inputs pretty,
  (inputs_fit inputs = true /\ to_json_inputs inputs pretty = Ok (print_doc pretty (document inputs))) \/
  (inputs_fit inputs = false /\ to_json_inputs inputs pretty = Crash CIntegerOverflow).
Proof. exact to_json_total. Qed.
Print Assumptions C20_total.

(* whatever is printed — compact or pretty, with or without the newline of stdout — is accepted by the JSON parser
   and is read as the document, invalid UTF-8 replaced by U+FFFD. No hypothesis on the inputs: any parse results,
   any file names, summaries with quotes, backslashes, control characters, <>&, non-ASCII, invalid bytes. *)
Theorem C20_wellformed : forall inputs pretty out, to_json_inputs inputs pretty = Ok out ->
  view_inputs inputs = Ok (document inputs) /\ out = print_doc pretty (document inputs) /\
  parse_json out = Ok (san (document inputs)) /\ parse_json (json_stdout out) = Ok (san (document inputs)).
Proof. exact wellformed_inputs. Qed.
Print Assumptions C20_wellformed.

(* for files the parser has read (it replaces invalid bytes itself) and paths in valid UTF-8 (all that kong lets
   through) nothing is replaced: the reader gets exactly the document *)
Theorem C20_wellformed_exact : forall inputs pretty out,
  Forall parsed_input inputs -> to_json_inputs inputs pretty = Ok out ->
  parse_json out = Ok (document inputs) /\ parse_json (json_stdout out) = Ok (document inputs).
Proof. exact wellformed_parsed. Qed.
Print Assumptions C20_wellformed_exact.

(* what the encoder + decoder do to ANY byte string, and that this is the identity exactly on valid UTF-8 *)
Theorem C20_string_codec : forall s,
  decode_string (encode_string s) = Ok (sanitize s) /\ valid_utf8 (sanitize s) /\ (valid_utf8 s -> sanitize s = s).
Proof. intros s. split; [apply json_string_roundtrip_any | split; [apply sanitize_valid | apply sanitize_id]]. Qed.
Print Assumptions C20_string_codec.

(* ---------------------------------------------------------------- 2. exactly one of records / errors *)

Theorem C20_envelope_xor : forall inputs,
  exists recs errs, document inputs = JObj [(k_records, recs); (k_errors, errs)] /\
    ((errs = JNull /\ exists l, recs = JArr l /\ l = map record_obj (all_records inputs) /\ all_errors inputs = []) \/
     (recs = JNull /\ exists l, errs = JArr l /\ l <> [] /\ l = map error_view (all_errors inputs))).
Proof. exact envelope_xor_inputs. Qed.
Print Assumptions C20_envelope_xor.

(* ---------------------------------------------------------------- 3. the record objects determine the data *)

(* a record object decodes to the data of its record (date, should-total, summary lines, tags, and per entry its
   type, summary lines, tags, start/end times with their notation, minutes), for every well-formed record *)
Theorem C20_records_faithful : forall r v, wf_record r -> record_view r = Ok v -> of_view v = Some (data_of r).
Proof. exact records_faithful_record. Qed.
Print Assumptions C20_records_faithful.

(* every record the parser returns is well-formed in that sense, whatever the text *)
Theorem C20_parsed_records_wf : forall s rs bs, parse_text s = Ok (Parsed rs bs) -> Forall wf_record rs.
Proof. exact parsed_records_wf. Qed.
Print Assumptions C20_parsed_records_wf.

(* end to end: text -> parser -> klog json -> JSON parser -> decoding = the data of the parsed records, in order *)
Theorem C20_records_faithful_end_to_end : forall s file rs bs pretty out,
  parse_text s = Ok (Parsed rs bs) -> valid_utf8 file -> to_json file (Parsed rs bs) pretty = Ok out ->
  exists v, parse_json out = Ok v /\ of_document v = Some (map data_of rs).
Proof. exact records_faithful_file. Qed.
Print Assumptions C20_records_faithful_end_to_end.

Theorem C20_records_faithful_files : forall inputs pretty out,
  Forall parsed_input inputs -> all_errors inputs = [] -> to_json_inputs inputs pretty = Ok out ->
  exists v, parse_json out = Ok v /\ of_document v = Some (map data_of (all_records inputs)).
Proof. exact records_faithful_files. Qed.
Print Assumptions C20_records_faithful_files.

(* [data_of] forgets only notation: equal data = equal date, should-total, summary and, entry by entry, equal
   summary and equal value up to dash spacing / placeholder length / sign notation of a duration *)
Theorem C20_data_of_forgets_only_notation : forall r1 r2, data_of r1 = data_of r2 <->
  rec_date r1 = rec_date r2 /\ rec_should r1 = rec_should r2 /\ rec_summary r1 = rec_summary r2 /\
  Forall2 (fun e1 e2 => same_value (e_value e1) (e_value e2) /\ e_summary e1 = e_summary e2) (rec_entries r1) (rec_entries r2).
Proof. exact data_of_injective. Qed.
Print Assumptions C20_data_of_forgets_only_notation.

(* ---------------------------------------------------------------- 4. arithmetic *)

(* the guard, exactly: a record is rendered iff every addition of its running total, and total - should, stay within
   safemath's range [-(2^63-1), 2^63-1]; otherwise service.Total / service.Diff panic *)
Theorem C20_overflow_guard : forall r,
  record_view r = if record_fits r then Ok (record_obj r) else Crash CIntegerOverflow.
Proof. exact record_view_spec. Qed.
Print Assumptions C20_overflow_guard.

(* under the guard: total_mins = sum of the entries' total_mins, diff_mins = total_mins - should_total_mins,
   a range's total_mins = end_mins - start_mins (read off the JSON members) *)
Theorem C20_json_arithmetic : forall r v, record_view r = Ok v ->
  exists es,
    arr_field k_entries v = Some es /\
    num_field k_total_mins v = Some (total_of r) /\
    num_field k_should_total_mins v = Some (should_minutes r) /\
    num_field k_diff_mins v = Some (diff_of r) /\
    all_some (map (num_field k_total_mins) es) = Some (entry_mins r) /\
    total_of r = list_sum (entry_mins r) /\
    diff_of r = total_of r - should_minutes r /\
    Forall (fun e => str_field k_type e = Some ty_range ->
              exists a b, num_field k_start_mins e = Some a /\ num_field k_end_mins e = Some b /\
                          num_field k_total_mins e = Some (b - a)) es.
Proof. exact arithmetic_record. Qed.
Print Assumptions C20_json_arithmetic.

(* ---------------------------------------------------------------- 5. errors: the same numbers and message as the terminal *)

Theorem C20_error_views : forall s file es, parse_text s = Ok (Failed es) -> no_lf file ->
  document [(file, Failed es)] = envelope JNull (JArr (map (fun e => error_view (file, e)) es)) /\
  Forall (fun e => let v := error_view (file, e) in
            num_field k_line v = Some (Z.of_nat (re_line e) + 1) /\
            num_field k_column v = Some (re_pos e + 1) /\
            num_field k_length v = Some (re_len e) /\
            str_field k_title v = Some (error_title (re_code e)) /\
            str_field k_details v = Some (error_details (re_code e)) /\
            str_field k_file v = Some file) es /\
  exists blocks, terminal_report (map (fun e => (file, e)) es) = Ok (List.concat blocks) /\
                 Forall2 (numbers_agree file) es blocks /\
                 Forall2 ends_with_message es blocks.
Proof. exact error_views_file. Qed.
Print Assumptions C20_error_views.

(* ---------------------------------------------------------------- non-vacuity *)

Definition ex_valid : bytes :=
  b!"2000-12-31 (7h30m!)
Hello #World
What's ""up"" <b> & \n?
    2h3m #some #thing
    <23:44 - 5:23
    0:28> - ? Started #todo=nr4
        still on #it
    1m invalid byte: " ++ [255%N; 10%N].

Definition ex_file : bytes := b!"/x/f.klg".

(* the hypotheses of C20_records_faithful_end_to_end are met by a file with a quote, a backslash, <>&, an invalid
   byte, all three entry types and a should-total; the decoded data has 1 record with 4 entries, and the arithmetic
   members are 463 = 123 + 339 + 0 + 1, 13 = 463 - 450, 339 = 323 - (-16) *)
Definition ex_rs : list record := match parse_text ex_valid with Ok (Parsed rs _) => rs | _ => [] end.
Definition ex_bs : list block := match parse_text ex_valid with Ok (Parsed _ bs) => bs | _ => [] end.

Example C20_nonvacuous_valid :
  exists out v, parse_text ex_valid = Ok (Parsed ex_rs ex_bs) /\ to_json ex_file (Parsed ex_rs ex_bs) false = Ok out /\
    parse_json out = Ok v /\ of_document v = Some (map data_of ex_rs) /\ length ex_rs = 1%nat /\
    map (fun r => length (rec_entries r)) ex_rs = [4%nat] /\ map total_of ex_rs = [463] /\ map diff_of ex_rs = [13] /\
    map entry_mins ex_rs = [[123; 339; 0; 1]] /\ forallb record_fits ex_rs = true /\ Forall wf_record ex_rs.
Proof.
  assert (E : parse_text ex_valid = Ok (Parsed ex_rs ex_bs)) by (vm_compute; reflexivity).
  assert (Hout : exists out, to_json ex_file (Parsed ex_rs ex_bs) false = Ok out) by (eexists; vm_compute; reflexivity).
  destruct Hout as (out & Hout).
  destruct (records_faithful_file ex_valid ex_file ex_rs ex_bs false out E eq_refl Hout) as (v & Hv & Hd).
  exists out, v. repeat split; try assumption; try (vm_compute; reflexivity).
  exact (parsed_records_wf _ _ _ E).
Qed.

(* an invalid file: two errors, the numbers of the JSON objects are those read off the terminal report *)
Definition ex_invalid : bytes := b!"2018-99-99
 asdf
".

Definition ex_es : list rerr := match parse_text ex_invalid with Ok (Failed es) => es | _ => [] end.
Definition ex_blocks : list bytes :=
  match map_o report_block (map (fun e => (ex_file, e)) ex_es) with Ok b => b | _ => [] end.

Example C20_nonvacuous_errors :
  parse_text ex_invalid = Ok (Failed ex_es) /\ no_lf ex_file /\
  map (fun e => num_field k_line (error_view (ex_file, e))) ex_es = [Some 1; Some 2] /\
  map (fun e => num_field k_column (error_view (ex_file, e))) ex_es = [Some 1; Some 1] /\
  map (fun e => num_field k_length (error_view (ex_file, e))) ex_es = [Some 10; Some 5] /\
  map_o report_block (map (fun e => (ex_file, e)) ex_es) = Ok ex_blocks /\
  terminal_report (map (fun e => (ex_file, e)) ex_es) = Ok (List.concat ex_blocks) /\
  map read_block ex_blocks = [Some {| rn_line := 1; rn_offset := 0; rn_count := 10 |};
                              Some {| rn_line := 2; rn_offset := 0; rn_count := 5 |}].
Proof.
  split; [vm_compute; reflexivity|]. split; [intros H; vm_compute in H; intuition discriminate|].
  split; [vm_compute; reflexivity|]. split; [vm_compute; reflexivity|]. split; [vm_compute; reflexivity|].
  split; [vm_compute; reflexivity|]. split; [vm_compute; reflexivity | vm_compute; reflexivity].
Qed.

(* the overflow guard is not vacuous either way: two entries of 2^63-1 and 1 minutes parse, and klog json panics (K1) *)
Example C20_overflow_refuted_witness :
  exists rs bs, parse_text b!"2020-01-01
    9223372036854775807m
    1m
" = Ok (Parsed rs bs) /\ to_json ex_file (Parsed rs bs) false = Crash CIntegerOverflow.
Proof. eexists. eexists. split; [vm_compute; reflexivity | vm_compute; reflexivity]. Qed.

(* an invalid file NAME (only reachable through the ToJson API: kong replaces such bytes before klog sees them)
   comes out as the escape backslash-u-fffd and is read back as U+FFFD *)
Definition ex_bad_name : bytes := [102; 255; 46; 107]%N.

Example C20_invalid_utf8_name :
  exists out, to_json ex_bad_name (Failed ex_es) false = Ok out /\
    parse_json out = Ok (san (document [(ex_bad_name, Failed ex_es)])) /\
    sanitize ex_bad_name = [102; 239; 191; 189; 46; 107]%N /\
    encode_string ex_bad_name = b!"""f\ufffd.k""" /\
    str_field k_file (error_view (sanitize ex_bad_name, hd {| re_line := 0; re_pos := 0; re_len := 0; re_code := ErrorInvalidDate; re_text := [] |} ex_es))
      = Some [102; 239; 191; 189; 46; 107]%N.
Proof.
  assert (H : exists out, to_json ex_bad_name (Failed ex_es) false = Ok out) by (eexists; vm_compute; reflexivity).
  destruct H as (out & H). exists out. split; [exact H|].
  split; [exact (proj1 (proj2 (proj2 (wellformed_inputs [(ex_bad_name, Failed ex_es)] false out H))))|].
  split; [vm_compute; reflexivity|]. split; [vm_compute; reflexivity | vm_compute; reflexivity].
Qed.
