(* Extraction of the executable model. ExtrOcamlBasic only: bool, option, list, prod, unit, sumbool
   map to OCaml's; N, Z, positive, nat stay Coq's inductive types.
   One Extract Constant: Coq's List.rev is the quadratic textbook definition (rev l ++ [x]); it is
   replaced by OCaml's List.rev (same function, linear). Nothing else is replaced. *)
From Coq Require Import Extraction ExtrOcamlBasic List.
From Klog Require Import Model.Dispatch.
Extract Constant rev => "List.rev".
Extraction "model.ml" dispatch.
