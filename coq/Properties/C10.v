(* C10 — syntax errors are reported at the right place.
   Property theorems only; each is closed by [exact <lemma>] and followed by Print Assumptions.
   The model is the parser after the fixes F3 and F9 (Model/Parser.v); both theorems hold for EVERY byte string.
   Not here: first_error_at_fault (needs the specification Spec.v), renderings_agree (renderer models). *)
From Coq Require Import Sorted.
From Klog Require Import Base.Prelude Base.Utf8 Model.Lines Model.Parser Proofs.Lines Proofs.Parser.
Open Scope nat_scope.

(* every reported error names a line that exists in the text and quotes exactly that line's text;
   position and length are non-negative and the span ends at most one character past the end of the line
   (positions count runes of the quoted text, as Go's []rune(line.Text)) *)
Theorem C10_errors_located : forall (s : bytes) (es : list rerr), parse_text s = Ok (Failed es) ->
  Forall (fun e =>
    re_line e < length (lines_of s) /\
    (exists l, nth_error (lines_of s) (re_line e) = Some l /\ l_text l = re_text e) /\
    (0 <= re_pos e /\ 0 <= re_len e /\
     re_pos e + re_len e <= Z.of_nat (length (utf8_decode (re_text e))) + 1)%Z) es.
Proof. exact errors_located. Qed.
Print Assumptions C10_errors_located.

(* an error never points at a blank line (blank lines belong to no record) *)
Theorem C10_errors_on_significant_lines : forall (s : bytes) (es : list rerr), parse_text s = Ok (Failed es) ->
  Forall (fun e => is_blank_text (re_text e) = false) es.
Proof. exact errors_on_significant_lines. Qed.
Print Assumptions C10_errors_on_significant_lines.

(* errors come in ascending line order *)
Theorem C10_errors_ascending : forall (s : bytes) (es : list rerr), parse_text s = Ok (Failed es) ->
  Sorted le (map re_line es).
Proof. exact errors_ascending. Qed.
Print Assumptions C10_errors_ascending.

(* the same with every pair compared (StronglySorted), and said with indices *)
Theorem C10_errors_ascending_strong : forall (s : bytes) (es : list rerr), parse_text s = Ok (Failed es) ->
  StronglySorted le (map re_line es).
Proof. exact errors_ascending_strong. Qed.
Print Assumptions C10_errors_ascending_strong.

Theorem C10_errors_ascending_nth : forall (s : bytes) (es : list rerr) (i j : nat),
  parse_text s = Ok (Failed es) -> i <= j -> j < length es ->
  nth i (map re_line es) 0 <= nth j (map re_line es) 0.
Proof. exact errors_ascending_nth. Qed.
Print Assumptions C10_errors_ascending_nth.

(* non-vacuity: example_faulty has five errors on lines 1, 2, 3, 8, 10; the first one sits one past the end of
   its line (position 14 = length of "2020-01-01 (8h", length 1), so the "+ 1" of the bound is attained *)
Example C10_nonvacuous :
  exists es, parse_text example_faulty = Ok (Failed es) /\
    map re_line es = [1; 2; 3; 8; 10] /\
    map re_pos es = [14; 0; 4; 11; 4]%Z /\ map re_len es = [1; 2; 9; 1; 9]%Z.
Proof. eexists; vm_compute; repeat split. Qed.
