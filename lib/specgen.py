"""specgen — documents generated from klog's file-format specification (Specification.md v1.4),
together with what they denote, written independently of the parser and of the Coq model.

A document is built from an AST; `render` gives the bytes, `expect_records` the canonical record lines the
harness prints for the data the text denotes (same format as Model/ShowRecord.v / harness showRecord).
`inject_fault` applies one MUST-violating edit and returns the 1-based line on which the text stops conforming.
"""
import random

def hx(b):
    return b.hex() if b else "-"

def dim(y, m):
    if m == 2:
        return 29 if (y % 4 == 0 and y % 100 != 0) or y % 400 == 0 else 28
    return 30 if m in (4, 6, 9, 11) else 31

# ------------------------------------------------------------------ values

class Time:
    def __init__(self, rng, lo=-1440, hi=2879):
        off = rng.choice([lo, hi, 0, 1439, 1440, -1, rng.randint(lo, hi), rng.randint(0, 1439), rng.randint(0, 1439)])
        off = max(lo, min(hi, off))
        self.off = off
        self.shift = -1 if off < 0 else (1 if off >= 1440 else 0)
        m = off - self.shift * 1440
        self.h, self.mi = divmod(m, 60)
        self.is24 = rng.random() < 0.7
        # spelling
        self.pad = rng.random() < 0.3
        self.use2400 = False
        if self.is24 and self.h == 0 and self.mi == 0 and self.shift >= 0 and rng.random() < 0.5:
            self.use2400 = True   # 0:00 == <24:00 ; 0:00> == 24:00

    def text(self):
        if self.use2400:
            return ("<" if self.shift == 0 else "") + "24:00"
        if self.is24:
            hs = "%02d" % self.h if self.pad else "%d" % self.h
            core = "%s:%02d" % (hs, self.mi)
        else:
            h12 = 12 if self.h % 12 == 0 else self.h % 12
            hs = "%02d" % h12 if self.pad else "%d" % h12
            core = "%s:%02d%s" % (hs, self.mi, "am" if self.h < 12 else "pm")
        return ("<" if self.shift < 0 else "") + core + (">" if self.shift > 0 else "")

    def show(self):
        return "%d.%d.%d.%d" % (self.h, self.mi, self.shift, 1 if self.is24 else 0)

def dur_to_string(mins, plus, zsign):
    if mins == 0:
        return ("-" if zsign < 0 else "+" if zsign > 0 else "") + "0m"
    a = abs(mins)
    s = "-" if mins < 0 else ("+" if plus else "")
    if a // 60: s += "%dh" % (a // 60)
    if a % 60: s += "%dm" % (a % 60)
    return s

class Dur:
    def __init__(self, rng, small=False):
        self.sign = rng.choice(["", "", "+", "-"])
        layout = rng.choice(["hm", "h", "m"])
        big = (not small) and rng.random() < 0.05
        self.h = self.m = None
        if layout in ("hm", "h"):
            self.h = rng.choice([0, 1, 8, 24, 50, rng.randrange(0, 200), 10**12 if big else 3])
        if layout == "hm":
            self.m = rng.randrange(0, 60)
        if layout == "m":
            self.m = rng.choice([0, 1, 59, 60, 90, 119, rng.randrange(0, 1000), 10**15 if big else 7])
        self.zh = rng.choice(["", "", "", "0", "00"])
        self.zm = rng.choice(["", "", "", "0"])

    def text(self):
        s = self.sign
        if self.h is not None: s += self.zh + "%dh" % self.h
        if self.m is not None: s += self.zm + "%dm" % self.m
        return s

    def mins(self):
        v = (self.h or 0) * 60 + (self.m or 0)
        return -v if self.sign == "-" else v

    def tostring(self):
        v = self.mins()
        zs = 0
        if v == 0 and self.sign:
            zs = -1 if self.sign == "-" else 1
        return dur_to_string(v, self.sign == "+", zs)

SUMMARY_WORDS = ["foo", "bar", "#tag", "#Tag=1", '#p="a b"', "Lunch", "meeting", "with", "é", "読む", "ß", "😀", "x y", "-", "1h", "8:00", "8:00-9:00",
                 "2020-01-01", "(", "!)", "?", "a\tb", "\u3000z", "\u00a0", "#x=", "'q'", "\\", "<tag>", "&", "%d", "\x1b[1m", "\x00", "\x7f", "~", "�", "end.", "\u2028sep", "\x0cpage", "\x0bvt", "\u0085nel", "\u2029para", "\ufeffbom", "\u200bzw", "\\u003c", "\\u0026x\\u003e", "\\t", "\\\""]

ZS = " \u00a0\u1680\u2000\u2001\u2002\u2003\u2004\u2005\u2006\u2007\u2008\u2009\u200a\u202f\u205f\u3000"

def summary_text(rng, allow_lead_blank=False):
    n = rng.choice([1, 1, 2, 3, 5])
    s = " ".join(rng.choice(SUMMARY_WORDS) for _ in range(n))
    while s and (s[0] in ZS or s[0] == "\t"):      # summary lines must not start with a blank character
        s = s[1:]
    if not s or all(c in ZS or c == "\t" for c in s):  # ... nor consist of blank characters only
        s = "x" + s
    if rng.random() < 0.012:
        # lines made only of control characters that many "is blank" notions include but the specification's does not
        s = rng.choice(["\x0c", "\x0b", "\x0c\x0b", "\x0c ", "\x0b\t", "\x0c \x0b ", "\x0b\x0b  "])
    if rng.random() < 0.1: s += rng.choice([" ", "  ", "\t"])        # trailing blanks are part of the text
    if allow_lead_blank and rng.random() < 0.15: s = rng.choice([" ", "  ", "\t"]) + s
    return s

class Entry:
    def __init__(self, rng, allow_open):
        k = rng.choice(["dur", "dur", "range", "range", "open"] if allow_open else ["dur", "range"])
        self.kind = k
        if k == "dur":
            self.d = Dur(rng)
        else:
            self.a = Time(rng)
            self.sp1 = rng.choice([0, 1, 1, 1, 2])
            self.sp2 = self.sp1 if rng.random() < 0.8 else rng.choice([0, 1, 2])
            if k == "range":
                self.b = Time(rng, lo=self.a.off)
            else:
                self.q = rng.choice([1, 1, 1, 2, 3, 5])
        self.first = summary_text(rng, allow_lead_blank=True) if rng.random() < 0.6 else None
        self.more = []
        if rng.random() < 0.3:
            for _ in range(rng.choice([1, 1, 2, 3])):
                self.more.append((rng.choice(["", "", "", " ", "  ", "\t"]), summary_text(rng)))   # (extra indentation, text)

    def value_text(self):
        if self.kind == "dur":
            return self.d.text()
        dash = " " * self.sp1 + "-" + " " * self.sp2
        if self.kind == "range":
            return self.a.text() + dash + self.b.text()
        return self.a.text() + dash + "?" * self.q

    def lines(self, ind):
        first = ind + self.value_text() + ((" " + self.first) if self.first is not None else "")
        return [first] + [ind + ind + ex + t for ex, t in self.more]

    def summary_lines(self):
        return [self.first if self.first is not None else ""] + [ex + t for ex, t in self.more]

    def show(self):
        s = ",".join(hx(l.encode()) for l in self.summary_lines())
        if self.kind == "dur":
            return "D:%d:%s:%s" % (self.d.mins(), hx(self.d.tostring().encode()), s)
        if self.kind == "range":
            return "G:%s:%s:%d:%s" % (self.a.show(), self.b.show(), 1 if self.sp1 > 0 else 0, s)
        return "O:%s:%d:%d:%s" % (self.a.show(), 1 if self.sp1 > 0 else 0, self.q - 1, s)

    def minutes(self):
        if self.kind == "dur": return self.d.mins()
        if self.kind == "range": return self.b.off - self.a.off
        return 0

class Record:
    def __init__(self, rng, max_entries=6):
        y = rng.choice([0, 9999, 2000, 1999, 2024, rng.randrange(10000), rng.randrange(1990, 2030)])
        m = rng.randint(1, 12)
        d = rng.choice([1, dim(y, m), rng.randint(1, dim(y, m))])
        self.ymd = (y, m, d)
        self.sep = rng.choice(["-", "-", "/"])
        self.should = Dur(rng, small=True) if rng.random() < 0.3 else None
        self.should_sp = rng.choice([1, 1, 2, 3])
        self.trail = rng.choice(["", "", "", " ", "\t "])
        self.summary = [summary_text(rng) for _ in range(rng.choice([0, 0, 1, 1, 2, 3]))]
        self.ind = rng.choice(["    ", "    ", "   ", "  ", "\t"])
        self.entries = []
        has_open = False
        for _ in range(rng.choice([0, 1, 1, 2, 3, max_entries])):
            e = Entry(rng, allow_open=not has_open)
            has_open = has_open or e.kind == "open"
            self.entries.append(e)

    def date_text(self):
        return "%04d%s%02d%s%02d" % (self.ymd[0], self.sep, self.ymd[1], self.sep, self.ymd[2])

    def lines(self):
        h = self.date_text()
        if self.should is not None:
            h += " " * self.should_sp + "(" + self.should.text() + "!)"
        h += self.trail
        out = [h] + list(self.summary)
        for e in self.entries:
            out += e.lines(self.ind)
        return out

    def show(self):
        parts = ["R", hx(self.date_text().encode()),
                 str(self.should.mins()) if self.should is not None else "_",
                 ",".join(hx(l.encode()) for l in self.summary) if self.summary else "_",
                 str(len(self.entries))] + [e.show() for e in self.entries]
        return " ".join(parts)

    def total(self):
        return sum(e.minutes() for e in self.entries)

BLANKS = ["", "", "", " ", "  ", "\t", "    ", " \t "]

class Doc:
    def __init__(self, rng, max_records=5, max_entries=6):
        self.records = [Record(rng, max_entries) for _ in range(rng.choice([0, 1, 1, 2, 3, max_records]))]
        self.lead = [rng.choice(BLANKS) for _ in range(rng.choice([0, 0, 0, 1, 2]))]
        self.gaps = [[rng.choice(BLANKS) for _ in range(rng.choice([1, 1, 1, 2, 3]))] for _ in self.records]
        self.eol = rng.choice(["\n", "\n", "\r\n", "mixed"])
        self.final_newline = rng.random() < 0.8
        self.rng_seed = rng.getrandbits(32)

    def all_lines(self):
        """list of (text, record index or None, kind)"""
        out = [(b, None) for b in self.lead]
        for i, r in enumerate(self.records):
            out += [(l, i) for l in r.lines()]
            gap = self.gaps[i]
            if i == len(self.records) - 1:
                gap = gap[1:] if gap else gap      # trailing blank lines are optional at the end
            out += [(b, None) for b in gap]
        return out

    def render_lines(self, lines):
        r = random.Random(self.rng_seed)
        out = ""
        for i, l in enumerate(lines):
            eol = self.eol if self.eol != "mixed" else r.choice(["\n", "\r\n"])
            last = i == len(lines) - 1
            out += l + ("" if (last and not self.final_newline) else eol)
        return out.encode("utf-8", "surrogatepass")

    def render(self):
        return self.render_lines([l for l, _ in self.all_lines()])

    def expect(self):
        return " ".join(["ok", str(len(self.records))] + [r.show() for r in self.records])

# ------------------------------------------------------------------ faults

FAULT_KINDS = ["bad-date", "non-gregorian", "headline-text", "indent", "bad-entry", "reversed-range", "shifted-placeholder",
               "second-open", "summary-blank-start", "blank-inside", "stray-text", "blank-continuation", "stray-cr"]

def inject_fault(doc, rng):
    """returns (bytes, 1-based line of the first non-conforming line, kind) or None if not applicable"""
    if not doc.records:
        return None
    lines = [l for l, _ in doc.all_lines()]
    owner = [o for _, o in doc.all_lines()]
    ri = rng.randrange(len(doc.records))
    rec = doc.records[ri]
    start = owner.index(ri)
    kind = rng.choice(FAULT_KINDS)
    nsum = len(rec.summary)
    # positions of entry value lines within the record
    epos = []
    p = start + 1 + nsum
    for e in rec.entries:
        epos.append(p); p += 1 + len(e.more)
    def rest_of_headline():
        return lines[start][10:]
    if kind == "bad-date":
        bad = rng.choice(["2020-13-01", "2020-00-10", "2020-01-32", "2020-1-1", "20200101", "2020-01-1", "2020-01/01", "2020.01.01", "yesterday", "-2020-01-01", "２０２０-01-01"])
        lines[start] = bad + rest_of_headline(); at = start
    elif kind == "non-gregorian":
        bad = rng.choice(["2021-02-29", "1900-02-29", "2020-04-31", "2020-02-30", "2023/06/31"])
        lines[start] = bad + rest_of_headline(); at = start
    elif kind == "headline-text":
        lines[start] = lines[start].rstrip(" \t") + rng.choice([" foo", " (8h)", " 8h!", " (8h!) x", " ()", " (", " (8h!", " (foo!)", " (8h! 9h!)", " - note", " \ufffdfoo", " \ufffd", "\t\ufffd x"]); at = start
        if rec.should is not None and lines[start].count("(") > 1:
            pass
    elif kind == "indent":
        if not rec.entries: return None
        k = rng.randrange(len(rec.entries)); at = epos[k]
        body = lines[at][len(rec.ind):]
        wrong = {"    ": [" ", "  ", "   ", "     ", "\t", " \t"], "   ": [" ", "  ", "    ", "\t"], "  ": [" ", "   ", "\t"], "\t": [" ", "  ", "   ", "    ", "\t ", "\t\t"]}[rec.ind]
        if k == 0:
            # the first indented line decides the record's style: only shapes that are no style at all are faults
            wrong = [w for w in wrong if w in (" ", "     ", " \t", "\t ", "\t\t")] or [" "]
            if rec.ind == "    ": wrong = [" ", "     "]
            if rec.ind == "   ": wrong = [" "]
            if rec.ind == "  ": wrong = [" "]
            if rec.ind == "\t": wrong = [" ", "\t ", "\t\t"]
        w = rng.choice(wrong)
        if k > 0 and w == rec.ind + rec.ind: return None
        lines[at] = w + body
    elif kind == "bad-entry":
        if not rec.entries: return None
        k = rng.randrange(len(rec.entries)); at = epos[k]
        bad = rng.choice(["25:00 - 26:00", "8:60 - 9:00", "8:00 - 9:60", "1h60m", "8:00 -", "8:00 9:00", "- 8:00", "8:00 - 9:00am>pm", "1.5h", "h", "8:00-", "8:00 - 24:01",
                          "13:00pm - 14:00", "8:00 -- 9:00", "24:00> - ?", "<8:00> - 9:00", "8:00 – 9:00", "--1h", "1h30", "8 - 9",
                          # only "spaces" (U+0020) may surround the dash of a range
                          "8:00 -\t9:00", "8:00 \t- 9:00", "8:00-\t?", "8:00\t- 9:00", "8:00 - \t?", "8:00\u00a0- 9:00", "8:00 -\u00a09:00", "8:00 -\u3000?", "<23:00\t-\t1:00>"])
        lines[at] = rec.ind + bad + rng.choice(["", " text"])
    elif kind == "reversed-range":
        if not rec.entries: return None
        k = rng.randrange(len(rec.entries)); at = epos[k]
        lines[at] = rec.ind + rng.choice(["10:00 - 9:00", "0:00> - 23:59", "8:00 - <8:00", "12:00pm-11:59am", "24:00 - 23:00"])
    elif kind == "shifted-placeholder":
        if not rec.entries: return None
        k = rng.randrange(len(rec.entries)); at = epos[k]
        lines[at] = rec.ind + rng.choice(["8:00 - ?>", "8:00 - <?", "8:00-??>", "8:00 - ?x"])
    elif kind == "second-open":
        opens = [i for i, e in enumerate(rec.entries) if e.kind == "open"]
        if not opens: return None
        # add another open range after the last entry of the record
        at = epos[-1] + 1 + len(rec.entries[-1].more)
        lines.insert(at, rec.ind + rng.choice(["9:00 - ?", "10:00-?? again", "<1:00 - ?"]))
    elif kind == "summary-blank-start":
        at = start + 1
        lines.insert(at, rng.choice([" ", "\u00a0", "\u3000", " \t", "\u2003"]) + "text")
    elif kind == "blank-inside":
        if not rec.entries: return None
        k = rng.randrange(len(rec.entries))
        lines.insert(epos[k], rng.choice(["", " ", "\t"]))
        at = epos[k] + 1            # the text stops conforming at the orphaned indented line
    elif kind == "stray-text":
        at = start
        new = [rng.choice(["hello world", "TODO", "1h", "    1h", "#tag", "8:00 - 9:00"]), ""]
        lines[at:at] = new
    elif kind == "blank-continuation":
        if not rec.entries: return None
        k = rng.randrange(len(rec.entries)); at = epos[k] + 1
        lines.insert(at, rec.ind + rec.ind + rng.choice(["\u00a0", "\u3000", " \u00a0", "\u2003\t", "\u00a0 "]))
    elif kind == "stray-cr":
        # a carriage return that is not part of a CRLF line ending belongs to the text of its line: after a date, a
        # should-total or an entry value without summary it makes that value malformed (`2020-01-01\r\r\n`, or a lone
        # `\r` as the last byte of the file)
        cands = [start] if lines[start] == lines[start].rstrip(" \t") else []
        cands += [epos[i] for i, e in enumerate(rec.entries) if e.first is None and not e.more and e.kind != "open"
                  and lines[epos[i]] == lines[epos[i]].rstrip(" \t")]
        if not cands: return None
        at = rng.choice(cands)
        if doc.eol == "\n" and not (at == len(lines) - 1 and not doc.final_newline):
            return None        # `x\r\n` in an LF file is simply a CRLF line
        if doc.eol == "mixed": return None
        lines[at] = lines[at] + "\r"
    else:
        return None
    return doc.render_lines(lines), at + 1, kind
