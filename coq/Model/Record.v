(* Record: the parsed data klog works on (klog/record.go, entry.go, summary.go). Definitions only.
   Summary lines are byte strings (UTF-8), exactly what Go's []string holds. *)
From Klog Require Import Base.Prelude Model.Calendar Model.Values.
Open Scope Z_scope.

Inductive evalue :=
| VDuration (d : duration)
| VRange (r : range)
| VOpen (o : open_range).

Record entry := { e_value : evalue; e_summary : list bytes }.

(* r_should = None: no should-total set (ShouldTotal() then reads as 0) *)
Record record := {
  rec_date : date;
  rec_should : option Z;
  rec_summary : list bytes;
  rec_entries : list entry
}.

(* Entry.Duration().InMinutes() *)
Definition entry_minutes (e : entry) : Z :=
  match e_value e with
  | VDuration d => d_mins d
  | VRange r => range_minutes r
  | VOpen _ => 0
  end.

Definition should_minutes (r : record) : Z := match rec_should r with Some m => m | None => 0 end.

Definition is_open (e : entry) : bool := match e_value e with VOpen _ => true | _ => false end.

(* Record.OpenRange(): the first open range, if any *)
Definition open_range_of (r : record) : option open_range :=
  match filter is_open (rec_entries r) with
  | e :: _ => match e_value e with VOpen o => Some o | _ => None end
  | [] => None
  end.
