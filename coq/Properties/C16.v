(* C16 — dates, times, durations and ranges: exact text round trip and exact arithmetic.
   Property theorems only; each is closed by [exact <lemma>] and followed by Print Assumptions. *)
From Klog Require Import Base.Prelude Model.Calendar Model.Values Proofs.Values.
Open Scope Z_scope.

(* the offset of a time is 1440*shift + 60*hour + minute (the Go code builds the yesterday case from -23/-60) *)
Theorem C16_offset_spec : forall t, time_offset t = 1440 * shift_of t + 60 * t_hour t + t_min t.
Proof. exact offset_spec. Qed.
Print Assumptions C16_offset_spec.

(* writing a time out and reading it back yields the same value and notation — all 8,640 times *)
Theorem C16_time_roundtrip : forall t, valid_time t -> parse_time (print_time t) = Ok t.
Proof. exact time_roundtrip. Qed.
Print Assumptions C16_time_roundtrip.

(* adding a duration: the time that many minutes later when within [-1440, 2880), an error otherwise *)
Theorem C16_plus_spec : forall t d, valid_time t -> sm_ok d = true ->
  let m := time_offset t + d in
  (-1440 <= m < 2880 -> exists t', time_plus t d = Ok t' /\ valid_time t' /\ time_offset t' = m /\ t_24h t' = t_24h t) /\
  (~ (-1440 <= m < 2880) -> time_plus t d = Err EImpossibleOperation).
Proof. exact plus_spec_total. Qed.
Print Assumptions C16_plus_spec.

(* in particular a duration near the int64 limit is an error, not a panic (finding K6, fixed in /repo) *)
Theorem C16_plus_overflow_is_error :
  time_plus {| t_hour := 0; t_min := 1; t_shift := 0; t_24h := true |} max_int64 = Err EImpossibleOperation.
Proof. exact plus_overflow_is_error. Qed.
Print Assumptions C16_plus_overflow_is_error.

(* a range is valid exactly when its end is not before its start, and lasts end minus start minutes *)
Theorem C16_range_spec : forall a b sp,
  (exists r, new_range a b sp = Ok r /\ range_minutes r = time_offset b - time_offset a /\ r_start r = a /\ r_end r = b)
  <-> time_offset a <= time_offset b.
Proof. exact range_spec. Qed.
Print Assumptions C16_range_spec.

(* non-vacuity: a concrete shifted 12-hour time meets the hypotheses *)
Example C16_nonvacuous :
  valid_time {| t_hour := 23; t_min := 30; t_shift := -1; t_24h := false |} /\ sm_ok 90 = true.
Proof. unfold valid_time; simpl; split; [lia | reflexivity]. Qed.

(* ---------- literals of the specification and text round trips (added with the specification object Spec/Spec.v) ---------- *)
From Klog Require Import Spec.Spec Proofs.SpecValues Proofs.SpecLiterals.

(* the strings NewTimeFromString accepts are EXACTLY the time literals of the specification (optional leading zero,
   24-hour / am / pm, 24:00 and <24:00, < and > shifts), each with the value it denotes. Right to left: a sweep over the
   27,000 spellings (bounds = wf_time); left to right: inversion of the recogniser and a sweep over all 132,000 strings
   of the shape `<?D{1,2}:DD(am|pm)?>?` *)
Theorem C16_time_literals : forall s t,
  parse_time s = Ok t <-> exists st, wf_time st = true /\ s = render_time st /\ t = denote_time st.
Proof. exact time_literals. Qed.
Print Assumptions C16_time_literals.

Theorem C16_time_literals_accepted : forall t, wf_time t = true ->
  parse_time (render_time t) = Ok (denote_time t) /\ valid_time (denote_time t) /\ time_offset (denote_time t) = timeline t.
Proof. exact time_literals_accepted. Qed.
Print Assumptions C16_time_literals_accepted.

(* Time.ToString writes a specification spelling, and that spelling denotes the time: 8,640 values *)
Theorem C16_print_time_is_literal : forall t, valid_time t ->
  print_time t = render_time (canon_time t) /\ wf_time (canon_time t) = true /\ denote_time (canon_time t) = t.
Proof. exact ct_all. Qed.
Print Assumptions C16_print_time_is_literal.

(* the strings NewDateFromString accepts are EXACTLY the date literals: four-digit year, two-digit month and day, the same
   separator - or / twice, a date of the Gregorian calendar 0000-9999 *)
Theorem C16_date_literals : forall s d,
  parse_date s = Ok d <-> exists sd, wf_date sd = true /\ s = render_date sd /\ d = denote_date sd.
Proof. exact date_literals_iff. Qed.
Print Assumptions C16_date_literals.

(* a literal of the right shape that is not a Gregorian date is rejected with "unrepresentable date" *)
Theorem C16_date_literals_accepted : forall d,
  (wf_date d = true -> parse_date (render_date d) = Ok (denote_date d)) /\
  (0 <= sd_year d <= 9999 -> 0 <= sd_month d <= 99 -> 0 <= sd_day d <= 99 -> wf_date d = false ->
   parse_date (render_date d) = Err EUnrepresentableDate).
Proof. exact date_literals. Qed.
Print Assumptions C16_date_literals_accepted.

Theorem C16_date_roundtrip : forall d, valid_cdate (dt d) = true -> parse_date (print_date d) = Ok d.
Proof. exact date_roundtrip. Qed.
Print Assumptions C16_date_roundtrip.

(* the strings NewDurationFromString accepts are EXACTLY the duration literals (sign x optional hours x optional minutes,
   any leading zeros, minutes < 60 when hours are present) whose amount fits int64; beyond that guard it panics (next
   theorem, finding K5) *)
Theorem C16_duration_literals : forall s d,
  parse_duration s = Ok d <-> exists sd, wf_dur sd = true /\ s = render_dur sd /\ d = denote_dur sd.
Proof. exact duration_literals. Qed.
Print Assumptions C16_duration_literals.

Theorem C16_duration_literals_accepted : forall d, wf_dur d = true -> parse_duration (render_dur d) = Ok (denote_dur d).
Proof. exact parse_render_dur. Qed.
Print Assumptions C16_duration_literals_accepted.

(* beyond the int64 guard the constructor panics, for every literal of the right shape (finding K5) *)
Theorem C16_duration_overflow_crashes : forall d, dur_shape d = true -> max_int64 < dur_amount d ->
  exists c, parse_duration (render_dur d) = Crash c.
Proof. exact parse_render_dur_overflow. Qed.
Print Assumptions C16_duration_overflow_crashes.

Theorem C16_duration_overflow_refuted :
  parse_duration b!"9223372036854775808m" = Crash CAtoiRange
  /\ parse_duration b!"153722867280912931h" = Crash CIntegerOverflow
  /\ parse_duration b!"153722867280912930h8m" = Crash CIntegerOverflow.
Proof. exact duration_overflow_witness. Qed.
Print Assumptions C16_duration_overflow_refuted.

(* writing a duration out and reading it back: the same minutes, with the notation flags that ToString shows
   (dur_canonical) — for ALL durations within the safemath range *)
Theorem C16_duration_roundtrip : forall d, - max_int64 <= d_mins d <= max_int64 ->
  parse_duration (print_duration d) = Ok (dur_canonical d).
Proof. exact duration_roundtrip. Qed.
Print Assumptions C16_duration_roundtrip.

(* decimal printing and reading of every non-negative integer *)
Theorem C16_decimal_roundtrip : forall z, 0 <= z ->
  digits_val (dec_nonneg z) = z /\ all_digits (dec_nonneg z) = true /\ dec_nonneg z <> [].
Proof. exact decimal_roundtrip. Qed.
Print Assumptions C16_decimal_roundtrip.

(* Time.IsEqualTo / IsAfterOrEqual: equality is equality of (shift, hour, minute) — with C16_time_literals this is
   "denote the same point in time", e.g. 24:00 = 0:00> — and the order is the total order of the points in time *)
Theorem C16_time_equal_spec : forall a b, valid_time a -> valid_time b ->
  (time_eqb a b = true <-> shift_of a = shift_of b /\ t_hour a = t_hour b /\ t_min a = t_min b).
Proof. exact time_eq_spec. Qed.
Print Assumptions C16_time_equal_spec.

Theorem C16_time_after_or_equal_spec : forall a b,
  time_geb a b = true <-> 1440 * shift_of b + 60 * t_hour b + t_min b <= 1440 * shift_of a + 60 * t_hour a + t_min a.
Proof. exact time_after_or_equal_spec. Qed.
Print Assumptions C16_time_after_or_equal_spec.

Theorem C16_time_order_total_antisym : forall a b,
  (time_geb a b = true \/ time_geb b a = true) /\ (time_geb a b = true -> time_geb b a = true -> time_eqb a b = true).
Proof. intros a b. split; [exact (time_order_total a b) | exact (time_order_antisym a b)]. Qed.
Print Assumptions C16_time_order_total_antisym.

(* the specification's equivalences of time literals *)
Example C16_time_equiv :
  denote_time {| st_shift := 0; st_hh := 24; st_pad := false; st_mm := 0; st_clock := C24 |}
    = denote_time {| st_shift := 1; st_hh := 0; st_pad := false; st_mm := 0; st_clock := C24 |}
  /\ denote_time {| st_shift := -1; st_hh := 24; st_pad := false; st_mm := 0; st_clock := C24 |}
    = denote_time {| st_shift := 0; st_hh := 0; st_pad := true; st_mm := 0; st_clock := C24 |}
  /\ time_offset (denote_time {| st_shift := 0; st_hh := 12; st_pad := false; st_mm := 0; st_clock := CAm |}) = 0
  /\ time_offset (denote_time {| st_shift := 0; st_hh := 12; st_pad := false; st_mm := 0; st_clock := CPm |}) = 720
  /\ d_mins (denote_dur {| du_sign := SNone; du_h := None; du_m := Some b!"90" |})
     = d_mins (denote_dur {| du_sign := SNone; du_h := Some b!"1"; du_m := Some b!"30" |}).
Proof. repeat split; reflexivity. Qed.
