(* Query: klog/service/query.go (Filter, Sort, reduceRecordToMatchingTags, reduceRecordToMatchingEntryTypes),
   klog/app/cli/util/args.go (FilterArgs.ApplyFilter, SortArgs.ApplySort) and the argument decoders of
   klog/app/main/decoder.go that feed them (date, period, tag, entry type). Definitions only.

   A klog.Date is its [cdate] here (IsEqualTo / IsAfterOrEqual read year, month, day only); a record's date is
   [dt (rec_date r)]. Summary.Tags() is [summary_tags] at the Go toolchain's tables: Proofs/Tags.v
   summary_tags_o_eq (Properties/C14.v C14_summary_tags) shows that the Go function, with its second regexp run and
   its possible panic, returns exactly that set on every input, so the detour through [outcome] is not repeated.
   klog.Merge iterates Go maps; [ts_merge] takes the order of first insertion, and nothing observable depends
   on it (Proofs/Tags.v merge_lists_perm). *)
From Klog Require Import Base.Prelude Base.Utf8 Model.Calendar Model.Values Model.Record Model.Tags Model.Period.
Open Scope Z_scope.

Notation q_summary_tags := (summary_tags go_is_letter go_to_lower).
Notation q_merge := (ts_merge go_to_lower).

(* ================= service.FilterQry ================= *)

Inductive entry_type := ETDuration | ETPositiveDuration | ETNegativeDuration | ETRange | ETOpenRange.

(* a nil Date / the empty EntryType / an empty Tags slice is None / None / [] *)
Record filter_qry := {
  q_tags : list tag;
  q_before_or_equal : option cdate;
  q_after_or_equal : option cdate;
  q_at_date : option cdate;
  q_entry_type : option entry_type
}.

Definition rdate (r : record) : cdate := dt (rec_date r).

(* Record.SetEntries *)
Definition set_entries (r : record) (es : list entry) : record :=
  {| rec_date := rec_date r; rec_should := rec_should r; rec_summary := rec_summary r; rec_entries := es |}.

(* reduceRecordToMatchingTags: (record, hasMatched) is an option *)
Definition reduce_to_tags (queried : list tag) (r : record) : option record :=
  let rt := q_summary_tags (rec_summary r) in
  if is_subset_of queried rt then Some r else
  match filter (fun e => is_subset_of queried (q_merge [rt; q_summary_tags (e_summary e)])) (rec_entries r) with
  | [] => None
  | es => Some (set_entries r es)
  end.

(* the three callbacks of klog.Unbox in reduceRecordToMatchingEntryTypes; e.Duration().InMinutes() is [entry_minutes] *)
Definition type_matches (t : entry_type) (e : entry) : bool :=
  match e_value e with
  | VRange _ => match t with ETRange => true | _ => false end
  | VDuration _ =>
    match t with
    | ETDuration => true
    | ETPositiveDuration => entry_minutes e >=? 0
    | ETNegativeDuration => entry_minutes e <? 0
    | _ => false
    end
  | VOpen _ => match t with ETOpenRange => true | _ => false end
  end.

Definition reduce_to_entry_types (t : entry_type) (r : record) : option record :=
  match filter (type_matches t) (rec_entries r) with
  | [] => None
  | es => Some (set_entries r es)
  end.

(* the body of the loop of service.Filter: None is `continue` *)
Definition filter_record (q : filter_qry) (r : record) : option record :=
  if match q_at_date q with Some a => negb (cdate_eqb a (rdate r)) | None => false end then None else
  if match q_before_or_equal q with Some b => negb (cdate_geb b (rdate r)) | None => false end then None else
  if match q_after_or_equal q with Some a => negb (cdate_geb (rdate r) a) | None => false end then None else
  match (match q_tags q with [] => Some r | _ => reduce_to_tags (q_tags q) r end) with
  | None => None
  | Some r1 =>
    match q_entry_type q with
    | None => Some r1
    | Some t => reduce_to_entry_types t r1
    end
  end.

(* service.Filter *)
Fixpoint filter_records (q : filter_qry) (rs : list record) : list record :=
  match rs with
  | [] => []
  | r :: rest =>
    match filter_record q r with
    | Some r' => r' :: filter_records q rest
    | None => filter_records q rest
    end
  end.

(* ================= service.Sort ================= *)

(* Go's sort.Slice is not stable and the comparator of service.Sort is not strict (`<=` on dates for ascending,
   its negation for descending), so the Go result is only determined up to the order of records of equal date.
   The specification of sorting is Proofs/Query.v [sort_spec] (a permutation that is ordered by date); the
   executable function below is one function meeting it (a stable insertion sort), used by the correspondence
   after both sides have been brought into a canonical order within each run of equal dates. *)
Definition date_leb (a b : cdate) : bool := cdate_geb b a.

(* does x go before y? ascending: date x <= date y; descending: date x >= date y *)
Definition goes_before (asc : bool) (x y : record) : bool :=
  if asc then date_leb (rdate x) (rdate y) else date_leb (rdate y) (rdate x).

Fixpoint insert_record (asc : bool) (x : record) (l : list record) : list record :=
  match l with
  | [] => [x]
  | y :: r => if goes_before asc x y then x :: l else y :: insert_record asc x r
  end.

Definition sort_records (asc : bool) (rs : list record) : list record := fold_right (insert_record asc) [] rs.

(* ASCII lower-casing is all strings.ToLower does on the values the enum of --sort admits *)
Definition ascii_lower (c : N) : N := if (65 <=? c)%N && (c <=? 90)%N then (c + 32)%N else c.
Definition ascii_upper (c : N) : N := if (97 <=? c)%N && (c <=? 122)%N then (c - 32)%N else c.

(* SortArgs.ApplySort *)
Definition apply_sort (s : bytes) (rs : list record) : list record :=
  match s with
  | [] => rs
  | _ => sort_records (bytes_eqb (map ascii_lower s) b!"asc") rs
  end.

(* ================= FilterArgs ================= *)

Record filter_args := {
  a_tags : list tag;
  a_date : option cdate;
  a_since : option cdate;
  a_until : option cdate;
  a_after : option cdate;
  a_before : option cdate;
  a_entry_type : option entry_type;
  a_period : option period;           (* period.Period: Since(), Until() *)
  a_today : bool;
  a_yesterday : bool;
  a_tomorrow : bool;
  a_this_week : bool;     a_this_week_alias : bool;
  a_last_week : bool;     a_last_week_alias : bool;
  a_this_month : bool;    a_this_month_alias : bool;
  a_last_month : bool;    a_last_month_alias : bool;
  a_this_quarter : bool;  a_this_quarter_alias : bool;
  a_last_quarter : bool;  a_last_quarter_alias : bool;
  a_this_year : bool;     a_this_year_alias : bool;
  a_last_year : bool;     a_last_year_alias : bool
}.

Definition no_args : filter_args :=
  {| a_tags := []; a_date := None; a_since := None; a_until := None; a_after := None; a_before := None;
     a_entry_type := None; a_period := None; a_today := false; a_yesterday := false; a_tomorrow := false;
     a_this_week := false; a_this_week_alias := false; a_last_week := false; a_last_week_alias := false;
     a_this_month := false; a_this_month_alias := false; a_last_month := false; a_last_month_alias := false;
     a_this_quarter := false; a_this_quarter_alias := false; a_last_quarter := false; a_last_quarter_alias := false;
     a_this_year := false; a_this_year_alias := false; a_last_year := false; a_last_year_alias := false |}.

(* the closure shortcutPeriod of ApplyFilter: the first flag in this order decides; the period is computed,
   and may panic, only for that flag *)
Definition shortcut_period (today : cdate) (a : filter_args) : outcome (option period) :=
  if a_this_week a || a_this_week_alias a then let* p := period_of KWeek today in Ok (Some p)
  else if a_last_week a || a_last_week_alias a then let* p := previous_period KWeek today in Ok (Some p)
  else if a_this_month a || a_this_month_alias a then let* p := period_of KMonth today in Ok (Some p)
  else if a_last_month a || a_last_month_alias a then let* p := previous_period KMonth today in Ok (Some p)
  else if a_this_quarter a || a_this_quarter_alias a then let* p := period_of KQuarter today in Ok (Some p)
  else if a_last_quarter a || a_last_quarter_alias a then let* p := previous_period KQuarter today in Ok (Some p)
  else if a_this_year a || a_this_year_alias a then let* p := period_of KYear today in Ok (Some p)
  else if a_last_year a || a_last_year_alias a then let* p := previous_period KYear today in Ok (Some p)
  else Ok None.

(* the query that FilterArgs.ApplyFilter hands to service.Filter; statement by statement *)
Definition apply_filter_args (today : cdate) (a : filter_args) : outcome filter_qry :=
  let before := a_until a in
  let after := a_since a in
  let at_date := a_date a in
  let before := match a_period a with Some p => Some (snd p) | None => before end in
  let after := match a_period a with Some p => Some (fst p) | None => after end in
  let* after := match a_after a with Some d => let* d' := plus_days d 1 in Ok (Some d') | None => Ok after end in
  let* before := match a_before a with Some d => let* d' := plus_days d (-1) in Ok (Some d') | None => Ok before end in
  let at_date := if a_today a then Some today else at_date in
  let* at_date := if a_yesterday a then let* d := plus_days today (-1) in Ok (Some d) else Ok at_date in
  let* at_date := if a_tomorrow a then let* d := plus_days today 1 in Ok (Some d) else Ok at_date in
  let* sp := shortcut_period today a in
  let after := match sp with Some p => Some (fst p) | None => after end in
  let before := match sp with Some p => Some (snd p) | None => before end in
  Ok {| q_tags := a_tags a; q_before_or_equal := before; q_after_or_equal := after;
        q_at_date := at_date; q_entry_type := a_entry_type a |}.

(* `klog print|json [filter flags] [--sort s]`: ApplyFilter, then ApplySort *)
Definition run_query (today : cdate) (a : filter_args) (sort : bytes) (rs : list record) : outcome (list record) :=
  let* q := apply_filter_args today a in
  Ok (apply_sort sort (filter_records q rs)).

(* ================= the decoders of app/main/decoder.go ================= *)

(* entryTypeDecoder: strings.ToUpper, '-' -> '_', membership. strings.ToUpper is modelled on ASCII only
   (Go also maps e.g. U+017F to S; such arguments are outside the correspondence). *)
Definition decode_entry_type (s : bytes) : option entry_type :=
  let u := map (fun c => if (c =? 45)%N then 95%N else ascii_upper c) s in
  if bytes_eqb u b!"DURATION" then Some ETDuration
  else if bytes_eqb u b!"DURATION_POSITIVE" then Some ETPositiveDuration
  else if bytes_eqb u b!"DURATION_NEGATIVE" then Some ETNegativeDuration
  else if bytes_eqb u b!"RANGE" then Some ETRange
  else if bytes_eqb u b!"OPEN_RANGE" then Some ETOpenRange
  else None.

(* the enum of --sort *)
Definition sort_value_ok (s : bytes) : bool :=
  bytes_eqb s [] || bytes_eqb s b!"asc" || bytes_eqb s b!"desc" || bytes_eqb s b!"ASC" || bytes_eqb s b!"DESC".

(* one command-line flag, as the correspondence request spells it: a name and (for valued flags) a value *)
Definition EBadArg : error := EOther 13.

Definition set_tag (a : filter_args) (t : tag) : filter_args :=
  {| a_tags := a_tags a ++ [t]; a_date := a_date a; a_since := a_since a; a_until := a_until a; a_after := a_after a; a_before := a_before a;
     a_entry_type := a_entry_type a; a_period := a_period a; a_today := a_today a; a_yesterday := a_yesterday a; a_tomorrow := a_tomorrow a;
     a_this_week := a_this_week a; a_this_week_alias := a_this_week_alias a; a_last_week := a_last_week a; a_last_week_alias := a_last_week_alias a;
     a_this_month := a_this_month a; a_this_month_alias := a_this_month_alias a; a_last_month := a_last_month a; a_last_month_alias := a_last_month_alias a;
     a_this_quarter := a_this_quarter a; a_this_quarter_alias := a_this_quarter_alias a; a_last_quarter := a_last_quarter a; a_last_quarter_alias := a_last_quarter_alias a;
     a_this_year := a_this_year a; a_this_year_alias := a_this_year_alias a; a_last_year := a_last_year a; a_last_year_alias := a_last_year_alias a |}.

(* which date-valued flag *)
Inductive date_flag := FDate | FSince | FUntil | FAfter | FBefore.

Definition set_date (a : filter_args) (f : date_flag) (d : cdate) : filter_args :=
  {| a_tags := a_tags a;
     a_date := match f with FDate => Some d | _ => a_date a end;
     a_since := match f with FSince => Some d | _ => a_since a end;
     a_until := match f with FUntil => Some d | _ => a_until a end;
     a_after := match f with FAfter => Some d | _ => a_after a end;
     a_before := match f with FBefore => Some d | _ => a_before a end;
     a_entry_type := a_entry_type a; a_period := a_period a; a_today := a_today a; a_yesterday := a_yesterday a; a_tomorrow := a_tomorrow a;
     a_this_week := a_this_week a; a_this_week_alias := a_this_week_alias a; a_last_week := a_last_week a; a_last_week_alias := a_last_week_alias a;
     a_this_month := a_this_month a; a_this_month_alias := a_this_month_alias a; a_last_month := a_last_month a; a_last_month_alias := a_last_month_alias a;
     a_this_quarter := a_this_quarter a; a_this_quarter_alias := a_this_quarter_alias a; a_last_quarter := a_last_quarter a; a_last_quarter_alias := a_last_quarter_alias a;
     a_this_year := a_this_year a; a_this_year_alias := a_this_year_alias a; a_last_year := a_last_year a; a_last_year_alias := a_last_year_alias a |}.

Definition set_entry_type (a : filter_args) (t : entry_type) : filter_args :=
  {| a_tags := a_tags a; a_date := a_date a; a_since := a_since a; a_until := a_until a; a_after := a_after a; a_before := a_before a;
     a_entry_type := Some t; a_period := a_period a; a_today := a_today a; a_yesterday := a_yesterday a; a_tomorrow := a_tomorrow a;
     a_this_week := a_this_week a; a_this_week_alias := a_this_week_alias a; a_last_week := a_last_week a; a_last_week_alias := a_last_week_alias a;
     a_this_month := a_this_month a; a_this_month_alias := a_this_month_alias a; a_last_month := a_last_month a; a_last_month_alias := a_last_month_alias a;
     a_this_quarter := a_this_quarter a; a_this_quarter_alias := a_this_quarter_alias a; a_last_quarter := a_last_quarter a; a_last_quarter_alias := a_last_quarter_alias a;
     a_this_year := a_this_year a; a_this_year_alias := a_this_year_alias a; a_last_year := a_last_year a; a_last_year_alias := a_last_year_alias a |}.

Definition set_period (a : filter_args) (p : period) : filter_args :=
  {| a_tags := a_tags a; a_date := a_date a; a_since := a_since a; a_until := a_until a; a_after := a_after a; a_before := a_before a;
     a_entry_type := a_entry_type a; a_period := Some p; a_today := a_today a; a_yesterday := a_yesterday a; a_tomorrow := a_tomorrow a;
     a_this_week := a_this_week a; a_this_week_alias := a_this_week_alias a; a_last_week := a_last_week a; a_last_week_alias := a_last_week_alias a;
     a_this_month := a_this_month a; a_this_month_alias := a_this_month_alias a; a_last_month := a_last_month a; a_last_month_alias := a_last_month_alias a;
     a_this_quarter := a_this_quarter a; a_this_quarter_alias := a_this_quarter_alias a; a_last_quarter := a_last_quarter a; a_last_quarter_alias := a_last_quarter_alias a;
     a_this_year := a_this_year a; a_this_year_alias := a_this_year_alias a; a_last_year := a_last_year a; a_last_year_alias := a_last_year_alias a |}.

(* the boolean flags, by position: 0 today 1 yesterday 2 tomorrow, then (this-week, thisweek, last-week, lastweek,
   this-month, ..., last-year, lastyear) = 3 .. 18 *)
Definition set_bool (a : filter_args) (i : nat) : filter_args :=
  let b (k : nat) (old : bool) : bool := if Nat.eqb i k then true else old in
  {| a_tags := a_tags a; a_date := a_date a; a_since := a_since a; a_until := a_until a; a_after := a_after a; a_before := a_before a;
     a_entry_type := a_entry_type a; a_period := a_period a;
     a_today := b 0%nat (a_today a); a_yesterday := b 1%nat (a_yesterday a); a_tomorrow := b 2%nat (a_tomorrow a);
     a_this_week := b 3%nat (a_this_week a); a_this_week_alias := b 4%nat (a_this_week_alias a);
     a_last_week := b 5%nat (a_last_week a); a_last_week_alias := b 6%nat (a_last_week_alias a);
     a_this_month := b 7%nat (a_this_month a); a_this_month_alias := b 8%nat (a_this_month_alias a);
     a_last_month := b 9%nat (a_last_month a); a_last_month_alias := b 10%nat (a_last_month_alias a);
     a_this_quarter := b 11%nat (a_this_quarter a); a_this_quarter_alias := b 12%nat (a_this_quarter_alias a);
     a_last_quarter := b 13%nat (a_last_quarter a); a_last_quarter_alias := b 14%nat (a_last_quarter_alias a);
     a_this_year := b 15%nat (a_this_year a); a_this_year_alias := b 16%nat (a_this_year_alias a);
     a_last_year := b 17%nat (a_last_year a); a_last_year_alias := b 18%nat (a_last_year_alias a) |}.

Definition bool_flag_names : list bytes :=
  [b!"today"; b!"yesterday"; b!"tomorrow";
   b!"this-week"; b!"thisweek"; b!"last-week"; b!"lastweek";
   b!"this-month"; b!"thismonth"; b!"last-month"; b!"lastmonth";
   b!"this-quarter"; b!"thisquarter"; b!"last-quarter"; b!"lastquarter";
   b!"this-year"; b!"thisyear"; b!"last-year"; b!"lastyear"].

Fixpoint index_of (x : bytes) (l : list bytes) (i : nat) : option nat :=
  match l with
  | [] => None
  | y :: r => if bytes_eqb x y then Some i else index_of x r (S i)
  end.

(* --tag is a slice flag: kong splits its value at commas (SplitEscaped; a backslash would escape a comma — not
   modelled, such values are outside the correspondence), drops an empty last piece and hands every piece to
   tagDecoder, which rejects the empty string *)
Fixpoint split_comma (s cur : bytes) : list bytes :=
  match s with
  | [] => [rev cur]
  | x :: r => if (x =? 44)%N then rev cur :: split_comma r [] else split_comma r (x :: cur)
  end.

Definition comma_separated (s : bytes) : list bytes :=
  let l := split_comma s [] in
  match rev l with
  | [] :: r => rev r
  | _ => l
  end.

Fixpoint decode_tags (a : filter_args) (pieces : list bytes) : outcome filter_args :=
  match pieces with
  | [] => Ok a
  | [] :: _ => Err EBadArg
  | p :: r =>
    match go_new_tag_from_string p with
    | Ok (Some t) => decode_tags (set_tag a t) r
    | Ok None => Err EBadArg
    | Err _ => Err EBadArg
    | Crash c => Crash c
    end
  end.

(* dateDecoder / periodDecoder / tagDecoder / entryTypeDecoder on one `--name=value`; every decoder rejects the
   empty value; an error is Err, a panic inside a constructor is Crash *)
Definition decode_flag (a : filter_args) (name value : bytes) : outcome filter_args :=
  let dateflag (f : date_flag) :=
    match value with
    | [] => Err EBadArg
    | _ => match parse_date value with
           | Ok d => Ok (set_date a f (dt d))
           | Err _ => Err EBadArg
           | Crash c => Crash c
           end
    end in
  if bytes_eqb name b!"date" then dateflag FDate
  else if bytes_eqb name b!"since" then dateflag FSince
  else if bytes_eqb name b!"until" then dateflag FUntil
  else if bytes_eqb name b!"after" then dateflag FAfter
  else if bytes_eqb name b!"before" then dateflag FBefore
  else if bytes_eqb name b!"period" then
    match value with
    | [] => Err EBadArg
    | _ => match period_from_pattern value with
           | Ok p => Ok (set_period a p)
           | Err _ => Err EBadArg
           | Crash c => Crash c
           end
    end
  else if bytes_eqb name b!"tag" then
    match value with
    | [] => Err EBadArg
    | _ => decode_tags a (comma_separated value)
    end
  else if bytes_eqb name b!"entry-type" then
    match value with
    | [] => Err EBadArg
    | _ => match decode_entry_type value with
           | Some t => Ok (set_entry_type a t)
           | None => Err EBadArg
           end
    end
  else
    match index_of name bool_flag_names 0%nat with
    | Some i => Ok (set_bool a i)
    | None => Err EBadArg
    end.

(* the flags of a command line, left to right; the first error or panic ends the decoding *)
Fixpoint decode_flags (a : filter_args) (fl : list (bytes * bytes)) : outcome filter_args :=
  match fl with
  | [] => Ok a
  | (n, v) :: r => let* a' := decode_flag a n v in decode_flags a' r
  end.
