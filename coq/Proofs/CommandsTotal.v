(* CommandsTotal: C04 as one statement — for every command, whatever the abstract model says (success, or a rejection
   with its error), the command reports the same and leaves a conforming file holding the model's records. A rejected
   command other than `pause` leaves the file as it was; `pause` rejected at a later clock reading leaves what the
   earlier readings wrote. Only the model's "crash" outcomes (int64 overflow of a pause duration) are left out. *)
From Klog Require Import Base.Prelude Base.Utf8 Model.Calendar Model.Values Model.Record Model.Lines Model.Parser
  Model.Reconcile Model.Commands Proofs.Values Spec.Spec Proofs.SpecEntry Proofs.SpecRecord Proofs.SpecDoc
  Proofs.Reconcile Proofs.Commands Proofs.Rounding Proofs.CommandsSpec Proofs.CommandsRefine Proofs.CommandsStop
  Proofs.CommandsPause Proofs.CommandsArgs Proofs.CommandsHistory Proofs.CommandsReject Proofs.CommandsPauseReject.
Open Scope Z_scope.

(* the model's verdict: the records afterwards and the reported result *)
Definition a_exec_full (now : Commands.clock) (cfg : config) (sc : scommand) (rs : list record) : list record * cresult unit :=
  match sc with
  | SPause sr no_tags extend ticks =>
    match plus_days (now_date now) (-1) with
    | Ok y => a_pause_full (now_date now) y (option_map (map utf8_encode) sr) no_tags extend ticks rs
    | _ => (rs, CCrash)
    end
  | _ => match a_exec now cfg sc rs with
         | COk rs' => (rs', COk tt)
         | CErr e => (rs, CErr e)
         | CCrash => (rs, CCrash)
         end
  end.

Theorem exec_total now cfg sc file recs rs' res :
  spec_state file recs -> step_pre now cfg sc recs ->
  a_exec_full now cfg sc (denote_recs recs) = (rs', res) -> res <> CCrash ->
  exists file' recs',
    exec now cfg (to_command sc) file = (file', res) /\
    spec_state file' recs' /\ denote_recs recs' = rs' /\
    (forall e, res = CErr e -> rejecting sc = true -> file' = file).
Proof.
  intros S Hpre Ha Hnc.
  assert (G : rejecting sc = true ->
              match a_exec now cfg sc (denote_recs recs) with
              | COk rs1 => (rs1, COk tt) | CErr e => (denote_recs recs, CErr e) | CCrash => (denote_recs recs, CCrash) end = (rs', res) ->
              exists file' recs', exec now cfg (to_command sc) file = (file', res) /\ spec_state file' recs' /\ denote_recs recs' = rs' /\
                (forall e, res = CErr e -> rejecting sc = true -> file' = file)).
  { intros Hr H. destruct (a_exec now cfg sc (denote_recs recs)) as [rs1|e|] eqn:E.
    - injection H as <- <-. destruct (exec_refines now cfg sc file recs rs1 S Hpre E) as (file' & recs' & He & S' & Hd & _).
      exists file', recs'. repeat split; try assumption. intros e H. discriminate H.
    - injection H as <- <-. exists file, recs. rewrite (exec_rejects now cfg sc file recs e Hr S Hpre E). repeat split; try assumption.
    - injection H as _ <-. contradiction. }
  destruct sc as [ds se|a s|a add_r|a s|ds should srunes|sr no_tags extend ticks]; try (exact (G eq_refl Ha)).
  clear G. cbn [a_exec_full to_command step_pre] in *.
  destruct (plus_days (now_date now) (-1)) as [y| |] eqn:Hy; [|injection Ha as _ <-; contradiction|injection Ha as _ <-; contradiction].
  destruct Hpre as (Hsr & Hcr).
  destruct (pause_full_conforming now cfg (option_map (map utf8_encode) sr) (match sr with Some l => l | None => [] end)
              no_tags extend ticks file recs y rs' res S Hy) as (file' & recs' & He & S' & Hd); try assumption.
  - destruct sr; reflexivity.
  - exists file', recs'. repeat split; try assumption. intros e _ H. discriminate H.
Qed.

(* histories in which commands may be rejected: the model's verdict step by step *)
Fixpoint a_history_full (cfg : config) (h : history) (rs : list record) : list record * list (cresult unit) :=
  match h with
  | [] => (rs, [])
  | (now, sc) :: rest =>
    let '(rs1, res) := a_exec_full now cfg sc rs in
    let '(rs2, results) := a_history_full cfg rest rs1 in (rs2, res :: results)
  end.

Fixpoint exec_history_full (cfg : config) (h : history) (file : bytes) : bytes * list (cresult unit) :=
  match h with
  | [] => (file, [])
  | (now, sc) :: rest =>
    let '(f1, res) := exec now cfg (to_command sc) file in
    let '(f2, results) := exec_history_full cfg rest f1 in (f2, res :: results)
  end.

(* the requirements on the arguments, at every file the history may reach *)
Fixpoint history_full_pre (cfg : config) (h : history) (file : bytes) : Prop :=
  match h with
  | [] => True
  | (now, sc) :: rest =>
    (forall recs, spec_state file recs -> step_pre now cfg sc recs) /\
    history_full_pre cfg rest (fst (exec now cfg (to_command sc) file))
  end.

Theorem history_total cfg : forall h file recs rs' results,
  spec_state file recs -> history_full_pre cfg h file ->
  a_history_full cfg h (denote_recs recs) = (rs', results) -> ~ In CCrash results ->
  exists file' recs', exec_history_full cfg h file = (file', results) /\ spec_state file' recs' /\ denote_recs recs' = rs'.
Proof.
  induction h as [|[now sc] rest IH]; intros file recs rs' results S Hpre Ha Hnc.
  - cbn in Ha. injection Ha as <- <-. exists file, recs. auto.
  - cbn [a_history_full] in Ha. destruct (a_exec_full now cfg sc (denote_recs recs)) as [rs1 res] eqn:E1.
    destruct (a_history_full cfg rest rs1) as [rs2 results2] eqn:E2. injection Ha as <- <-.
    destruct Hpre as [Hp Hrest].
    destruct (exec_total now cfg sc file recs rs1 res S (Hp recs S) E1) as (f1 & recs1 & He & S1 & Hd1 & _).
    { intros ->. apply Hnc. left. reflexivity. }
    rewrite He in Hrest. cbn [fst] in Hrest. rewrite <- Hd1 in E2.
    destruct (IH f1 recs1 rs2 results2 S1 Hrest E2) as (f2 & recs2 & He2 & S2 & Hd2).
    { intros H. apply Hnc. right. exact H. }
    exists f2, recs2. cbn [exec_history_full]. rewrite He, He2. auto.
Qed.
