(* SpecDoc — layer L3 of C01: the document level. The lines of a rendered document are read back exactly, its blocks are
   the records' line groups, and every block parses to the denoted record: the top theorem [parse_conforming]. *)
From Klog Require Import Base.Prelude Base.Utf8 Model.Calendar Model.Values Model.Record Model.Lines Model.Parser
  Proofs.TagsUtf8 Spec.Spec Proofs.SpecValues Proofs.SpecEntry Proofs.SpecRecord.
From Coq Require Import ZifyBool.
Open Scope Z_scope.

(* ================= lines of a text ================= *)

Definition no_lf (s : bytes) : bool := forallb (fun c => negb (c =? 10)%N) s.

(* a line as [render] writes it: no LF in the text; LF (not after a CR) or CRLF; the last line may lack its newline *)
Definition line_ok (is_last : bool) (l : line) : bool :=
  no_lf (l_text l) &&
  match l_ending l with
  | [e] => (e =? 10)%N && negb (ends_in_cr (l_text l))
  | [e1; e2] => (e1 =? 13)%N && (e2 =? 10)%N
  | [] => is_last && negb (Nat.eqb (length (l_text l)) 0)
  | _ => false
  end.

Fixpoint lines_ok (ls : list line) : bool :=
  match ls with
  | [] => true
  | [l] => line_ok true l
  | l :: r => line_ok false l && lines_ok r
  end.

Lemma raw_lines_acc_line u rest : no_lf u = true -> forall cur,
  raw_lines_acc (u ++ 10%N :: rest) cur = (rev cur ++ u ++ [10%N]) :: raw_lines_acc rest [].
Proof.
  intros Hu. induction u as [|c u IH]; intros cur; cbn [app raw_lines_acc].
  - rewrite N.eqb_refl. cbn [rev]. reflexivity.
  - cbn [no_lf forallb] in Hu. apply andb_true_iff in Hu as [Hc Hu]. apply negb_true_iff in Hc. rewrite Hc.
    rewrite (IH Hu). cbn [rev]. rewrite <- app_assoc. reflexivity.
Qed.

Lemma raw_lines_acc_last u : no_lf u = true -> forall cur, rev cur ++ u <> [] ->
  raw_lines_acc u cur = [rev cur ++ u].
Proof.
  intros Hu. induction u as [|c u IH]; intros cur Hne; cbn [raw_lines_acc].
  - rewrite app_nil_r in *. destruct cur; [cbn [rev] in Hne; congruence|reflexivity].
  - cbn [no_lf forallb] in Hu. apply andb_true_iff in Hu as [Hc Hu]. apply negb_true_iff in Hc. rewrite Hc.
    rewrite (IH Hu); cbn [rev]; rewrite <- app_assoc; [reflexivity|exact Hne].
Qed.

Lemma new_line_crlf t : new_line (t ++ [13; 10]%N) = {| l_text := t; l_ending := [13; 10]%N |}.
Proof. unfold new_line. rewrite rev_app_distr. cbn [rev app]. rewrite rev_involutive. reflexivity. Qed.

Lemma new_line_lf t : ends_in_cr t = false -> new_line (t ++ [10%N]) = {| l_text := t; l_ending := [10%N] |}.
Proof.
  unfold new_line, ends_in_cr. intros H. rewrite rev_app_distr. cbn [rev app].
  destruct (rev t) as [|c r] eqn:E.
  - rewrite <- (rev_involutive t), E. reflexivity.
  - assert (c <> 13%N) by (intros ->; discriminate).
    rewrite <- (rev_involutive t), E.
    destruct c as [|p]; [reflexivity|]. do 4 (destruct p as [p|p|]; try reflexivity). congruence.
Qed.

Lemma new_line_none t : no_lf t = true -> new_line t = {| l_text := t; l_ending := [] |}.
Proof.
  unfold new_line. intros H. destruct (rev t) as [|c r] eqn:E; [reflexivity|].
  assert (In c t) by (apply in_rev; rewrite E; left; reflexivity).
  unfold no_lf in H. rewrite forallb_forall in H. specialize (H c H0). apply negb_true_iff in H. apply N.eqb_neq in H.
  destruct c as [|p]; [reflexivity|]. do 4 (destruct p as [p|p|]; try reflexivity). congruence.
Qed.

Lemma line_eta l : {| l_text := l_text l; l_ending := l_ending l |} = l.
Proof. destruct l; reflexivity. Qed.

(* a line with its newline, followed by anything *)
Lemma raw_lines_cons l rest : line_ok false l = true ->
  raw_lines_acc (original l ++ rest) [] = original l :: raw_lines_acc rest [] /\ new_line (original l) = l.
Proof.
  unfold line_ok, original. intros H. apply andb_true_iff in H as [Hn He].
  destruct (l_ending l) as [|e1 [|e2 [|e3 r]]] eqn:E; try discriminate.
  - apply andb_true_iff in He as [He Hc]. apply N.eqb_eq in He. subst e1. apply negb_true_iff in Hc.
    split.
    + rewrite <- app_assoc. cbn [app]. rewrite (raw_lines_acc_line _ rest Hn []). reflexivity.
    + rewrite (new_line_lf _ Hc), <- E. apply line_eta.
  - apply andb_true_iff in He as [He1 He2]. apply N.eqb_eq in He1, He2. subst e1 e2.
    split.
    + rewrite <- app_assoc. cbn [app]. change (l_text l ++ 13%N :: 10%N :: rest) with (l_text l ++ [13%N] ++ 10%N :: rest).
      rewrite app_assoc. rewrite (raw_lines_acc_line (l_text l ++ [13%N]) rest).
      * cbn [rev app]. rewrite <- app_assoc. reflexivity.
      * unfold no_lf in *. rewrite forallb_app, Hn. reflexivity.
    + rewrite new_line_crlf, <- E. apply line_eta.
Qed.

(* A: the lines of a rendered text are the lines that were written *)
Lemma lines_of_text_of_lines ls : lines_ok ls = true -> lines_of (text_of_lines ls) = ls.
Proof.
  unfold lines_of, raw_lines, text_of_lines. induction ls as [|l ls IH]; intros H; [reflexivity|].
  cbn [flat_map]. destruct ls as [|l2 ls'].
  - cbn [flat_map lines_ok] in *. rewrite app_nil_r.
    destruct (line_ok false l) eqn:Em.
    + destruct (raw_lines_cons l [] Em) as [R N]. rewrite app_nil_r in R. rewrite R. cbn [raw_lines_acc map]. rewrite N. reflexivity.
    + unfold line_ok in *. apply andb_true_iff in H as [Hn He]. rewrite Hn in Em. cbn [andb] in Em.
      destruct (l_ending l) as [|e1 [|e2 [|e3 r]]] eqn:E; try congruence.
      cbn [andb] in He. apply negb_true_iff in He. apply Nat.eqb_neq in He.
      unfold original. rewrite E, app_nil_r.
      rewrite (raw_lines_acc_last _ Hn []) by (cbn [rev app]; destruct (l_text l); [cbn in He; congruence|discriminate]).
      cbn [rev app map]. rewrite (new_line_none _ Hn), <- E. f_equal. apply line_eta.
  - change (lines_ok (l :: l2 :: ls')) with (line_ok false l && lines_ok (l2 :: ls')) in H.
    apply andb_true_iff in H as [Hl Hr].
    destruct (raw_lines_cons l (flat_map original (l2 :: ls')) Hl) as [R N]. rewrite R. cbn [map]. rewrite N.
    f_equal. apply IH. exact Hr.
Qed.

(* ================= blocks ================= *)

(* a group: the lines of one record and the blank lines after it *)
Definition group := (list line * list line)%type.
Definition group_lines (g : group) : list line := fst g ++ snd g.

Fixpoint expect_blocks (p : nat) (head : list line) (gs : list group) : list block :=
  match gs with
  | [] => []
  | g :: rest =>
    {| b_preceding := p; b_lines := head ++ fst g ++ snd g |}
    :: expect_blocks (p + length (head ++ fst g ++ snd g)) [] rest
  end.

Definition group_ok (is_last : bool) (g : group) : bool :=
  negb (Nat.eqb (length (fst g)) 0) && forallb (fun l => negb (is_blank l)) (fst g)
  && forallb is_blank (snd g) && (is_last || negb (Nat.eqb (length (snd g)) 0)).

Fixpoint groups_ok (gs : list group) : bool :=
  match gs with
  | [] => true
  | [g] => group_ok true g
  | g :: rest => group_ok false g && groups_ok rest
  end.

Lemma group_ok_inv b g : group_ok b g = true ->
  fst g <> [] /\ forallb (fun l => negb (is_blank l)) (fst g) = true /\ forallb is_blank (snd g) = true
  /\ (b = true \/ snd g <> []).
Proof.
  unfold group_ok. intros H. apply andb_true_iff in H as [H D]. apply andb_true_iff in H as [H C]. apply andb_true_iff in H as [A B].
  repeat split; try assumption.
  - destruct (fst g); [discriminate|discriminate].
  - destruct b; [left; reflexivity|right]. cbn [orb] in D. destruct (snd g); [discriminate|discriminate].
Qed.

Lemma groups_ok_cons g gs : groups_ok (g :: gs) = true ->
  group_ok (match gs with [] => true | _ => false end) g = true /\ groups_ok gs = true.
Proof. destruct gs as [|g2 gs]; cbn [groups_ok]; [intros H; split; [exact H|reflexivity]|]. intros H. apply andb_true_iff in H. exact H. Qed.

Lemma groups_head_not_blank gs : groups_ok gs = true ->
  match flat_map group_lines gs with l :: _ => is_blank l = false | [] => True end.
Proof.
  intros H. destruct gs as [|g gs]; [exact I|]. apply groups_ok_cons in H as [H _].
  apply group_ok_inv in H as (A & B & C & D).
  cbn [flat_map]. unfold group_lines at 1. destruct (fst g) as [|l r]; [congruence|].
  cbn [forallb] in B. apply andb_true_iff in B as [B _]. apply negb_true_iff in B. exact B.
Qed.

Lemma parse_block_group head g rest : forallb is_blank head = true -> group_ok (match rest with [] => true | _ => false end) g = true ->
  match rest with l :: _ => is_blank l = false | [] => True end ->
  parse_block (head ++ fst g ++ snd g ++ rest) = (Some (head ++ fst g ++ snd g), rest).
Proof.
  intros Hh Hg Hr. apply group_ok_inv in Hg as (A & B & C & D).
  unfold parse_block.
  assert (S0 : match fst g ++ snd g ++ rest with l :: _ => is_blank l = false | [] => True end).
  { destruct (fst g) as [|l r]; [congruence|]. cbn [forallb] in B. apply andb_true_iff in B as [B _]. apply negb_true_iff in B. exact B. }
  rewrite (take_blank_app head _ Hh S0).
  assert (B0 : match snd g ++ rest with l :: _ => is_blank l = true | [] => True end).
  { destruct (snd g) as [|l r] eqn:E.
    - cbn [app]. destruct rest as [|l r]; [trivial|]. destruct D; congruence.
    - cbn [forallb] in C. apply andb_true_iff in C as [C _]. exact C. }
  rewrite (take_significant_app (fst g) _ B B0).
  destruct (fst g) as [|l r] eqn:E; [congruence|].
  rewrite (take_blank_app (snd g) rest C Hr). rewrite <- E. reflexivity.
Qed.

Lemma parse_block_blank head : forallb is_blank head = true -> parse_block head = (None, []).
Proof.
  intros H. unfold parse_block. rewrite <- (app_nil_r head) at 1. rewrite (take_blank_app head [] H I). reflexivity.
Qed.

Lemma flat_map_group_length gs : (length gs <= length (flat_map group_lines gs) \/ groups_ok gs = false)%nat.
Proof.
  induction gs as [|g gs IH]; [left; cbn; lia|].
  destruct (groups_ok (g :: gs)) eqn:E; [|right; reflexivity]. left.
  apply groups_ok_cons in E as [Hg Hgs]. destruct IH as [IH|IH]; [|congruence].
  cbn [flat_map length]. rewrite app_length. unfold group_lines at 1. rewrite app_length.
  apply group_ok_inv in Hg as (A & _). destruct (fst g); [congruence|]. cbn [length]. lia.
Qed.

(* B: the blocks of the lines of a document *)
Lemma blocks_fuel_groups gs : groups_ok gs = true -> forall fuel p head, forallb is_blank head = true ->
  (length (head ++ flat_map group_lines gs) <= fuel)%nat ->
  blocks_fuel fuel p (head ++ flat_map group_lines gs) = expect_blocks p head gs.
Proof.
  induction gs as [|g gs IH]; intros Hg fuel p head Hh Hf.
  - cbn [flat_map expect_blocks]. rewrite app_nil_r. destruct fuel; [reflexivity|]. cbn [blocks_fuel].
    rewrite (parse_block_blank head Hh). reflexivity.
  - destruct (groups_ok_cons g gs Hg) as [Hg1 Hgs].
    cbn [flat_map expect_blocks]. unfold group_lines at 1.
    cbn [flat_map] in Hf. unfold group_lines at 1 in Hf. rewrite !app_length in Hf.
    assert (Hne : (1 <= length (fst g))%nat).
    { apply group_ok_inv in Hg1 as (A & _). destruct (fst g); [congruence|]. cbn [length]. lia. }
    destruct fuel as [|k]; [exfalso; lia|].
    cbn [blocks_fuel]. rewrite <- !app_assoc.
    rewrite (parse_block_group head g (flat_map group_lines gs) Hh).
    + f_equal. rewrite <- (app_nil_l (flat_map group_lines gs)). apply (IH Hgs k _ [] eq_refl).
      cbn [app]. lia.
    + destruct gs as [|g2 gs']; [exact Hg1|].
      cbn [flat_map]. unfold group_lines at 1.
      destruct (groups_ok_cons g2 gs' Hgs) as [Hg2 _]. apply group_ok_inv in Hg2 as (A2 & _).
      destruct (fst g2) as [|l r]; [congruence|]. exact Hg1.
    + apply groups_head_not_blank. exact Hgs.
Qed.

(* ================= the lines of a document ================= *)

Lemma no_lf_encode t : text_ok t = true -> no_lf (utf8_encode t) = true.
Proof.
  induction t as [|c t IH]; [reflexivity|]. cbn [text_ok forallb]. intros H. apply andb_true_iff in H as [Hc Ht].
  unfold utf8_encode. cbn [flat_map]. fold (utf8_encode t). unfold no_lf in *. rewrite forallb_app, (IH Ht), andb_true_r.
  destruct (encode_rune_bytes c) as [[Hlt ->] | [Hge Hb]].
  - cbn [forallb]. apply andb_true_iff in Hc as [_ Hc]. rewrite Hc. reflexivity.
  - rewrite forallb_forall. intros b Hin. rewrite Forall_forall in Hb. specialize (Hb b Hin). lia.
Qed.

Lemma blank_text_ok t : blank_text t = true -> text_ok t = true.
Proof. apply forallb_impl. intros c. unfold scalar. lia. Qed.

Lemma map_l_text_attach crlf final ts : forall i, map l_text (attach crlf final i ts) = map utf8_encode ts.
Proof.
  induction ts as [|t ts IH]; intros i; [reflexivity|].
  destruct ts as [|t2 ts']; [reflexivity|].
  change (attach crlf final i (t :: t2 :: ts')) with
    ({| l_text := utf8_encode t; l_ending := ending (crlf i) |} :: attach crlf final (S i) (t2 :: ts')).
  cbn [map l_text]. rewrite (IH (S i)). reflexivity.
Qed.

Lemma ending_ok b t : line_unambiguous {| l_text := t; l_ending := ending b |} = true -> no_lf t = true ->
  line_ok false {| l_text := t; l_ending := ending b |} = true.
Proof.
  unfold line_unambiguous, line_ok. cbn [l_text l_ending]. intros U N. rewrite N. destruct b; cbn [ending] in *; [reflexivity|].
  rewrite U. reflexivity.
Qed.

Lemma line_ok_weaken l : line_ok false l = true -> line_ok true l = true.
Proof.
  unfold line_ok. intros H. apply andb_true_iff in H as [H1 H2]. rewrite H1.
  destruct (l_ending l) as [|e1 [|e2 [|e3 r]]]; try discriminate; exact H2.
Qed.

Lemma lines_ok_attach crlf final ts : forallb text_ok ts = true -> forall i,
  forallb line_unambiguous (attach crlf final i ts) = true -> lines_ok (attach crlf final i ts) = true.
Proof.
  induction ts as [|t ts IH]; intros T i U; [reflexivity|].
  cbn [forallb] in T. apply andb_true_iff in T as [Tt T].
  destruct ts as [|t2 ts'].
  - cbn [attach lines_ok forallb] in *. rewrite andb_true_r in U.
    destruct final.
    + apply line_ok_weaken, ending_ok; [exact U|apply no_lf_encode; exact Tt].
    + unfold line_ok, line_unambiguous in *. cbn [l_text l_ending] in *. rewrite (no_lf_encode _ Tt), U. reflexivity.
  - change (attach crlf final i (t :: t2 :: ts')) with
      ({| l_text := utf8_encode t; l_ending := ending (crlf i) |} :: attach crlf final (S i) (t2 :: ts')) in *.
    cbn [forallb] in U. apply andb_true_iff in U as [U1 U2].
    assert (R : lines_ok (attach crlf final (S i) (t2 :: ts')) = true) by (apply IH; assumption).
    destruct (attach crlf final (S i) (t2 :: ts')) as [|l2 r2] eqn:E.
    + destruct ts'; discriminate.
    + change (lines_ok (?a :: l2 :: r2)) with (line_ok false a && lines_ok (l2 :: r2)).
      rewrite R, andb_true_r. apply ending_ok; [exact U1|apply no_lf_encode; exact Tt].
Qed.

Lemma record_texts_ok r : wf_record r = true -> forallb text_ok (record_texts r) = true.
Proof.
  intros W. destruct (wf_record_inv r W) as (Wd & Ws & Wt & Wsum & Went & _).
  unfold record_texts. cbn [forallb]. rewrite (headline_text_ok r W). cbn [andb].
  rewrite forallb_app. apply andb_true_iff; split.
  - revert Wsum. apply forallb_impl. intros t H. unfold summary_line_ok in H. apply andb_true_iff in H as [H _]. exact H.
  - rewrite forallb_forall. intros t Hin. apply in_flat_map in Hin as (e & He & Hin).
    rewrite forallb_forall in Went. specialize (Went e He).
    unfold entry_texts in Hin. destruct Hin as [<- | Hin].
    + apply (entry_line_text_ok (sr_indent r) e Went).
    + apply in_map_iff in Hin as (t' & <- & Hin).
      unfold wf_entry in Went. apply andb_true_iff in Went as [_ Wm]. rewrite forallb_forall in Wm. specialize (Wm t' Hin).
      apply andb_true_iff in Wm as [Tok _]. rewrite !text_ok_app, Tok.
      replace (text_ok (indent_text (sr_indent r))) with true by (destruct (sr_indent r); reflexivity). reflexivity.
Qed.

Lemma doc_texts_ok d : wf d -> forallb text_ok (doc_texts d) = true.
Proof.
  unfold wf, wf_doc. intros W. apply andb_true_iff in W as [W _]. apply andb_true_iff in W as [W G]. apply andb_true_iff in W as [Wl Wr].
  unfold doc_texts. rewrite forallb_app. apply andb_true_iff; split.
  - revert Wl. apply forallb_impl. exact blank_text_ok.
  - clear Wl. induction (do_records d) as [|rg recs IH]; [reflexivity|].
    cbn [forallb] in Wr. apply andb_true_iff in Wr as [Wr1 Wr].
    assert (Gb : forallb blank_text (snd rg) = true /\ gaps_ok recs = true).
    { destruct recs as [|rg2 recs']; cbn [gaps_ok] in G; [split; [exact G|reflexivity]|].
      apply andb_true_iff in G as [G G2]. apply andb_true_iff in G as [G _]. split; assumption. }
    destruct Gb as [Gb G'].
    cbn [flat_map]. rewrite !forallb_app, (record_texts_ok _ Wr1), (IH Wr G'), andb_true_r. cbn [andb].
    revert Gb. apply forallb_impl. exact blank_text_ok.
Qed.

(* ================= groups of a document ================= *)

Definition group_of (g : group) (rg : s_record * list text) : Prop :=
  map l_text (fst g) = map utf8_encode (record_texts (fst rg)) /\ map l_text (snd g) = map utf8_encode (snd rg).

Lemma split_groups recs : forall L,
  map l_text L = map utf8_encode (flat_map (fun rg => record_texts (fst rg) ++ snd rg) recs) ->
  exists gs, L = flat_map group_lines gs /\ Forall2 group_of gs recs.
Proof.
  induction recs as [|rg recs IH]; intros L M.
  - destruct L; [|discriminate]. exists []. split; [reflexivity|constructor].
  - cbn [flat_map] in M. rewrite !map_app in M.
    apply map_eq_app in M as (L1 & L2 & -> & M1 & M2).
    apply map_eq_app in M1 as (La & Lb & -> & Ma & Mb).
    destruct (IH L2 M2) as (gs & -> & F).
    exists ((La, Lb) :: gs). split; [reflexivity|]. constructor; [split; assumption|exact F].
Qed.

Lemma blank_lines_of_texts ls ts : map l_text ls = map utf8_encode ts -> forallb blank_text ts = true -> forallb is_blank ls = true.
Proof.
  revert ls. induction ts as [|t ts IH]; intros ls M B; destruct ls as [|l ls]; try discriminate; [reflexivity|].
  assert (Ml : l_text l = utf8_encode t) by (cbn [map] in M; congruence).
  assert (Mr : map l_text ls = map utf8_encode ts) by (cbn [map] in M; congruence).
  cbn [forallb] in *. apply andb_true_iff in B as [Bt B]. rewrite (is_blank_of_text l t Ml), Bt. exact (IH ls Mr B).
Qed.

Lemma gaps_ok_cons rg recs : gaps_ok (rg :: recs) = true ->
  forallb blank_text (snd rg) = true /\ (recs = [] \/ snd rg <> []) /\ gaps_ok recs = true.
Proof.
  destruct recs as [|rg2 recs']; cbn [gaps_ok]; intros G.
  - repeat split; [exact G|left; reflexivity].
  - apply andb_true_iff in G as [G G2]. apply andb_true_iff in G as [G N]. repeat split; try assumption.
    right. destruct (snd rg); [discriminate|discriminate].
Qed.

Lemma groups_ok_of gs recs : Forall2 group_of gs recs ->
  forallb (fun rg => wf_record (fst rg)) recs = true -> gaps_ok recs = true -> groups_ok gs = true.
Proof.
  induction 1 as [|g rg gs recs [Hs Hg] F IH]; intros W G; [reflexivity|].
  cbn [forallb] in W. apply andb_true_iff in W as [Wr W].
  destruct (gaps_ok_cons rg recs G) as (Gb & Gn & G').
  specialize (IH W G').
  assert (Hg1 : forall b, (b = true \/ snd g <> []) -> group_ok b g = true).
  { intros b Hb. unfold group_ok.
    rewrite (sig_not_blank (fst rg) (fst g) Wr Hs), (blank_lines_of_texts _ _ Hg Gb).
    destruct (fst g) as [|l r] eqn:E; [unfold record_texts in Hs; discriminate|]. cbn [length Nat.eqb negb andb].
    destruct Hb as [-> | Hb]; [reflexivity|]. destruct (snd g); [congruence|]. cbn [length Nat.eqb negb]. apply orb_true_r. }
  destruct gs as [|g2 gs'].
  - cbn [groups_ok]. apply Hg1. left. reflexivity.
  - change (groups_ok (g :: g2 :: gs')) with (group_ok false g && groups_ok (g2 :: gs')). rewrite IH, andb_true_r.
    apply Hg1. right. destruct Gn as [-> | Gn]; [inversion F|].
    intros E. apply Gn. rewrite E in Hg. destruct (snd rg); [reflexivity|discriminate].
Qed.

(* every block parses to the record it was written from *)
Lemma parse_blocks_groups gs recs : Forall2 group_of gs recs ->
  forallb (fun rg => wf_record (fst rg)) recs = true -> gaps_ok recs = true ->
  forall p head rs, forallb is_blank head = true ->
  parse_blocks (expect_blocks p head gs) rs [] = Ok (rs ++ map (fun rg => denote_record (fst rg)) recs, []).
Proof.
  induction 1 as [|g rg gs recs [Hs Hg] F IH]; intros W G p head rs Hh.
  - cbn [expect_blocks parse_blocks map]. rewrite app_nil_r. reflexivity.
  - cbn [forallb] in W. apply andb_true_iff in W as [Wr W].
    destruct (gaps_ok_cons rg recs G) as (Gb & _ & G').
    cbn [expect_blocks parse_blocks].
    rewrite (parse_record_spec (fst rg) {| b_preceding := p; b_lines := head ++ fst g ++ snd g |} head (fst g) (snd g) Wr eq_refl Hh (blank_lines_of_texts _ _ Hg Gb) Hs).
    rewrite (IH W G' _ [] _ eq_refl). cbn [map]. rewrite <- app_assoc. reflexivity.
Qed.

(* ================= L3: the top theorem ================= *)

Theorem parse_conforming d : wf d ->
  parse_text (render d) = Ok (Parsed (denote d) (blocks_of (render d))).
Proof.
  intros W. pose proof (doc_texts_ok d W) as T.
  pose proof W as W'. unfold wf, wf_doc in W'. apply andb_true_iff in W' as [W' U]. apply andb_true_iff in W' as [W' G].
  apply andb_true_iff in W' as [Wl Wr].
  unfold parse_text, blocks_of, render.
  rewrite (lines_of_text_of_lines (doc_lines d)) by (apply lines_ok_attach; assumption).
  pose proof (map_l_text_attach (do_crlf d) (do_final_newline d) (doc_texts d) 0) as M. fold (doc_lines d) in M.
  unfold doc_texts in M. rewrite map_app in M. apply map_eq_app in M as (Llead & L2 & EL & Ml & M2).
  destruct (split_groups (do_records d) L2 M2) as (gs & -> & F).
  rewrite EL. unfold blocks_of_lines.
  assert (Hlead : forallb is_blank Llead = true) by (apply (blank_lines_of_texts _ _ Ml Wl)).
  rewrite (blocks_fuel_groups gs (groups_ok_of gs _ F Wr G) _ 0 Llead Hlead (le_n _)).
  unfold parse_lines_blocks. rewrite (parse_blocks_groups gs _ F Wr G 0 Llead [] Hlead).
  reflexivity.
Qed.
