"""C13 — filters and sorting select exactly the matching data and never alter it.

Requests (coq/Model/SuiteQuery.v, harness/suite_query.go):
    query-run <y> <m> <d> <sort> <n> <flag_1> ... <flag_n> <hex file>

The oracle is a reference implementation of the property text over the generator's own AST (specgen documents
whose dates, entries and tags the generator chose itself): it never parses klog text and shares no code with
the Coq model. Tags in generated summaries are restricted to forms whose reading is beyond doubt
(`#name`, `#name=value`, `#name="quoted value"`); tag recognition itself is property C14.
"""
import sys, os, re, datetime
sys.path.insert(0, os.path.dirname(os.path.dirname(os.path.abspath(__file__))))
from check import Suite
import specgen
from specgen import dim

def hx(s):
    b = s.encode("utf-8") if isinstance(s, str) else s
    return b.hex() if b else "-"

def unhx(h):
    return b"" if h == "-" else bytes.fromhex(h)

# ------------------------------------------------------------------ calendar reference (Python's datetime, shifted
# by one 400-year cycle = 146,097 days = 20,871 whole weeks where datetime cannot represent year 0)

ERA = 146097

def to_ord(y, m, d):
    """day number; 0001-01-01 is 1, a Monday"""
    if y >= 1:
        return datetime.date(y, m, d).toordinal()
    return datetime.date(y + 400, m, d).toordinal() - ERA

def from_ord(n):
    """(y, m, d), also outside 0000..9999 (then y is < 0 or > 9999)"""
    k = 0
    while n < 1:
        n += ERA; k -= 400
    while n > 3652059:
        n -= ERA; k += 400
    t = datetime.date.fromordinal(n)
    return (t.year + k, t.month, t.day)

def representable(ymd):
    return 0 <= ymd[0] <= 9999

def monday_ord(n):
    return n - (n - 1) % 7          # ordinal 1 is a Monday

def iso_year_week(y, m, d):
    if y >= 1 and y <= 9998:
        c = datetime.date(y, m, d).isocalendar()
        return (c[0], c[1])
    # shift into datetime's range; the weekday pattern repeats every 400 years
    s = 400 if y < 1 else -400
    c = datetime.date(y + s, m, d).isocalendar()
    return (c[0] - s, c[1])

def weeks_in_iso_year(y):
    yy = y if 1 <= y <= 9998 else (y + 400 if y < 1 else y - 400)
    return datetime.date(yy, 12, 28).isocalendar()[1]

def quarter_of(m):
    return (m - 1) // 3 + 1

# ------------------------------------------------------------------ what each clause means (from the property text and
# the CLI help: since/until inclusive, after/before exclusive, --period YYYY | YYYY-MM | YYYY-Qq | YYYY-Www)

DATE_RE = re.compile(r"^([0-9]{4})([-/])([0-9]{2})([-/])([0-9]{2})$")

def read_date(s):
    m = DATE_RE.match(s)
    if not m or m.group(2) != m.group(4):
        return None
    y, mo, d = int(m.group(1)), int(m.group(3)), int(m.group(5))
    if not (1 <= mo <= 12 and 1 <= d <= dim(y, mo)):
        return None
    return (y, mo, d)

def read_period(s):
    """returns a predicate on (y, m, d), or None when the pattern names no period"""
    m = re.match(r"^([0-9]{4})$", s)
    if m:
        py = int(m.group(1))
        return lambda r: r[0] == py
    m = re.match(r"^([0-9]{4})-([0-9]{2})$", s)
    if m:
        py, pm = int(m.group(1)), int(m.group(2))
        if not 1 <= pm <= 12: return None
        return lambda r: (r[0], r[1]) == (py, pm)
    m = re.match(r"^([0-9]{4})-Q([0-9])$", s)
    if m:
        py, pq = int(m.group(1)), int(m.group(2))
        if not 1 <= pq <= 4: return None
        return lambda r: (r[0], quarter_of(r[1])) == (py, pq)
    m = re.match(r"^([0-9]{4})-W([0-9]{1,2})$", s)
    if m:
        py, pw = int(m.group(1)), int(m.group(2))
        if not 1 <= pw <= weeks_in_iso_year(py): return None
        return lambda r: iso_year_week(*r) == (py, pw)
    return None

ENTRY_TYPES = {"RANGE": "range", "OPEN_RANGE": "open", "DURATION": "dur", "DURATION_POSITIVE": "pos", "DURATION_NEGATIVE": "neg"}

def read_entry_type(s):
    return ENTRY_TYPES.get(s.upper().replace("-", "_")) if s.isascii() else None

QTAG_RE = re.compile(r"^#?([A-Za-z0-9_\-À-ɏ]+)(=(\"[^\"]*\"|'[^']*'|[A-Za-z0-9_\-À-ɏ]*))?$")

def read_tag(s):
    """(lower-case name, value) of a --tag argument in one of the simple forms this generator uses"""
    m = QTAG_RE.match(s)
    if not m:
        return None
    v = m.group(3) or ""
    if v[:1] in "\"'" and v[:1]:
        v = v[1:-1]
    return (m.group(1).lower(), v)

def tag_selected(tags, q):
    """tags: the (name, value) pairs a summary carries; a query without value matches any value"""
    return any(n == q[0] and (q[1] == "" or v == q[1]) for n, v in tags)

def type_ok(kind, e):
    if kind == "range": return e.kind == "range"
    if kind == "open": return e.kind == "open"
    if e.kind != "dur": return False
    if kind == "dur": return True
    if kind == "neg": return e.d.mins() < 0
    return e.d.mins() >= 0          # positive: every duration that is not negative

SHORTCUTS = {"this-week": ("week", 0), "thisweek": ("week", 0), "last-week": ("week", -1), "lastweek": ("week", -1),
             "this-month": ("month", 0), "thismonth": ("month", 0), "last-month": ("month", -1), "lastmonth": ("month", -1),
             "this-quarter": ("quarter", 0), "thisquarter": ("quarter", 0), "last-quarter": ("quarter", -1), "lastquarter": ("quarter", -1),
             "this-year": ("year", 0), "thisyear": ("year", 0), "last-year": ("year", -1), "lastyear": ("year", -1)}
SHORTCUT_ORDER = ["week", "month", "quarter", "year"]

def shortcut_pred(name, today):
    unit, back = SHORTCUTS[name]
    ty, tm, td = today
    if unit == "week":
        want = monday_ord(to_ord(*today)) + 7 * back
        return lambda r: monday_ord(to_ord(*r)) == want
    if unit == "month":
        k = ty * 12 + (tm - 1) + back
        return lambda r: r[0] * 12 + (r[1] - 1) == k
    if unit == "quarter":
        k = ty * 4 + (quarter_of(tm) - 1) + back
        return lambda r: r[0] * 4 + (quarter_of(r[1]) - 1) == k
    return lambda r: r[0] == ty + back

def date_pred(name, value, today):
    """predicate on (y, m, d) for one date clause; None: the command line is not acceptable"""
    if name in ("date", "since", "until", "after", "before"):
        q = read_date(value)
        if q is None: return None
        if name == "date": return lambda r: r == q
        if name == "since": return lambda r: r >= q
        if name == "until": return lambda r: r <= q
        if name == "after": return lambda r: r > q
        return lambda r: r < q
    if name == "period":
        return read_period(value)
    if name == "today":
        return lambda r: r == today
    if name in ("yesterday", "tomorrow"):
        want = to_ord(*today) + (-1 if name == "yesterday" else 1)
        return lambda r: to_ord(*r) == want
    return shortcut_pred(name, today)

SORTS = {"asc": 1, "ASC": 1, "desc": -1, "DESC": -1}

# slots in which FilterArgs.ApplyFilter keeps a single value
LOWER = {"since", "after", "period"} | set(SHORTCUTS)
UPPER = {"until", "before", "period"} | set(SHORTCUTS)
AT = {"date", "today", "yesterday", "tomorrow"}

# ------------------------------------------------------------------ the reference selection

def show_record(r, idx):
    es = [r.entries[i] for i in idx]
    # observed through `klog print`, which writes a should-total of zero like an absent one (property C09)
    parts = ["R", hx(r.date_text()), str(r.should.mins()) if r.should is not None and r.should.mins() != 0 else "_",
             ",".join(hx(l) for l in r.summary) if r.summary else "_", str(len(es))] + [e.show() for e in es]
    return " ".join(parts)

JSON_TYPE = {"dur": "duration", "range": "range", "open": "open_range"}

def show_json_record(r, idx):
    """the same selection as `klog json` shows it (fields that need no evaluation)"""
    parts = ["J", hx(r.date_text()), str(r.should.mins()) if r.should is not None else "0", hx("\n".join(r.summary)), str(len(idx))]
    for i in idx:
        e = r.entries[i]
        start = str(e.a.off) if e.kind != "dur" else "_"
        end = str(e.b.off) if e.kind == "range" else "_"
        parts.append(":".join([JSON_TYPE[e.kind], str(e.minutes()), start, end, hx("\n".join(e.summary_lines()))]))
    return " ".join(parts)

def reference(doc, today, sort, flags, semantics="all", view="print"):
    """the records and entries the property says are selected, as the canonical result line.
       semantics "all": every clause given must hold (the property);
       "override": of several clauses for the same bound only the one FilterArgs.ApplyFilter keeps (used solely
       to recognise known finding K13a exactly)"""
    preds, qtags, etype = [], [], None
    for name, value in flags:
        if name == "tag":
            # the flag takes a comma-separated list (`--tag=TAG,...` in the command's help)
            pieces = value.split(",")
            if pieces[-1] == "" and len(pieces) > 1: pieces.pop()
            for piece in pieces:
                t = read_tag(piece)
                if t is None: return "argerr"
                qtags.append(t)
        elif name == "entry-type":
            etype = read_entry_type(value)
            if etype is None: return "argerr"
        else:
            if (value is None) != (name in SHORTCUTS or name in ("today", "yesterday", "tomorrow")):
                return "argerr"
            p = date_pred(name, value, today)
            if p is None: return "argerr"
            preds.append((name, p))
    if sort is not None and sort not in SORTS:
        return "argerr"
    if semantics == "override":
        preds = override_view(flags, today)
    selected = []
    for r in doc.records:
        if not all(p(r.ymd) for _, p in preds):
            continue
        rtags = r.c13_tags
        idx = [i for i, e in enumerate(r.entries)
               if all(tag_selected(rtags + e.c13_tags, q) for q in qtags) and (etype is None or type_ok(etype, e))]
        whole = etype is None and all(tag_selected(rtags, q) for q in qtags)
        if whole:
            idx = list(range(len(r.entries)))
        elif not idx:
            continue
        selected.append((r.ymd, show_record(r, idx) if view == "print" else show_json_record(r, idx)))
    if sort is not None:
        sign = SORTS[sort]
        selected.sort(key=lambda t: t[1])                         # canonical order inside a date ...
        selected.sort(key=lambda t: to_ord(*t[0]) * sign)         # ... dates ascending / descending (stable)
    return " ".join(["ok", str(len(selected))] + [s for _, s in selected])

def period_bounds(value):
    """first and last day number of a --period pattern (only used to recognise known finding K13a)"""
    y = int(value[:4])
    if len(value) == 4: return to_ord(y, 1, 1), to_ord(y, 12, 31)
    if value[5] == "Q":
        q = int(value[6]); return to_ord(y, 3 * q - 2, 1), to_ord(y, 3 * q, dim(y, 3 * q))
    if value[5] == "W":
        lo = monday_ord(to_ord(y, 1, 4)) + 7 * (int(value[6:]) - 1)      # week 1 is the week of January 4th
        return lo, lo + 6
    m = int(value[5:7]); return to_ord(y, m, 1), to_ord(y, m, dim(y, m))

def shortcut_bounds(name, today):
    unit, back = SHORTCUTS[name]
    ty, tm, td = today
    if unit == "week":
        lo = monday_ord(to_ord(*today)) + 7 * back
        return lo, lo + 6
    if unit == "month":
        k = ty * 12 + (tm - 1) + back; y, m = k // 12, k % 12 + 1
        return to_ord(y, m, 1), to_ord(y, m, dim(y, m))
    if unit == "quarter":
        k = ty * 4 + (quarter_of(tm) - 1) + back; y, q = k // 4, k % 4 + 1
        return to_ord(y, 3 * q - 2, 1), to_ord(y, 3 * q, dim(y, 3 * q))
    return to_ord(ty + back, 1, 1), to_ord(ty + back, 12, 31)

def winning_shortcut(names):
    for unit in SHORTCUT_ORDER:
        for pre in ("this", "last"):
            for n in (pre + "-" + unit, pre + unit):
                if n in names: return n
    return None

def override_view(flags, today):
    """the clauses that survive FilterArgs.ApplyFilter when several compete for the same bound: for each bound the
       value assigned last in that function"""
    names = [n for n, _ in flags]
    val = dict(flags)
    lo = hi = at = None
    if "since" in names: lo = to_ord(*read_date(val["since"]))
    if "until" in names: hi = to_ord(*read_date(val["until"]))
    if "date" in names: at = to_ord(*read_date(val["date"]))
    if "period" in names: lo, hi = period_bounds(val["period"])
    if "after" in names: lo = to_ord(*read_date(val["after"])) + 1
    if "before" in names: hi = to_ord(*read_date(val["before"])) - 1
    if "today" in names: at = to_ord(*today)
    if "yesterday" in names: at = to_ord(*today) - 1
    if "tomorrow" in names: at = to_ord(*today) + 1
    sc = winning_shortcut(names)
    if sc: lo, hi = shortcut_bounds(sc, today)
    out = []
    if lo is not None: out.append(("lower", lambda r: to_ord(*r) >= lo))
    if hi is not None: out.append(("upper", lambda r: to_ord(*r) <= hi))
    if at is not None: out.append(("at", lambda r: to_ord(*r) == at))
    return out

# ------------------------------------------------------------------ generators

NAMES = ["a", "b", "work", "foo-bar", "x_1", "büro", "T2", "ǅungla", "ǈ1"]
VALUES = ["", "", "", "1", "x", "X", "a b", "it's", '5"', "'hi'", "hi", "5", '"q"', "q"]
# values that differ only by a quote character at either end (a quoted value may contain the other kind of quote)
CONFUSABLE = [("hi", "'hi'"), ("5", '5"'), ("q", '"q"'), ("x", "x'"), ("1", '"1')]
WORDS = ["foo", "bar", "Lunch", "with", "é", "読む", "x=1", "(", "8:00", "1h", "2020-01-01", "!", "=", "'q'", "\"", "end."]

def spelled_tag(rng, name, value):
    """text of a tag in a summary and the (lower-case name, value) it denotes"""
    n = name if rng.random() < 0.7 else rng.choice([name.upper(), name.capitalize()])
    if value == "":
        s = "#" + n + rng.choice(["", "", "", "="])
    elif " " in value or "'" in value or "\"" in value:
        q = "'" if "\"" in value else "\"" if "'" in value or rng.random() < 0.6 else "'"
        s = "#%s=%s%s%s" % (n, q, value, q)
    else:
        s = "#%s=%s" % (n, value) if rng.random() < 0.8 else "#%s=\"%s\"" % (n, value)
    return s, (n.lower(), value)

def tagged_line(rng, vocab):
    """one summary line: words and tags separated by blanks, punctuation after a tag now and then"""
    toks, tags = [], []
    for _ in range(rng.choice([1, 1, 2, 3, 4])):
        if rng.random() < 0.5:
            name, value = rng.choice(vocab)
            s, t = spelled_tag(rng, name, value)
            if not s.endswith("=") and rng.random() < 0.2:
                s += rng.choice([".", ",", ")", "!", ";"])
            toks.append(s); tags.append(t)
        else:
            toks.append(rng.choice(WORDS))
    line = " ".join(toks)
    if line[0] in " \t":
        line = "x" + line
    return line, tags

ANCHORS = [(2019, 12, 30), (2020, 1, 1), (2020, 12, 31), (2021, 1, 3), (2021, 1, 4), (2020, 12, 28), (2020, 2, 29), (2024, 2, 29), (2021, 3, 31),
           (2021, 4, 1), (2022, 6, 30), (2022, 10, 1), (2023, 1, 1), (2015, 12, 31), (2016, 1, 3), (2026, 12, 31), (2000, 1, 1), (1999, 12, 31),
           (0, 1, 2), (0, 1, 10), (0, 4, 1), (1, 1, 1), (0, 12, 31), (9999, 12, 30), (9999, 12, 26), (9999, 1, 1), (9998, 12, 31), (1900, 3, 1), (2100, 2, 28)]
OFFSETS = [0, 0, 0, 1, -1, 1, -1, 2, -2, 3, -3, 6, -6, 7, -7, 8, -8, 13, 14, 27, 28, 29, 30, 31, -28, -30, -31, 59, 60, 89, 90, 91, 92, -90, -92,
           180, 364, 365, 366, 367, -364, -365, -366, 730]
LO, HI = to_ord(0, 1, 1), to_ord(9999, 12, 31)

def near(rng, anchor, inside=False):
    o = to_ord(*anchor) + rng.choice(OFFSETS)
    o = max(LO + (1 if inside else 0), min(HI - (1 if inside else 0), o))
    return from_ord(o)

def make_doc(rng, anchor, max_records=6, max_entries=5, big=False, nrec=None):
    d = specgen.Doc(rng, max_records=max_records, max_entries=max_entries)
    if not d.records and rng.random() < 0.9:
        d.records = [specgen.Record(rng, max_entries) for _ in range(rng.choice([1, 2, 3, 4, 6, 8]))]
        d.gaps = [[rng.choice(specgen.BLANKS) for _ in range(rng.choice([1, 1, 2]))] for _ in d.records]
    if big:
        d.records = [specgen.Record(rng, 2) for _ in range(nrec or rng.randint(13, 40))]
        d.gaps = [[""] for _ in d.records]
    vocab = [(rng.choice(NAMES), rng.choice(VALUES)) for _ in range(rng.choice([2, 3, 4]))]
    if rng.random() < 0.2:
        nm = rng.choice(NAMES); a, b = rng.choice(CONFUSABLE)
        vocab += [(nm, a), (nm, b)]
    pool = [near(rng, anchor) for _ in range(rng.choice([1, 2, 3, 5]))]        # few distinct dates: duplicates and ties for --sort
    for r in d.records:
        r.ymd = rng.choice(pool) if rng.random() < 0.6 else near(rng, anchor)
        r.c13_tags = []
        r.summary = []
        for _ in range(rng.choice([0, 0, 1, 1, 2])):
            line, tags = tagged_line(rng, vocab)
            r.summary.append(line); r.c13_tags += tags
        for e in r.entries:
            if e.kind == "dur" and abs(e.d.mins()) > 10**9:
                e.d.h, e.d.m = (1, None) if e.d.h is not None else (None, 1)       # keep numbers small: overflow is C02/C06
            e.c13_tags = []
            if rng.random() < 0.65:
                e.first, tags = tagged_line(rng, vocab); e.c13_tags += tags
            else:
                e.first = None
            more = []
            for ex, _ in e.more:
                line, tags = tagged_line(rng, vocab)
                more.append((ex, line)); e.c13_tags += tags
            e.more = more
    return d, vocab

def spelled_date(rng, ymd):
    sep = rng.choice(["-", "-", "/"])
    return "%04d%s%02d%s%02d" % (ymd[0], sep, ymd[1], sep, ymd[2])

def period_pattern(rng, ymd):
    y, m, d = ymd
    k = rng.randrange(5)
    if k == 0: return "%04d" % y
    if k == 1: return "%04d-%02d" % (y, m)
    if k == 2: return "%04d-Q%d" % (y, quarter_of(m))
    iy, iw = iso_year_week(y, m, d)
    if not 0 <= iy <= 9999 or (iy, iw) == (9999, 52):
        return "%04d-%02d" % (y, m)         # the first and the last week of the calendar are not whole: C15 (F8)
    return "%04d-W%02d" % (iy, iw) if rng.random() < 0.7 or iw >= 10 else "%04d-W%d" % (iy, iw)

def query_tag(rng, vocab):
    name, value = rng.choice(vocab) if rng.random() < 0.85 else (rng.choice(NAMES), rng.choice(VALUES))
    if rng.random() < 0.35: value = ""
    if rng.random() < 0.1: value = rng.choice(VALUES)
    n = name if rng.random() < 0.6 else rng.choice([name.upper(), name.capitalize()])
    s = ("#" if rng.random() < 0.5 else "") + n
    if value:
        if "\"" in value: s += "='%s'" % value
        elif " " in value or "'" in value: s += "=\"%s\"" % value
        else: s += "=" + (value if rng.random() < 0.8 else rng.choice(["\"%s\"", "'%s'"]) % value)
    return s

TYPE_SPELLINGS = ["range", "open-range", "duration", "duration-positive", "duration-negative", "RANGE", "open_range", "OPEN-RANGE", "Duration",
                  "DURATION_POSITIVE", "duration_negative", "Duration-Negative", "oPeN_rAnGe"]

def date_flags(rng, doc, anchor, today, conflicts):
    """date clauses; conflicts=False: at most one clause per bound (lower, upper, exact date)"""
    rd = [r.ymd for r in doc.records] or [anchor]
    def qdate():
        t = rng.choice(rd) if rng.random() < 0.7 else near(rng, rng.choice(rd))
        if rng.random() < 0.15: t = from_ord(max(LO + 1, min(HI - 1, to_ord(*t) + rng.choice([-1, 1]))))
        return t
    def inner(o):      # --after / --before need the neighbour to be a date
        return from_ord(max(LO + 1, min(HI - 1, o)))
    fl = []
    k = rng.random()
    if k < 0.22: pass
    elif k < 0.36: fl.append((rng.choice(["since", "after"]), None))
    elif k < 0.50: fl.append((rng.choice(["until", "before"]), None))
    elif k < 0.65: fl += [(rng.choice(["since", "after"]), None), (rng.choice(["until", "before"]), None)]
    elif k < 0.82: fl.append(("period", period_pattern(rng, qdate())))
    else: fl.append((rng.choice(list(SHORTCUTS)), None))
    if rng.random() < 0.18:
        fl.append((rng.choice(["date", "date", "today", "yesterday", "tomorrow"]), None))
    if conflicts:
        for _ in range(rng.choice([1, 1, 2, 3])):
            fl.append((rng.choice(["since", "after", "until", "before", "period", "date", "today", "yesterday", "tomorrow"] + list(SHORTCUTS)), None))
    out, seen = [], set()
    lo_d, hi_d = sorted([qdate(), qdate()])
    if rng.random() < 0.2: lo_d, hi_d = hi_d, lo_d          # an empty interval now and then
    for n, v in fl:
        if n in seen: continue
        seen.add(n)
        if n == "since": v = spelled_date(rng, lo_d)
        elif n == "until": v = spelled_date(rng, hi_d)
        elif n == "date": v = spelled_date(rng, qdate())
        elif n == "after": v = spelled_date(rng, inner(to_ord(*lo_d) - rng.choice([0, 1, 1])))
        elif n == "before": v = spelled_date(rng, inner(to_ord(*hi_d) + rng.choice([0, 1, 1])))
        elif n == "period" and v is None: v = period_pattern(rng, qdate())
        out.append((n, v))
    return out

def pick_today(rng, rd, flags):
    """the clock: placed so that the relative clauses hit, or just miss, dates of records"""
    names = [n for n, _ in flags]
    base = rng.choice(rd)
    o = to_ord(*base)
    if "yesterday" in names: o += rng.choice([1, 1, 1, 0, 2])
    elif "tomorrow" in names: o -= rng.choice([1, 1, 1, 0, 2])
    elif "today" in names: o += rng.choice([0, 0, 0, 1, -1])
    else:
        sc = winning_shortcut(names)
        if sc:
            unit, back = SHORTCUTS[sc]
            span = {"week": 7, "month": 30, "quarter": 91, "year": 365}[unit]
            o += rng.choice([0, 1, -1, 3, -3, span // 2, -(span // 2)]) - back * rng.choice([span, span, span - 1, span + 1, 1, span // 2])
        else:
            o += rng.choice(OFFSETS)
    return from_ord(max(LO + 1, min(HI - 1, o)))

def has_conflict(flags):
    names = [n for n, _ in flags]
    return any(sum(1 for n in names if n in slot) > 1 for slot in (LOWER, UPPER, AT))

def request(today, sort, flags, doc, cmd="query-run"):
    toks = [n if v is None else n + ":" + hx(v) for n, v in flags]
    return " ".join([cmd, str(today[0]), str(today[1]), str(today[2]), hx(sort) if sort else "-", str(len(toks))] + toks + [hx(doc.render())])

EXPECT = {}            # request -> result line the property demands
OVERRIDE = {}          # request -> result line under the "last clause wins" reading (recognises K13a)
INFO = {}              # request -> (today, flags)

def build(rng, conflicts=False, big=False):
    anchor = rng.choice(ANCHORS) if rng.random() < 0.8 else (rng.randrange(0, 10000), rng.randint(1, 12), rng.randint(1, 28))
    doc, vocab = make_doc(rng, anchor, big=big)
    rd = [r.ymd for r in doc.records] or [anchor]
    flags = date_flags(rng, doc, anchor, None, conflicts)
    today = pick_today(rng, rd, flags)                       # 0000-01-02 .. 9999-12-30
    ntags = rng.choice([0, 0, 0, 1, 1, 1, 2, 2, 3])
    carried = [r.c13_tags + e.c13_tags for r in doc.records for e in r.entries if r.c13_tags + e.c13_tags]
    if ntags >= 2 and carried and rng.random() < 0.7:
        # tags one entry carries together with its record: the conjunction can be met
        src = rng.choice(carried)
        for _ in range(ntags):
            n_, v_ = rng.choice(src)
            flags.append(("tag", query_tag(rng, [(n_, v_)])))
    else:
        for _ in range(ntags):
            flags.append(("tag", query_tag(rng, vocab)))
    if rng.random() < 0.4:
        sp = rng.choice(TYPE_SPELLINGS)
        kinds = [e for r in doc.records for e in r.entries]
        if kinds and rng.random() < 0.5:
            # a type that occurs in the file
            e = rng.choice(kinds)
            want = {"range": ["range"], "open": ["open"], "dur": ["dur", "neg" if e.kind == "dur" and e.d.mins() < 0 else "pos"]}[e.kind]
            sp = rng.choice([t for t in TYPE_SPELLINGS if read_entry_type(t) in want])
        flags.append(("entry-type", sp))
    tagv = [v for n_, v in flags if n_ == "tag"]
    if len(tagv) >= 2 and rng.random() < 0.25:
        # the same tags as one comma-separated list
        flags = [(n_, v) for n_, v in flags if n_ != "tag"] + [("tag", ",".join(tagv) + rng.choice(["", "", ","]))]
    rng.shuffle(flags)
    sort = rng.choice([None, None, None, "asc", "desc", "ASC", "DESC"]) if not big else rng.choice(["asc", "asc", "desc", "ASC", "DESC"])
    return doc, today, sort, flags

def edge_shortcut(today, flags):
    """the relative shortcut that decides reaches, with its (previous) period, outside 0000-01-01..9999-12-31
       (K4 reached from the command line)"""
    n = winning_shortcut([n for n, _ in flags])
    if n is None:
        return False
    lo, hi = shortcut_bounds(n, today)
    return lo < LO or hi > HI

BOUNDARY_DATES = [(2019, 12, 29), (2019, 12, 30), (2019, 12, 31), (2020, 1, 1), (2020, 1, 5), (2020, 1, 6), (2020, 2, 29), (2020, 3, 31), (2020, 4, 1),
                  (2020, 12, 27), (2020, 12, 28), (2020, 12, 31), (2021, 1, 1), (2021, 1, 3), (2021, 1, 4)]
BOUNDARY_PERIODS = ["2019", "2020", "2021", "2019-12", "2020-01", "2020-02", "2020-12", "2021-01", "2019-Q4", "2020-Q1", "2020-Q2", "2020-Q4", "2021-Q1",
                    "2019-W52", "2020-W01", "2020-W1", "2020-W02", "2020-W09", "2020-W14", "2020-W52", "2020-W53", "2021-W01", "2021-W1"]

def boundary_cases(rng):
    """one file with a record on each side of every year / ISO-week-year / quarter / month boundary around 2020, and every
       single date clause with every one of these dates as query date / clock date (a complete grid, run on every check)"""
    doc, vocab = make_doc(rng, (2020, 1, 1), big=True, nrec=len(BOUNDARY_DATES))
    order = list(BOUNDARY_DATES); rng.shuffle(order)
    for r, ymd in zip(doc.records, order):
        r.ymd = ymd
    cases = [[("period", p)] for p in BOUNDARY_PERIODS]
    for d in BOUNDARY_DATES:
        for n in ("date", "since", "until", "after", "before"):
            cases.append([(n, "%04d-%02d-%02d" % d)])
    out = []
    for fl in cases:
        out.append(((2020, 6, 15), rng.choice([None, "asc", "desc"]), fl, doc))
    for d in BOUNDARY_DATES:
        for n in ["today", "yesterday", "tomorrow"] + list(SHORTCUTS):
            out.append((d, None, [(n, None)], doc))
    return out

def exact_bound_cases(rng):
    """every relative shortcut and every kind of --period pattern with records placed EXACTLY at the ends of the period the clause
       denotes: one record on the day before the period, on its first day, on its last day and on the day after (and one on the
       clock date). Clock dates: the first and the last day of every month (so of every quarter and year, too) and the Mondays and
       Sundays around them, in an ordinary year, a leap year, a century non-leap year and a 400-year leap year. Any clause whose
       lower or upper bound is off by a single day at any of these boundaries selects a different set of records."""
    out = []
    canon = ["this-week", "last-week", "this-month", "last-month", "this-quarter", "last-quarter", "this-year", "last-year"]
    def doc_for(bounds, today):
        lo, hi = bounds
        days = [lo - 1, lo, hi, hi + 1, to_ord(*today)]
        doc, _ = make_doc(rng, today, big=True, nrec=len(days))
        rng.shuffle(days)
        for r, o in zip(doc.records, days):
            r.ymd = from_ord(o)
        return doc
    for y in (2021, 2024, 1900, 2000):
        clock = []
        for m in range(1, 13):
            clock += [(y, m, 1), (y, m, dim(y, m))]
        for d in list(clock[:4]) + list(clock[-4:]) + [(y, 4, 1), (y, 7, 1), (y, 10, 1)]:
            mo = monday_ord(to_ord(*d))
            clock += [from_ord(mo), from_ord(mo + 6)]
        for today in sorted(set(clock)):
            for n in canon:
                name = n if rng.random() < 0.7 else n.replace("-", "")
                out.append((today, None, [(name, None)], doc_for(shortcut_bounds(n, today), today)))
        pats = ["%04d" % y] + ["%04d-%02d" % (y, m) for m in range(1, 13)] + ["%04d-Q%d" % (y, q) for q in range(1, 5)] \
             + ["%04d-W%02d" % (y, w) for w in (1, 2, 9, 10, 13, 14, 26, 27, 39, 40, 51, 52)]
        for pat in pats:
            out.append(((y, 6, 15), None, [("period", pat)], doc_for(period_bounds(pat), (y, 6, 15))))
    return out

def gen_filter(tier, rng):
    n = 3300 if tier == "quick" else 200000
    out = []
    for today, sort, flags, doc in boundary_cases(rng) + exact_bound_cases(rng):
        req = request(today, sort, flags, doc)
        EXPECT[req] = reference(doc, today, sort, flags)
        INFO[req] = (today, flags)
        out.append(req)
    while len(out) < n:
        doc, today, sort, flags = build(rng, big=(rng.random() < 0.02))
        if has_conflict(flags):
            continue
        req = request(today, sort, flags, doc)
        EXPECT[req] = reference(doc, today, sort, flags)
        INFO[req] = (today, flags)
        out.append(req)
    return out

def gen_json(tier, rng):
    n = 500 if tier == "quick" else 40000
    out = []
    while len(out) < n:
        doc, today, sort, flags = build(rng, big=(rng.random() < 0.02))
        if has_conflict(flags):
            continue
        req = request(today, sort, flags, doc, cmd="query-json")
        EXPECT[req] = reference(doc, today, sort, flags, view="json")
        INFO[req] = (today, flags)
        out.append(req)
    return out

def gen_sort(tier, rng):
    """--sort alone on files of 13..120 records with few distinct dates: Go's sort.Slice leaves insertion sort behind
       (n > 12), picks pivots by ninther (n >= 50) and meets many ties under klog's non-strict comparator"""
    n = 120 if tier == "quick" else 6000
    out = []
    while len(out) < n:
        anchor = rng.choice(ANCHORS)
        nrec = rng.choice([13, 14, 20, 33, 49, 50, 51, 64, 100, 120, rng.randint(13, 120)])
        doc, vocab = make_doc(rng, anchor, big=True, nrec=nrec)
        if rng.random() < 0.3:
            # already sorted / reversed / all equal inputs
            k = rng.randrange(3)
            if k == 0: doc.records.sort(key=lambda r: r.ymd)
            elif k == 1: doc.records.sort(key=lambda r: r.ymd, reverse=True)
            else:
                for r in doc.records: r.ymd = doc.records[0].ymd
        sort = rng.choice(["asc", "desc", "ASC", "DESC"])
        flags = [("tag", query_tag(rng, vocab))] if rng.random() < 0.15 else []
        today = (2020, 6, 15)
        cmd = "query-json" if rng.random() < 0.3 else "query-run"
        req = request(today, sort, flags, doc, cmd=cmd)
        EXPECT[req] = reference(doc, today, sort, flags, view="json" if cmd == "query-json" else "print")
        INFO[req] = (today, flags)
        out.append(req)
    return out

def gen_aliasing(tier, rng):
    """service.Filter called directly on parsed records with one tag clause: does the caller's slice change?"""
    n = 100 if tier == "quick" else 2000
    out = []
    while len(out) < n:
        doc, today, sort, flags = build(rng)
        tags = [v for k, v in flags if k == "tag"]
        if not tags or not doc.records:
            continue
        out.append("query-alias %s %s" % (hx(tags[0].split(",")[0]), hx(doc.render())))
    return out

def gen_override(tier, rng):
    n = 400 if tier == "quick" else 40000
    out = []
    while len(out) < n:
        doc, today, sort, flags = build(rng, conflicts=True)
        if not has_conflict(flags):
            continue
        req = request(today, sort, flags, doc)
        EXPECT[req] = reference(doc, today, sort, flags)
        OVERRIDE[req] = reference(doc, today, sort, flags, semantics="override")
        INFO[req] = (today, flags)
        out.append(req)
    return out

# values that denote nothing (no calendar date, no period, no tag, no entry type). Spellings that a later version might
# plausibly accept as a convenience ("today" as a date, a lower-case "q1", "ranges", other --sort words) are NOT listed:
# which extra spellings a flag accepts is not fixed by the property.
BAD_VALUES = {
    "date": ["2020-02-30", "2021-02-29", "2020-13-01", "2020-00-10", "1900-02-29", "2020-01-32", "2020-04-31"],
    "period": ["2020-13", "2020-00", "2020-Q5", "2020-Q0", "2020-W00", "2021-W53", "2020-W54"],
    "tag": ["a b", "#", "a=b c", "=x", "a=\"x", "a=x'y\"z"],
    "entry-type": ["duration-", "-range", "1h"],
}

def gen_arguments(tier, rng):
    """command lines one of whose values denotes nothing (the other clauses are fine)"""
    n = 200 if tier == "quick" else 15000
    out = []
    while len(out) < n:
        doc, today, sort, flags = build(rng)
        if has_conflict(flags):
            continue
        if True:
            name = rng.choice(["date", "since", "until", "after", "before", "period", "tag", "entry-type"])
            bad = rng.choice(BAD_VALUES["date" if name in ("date", "since", "until", "after", "before") else name])
            flags = [(n_, v) for n_, v in flags if n_ != name or name == "tag"]
            flags.insert(rng.randrange(len(flags) + 1), (name, bad))
        req = request(today, sort, flags, doc)
        EXPECT[req] = reference(doc, today, sort, flags)
        INFO[req] = (today, flags)
        out.append(req)
    return out

def gen_edges(tier, rng):
    """outside the property's quantifier (the clock or a query date at the first / last day of the calendar, so
       that a neighbouring date does not exist): model and implementation must still agree (both panic)"""
    n = 60 if tier == "quick" else 3000
    out = []
    first, last = (0, 1, 1), (9999, 12, 31)
    while len(out) < n:
        doc, today, sort, flags = build(rng)
        k = rng.randrange(4)
        if k == 0: today, flags = first, [("yesterday", None)]
        elif k == 1: today, flags = last, [("tomorrow", None)]
        elif k == 2: flags = [("after", "9999-12-31")]
        else: flags = [("before", "0000-01-01")]
        if rng.random() < 0.3: flags.append(("tag", "a"))
        out.append(request(today, sort, flags, doc))
    return out

# ------------------------------------------------------------------ oracles and known findings

def oracle(req, out):
    want = EXPECT.get(req)
    if want is None:
        return None
    if out != want:
        return "klog print selects %s; the clauses select %s" % (out[:300], want[:300])
    return None

def k13a_date_flags_override(req, out):
    """several date clauses compete for the same bound and klog applies only one of them (exactly the result of
       keeping FilterArgs.ApplyFilter's winner), where the property asks for records satisfying every clause"""
    info = INFO.get(req)
    if info is None or not has_conflict(info[1]):
        return False
    return OVERRIDE.get(req) == out and EXPECT.get(req) != out

def k13b_shortcut_edge_crash(req, out):
    """klog panics on a relative shortcut whose (previous) period reaches outside the calendar"""
    info = INFO.get(req)
    if info is None or out != "crash":
        return False
    return edge_shortcut(info[0], info[1])

def nontrivial(req, out):
    f = out.split(" ", 2)
    return f[0] == "ok" and int(f[1]) >= 1

def suites():
    return [
        Suite("filter", gen_filter, oracle=oracle, nontrivial=nontrivial,
              rule="`klog print --no-style` with at most one clause per bound (since|after, until|before, period, the 16 relative shortcuts, "
                   "date|today|yesterday|tomorrow) x 0-3 --tag x --entry-type (13 spellings) x --sort, flags in random order, on generated files "
                   "(a complete grid of single date clauses x 15 dates around the 2019/2020/2021 year, ISO-week-year, quarter and month boundaries first; then every relative shortcut at the first/last day of every month and the Mondays/Sundays around them in 2021, 2024, 1900, 2000 and every kind of --period pattern, with records exactly one day outside and on both ends of the denoted period; then dates clustered around year/ISO-week/quarter/month boundaries, leap days, years 0000 and 9999; duplicates; query dates equal "
                   "to record dates and their neighbours; tags with/without values, quoted values, mixed case, in record and entry summaries; "
                   "2% files of 13-40 records for --sort); clock in 0000-01-02..9999-12-30; non-trivial = at least one record selected"),
        Suite("json", gen_json, oracle=oracle, nontrivial=nontrivial,
              rule="as filter, through `klog json`: date text, should-total minutes, summaries, entry type / minutes / start / end of every "
                   "selected record and entry; non-trivial = at least one record selected"),
        Suite("sort", gen_sort, oracle=oracle, nontrivial=nontrivial,
              rule="--sort asc|desc|ASC|DESC alone (15% with one --tag) on files of 13..120 records with few distinct dates, 30% already "
                   "sorted / reversed / all on one date, through print and json; compared: the date sequence and per date the multiset of "
                   "records (C13_sort_spec_determines); non-trivial = at least one record"),
        Suite("override", gen_override, oracle=oracle, nontrivial=nontrivial,
              rule="as filter, with several clauses competing for one bound; non-trivial = at least one record selected"),
        Suite("arguments", gen_arguments, oracle=oracle, nontrivial=lambda r, o: o == "argerr",
              rule="one unacceptable value (date, period, tag, entry type, --sort) among otherwise fine clauses; non-trivial = rejected"),
        Suite("aliasing", gen_aliasing, model=False, nontrivial=lambda r, o: o.startswith("input-altered"),
              rule="NOTE, not a check of the property: service.Filter(rs, {Tags}) called directly narrows records with SetEntries on the objects "
                   "of the caller's slice; the distribution counts how often the INPUT was altered (input-altered) — no klog command reads the "
                   "unfiltered list again, so nothing is observable at `klog print|json`"),
        Suite("edges", gen_edges, nontrivial=lambda r, o: o == "crash",
              rule="clock or query date on the first/last day of the calendar (outside the property's quantifier): model = implementation"),
    ]
