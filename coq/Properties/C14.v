(* C14 — tags are recognised, matched and totalled as the specification defines.
   Property theorems only; each is closed by [exact <lemma>] and followed by Print Assumptions.
   The model is coq/Model/Tags.v; the declarative definitions (spec_tags, tag_at, value_at, carries,
   matching, agg_expect) are at the top of the respective parts of coq/Proofs/Tags.v.
   go_is_letter / go_to_lower are the tables of the Go toolchain (coq/Gen/UnicodeTables.v); every theorem is
   proved for abstract is_letter / to_lower under the hypotheses it needs and instantiated here. *)
From Klog Require Import Base.Prelude Base.Utf8 Model.Calendar Model.Values Model.Record Gen.UnicodeTables
  Model.Tags Proofs.TagsUtf8 Proofs.Tags.
From Coq Require Import Permutation Sorted.
Open Scope N_scope.

(* ---------- 1. recognition ---------- *)

(* For ALL rune lists without a line feed (a summary line is one line): the matcher modelled on Go's
   leftmost-first, non-overlapping FindAll of HashTagPattern returns exactly the list the specification
   determines, and that list is unique. [spec_tags]: a tag is `#` + a non-empty maximal run of name
   characters; its value is the quoted string (matching quote on the line) or the non-empty maximal run of
   name characters after `=`; otherwise the value is absent; tags are taken left to right without overlap. *)
Theorem C14_find_tags_spec : forall s : list N, no_newline N rune_id s ->
  forall ts, spec_tags go_is_letter N rune_id s ts <->
             map (match_view N rune_id) (find_all go_is_letter N rune_id s) = ts.
Proof. exact (find_tags_spec go_is_letter N rune_id go_dq_not_letter go_sq_not_letter). Qed.
Print Assumptions C14_find_tags_spec.

(* the single-line hypothesis cannot be dropped: Go's negated class [^D]* (D = the double quote) also matches a
   line feed, so on a text with a line feed inside a quoted value the matcher and the specification differ
   (witness: # a = D LF D). No summary line holds a line feed, the parser splits the file at them. *)
Theorem C14_find_tags_all_texts_refuted :
  exists (s : list N) ts, spec_tags go_is_letter N rune_id s ts /\
                          map (match_view N rune_id) (find_all go_is_letter N rune_id s) <> ts.
Proof. exact find_tags_multiline_differs. Qed.
Print Assumptions C14_find_tags_all_texts_refuted.

(* the same for any meaning of "letter" under which the two quote characters are not letters, and for any
   symbol type (used below with symbols = rune + the bytes it was decoded from) *)
Theorem C14_find_tags_spec_any_alphabet : forall (is_letter : N -> bool) (A : Type) (code : A -> N),
  is_letter ch_dq = false -> is_letter ch_sq = false ->
  forall s : list A, no_newline A code s ->
  forall ts, spec_tags is_letter A code s ts <-> map (match_view A code) (find_all is_letter A code s) = ts.
Proof. exact find_tags_spec. Qed.
Print Assumptions C14_find_tags_spec_any_alphabet.

(* on bytes: the tags Summary.Tags() takes from a line (any bytes but LF, invalid UTF-8 included) are the
   specification's tags of its decoded symbols, names lower-cased and values byte for byte as written *)
Theorem C14_line_tags_spec : forall line : bytes, ~ In ch_nl line ->
  exists ts, spec_tags go_is_letter sym fst (decode_syms line) ts /\
             (forall ts', spec_tags go_is_letter sym fst (decode_syms line) ts' -> ts' = ts) /\
             line_tags go_is_letter go_to_lower line = map (tag_of_view go_to_lower) ts.
Proof. exact go_line_tags_spec. Qed.
Print Assumptions C14_line_tags_spec.

(* Summary.Tags() as coded (second regexp run inside NewTagFromString, strings.Trim of the quotes, NewTagOrPanic)
   never panics and puts exactly those tags, in order of appearance, line after line *)
Theorem C14_summary_tags : forall lines : list bytes,
  go_summary_tags_o lines = Ok (summary_tags go_is_letter go_to_lower lines) /\
  ts_original (summary_tags go_is_letter go_to_lower lines) = found_tags go_is_letter go_to_lower lines.
Proof. exact go_summary_tags. Qed.
Print Assumptions C14_summary_tags.

(* \p{L} of the model is membership in the generated ranges of unicode.L *)
Theorem C14_letter_table : forall r, go_is_letter r = true <-> exists lo hi, In (lo, hi) unicode_L /\ lo <= r <= hi.
Proof. exact go_is_letter_spec. Qed.
Print Assumptions C14_letter_table.

(* ---------- 2. matching ---------- *)

(* two tags are the same tag iff their names agree after lower-casing rune by rune and their values agree literally *)
Theorem C14_tag_eq_spec : forall n1 v1 n2 v2 : bytes,
  mk_tag go_to_lower n1 v1 = mk_tag go_to_lower n2 v2 <->
  map go_to_lower (utf8_decode n1) = map go_to_lower (utf8_decode n2) /\ v1 = v2.
Proof. exact (tag_eq_spec go_to_lower go_lower_scalar). Qed.
Print Assumptions C14_tag_eq_spec.

(* Contains: a query matches a summary iff some tag found in it has the query's name and either the query has
   no value (a tag with value also matches its bare name) or the very same value *)
Theorem C14_contains_spec : forall (lines : list bytes) (q : tag),
  ts_contains (summary_tags go_is_letter go_to_lower lines) q =
  existsb (fun t => bytes_eqb (t_name t) (t_name q) && (is_nil (t_value q) || bytes_eqb (t_value t) (t_value q)))
          (found_tags go_is_letter go_to_lower lines).
Proof. exact (contains_spec go_is_letter go_to_lower go_lower_idem go_lower_scalar). Qed.
Print Assumptions C14_contains_spec.

(* NewTagFromString (the --tag argument, any bytes): `#` is prepended when missing, the leftmost match must span the
   whole string, the result is the tag that match denotes; it never panics *)
Theorem C14_query_tag : forall s : bytes,
  go_new_tag_from_string s =
  match find_first go_is_letter sym fst (decode_syms (with_hash s)) with
  | Some m => if Nat.eqb (length (raw (m_all m))) (length (with_hash s)) then Ok (Some (tag_of_match go_to_lower m)) else Ok None
  | None => Ok None
  end.
Proof. exact (new_tag_from_string_spec go_is_letter go_to_lower go_dq_not_letter go_sq_not_letter). Qed.
Print Assumptions C14_query_tag.

Theorem C14_query_tag_never_panics : forall s : bytes, exists o, go_new_tag_from_string s = Ok o.
Proof. exact (new_tag_from_string_total go_is_letter go_to_lower go_dq_not_letter go_sq_not_letter). Qed.
Print Assumptions C14_query_tag_never_panics.

(* isSubsetOf: all queried tags are contained *)
Theorem C14_subset_spec : forall qs ts, is_subset_of qs ts = true <-> forall q, In q qs -> ts_contains ts q = true.
Proof. exact is_subset_spec. Qed.
Print Assumptions C14_subset_spec.

(* Merge walks Go maps: whatever the iteration orders, the merged set contains the same tags *)
Theorem C14_merge_order_irrelevant : forall ls ls' : list (list tag), Forall2 (@Permutation tag) ls ls' ->
  forall q, ts_contains (merge_lists go_to_lower ls) q = ts_contains (merge_lists go_to_lower ls') q.
Proof. exact (merged_order_irrelevant go_to_lower). Qed.
Print Assumptions C14_merge_order_irrelevant.

(* ---------- 3. totals ---------- *)

(* whenever AggregateTotalsByTags returns: for EVERY key (tag or tag=value) the reported (total, count) is the sum
   and the number of the entries whose own or whose record's summary carries a matching tag — each entry once,
   whatever the redundancy —, a key no entry carries is not reported, the list is sorted by name=value and no key
   appears twice *)
Theorem C14_tag_totals : forall (rs : list record) (out : list stat), go_aggregate_o rs = Ok out ->
  (forall k, stat_find k out = agg_expect (matching go_is_letter go_to_lower rs k)) /\
  Sorted (fun a b => bytes_ltb (tag_key (st_tag b)) (tag_key (st_tag a)) = false) out /\
  NoDup (tags_of out).
Proof. exact (tag_totals go_is_letter go_to_lower go_dq_not_letter go_sq_not_letter go_lower_idem go_lower_scalar). Qed.
Print Assumptions C14_tag_totals.

(* the guard: it returns as long as the absolute durations of all entries together fit an int64 *)
Theorem C14_tag_totals_no_overflow : forall rs : list record, (sum_abs rs <= max_int64)%Z ->
  exists out, go_aggregate_o rs = Ok out.
Proof. exact (tag_totals_no_overflow go_is_letter go_to_lower go_dq_not_letter go_sq_not_letter). Qed.
Print Assumptions C14_tag_totals_no_overflow.

(* no two reported keys are equal (a tag name never holds `=`): the list is strictly increasing in name=value *)
Theorem C14_tag_totals_strict : forall (rs : list record) (out : list stat), go_aggregate_o rs = Ok out ->
  StronglySorted (fun a b => bytes_ltb (tag_key (st_tag a)) (tag_key (st_tag b)) = true) out.
Proof. exact (tag_totals_strict go_is_letter go_to_lower go_dq_not_letter go_sq_not_letter go_eq_not_letter
                                go_lower_idem go_lower_scalar go_lower_not_eq). Qed.
Print Assumptions C14_tag_totals_strict.

(* hence the order in which Go walks its maps (Merge, the loop over the merged set, toSortedList) cannot reach
   the output: ANY list holding the same dictionary, no key twice, sorted by name=value, is the model's output *)
Theorem C14_tag_totals_determined : forall (rs : list record) (out out' : list stat), go_aggregate_o rs = Ok out ->
  NoDup (tags_of out') -> (forall k, stat_find k out' = stat_find k out) ->
  Sorted (fun a b => bytes_ltb (tag_key (st_tag b)) (tag_key (st_tag a)) = false) out' -> out' = out.
Proof. exact (tag_totals_determined go_is_letter go_to_lower go_dq_not_letter go_sq_not_letter go_eq_not_letter
                                    go_lower_idem go_lower_scalar go_lower_not_eq). Qed.
Print Assumptions C14_tag_totals_determined.

(* ---------- non-vacuity ---------- *)

(* mixed case, a quoted value with a blank, a non-ASCII name, an unterminated quote (value absent, the text
   after it is scanned on), an empty value, adjacent tags, `#` without a name *)
Example C14_example_recognise :
  let line := b!"Hi #Foo=bar #foo=""x y"" #読-1 #q='it #B= #c#d # ##e=É." in
  ~ In ch_nl line /\
  line_tags go_is_letter go_to_lower line =
    [ex_tag b!"foo" b!"bar"; ex_tag b!"foo" b!"x y"; ex_tag b!"読-1" []; ex_tag b!"q" []; ex_tag b!"b" [];
     ex_tag b!"c" []; ex_tag b!"d" []; ex_tag b!"e" b!"É"].
Proof. split; [apply not_in_bytes_dec; vm_compute; reflexivity | vm_compute; reflexivity]. Qed.

Example C14_example_contains :
  let ts := summary_tags go_is_letter go_to_lower [b!"#Foo=bar and"; b!"#baz"] in
  ts_contains ts (ex_tag b!"foo" []) = true /\ ts_contains ts (ex_tag b!"foo" b!"bar") = true /\
  ts_contains ts (ex_tag b!"foo" b!"BAR") = false /\ ts_contains ts (ex_tag b!"baz" b!"1") = false /\
  go_new_tag_from_string b!"FOO=bar" = Ok (Some (ex_tag b!"foo" b!"bar")).
Proof. vm_compute. repeat split; reflexivity. Qed.

(* a record tag applies to every entry; redundant and differently cased / quoted tags count an entry once *)
Example C14_example_totals :
  let rs := [ex_record [b!"#r"] [ex_entry 60 [b!"#a #a=1 #A='1'"; b!"again #a"]; ex_entry (-30) []];
             ex_record [] [ex_entry 7 [b!"#a=2 #r=x"]]] in
  (sum_abs rs <= max_int64)%Z /\
  go_aggregate_o rs = Ok [ex_stat b!"a" [] 67 2; ex_stat b!"a" b!"1" 60 1; ex_stat b!"a" b!"2" 7 1;
                          ex_stat b!"r" [] 37 3; ex_stat b!"r" b!"x" 7 1].
Proof. split; [vm_compute; discriminate | vm_compute; reflexivity]. Qed.
