"""C12 — all evaluation views partition the same total.

One request = one klog file, one instant, one report configuration:
    report-run <y> <m> <d> <h> <mi> <aggregate> <fill 0/1> <diff 0/1> <now 0/1> <hex file>
Both sides print
    <status> R <n> key=cells … G cells T total should diff n D today|yesterday cur other all P <n> total:e1,e2 …
(see coq/Model/SuiteReport.v, harness/suite_report.go).

The oracle below is written from the property text over the generator's AST (lib/specgen.py); calendar periods
come from Python's datetime (isocalendar for weeks, (month-1)//3 for quarters), never from the model.
"""
import sys, os, datetime
sys.path.insert(0, os.path.dirname(os.path.dirname(os.path.abspath(__file__))))
from check import Suite
import specgen

I64 = 2**63 - 1
EXPECT = {}          # request -> Case
AGG_NAMES = {"d": ["day", "d", "DAY"], "w": ["week", "w", "WEEK"], "m": ["month", "m", "MONTH"],
             "q": ["quarter", "q", "QUARTER"], "y": ["year", "y", "YEAR"]}

# ------------------------------------------------------------------ calendar (independent of the model)

def pydate(y, m, d):
    """datetime.date only covers years 1..9999 and cannot step past either end; the Gregorian calendar repeats
    every 400 years (146097 days = 20871 weeks), so dates near the ends are looked at 400 years further in.
    Returns (date, shift): the real year is date.year - shift."""
    if y < 400:
        return datetime.date(y + 400, m, d), 400
    if y > 9000:
        return datetime.date(y - 400, m, d), -400
    return datetime.date(y, m, d), 0

def ordinal(ymd):
    dt, sh = pydate(*ymd)
    return dt.toordinal() - sh // 400 * 146097

def from_ordinal(n):
    # inverse of ordinal, through a safe era
    k = 0
    while n < 400 * 365:
        n += 146097; k += 1
    while n > 9000 * 365:
        n -= 146097; k -= 1
    dt = datetime.date.fromordinal(n)
    return (dt.year - 400 * k, dt.month, dt.day)

def period_key(agg, ymd):
    """the calendar period of kind agg that contains the date, as the tuple the row label shows"""
    y, m, d = ymd
    dt, sh = pydate(y, m, d)
    if agg == "d":
        return (y, m, d, dt.isoweekday())
    if agg == "w":
        iy, iw, _ = dt.isocalendar()
        return (iy - sh, iw)
    if agg == "m":
        return (y, m)
    if agg == "q":
        return (y, (m - 1) // 3 + 1)
    return (y,)

def iso_weeks_in_year(y):
    dt, _ = pydate(y, 12, 28)          # 28 December always lies in the last ISO week of its year
    return dt.isocalendar()[1]

def next_period(agg, key):
    if agg == "d":
        return period_key("d", from_ordinal(ordinal(key[:3]) + 1))
    if agg == "w":
        y, w = key
        return (y, w + 1) if w < iso_weeks_in_year(y) else (y + 1, 1)
    if agg == "m":
        y, m = key
        return (y, m + 1) if m < 12 else (y + 1, 1)
    if agg == "q":
        y, q = key
        return (y, q + 1) if q < 4 else (y + 1, 1)
    return (key[0] + 1,)

def parse_key(agg, s):
    """row key as printed: fields joined by '-', a negative first field keeps its sign"""
    neg = s.startswith("-")
    f = s[1:].split("-") if neg else s.split("-")
    if f[0] == "?":
        return None
    v = [int(x) for x in f]
    if neg:
        v[0] = -v[0]
    return tuple(v)

# ------------------------------------------------------------------ the expectation derived from the AST

class Case:
    """what the property text says about one request, computed from the document's AST"""
    def __init__(self, doc, now, agg, fill, diff, use_now):
        self.agg, self.fill, self.diff, self.use_now = agg, fill, diff, use_now
        recs = []
        self.closeable = True
        Y, M, D, h, mi = now
        today = (Y, M, D)
        yesterday = from_ordinal(ordinal(today) - 1)
        now_off = h * 60 + mi
        self.had_open = False
        for r in doc.records:
            ents = [e.minutes() for e in r.entries]
            ents_now = list(ents)
            for i, e in enumerate(r.entries):
                if e.kind == "open":
                    self.had_open = True
                    if r.ymd == today: end = now_off
                    elif r.ymd == yesterday: end = now_off + 1440
                    else: end = None
                    if end is None or end < e.a.off:
                        self.closeable = False
                    else:
                        ents_now[i] = end - e.a.off
            recs.append((r.ymd, ents, ents_now, r.should.mins() if r.should is not None else 0))
        self.recs = recs
        self.today, self.yesterday = today, yesterday
        self.overflow = (sum(abs(x) for _, e, en, s in recs for x in e) > I64 or sum(abs(x) for _, e, en, s in recs for x in en) > I64
                         or sum(abs(s) for _, e, en, s in recs) > I64)

    def minutes(self, rec):
        """the entries' minutes in the views that take --now"""
        return rec[2] if self.use_now else rec[1]

# ------------------------------------------------------------------ the oracle

def split_sections(out):
    f = out.split(" ")
    secs, cur = {}, None
    for t in f[1:]:
        if t in ("R", "T", "D", "P") and t not in secs:
            cur = t; secs[t] = []
        elif cur is not None:
            secs[cur].append(t)
    return f[0], secs

def cells(s):
    return [int(x) for x in s.split(",")]

def oracle(req, out):
    status, secs = split_sections(out)
    if status == "invalid":
        return "a conforming file was rejected"
    f = req.split(" ")
    has_today = f[0] == "report-run"
    if out == "argerr":
        return "the filter flags were rejected"
    if status not in ("ok", "err", "crash") or set(secs) != ({"R", "T", "D", "P"} if has_today else {"R", "T", "P"}):
        return "unreadable output: " + out[:160]
    c = EXPECT.get(req)
    agg, fill, diff, use_now = f[6][0].lower(), f[7] == "1", f[8] == "1", f[9] == "1"
    if c is not None and c.overflow:
        # outside the guard of the property (the figures do not fit klog's integers): K1 territory
        return "evaluation panicked (integer overflow)" if status == "crash" else None
    if status == "crash":
        return "a view panicked"
    R, T, D, P = secs["R"], secs["T"], secs.get("D", ["-"]), secs["P"]
    # ---- print --with-totals: per-entry figures add up to the per-record figure
    if P[0] in ("err", "crash", "fail"):
        return "print --with-totals failed"
    prec = []
    if P[0] != "none":
        for tok in P[1:]:
            t, es = tok.split(":")
            es = [] if es == "_" else [int(x) for x in es.split(",")]
            if sum(es) != int(t):
                return "print --with-totals: entries %r do not add up to the record's %s" % (es, t)
            prec.append((int(t), es))
        if len(prec) != int(P[0]):
            return "print --with-totals: record count"
    if c is not None:
        want = [(sum(r[1]), r[1]) for r in c.recs]
        if prec != want:
            return "print --with-totals shows %r, the file says %r" % (prec[:4], want[:4])
        if use_now and not c.closeable:
            if R != (["err"] if c.recs else ["none"]) or T != ["err"] or (has_today and D != ["err"]):
                return "an open range that cannot be closed at this instant must be refused by report/total/today"
            return None
    if "err" in (R[0], T[0], D[0]):
        if c is not None:
            return "refused although every open range can be closed"
        return None
    if "fail" in (R[0], T[0], D[0]):
        return "a view failed: " + out[:200]
    # ---- klog total
    tt, ts, td, tn = [int(x) for x in T]
    if td != tt - ts:
        return "total: diff is not total - should"
    if not use_now and sum(t for t, _ in prec) != tt:
        return "print --with-totals: the record figures add up to %d, klog total says %d" % (sum(t for t, _ in prec), tt)
    if c is not None:
        want_t = sum(sum(c.minutes(r)) for r in c.recs)
        want_s = sum(r[3] for r in c.recs)
        if (tt, ts, tn) != (want_t, want_s, len(c.recs)):
            return "klog total reports %r, the file says %r" % ((tt, ts, tn), (want_t, want_s, len(c.recs)))
    # ---- klog report
    if R[0] == "none":
        if tn != 0:
            return "report printed nothing for %d records" % tn
    else:
        n = int(R[0])
        rows = R[1:1 + n]
        if R[1 + n] != "G" or len(R) != n + 3:
            return "report: malformed"
        grand = cells(R[n + 2])
        width = 3 if diff else 1
        if len(grand) != width:
            return "report: grand total cells"
        sums = [0] * width
        keys = []
        for tok in rows:
            k, v = tok.split("=")
            key = parse_key(agg, k)
            if key is None:
                return "report: a row without a year label (%s)" % k
            keys.append((key, None if v == "_" else cells(v)))
            if v != "_":
                cs = cells(v)
                if len(cs) != width:
                    return "report: row cells"
                if diff and cs[2] != cs[0] - cs[1]:
                    return "report: row diff is not total - should"
                sums = [a + b for a, b in zip(sums, cs)]
            elif not fill:
                return "report: empty row without --fill"
        if sums != grand:
            return "report: rows add up to %r, the grand total row says %r" % (sums, grand)
        if grand[0] != tt or (diff and (grand[1] != ts or grand[2] != td)):
            return "report: grand total %r differs from klog total %r" % (grand, (tt, ts, td))
        order = [k if agg != "d" else k[:3] for k, _ in keys]
        if any(a >= b for a, b in zip(order, order[1:])):
            return "report: rows are not in strictly chronological order"
        if fill and any(next_period(agg, a) != b for (a, _), (b, _) in zip(keys, keys[1:])):
            return "report --fill: rows are not consecutive periods"
        if c is not None:
            want = {}
            for r in c.recs:
                k = period_key(agg, r[0])
                w = want.setdefault(k, [0, 0])
                w[0] += sum(c.minutes(r)); w[1] += r[3]
            got = {k: v for k, v in keys if v is not None}
            for k, v in keys:
                if v is None and k in want:
                    return "report: the row %r is empty although records fall into that period" % (k,)
            if set(got) != set(want):
                return "report: rows %r, periods holding records %r" % (sorted(got)[:6], sorted(want)[:6])
            for k, v in got.items():
                w = want[k]
                if v[0] != w[0] or (diff and v[1] != w[1]):
                    return "report: row %r shows %r, the records of that period add up to %r" % (k, v, w)
            if fill:
                dates = [r[0] for r in c.recs]
                lo, hi = min(dates, key=ordinal), max(dates, key=ordinal)
                if keys[0][0] != period_key(agg, lo) or keys[-1][0] != period_key(agg, hi):
                    return "report --fill: does not run from the first to the last record's period"
    # ---- klog today
    if not has_today:
        return None
    label, cur, oth, al = D
    o = cells(oth)
    a = al.split(",")
    a3 = [int(x) for x in a[:3]]
    if cur == "n/a":
        c3 = [0, 0, 0]
    else:
        c3 = [int(x) for x in cur.split(",")[:3]]
        if c3[2] != c3[0] - c3[1]:
            return "today: diff is not total - should"
    if [x + y for x, y in zip(c3, o)] != a3:
        return "today: current %r + other %r is not all %r" % (c3, o, a3)
    if a3 != [tt, ts, td]:
        return "today: all %r differs from klog total %r" % (a3, (tt, ts, td))
    if c is not None:
        at_today = [r for r in c.recs if r[0] == c.today]
        at_yest = [r for r in c.recs if r[0] == c.yesterday]
        if at_today: want_label, cur_recs = "today", at_today
        elif at_yest: want_label, cur_recs = "yesterday", at_yest
        else: want_label, cur_recs = "today", []
        if label != want_label:
            return "today: labelled %s, expected %s" % (label, want_label)
        if (cur == "n/a") != (not cur_recs):
            return "today: current row %s with %d current records" % (cur, len(cur_recs))
        want_c = [sum(sum(c.minutes(r)) for r in cur_recs), sum(r[3] for r in cur_recs)]
        if cur_recs and c3[:2] != want_c:
            return "today: current row %r, the records of that day add up to %r" % (c3, want_c)
    return None

# ------------------------------------------------------------------ generator

# dates around which records are clustered: New Year / ISO week 52, 53, 1; quarter and month ends; leap days; the two ends
ANCHORS = [(2020, 12, 31), (2021, 1, 1), (2015, 12, 31), (2016, 1, 3), (2018, 12, 31), (2019, 12, 30), (2024, 12, 30), (2026, 12, 31),
           (2027, 1, 3), (2004, 12, 31), (2010, 1, 3), (2012, 1, 1), (1999, 12, 31), (2000, 2, 29), (1900, 2, 28), (2024, 2, 29),
           (2023, 2, 28), (2100, 3, 1), (2020, 3, 31), (2021, 6, 30), (2022, 9, 30), (2023, 10, 1), (2019, 4, 1), (2020, 7, 1),
           (0, 1, 1), (0, 1, 3), (0, 12, 31), (1, 1, 1), (9999, 12, 31), (9999, 12, 26), (9998, 12, 31), (1970, 1, 1), (400, 2, 29), (1582, 10, 10)]

D_MIN, D_MAX = None, None

def clamp_ordinal(n):
    global D_MIN, D_MAX
    if D_MIN is None:
        D_MIN, D_MAX = ordinal((0, 1, 1)), ordinal((9999, 12, 31))
    return max(D_MIN, min(D_MAX, n))

def make_doc(rng, tier):
    """a conforming document whose record dates are clustered, duplicated and shuffled"""
    n = rng.choice([0, 1, 2, 3, 3, 4, 5, 6, 8, 13, 14, 20, 33] if tier == "quick" else [0, 1, 2, 3, 4, 5, 6, 8, 10, 13, 14, 17, 25, 40, 70])
    d = specgen.Doc(rng, max_records=1, max_entries=4)
    d.records = [specgen.Record(rng, max_entries=rng.choice([1, 2, 4])) for _ in range(n)]
    d.gaps = [[rng.choice(specgen.BLANKS) for _ in range(rng.choice([1, 1, 1, 2]))] for _ in d.records]
    anchor = ordinal(rng.choice(ANCHORS)) if rng.random() < 0.85 else ordinal((rng.randrange(10000), rng.randint(1, 12), rng.randint(1, 28)))
    spread = rng.choice([1, 3, 8, 8, 20, 45, 100, 400, 1500])
    if rng.random() < 0.03:
        spread = rng.choice([20000, 400000, 4000000])
    pool = [clamp_ordinal(anchor + rng.randint(-spread, spread)) for _ in range(max(1, rng.choice([n, n, n // 2 + 1, 2])))]
    for r in d.records:
        r.ymd = from_ordinal(rng.choice(pool))
    if d.records and rng.random() < 0.01:
        # two durations that cannot be added in klog's integers (known finding K1): every view must then fail the same way
        for _ in range(2):
            e = specgen.Entry(rng, allow_open=False)
            e.kind, e.first, e.more = "dur", None, []
            e.d = specgen.Dur(rng)
            e.d.sign, e.d.h, e.d.m, e.d.zh, e.d.zm = "", None, 5 * 10**18, "", ""
            rng.choice(d.records).entries.append(e)
    order = rng.random()
    if order < 0.15:
        d.records.sort(key=lambda r: ordinal(r.ymd))
    elif order < 0.3:
        d.records.sort(key=lambda r: -ordinal(r.ymd))
    return d

def span_days(doc):
    if not doc.records:
        return 0
    o = [ordinal(r.ymd) for r in doc.records]
    return max(o) - min(o)

def pick_now(rng, doc):
    """an instant on / one day after / away from the date of some record; most of the time every record holding an
    open range is moved to that day or the day before, so that --now can apply"""
    h, mi = rng.choice([(0, 0), (23, 59), (12, 0), (rng.randrange(24), rng.randrange(60)), (rng.randrange(24), rng.randrange(60))])
    opens = [r for r in doc.records if any(e.kind == "open" for e in r.entries)]
    if doc.records:
        base = rng.choice(opens) if opens and rng.random() < 0.7 else rng.choice(doc.records)
        o = ordinal(base.ymd) + rng.choice([0, 0, 0, 1, 1, 2, -1, 30])
    else:
        o = ordinal((2020, 6, 15))
    o = max(ordinal((0, 1, 2)), clamp_ordinal(o))         # the day before the clock reading exists
    today = from_ordinal(o)
    if opens and rng.random() < 0.75:
        for r in opens:
            r.ymd = today if rng.random() < 0.7 else from_ordinal(o - 1)
        starts = [e.a.off for r in opens if r.ymd == today for e in r.entries if e.kind == "open"]
        if starts and rng.random() < 0.7 and max(starts) <= 1439:
            t = rng.randint(max(0, max(starts)), 1439)
            h, mi = divmod(t, 60)
    return today + (h, mi)

def gen_views(tier, rng):
    nfiles = 1200 if tier == "quick" else 60000
    out = []
    for _ in range(nfiles):
        d = make_doc(rng, tier)
        if len(d.records) >= 2 and rng.random() < 0.04:
            # decades between two records: --fill has to produce thousands of periods
            r = rng.choice(d.records)
            y, m_, dd_ = r.ymd
            r.ymd = (min(9999, y + rng.randint(28, 120)), m_, min(dd_, 28))
        if len(d.records) >= 2 and rng.random() < 0.03:
            # the first days of the calendar belong to week 52 of the week-year -1; the last week of year 0 is another week 52
            a, b = rng.sample(range(len(d.records)), 2)
            d.records[a].ymd = (0, 1, rng.choice([1, 2]))
            d.records[b].ymd = (0, 12, rng.choice([25, 28, 31]))
        now = pick_now(rng, d)
        text = d.render().hex() or "-"
        span = span_days(d)
        configs = set()
        for _ in range(rng.choice([2, 3, 3, 4]) if tier == "quick" else rng.choice([1, 2, 3])):
            agg = rng.choice("dwmqy")
            fill = rng.random() < 0.5
            if fill:
                limit = {"d": 500, "w": 16000, "m": 50000, "q": 50000, "y": 50000}[agg]
                if tier != "quick" and rng.random() < 0.02:
                    limit *= 12
                if span > limit:
                    fill = False
            configs.add((agg, fill, rng.random() < 0.6, rng.random() < 0.5))
        closeable = Case(d, now, "d", False, False, True).closeable
        for agg, fill, diff, use_now in sorted(configs):
            if use_now and not closeable and rng.random() < 0.7:
                use_now = False        # keep the share of refused --now runs moderate
            req = "report-run %d %d %d %d %d %s %d %d %d %s" % (now + (rng.choice(AGG_NAMES[agg]), fill, diff, use_now, text))
            EXPECT[req] = Case(d, now, agg, fill, diff, use_now)
            out.append(req)
    return out

# ------------------------------------------------------------------ filtered views

import copy

class Sub:
    """the records a filter selects, shaped like a document for Case"""
    def __init__(self, records):
        self.records = records

def month_len(y, m):
    return specgen.dim(y, m)

def period_bounds(kind, ymd):
    """first and last day (as ordinals) of the week / month / quarter / year containing the date"""
    y, m, d = ymd
    if kind == "week":
        dt, sh = pydate(y, m, d)
        mon = ordinal(ymd) - (dt.isoweekday() - 1)
        return mon, mon + 6
    if kind == "month":
        return ordinal((y, m, 1)), ordinal((y, m, month_len(y, m)))
    if kind == "quarter":
        q = (m - 1) // 3
        return ordinal((y, 3 * q + 1, 1)), ordinal((y, 3 * q + 3, month_len(y, 3 * q + 3)))
    return ordinal((y, 1, 1)), ordinal((y, 12, 31))

def pick_filter(rng, doc, today):
    """(flag tokens, lo, hi, entry kind or None): a date filter whose meaning the property text fixes, sometimes with an
    entry-type filter; lo/hi are inclusive day numbers (None = open)"""
    def arg_date():
        if doc.records and rng.random() < 0.8:
            o = ordinal(rng.choice(doc.records).ymd) + rng.choice([0, 0, 0, 1, -1, 7, -7, 31, -40])
        else:
            o = ordinal((rng.randrange(1, 9999), rng.randint(1, 12), rng.randint(1, 28)))
        return max(ordinal((1, 1, 2)), min(ordinal((9998, 12, 30)), o))
    def tok(name, o=None, text=None):
        if o is None and text is None:
            return name
        if text is None:
            y, m, d = from_ordinal(o)
            text = ("%04d-%02d-%02d" if rng.random() < 0.7 else "%04d/%02d/%02d") % (y, m, d)
        return name + ":" + text.encode().hex()
    kind = rng.choice(["date", "since", "since", "until", "until", "since-until", "since-until", "after", "before", "after-before",
                       "period", "period", "period", "day", "this-last", "this-last", "none"])
    flags, lo, hi = [], None, None
    ot = ordinal(today)
    if kind == "date":
        o = arg_date(); flags = [tok("date", o)]; lo = hi = o
    elif kind == "since":
        o = arg_date(); flags = [tok("since", o)]; lo = o
    elif kind == "until":
        o = arg_date(); flags = [tok("until", o)]; hi = o
    elif kind == "since-until":
        a, b = arg_date(), arg_date()
        if rng.random() < 0.8: a, b = min(a, b), max(a, b)
        flags = [tok("since", a), tok("until", b)]; lo, hi = a, b
    elif kind == "after":
        o = arg_date(); flags = [tok("after", o)]; lo = o + 1
    elif kind == "before":
        o = arg_date(); flags = [tok("before", o)]; hi = o - 1
    elif kind == "after-before":
        a, b = arg_date(), arg_date()
        if rng.random() < 0.8: a, b = min(a, b) - 1, max(a, b) + 1
        flags = [tok("after", a), tok("before", b)]; lo, hi = a + 1, b - 1
    elif kind == "period":
        ymd = from_ordinal(arg_date())
        pk = rng.choice(["week", "month", "quarter", "year"])
        if pk == "week":
            key = period_key("w", ymd)
            if not (1 <= key[0] <= 9998):
                pk = "month"
            else:
                text = "%04d-W%s" % (key[0], ("%02d" if rng.random() < 0.5 else "%d") % key[1])
        if pk == "month": text = "%04d-%02d" % ymd[:2]
        if pk == "quarter": text = "%04d-Q%d" % (ymd[0], (ymd[1] - 1) // 3 + 1)
        if pk == "year": text = "%04d" % ymd[0]
        flags = [tok("period", text=text)]
        lo, hi = period_bounds(pk, ymd)
    elif kind == "day":
        which = rng.choice(["today", "yesterday", "tomorrow"] if ot < ordinal((9999, 12, 31)) else ["today", "yesterday"])   # PlusDays(1) needs a next day
        flags = [which]; lo = hi = ot + {"today": 0, "yesterday": -1, "tomorrow": 1}[which]
    elif kind == "this-last" and 2 <= today[0] <= 9998:
        pk = rng.choice(["week", "month", "quarter", "year"])
        this = rng.random() < 0.5
        flags = [("this" if this else "last") + rng.choice(["-", ""]) + pk]
        lo, hi = period_bounds(pk, today)
        if not this:
            lo, hi = period_bounds(pk, from_ordinal(lo - 1))
    et = None
    if rng.random() < 0.15:
        et = rng.choice(["duration", "duration-positive", "duration-negative", "range", "open-range"])
        flags.append("entry-type:" + rng.choice([et, et.upper(), et.replace("-", "_")]).encode().hex())
    rng.shuffle(flags)
    return flags, lo, hi, et

def entry_matches(et, e):
    if e.kind == "range": return et == "range"
    if e.kind == "open": return et == "open-range"
    return et == "duration" or (et == "duration-positive" and e.d.mins() >= 0) or (et == "duration-negative" and e.d.mins() < 0)

def select(doc, lo, hi, et):
    out = []
    for r in doc.records:
        o = ordinal(r.ymd)
        if (lo is not None and o < lo) or (hi is not None and o > hi):
            continue
        if et is not None:
            es = [e for e in r.entries if entry_matches(et, e)]
            if not es:
                continue
            r = copy.copy(r); r.entries = es
        out.append(r)
    return Sub(out)

def gen_filtered(tier, rng):
    nfiles = 400 if tier == "quick" else 20000
    out = []
    for _ in range(nfiles):
        d = make_doc(rng, tier)
        for _ in range(4):
            if len(d.records) >= 4:
                break
            d = make_doc(rng, tier)         # a filter is more telling on a file with several records
        now = pick_now(rng, d)
        text = d.render().hex() or "-"
        flags, lo, hi, et = pick_filter(rng, d, now[:3])
        sub = select(d, lo, hi, et)
        span = span_days(sub)
        closeable = Case(sub, now, "d", False, False, True).closeable
        for _ in range(rng.choice([1, 2])):
            agg = rng.choice("ddwwmqy" if span < 60 else "dwmqy")
            fill = rng.random() < 0.5 and span <= {"d": 500, "w": 3000, "m": 8000, "q": 8000, "y": 8000}[agg]
            diff, use_now = rng.random() < 0.6, rng.random() < 0.4
            if use_now and not closeable and rng.random() < 0.7:
                use_now = False
            req = "report-filtered %d %d %d %d %d %s %d %d %d %d %s%s" % (now + (rng.choice(AGG_NAMES[agg]), fill, diff, use_now, len(flags),
                                                                                "".join(f + " " for f in flags), text))
            if req not in EXPECT:
                EXPECT[req] = Case(sub, now, agg, fill, diff, use_now)
                out.append(req)
    return out

def nontrivial(req, out):
    """a report of at least two rows was printed and every view answered"""
    if not out.startswith("ok R "):
        return False
    n = out.split(" ", 3)[2]
    return n.isdigit() and int(n) >= 2

# ------------------------------------------------------------------ known findings

def k12_week_year_label(req, out, model_out=None):
    """`klog report --aggregate week` whose first row lies in ISO year -1 (records dated 0000-01-01 / 0000-01-02):
    weekAggregator starts from the sentinel year -1, so the first row is printed without its year."""
    f = req.split(" ")
    if f[0] not in ("report-run", "report-filtered") or f[6][0].lower() != "w":
        return False
    _, secs = split_sections(out)
    R = secs.get("R", [])
    # recognised only while klog's answer is the model's up to that missing label (anything else that happens to these rows
    # is a different violation)
    return len(R) >= 2 and R[1].startswith("?-52=") and not any(t.startswith("?") for t in R[2:]) \
        and (model_out is None or model_out.replace(" ?-52=", " -1-52=") == out.replace(" ?-52=", " -1-52="))

def file_overflows(req):
    """the durations written in the file add up beyond int64"""
    import re
    text = bytes.fromhex(req.split(" ")[-1]) if req.split(" ")[-1] != "-" else b""
    tot = sum(int(h) * 60 for h in re.findall(rb"(\d+)h", text)) + sum(int(m) for m in re.findall(rb"(\d+)m", text))
    return tot > I64

def k1_views_overflow(req, out):
    """K1 as seen by the views: the file's durations add up beyond int64, `klog total` / `report` / `today` panic"""
    return req.startswith("report-") and out.startswith("crash ") and file_overflows(req)

def suites():
    return [
        Suite("views", gen_views, oracle=oracle, nontrivial=nontrivial, env={"GOMAXPROCS": "2"},
              rule="`klog report --aggregate day|week|month|quarter|year [--fill] [--diff] [--now]`, `klog total --diff [--now]`, `klog today --diff [--now]`, "
                   "`klog print --with-totals` on one conforming file (0-70 records, unsorted / descending, duplicate dates, clustered around New Year and ISO "
                   "weeks 52/53/1, quarter and month ends, leap days, 0000-01-01 and 9999-12-31, negative totals, open ranges) at an instant on / after / away "
                   "from a record's date; non-trivial = every view answered and the report has at least two rows"),
        Suite("filtered", gen_filtered, oracle=oracle, nontrivial=nontrivial, env={"GOMAXPROCS": "2"},
              rule="the same files with one filter: --date / --since / --until / --after / --before / --period (year, month, quarter, ISO week) / --today, "
                   "--yesterday, --tomorrow / --this-* and --last-* week, month, quarter, year (both spellings), sometimes with --entry-type, on `klog report`, "
                   "`klog total`, `klog print --with-totals`; the oracle selects the records by date interval (Python datetime) and entry kind and then asks "
                   "for the same partition; non-trivial = at least two rows"),
    ]
