(* JsonView: `klog json` (klog/app/cli/json.go, klog/parser/json/serialiser.go + view.go) and, for the
   comparison of the error objects with the terminal report, klog/app/cli/util/prettifier.go
   PrettifyParsingError with terminalformat.Reflower. Definitions only.

   The JSON machinery itself (value type, Go's string encoder with SetEscapeHTML(false), compact printer,
   SetIndent("", "  ") printer, parser) is Model/Json.v; this file builds the values klog hands to the encoder:

   - [error_title] / [error_details]   klog/parser/error.go, the ten error kinds.
   - [tag_views]       toTagViews: Summary.Tags().ToStrings(), sorted with `<` on Go strings. sort.Slice is not
                       stable, but the order is total on strings, so the result is THE sorted list.
   - [entry_view]      toEntryViews: EntryView / OpenRangeView / RangeView; encoding/json writes the promoted
                       fields of the embedded structs first, in declaration order: type, summary, tags, total,
                       total_mins, then start, start_mins, then end, end_mins. No field is `omitempty`.
   - [record_view]     toRecordViews. service.Total and service.Diff go through safemath (Duration.Plus):
                       an overflow is a Go panic, here [Crash CIntegerOverflow]. Entry.Duration() builds
                       NewDuration(0, minutes) for every entry, which cannot panic once service.Total (computed
                       first, over the same entries) has not.
   - [error_view]      toErrorViews: line = OverallLineIndex+1, column = position+1, length, title, details, file.
   - [go_to_json]      ToJson(rs, errs, pretty): errs == nil decides; an empty non-nil error slice gives
                       records = null AND errors = null (toErrorViews starts from a nil slice).
   - [to_json_inputs]  Json.Run after Context.ReadInputs: the files are parsed one after the other, records and
                       errors (each error tagged with the path of its file) are concatenated, and the errors win
                       if there is at least one. (--now, the filters and --sort are not modelled here.)
   - [to_json]         the same for one file.  [json_stdout] is what the command prints: the text + LF.
   - [terminal_report] what every other command (e.g. `klog print`) reports for the same errors with colours
                       off: PrettifyParsingError. Exit code 8 (LOGICAL_ERROR). *)
From Klog Require Import Base.Prelude Base.Utf8 Model.Calendar Model.Values Model.Record Model.Lines Model.Parser
  Model.Eval Model.Tags Model.Json.
Open Scope Z_scope.

(* ================= klog/parser/error.go ================= *)

Definition error_title (c : ecode) : bytes :=
  match c with
  | ErrorInvalidDate => b!"Invalid date"
  | ErrorIllegalIndentation => b!"Unexpected indentation"
  | ErrorMalformedShouldTotal => b!"Malformed should-total time"
  | ErrorUnrecognisedProperty => b!"Unrecognised should-total value"
  | ErrorMalformedPropertiesSyntax => b!"Malformed should-total time"
  | ErrorUnrecognisedTextInHeadline => b!"Malformed headline"
  | ErrorMalformedSummary => b!"Malformed summary"
  | ErrorMalformedEntry => b!"Malformed entry"
  | ErrorDuplicateOpenRange => b!"Duplicate entry"
  | ErrorIllegalRange => b!"Invalid date range"
  end.

Definition error_details (c : ecode) : bytes :=
  match c with
  | ErrorInvalidDate =>
    b!"Please make sure that the date format is either YYYY-MM-DD or YYYY/MM/DD, and that its value represents a valid day in the calendar."
  | ErrorIllegalIndentation =>
    b!"Please correct the indentation of this line. Indentation must be 2-4 spaces or one tab. You cannot mix different indentation styles within the same record."
  | ErrorMalformedShouldTotal =>
    b!"Please review the syntax of the should-total time. Valid examples for it would be: (8h!) or (4h30m!) or (45m!)"
  | ErrorUnrecognisedProperty =>
    b!"The highlighted value is not recognised. The should-total must be a time duration suffixed with an exclamation mark, e.g. 5h15m! or 8h!"
  | ErrorMalformedPropertiesSyntax =>
    b!"The should-total cannot be empty and it must be surrounded by parenthesis on both sides"
  | ErrorUnrecognisedTextInHeadline =>
    b!"The highlighted text in the headline is not recognised. Please make sure to surround the should-total with parentheses, e.g.: (5h!) You generally cannot put arbitrary text into the headline."
  | ErrorMalformedSummary =>
    b!"Summary lines cannot start with blank characters, such as non-breaking spaces."
  | ErrorMalformedEntry =>
    b!"Please review the syntax of the entry. It must start with a duration or a time range. Valid examples would be: 3h20m or 8:00-10:00 or 8:00-? or <23:00-6:00 or 18:00-0:30>"
  | ErrorDuplicateOpenRange =>
    b!"Please make sure that there is only one open (unclosed) time range in this record."
  | ErrorIllegalRange =>
    b!"Please make sure that both time values appear in chronological order. If you want a time to be associated with an adjacent day you can use angle brackets to shift the time by one day: <23:00-6:00 or 18:00-0:30>"
  end.

(* Error.Message() *)
Definition error_message (c : ecode) : bytes := error_title c ++ b!": " ++ error_details c.

(* ================= views ================= *)

Definition lf : bytes := [10%N].

(* parser.SummaryText(lines).ToString(): strings.Join(lines, LF) *)
Definition summary_text (lines : list bytes) : bytes := join lf lines.

(* toTagViews *)
Definition sorted_tag_strings (ts : tagset) : list bytes := sort_by bytes_ltb (ts_to_strings go_is_letter ts).
Definition tag_views (lines : list bytes) : outcome json :=
  let* ts := go_summary_tags_o lines in
  Ok (JArr (map JStr (sorted_tag_strings ts))).

Definition k_type : bytes := b!"type".            Definition k_summary : bytes := b!"summary".
Definition k_tags : bytes := b!"tags".            Definition k_total : bytes := b!"total".
Definition k_total_mins : bytes := b!"total_mins". Definition k_start : bytes := b!"start".
Definition k_start_mins : bytes := b!"start_mins". Definition k_end : bytes := b!"end".
Definition k_end_mins : bytes := b!"end_mins".    Definition k_date : bytes := b!"date".
Definition k_should_total : bytes := b!"should_total".
Definition k_should_total_mins : bytes := b!"should_total_mins".
Definition k_diff : bytes := b!"diff".            Definition k_diff_mins : bytes := b!"diff_mins".
Definition k_entries : bytes := b!"entries".      Definition k_records : bytes := b!"records".
Definition k_errors : bytes := b!"errors".        Definition k_line : bytes := b!"line".
Definition k_column : bytes := b!"column".        Definition k_length : bytes := b!"length".
Definition k_title : bytes := b!"title".          Definition k_details : bytes := b!"details".
Definition k_file : bytes := b!"file".

Definition ty_range : bytes := b!"range".
Definition ty_duration : bytes := b!"duration".
Definition ty_open_range : bytes := b!"open_range".

(* Duration.ToString() of a duration with the default format *)
Definition dur_text (m : Z) : bytes := print_duration (mk_dur m).

(* the EntryView part shared by the three entry types *)
Definition entry_base (ty : bytes) (e : entry) (tags : json) : list (bytes * json) :=
  [(k_type, JStr ty);
   (k_summary, JStr (summary_text (e_summary e)));
   (k_tags, tags);
   (k_total, JStr (dur_text (entry_minutes e)));
   (k_total_mins, JNum (entry_minutes e))].

Definition start_fields (t : time) : list (bytes * json) :=
  [(k_start, JStr (print_time t)); (k_start_mins, JNum (time_offset t))].
Definition end_fields (t : time) : list (bytes * json) :=
  [(k_end, JStr (print_time t)); (k_end_mins, JNum (time_offset t))].

Definition entry_view (e : entry) : outcome json :=
  let* tags := tag_views (e_summary e) in
  Ok (JObj (match e_value e with
            | VDuration _ => entry_base ty_duration e tags
            | VRange r => entry_base ty_range e tags ++ start_fields (r_start r) ++ end_fields (r_end r)
            | VOpen o => entry_base ty_open_range e tags ++ start_fields (o_start o)
            end)).

Fixpoint map_o {A B} (f : A -> outcome B) (l : list A) : outcome (list B) :=
  match l with
  | [] => Ok []
  | x :: r => let* y := f x in let* ys := map_o f r in Ok (y :: ys)
  end.

(* service.Total(r) *)
Definition record_total (r : record) : outcome Z := sum64 0 (map entry_minutes (rec_entries r)).

(* ShouldTotal.ToString(): NewDuration(0,0) when unset; the default-format duration followed by "!" when set *)
Definition should_text (r : record) : bytes :=
  match rec_should r with
  | None => dur_text 0
  | Some m => dur_text m ++ [ch_excl]
  end.

Definition record_view (r : record) : outcome json :=
  let* t := record_total r in
  let* d := diff (should_minutes r) t in
  let* tags := tag_views (rec_summary r) in
  let* es := map_o entry_view (rec_entries r) in
  Ok (JObj [(k_date, JStr (print_date (rec_date r)));
            (k_summary, JStr (summary_text (rec_summary r)));
            (k_total, JStr (dur_text t));
            (k_total_mins, JNum t);
            (k_should_total, JStr (should_text r));
            (k_should_total_mins, JNum (should_minutes r));
            (k_diff, JStr (print_duration_signed (mk_dur d)));
            (k_diff_mins, JNum d);
            (k_tags, tags);
            (k_entries, JArr es)]).

(* an error together with Error.Origin(), the path of the file it was found in *)
Definition located_error := (bytes * rerr)%type.

Definition error_view (fe : located_error) : json :=
  let '(file, e) := fe in
  JObj [(k_line, JNum (Z.of_nat (S (re_line e))));
        (k_column, JNum (re_pos e + 1));
        (k_length, JNum (re_len e));
        (k_title, JStr (error_title (re_code e)));
        (k_details, JStr (error_details (re_code e)));
        (k_file, JStr file)].

Definition envelope (records errors : json) : json := JObj [(k_records, records); (k_errors, errors)].

(* the value ToJson hands to the encoder; [errs = None] is the nil slice *)
Definition json_value (rs : list record) (errs : option (list located_error)) : outcome json :=
  match errs with
  | None => let* vs := map_o record_view rs in Ok (envelope (JArr vs) JNull)
  | Some [] => Ok (envelope JNull JNull)          (* toErrorViews returns its nil slice untouched *)
  | Some es => Ok (envelope JNull (JArr (map error_view es)))
  end.

(* strings.TrimRight(s, LF) *)
Fixpoint drop_lf (s : bytes) : bytes :=
  match s with
  | c :: r => if (c =? 10)%N then drop_lf r else s
  | [] => []
  end.
Definition trim_right_lf (s : bytes) : bytes := rev (drop_lf (rev s)).

(* ToJson *)
Definition go_to_json (rs : list record) (errs : option (list located_error)) (pretty : bool) : outcome bytes :=
  let* v := json_value rs errs in
  Ok (trim_right_lf (encoder_output pretty v)).

(* Context.ReadInputs over (path, parse result) pairs *)
Definition input := (bytes * parse_result)%type.
Fixpoint collect (inputs : list input) : list record * list located_error :=
  match inputs with
  | [] => ([], [])
  | (file, res) :: rest =>
    let '(rs, es) := collect rest in
    match res with
    | Parsed rs0 _ => (rs0 ++ rs, es)
    | Failed es0 => (rs, map (fun e => (file, e)) es0 ++ es)
    end
  end.

(* what Json.Run passes to ToJson *)
Definition run_args (inputs : list input) : list record * option (list located_error) :=
  let '(rs, es) := collect inputs in
  match es with
  | [] => (rs, None)
  | _ => ([], Some es)
  end.

Definition view_inputs (inputs : list input) : outcome json :=
  let '(rs, errs) := run_args inputs in json_value rs errs.

Definition to_json_inputs (inputs : list input) (pretty : bool) : outcome bytes :=
  let '(rs, errs) := run_args inputs in go_to_json rs errs pretty.

(* `klog json [--pretty] file` on a file with the given path whose parse result is [result] *)
Definition to_json (file : bytes) (result : parse_result) (pretty : bool) : outcome bytes :=
  to_json_inputs [(file, result)] pretty.

(* ctx.Print(json + LF) *)
Definition json_stdout (out : bytes) : bytes := out ++ lf.

(* ================= the terminal report of the same errors ================= *)

Fixpoint split_byte (c : N) (s : bytes) (cur : bytes) : list bytes :=
  match s with
  | [] => [rev cur]
  | x :: r => if (x =? c)%N then rev cur :: split_byte c r [] else split_byte c r (x :: cur)
  end.
(* strings.Split(s, string(c)) *)
Definition split_on_byte (c : N) (s : bytes) : list bytes := split_byte c s [].

(* Reflower.Reflow on one paragraph: [done] are the finished lines (latest first), [cur] is lines[nr] *)
Fixpoint reflow_words (maxlen : nat) (prefixes : list bytes) (ws : list bytes)
                      (done : list bytes) (cur : bytes) (pfx : bytes) : list bytes :=
  match ws with
  | [] => rev (cur :: done)
  | w :: rest =>
    let '(done, cur) :=
      match rest with
      | next :: _ => if Nat.ltb maxlen (length cur + length next) then (cur :: done, []) else (done, cur)
      | [] => (done, cur)
      end in
    let '(cur, pfx) :=
      match cur with
      | [] => let pfx := match nth_error prefixes (length done) with Some p => p | None => pfx end in (pfx, pfx)
      | _ => (cur ++ [32%N], pfx)
      end in
    reflow_words maxlen prefixes rest done (cur ++ w) pfx
  end.

Definition reflow (maxlen : nat) (text : bytes) (prefixes : list bytes) : bytes :=
  join lf (map (fun para => join lf (reflow_words maxlen prefixes (split_on_byte 32 para) [] [] []))
               (split_on_byte 10 text)).

Definition indent4 : bytes := b!"    ".

(* strings.Replace(s, TAB, " ", -1) *)
Definition tabs_to_spaces (s : bytes) : bytes := map (fun c => if (c =? 9)%N then 32%N else c) s.

(* strings.Repeat panics on a negative count *)
Definition repeat_z (c : N) (n : Z) : outcome bytes :=
  if n <? 0 then Crash CNegativeRepeat else Ok (repeat c (Z.to_nat n)).

(* the part of PrettifyParsingError for one error, colours off *)
Definition report_block (fe : located_error) : outcome bytes :=
  let '(file, e) := fe in
  let* spaces := repeat_z 32 (re_pos e) in
  let* carets := repeat_z 94 (re_len e) in
  Ok (lf ++ b!"[SYNTAX ERROR] in line " ++ dec (Z.of_nat (S (re_line e)))
      ++ (match file with [] => [] | _ => b!" of file " ++ file end) ++ lf
      ++ indent4 ++ tabs_to_spaces (re_text e) ++ lf
      ++ indent4 ++ spaces ++ carets ++ lf
      ++ reflow 80 (error_message (re_code e)) [indent4] ++ lf).

Definition terminal_report (es : list located_error) : outcome bytes :=
  let* blocks := map_o report_block es in Ok (List.concat blocks).

(* the exit code klog ends with after printing the report: app.LOGICAL_ERROR *)
Definition parse_error_exit_code : Z := 8.

(* ---- reading the numbers back off a report block (what a reader of the terminal sees) ---- *)

(* the decimal number after "in line " on the header row, the number of blanks after the four-blank margin of the
   caret row, and the number of carets *)
Definition count_prefix (c : N) (s : bytes) : nat := length (fst (span (fun x => (x =? c)%N) s)).

Record report_numbers := { rn_line : Z; rn_offset : Z; rn_count : Z }.

Definition read_block (blk : bytes) : option report_numbers :=
  match split_on_byte 10 blk with
  | _ :: header :: _ :: caret_row :: _ =>
    let after := skipn (length b!"[SYNTAX ERROR] in line ") header in
    let '(ds, _) := span is_digit after in
    let row := skipn 4 caret_row in
    let nsp := count_prefix 32 row in
    Some {| rn_line := digits_val ds;
            rn_offset := Z.of_nat nsp;
            rn_count := Z.of_nat (count_prefix 94 (skipn nsp row)) |}
  | _ => None
  end.

(* ================= reading the record views back ================= *)
(* The decoding function of C20_records_faithful: what a consumer of the JSON document can recover from a
   record object. [data_of] is the record without what JSON never shows: the spacing around the dash of a
   range, the number of placeholder characters of an open range, and the sign notation of a duration
   (explicit +, signed zero). *)

Fixpoint jget (k : bytes) (l : list (bytes * json)) : option json :=
  match l with
  | [] => None
  | (k', v) :: r => if bytes_eqb k k' then Some v else jget k r
  end.
Definition field (k : bytes) (v : json) : option json := match v with JObj l => jget k l | _ => None end.
Definition str_field (k : bytes) (v : json) : option bytes := match field k v with Some (JStr s) => Some s | _ => None end.
Definition num_field (k : bytes) (v : json) : option Z := match field k v with Some (JNum z) => Some z | _ => None end.
Definition arr_field (k : bytes) (v : json) : option (list json) := match field k v with Some (JArr l) => Some l | _ => None end.

Fixpoint all_some {A} (l : list (option A)) : option (list A) :=
  match l with
  | [] => Some []
  | Some x :: r => match all_some r with Some xs => Some (x :: xs) | None => None end
  | None :: _ => None
  end.
Definition string_of (v : json) : option bytes := match v with JStr s => Some s | _ => None end.
Definition strings_of (l : list json) : option (list bytes) := all_some (map string_of l).

Inductive value_data :=
| DDuration (mins : Z)
| DRange (start end_ : time)
| DOpen (start : time).

Record entry_data := { ed_value : value_data; ed_summary : list bytes; ed_tags : list bytes }.
Record record_data := {
  rd_date : date; rd_should : option Z; rd_summary : list bytes; rd_tags : list bytes; rd_entries : list entry_data }.

(* the tags of a summary in the notation and order of the output (Summary.Tags() is [summary_tags]: Proofs/Tags.v) *)
Definition tag_strings (lines : list bytes) : list bytes := sorted_tag_strings (summary_tags go_is_letter go_to_lower lines).

Definition value_data_of (v : evalue) : value_data :=
  match v with
  | VDuration d => DDuration (d_mins d)
  | VRange r => DRange (r_start r) (r_end r)
  | VOpen o => DOpen (o_start o)
  end.
Definition entry_data_of (e : entry) : entry_data :=
  {| ed_value := value_data_of (e_value e); ed_summary := e_summary e; ed_tags := tag_strings (e_summary e) |}.
Definition data_of (r : record) : record_data :=
  {| rd_date := rec_date r; rd_should := rec_should r; rd_summary := rec_summary r;
     rd_tags := tag_strings (rec_summary r); rd_entries := map entry_data_of (rec_entries r) |}.

Definition time_of (s : bytes) : option time := match parse_time s with Ok t => Some t | _ => None end.
Definition date_of (s : bytes) : option date := match parse_date s with Ok d => Some d | _ => None end.

(* an entry summary always has a first line; a record summary may have none *)
Definition entry_lines (s : bytes) : list bytes := split_on_byte 10 s.
Definition record_lines (s : bytes) : list bytes := match s with [] => [] | _ => split_on_byte 10 s end.

Definition time_field (k : bytes) (v : json) : option time :=
  match str_field k v with Some s => time_of s | None => None end.

Definition of_entry_view (v : json) : option entry_data :=
  match str_field k_type v, str_field k_summary v, arr_field k_tags v, num_field k_total_mins v with
  | Some ty, Some su, Some tg, Some mins =>
    match strings_of tg with
    | Some tags =>
      let mk (val : value_data) := Some {| ed_value := val; ed_summary := entry_lines su; ed_tags := tags |} in
      if bytes_eqb ty ty_duration then mk (DDuration mins)
      else if bytes_eqb ty ty_open_range then
        match time_field k_start v with Some t => mk (DOpen t) | None => None end
      else if bytes_eqb ty ty_range then
        match time_field k_start v, time_field k_end v with
        | Some a, Some b => mk (DRange a b)
        | _, _ => None
        end
      else None
    | None => None
    end
  | _, _, _, _ => None
  end.

(* the should-total is set exactly when its text ends in the exclamation mark *)
Definition should_of (text : bytes) (mins : Z) : option Z :=
  if (last text 0%N =? ch_excl)%N then Some mins else None.

Definition of_view (v : json) : option record_data :=
  match str_field k_date v, str_field k_summary v, str_field k_should_total v, num_field k_should_total_mins v,
        arr_field k_tags v, arr_field k_entries v with
  | Some d, Some su, Some st, Some sm, Some tg, Some es =>
    match date_of d, strings_of tg, all_some (map of_entry_view es) with
    | Some date, Some tags, Some entries =>
      Some {| rd_date := date; rd_should := should_of st sm; rd_summary := record_lines su;
              rd_tags := tags; rd_entries := entries |}
    | _, _, _ => None
    end
  | _, _, _, _, _, _ => None
  end.

(* the whole document: the record data, in order; None when the document reports errors *)
Definition of_document (v : json) : option (list record_data) :=
  match arr_field k_records v with
  | Some l => all_some (map of_view l)
  | None => None
  end.
