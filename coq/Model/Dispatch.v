(* Dispatch: the single entry point of the extracted model. One request line in, one result line out. *)
From Klog Require Import Base.Prelude Model.Show Model.SuiteValues Model.SuiteParse Model.SuiteParallel Model.SuiteEval Model.SuiteCommands
  Model.SuitePeriod Model.SuiteTags Model.SuiteStyler Model.SuiteBookmarks Model.SuiteReport Model.SuiteQuery Model.SuiteJson.

Definition first_some (l : list (option bytes)) : bytes :=
  match flat_map (fun o => match o with Some x => [x] | None => [] end) l with
  | x :: _ => x
  | [] => b!"?unknown-request"
  end.

Definition dispatch (line : bytes) : bytes :=
  match tokens line with
  | cmd :: args =>
    first_some [suite_values cmd args;
                suite_report cmd args;
                suite_parse cmd args;
                suite_parallel cmd args;
                suite_eval cmd args;
                suite_commands cmd args;
                suite_period cmd args;
                suite_tags cmd args;
                suite_styler cmd args;
                suite_bookmarks cmd args;
                suite_query cmd args;
                suite_json cmd args]
  | [] => b!"?empty"
  end.
