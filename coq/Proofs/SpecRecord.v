(* SpecRecord — layer L2 of C01: a block holding the lines of a specification record parses to the denoted record. *)
From Klog Require Import Base.Prelude Base.Utf8 Model.Calendar Model.Values Model.Record Model.Lines Model.Parser
  Proofs.TagsUtf8 Spec.Spec Proofs.SpecValues Proofs.SpecEntry.
From Coq Require Import ZifyBool.
Open Scope Z_scope.

(* ================= runes and bytes of a line ================= *)

Lemma scalar_is_scalar r : scalar r = is_scalar r.
Proof. reflexivity. Qed.

Lemma text_ok_scalar t : text_ok t = true -> Forall (fun r => is_scalar r = true) t.
Proof.
  unfold text_ok. rewrite forallb_forall, Forall_forall. intros H c Hc. specialize (H c Hc).
  apply andb_true_iff in H as [H _]. exact H.
Qed.

Lemma decode_encode t : text_ok t = true -> utf8_decode (utf8_encode t) = t.
Proof. intros H. apply utf8_decode_encode, text_ok_scalar, H. Qed.

Lemma text_ok_app a b : text_ok (a ++ b) = text_ok a && text_ok b.
Proof. apply forallb_app. Qed.

Lemma ascii_text_ok t : ascii t = true -> forallb (fun c => negb (c =? 10)%N) t = true -> text_ok t = true.
Proof.
  unfold ascii, text_ok. rewrite !forallb_forall. intros A L c Hc. specialize (A c Hc). specialize (L c Hc).
  unfold scalar. lia.
Qed.

(* the blank test of the model looks at bytes; on encoded text it is the rune-level test *)
Lemma is_blank_encode t : is_blank_text (utf8_encode t) = blank_text t.
Proof.
  induction t as [|c t IH]; [reflexivity|].
  unfold utf8_encode. cbn [flat_map]. fold (utf8_encode t). unfold is_blank_text, blank_text in *.
  rewrite forallb_app. cbn [forallb]. rewrite IH. f_equal.
  destruct (encode_rune_bytes c) as [[Hc ->] | [Hc Hb]].
  - cbn [forallb]. rewrite andb_true_r. reflexivity.
  - replace ((c =? 32)%N || (c =? 9)%N) with false by lia.
    destruct (encode_rune c) as [|b0 r] eqn:E; [exfalso; exact (encode_rune_nonempty c E)|].
    inversion Hb; subst. cbn [forallb]. replace ((b0 =? 32)%N || (b0 =? 9)%N) with false by lia. reflexivity.
Qed.

(* indentation styles are the same bytes as runes *)
Lemma indent_ascii i : ascii (indent_text i) = true.
Proof. destruct i; reflexivity. Qed.

Lemma encode_indent i rest : utf8_encode (indent_text i ++ rest) = indent_text i ++ utf8_encode rest.
Proof. rewrite utf8_encode_app, (utf8_encode_ascii _ (indent_ascii i)). reflexivity. Qed.

Lemma has_prefix_app p s : has_prefix p (p ++ s) = true.
Proof. apply has_prefix_spec. exists s. reflexivity. Qed.

Lemma has_prefix_app_same p a b : has_prefix (p ++ a) (p ++ b) = has_prefix a b.
Proof. induction p as [|x p IH]; [reflexivity|]. cbn [app has_prefix]. rewrite N.eqb_refl. exact IH. Qed.

Lemma has_prefix_indent_head i c r : is_space_or_tab c = false -> has_prefix (indent_text i) (c :: r) = false.
Proof. unfold is_space_or_tab. intros H. destruct i; cbn [indent_text spaces repeat has_prefix]; lia. Qed.

(* first byte of an encoded text whose first rune is ASCII *)
Lemma encode_cons_ascii c r : (c <? 128)%N = true -> utf8_encode (c :: r) = c :: utf8_encode r.
Proof. intros H. unfold utf8_encode. cbn [flat_map]. unfold encode_rune. rewrite H. reflexivity. Qed.

(* the indentation found on an entry line whose text begins with a non-blank ASCII character *)
Lemma find_indentation_entry i c r : is_space_or_tab c = false ->
  find_indentation (indent_text i ++ c :: r) = Some (indent_text i).
Proof.
  unfold is_space_or_tab. intros H. unfold find_indentation, indentations.
  destruct i; cbn [indent_text spaces repeat app find has_prefix]; rewrite ?N.eqb_refl; cbn [andb];
    repeat match goal with |- context [(?x =? ?y)%N] => first [replace (x =? y)%N with false by lia | change (x =? y)%N with false | change (x =? y)%N with true]; cbn [andb] end; reflexivity.
Qed.

(* ================= headline ================= *)

Lemma forallb_impl {A} (p q : A -> bool) l : (forall c, p c = true -> q c = true) -> forallb p l = true -> forallb q l = true.
Proof. rewrite !forallb_forall. intros H Hp c Hc. apply H, Hp, Hc. Qed.

Lemma count_while_all p a rest : forallb p a = true ->
  match rest with c :: _ => p c = false | [] => True end ->
  count_while p (a ++ rest) = length a.
Proof.
  intros Ha Hr. induction a as [|c a IH]; cbn [app forallb] in *.
  - destruct rest as [|c r]; [reflexivity|]. cbn [count_while]. rewrite Hr. reflexivity.
  - apply andb_true_iff in Ha as [Hc Ha]. cbn [count_while length]. rewrite Hc, (IH Ha). reflexivity.
Qed.

Lemma skip_while_all_at p cs pos pre a rest : cs = pre ++ a ++ rest -> pos = length pre ->
  forallb p a = true -> match rest with c :: _ => p c = false | [] => True end ->
  skip_while p cs pos = (pos + length a)%nat.
Proof. intros -> -> Ha Hr. unfold skip_while. rewrite skipn_pre, count_while_all by assumption. reflexivity. Qed.

Definition dur_char (c : N) : bool := is_digit c || (c =? 43)%N || (c =? 45)%N || (c =? 104)%N || (c =? 109)%N.

Lemma render_dur_dur_chars d : dur_shape d = true -> forallb dur_char (render_dur d) = true.
Proof.
  unfold dur_shape, render_dur. intros W. repeat (apply andb_true_iff in W as [W ?]).
  assert (Dg : forall ds, forallb is_digit ds = true -> forallb dur_char ds = true).
  { intros ds. apply forallb_impl. intros c Hc. unfold dur_char. rewrite Hc. reflexivity. }
  rewrite !forallb_app.
  apply andb_true_iff; split; [destruct (du_sign d); reflexivity|].
  apply andb_true_iff; split.
  - destruct (du_h d) as [hs|]; [|reflexivity]. cbn [opt_ok] in H1. apply integer_ok_inv in H1 as [_ D].
    rewrite forallb_app, (Dg _ D). reflexivity.
  - destruct (du_m d) as [ms|]; [|reflexivity]. cbn [opt_ok] in H0. apply integer_ok_inv in H0 as [_ D].
    rewrite forallb_app, (Dg _ D). reflexivity.
Qed.

Lemma render_dur_nonempty d : dur_shape d = true -> render_dur d <> [].
Proof.
  intros Sh E. destruct (match_render_dur d Sh) as [_ Hne].
  unfold render_dur in E. apply app_eq_nil in E as [_ E]. apply app_eq_nil in E as [E1 E2].
  destruct (du_h d) as [hs|]; [destruct hs; discriminate|]. destruct (du_m d) as [ms|]; [destruct ms; discriminate|].
  cbn in Hne. destruct Hne; congruence.
Qed.

Definition date_char (c : N) : bool := is_digit c || (c =? 45)%N || (c =? 47)%N.

Lemma render_date_chars d : wf_date d = true -> forallb date_char (render_date d) = true.
Proof.
  intros W. pose proof W as V. unfold wf_date in W.
  assert (Hy : 0 <= sd_year d <= 9999) by lia.
  assert (Hm : 0 <= sd_month d <= 99) by lia.
  assert (Hd : 0 <= sd_day d <= 99).
  { split; [lia|]. rewrite month_length_days_in_month in W. unfold days_in_month in W.
    destruct (sd_month d =? 2); [destruct (is_leap (sd_year d)); lia|].
    destruct ((sd_month d =? 4) || (sd_month d =? 6) || (sd_month d =? 9) || (sd_month d =? 11)); lia. }
  assert (Dg : forall ds, forallb is_digit ds = true -> forallb date_char ds = true).
  { intros ds. apply forallb_impl. intros c Hc. unfold date_char. rewrite Hc. reflexivity. }
  unfold render_date. rewrite !forallb_app.
  rewrite (Dg _ (four_digits_digits _ Hy)), (Dg _ (two_digits_digits _ Hm)), (Dg _ (two_digits_digits _ Hd)).
  destruct (sd_dash d); reflexivity.
Qed.

Lemma render_date_head d : match render_date d with c :: _ => c = dchar (sd_year d / 1000) | [] => False end.
Proof. reflexivity. Qed.

Lemma blank_text_is_space_or_tab t : blank_text t = forallb is_space_or_tab t.
Proof. reflexivity. Qed.

Lemma ascii_repeat_space_blank n : forallb is_space_or_tab (repeat 32%N n) = true.
Proof. induction n; [reflexivity|exact IHn]. Qed.

Lemma peek_at_cons cs pos pre c rest : cs = pre ++ c :: rest -> pos = length pre -> peek cs pos = c.
Proof. intros E1 E2. rewrite (peek_at cs pos pre (c :: rest) E1 E2). reflexivity. Qed.

Lemma peek_at_end cs pos : pos = length cs -> peek cs pos = rune_error.
Proof. intros E. rewrite (peek_at cs pos cs [] (eq_sym (app_nil_r cs)) E). reflexivity. Qed.

Lemma skip_while_stay p cs pos pre rest : cs = pre ++ rest -> pos = length pre ->
  match rest with c :: _ => p c = false | [] => True end -> skip_while p cs pos = pos.
Proof. intros E1 E2 H. rewrite (skip_while_all_at p cs pos pre [] rest E1 E2 eq_refl H). cbn [length]. apply Nat.add_0_r. Qed.

Lemma peek_until_at_cons p cs pos pre a c rest : cs = pre ++ a ++ c :: rest -> pos = length pre ->
  forallb (fun c => negb (p c)) a = true -> p c = true -> peek_until p cs pos = (a, true).
Proof. intros E1 E2 Ha Hc. rewrite (peek_until_at p cs pos pre a (c :: rest) E1 E2 Ha Hc). reflexivity. Qed.

Definition not_rpar (c : N) : bool := negb (c =? ch_rpar)%N.
Definition not_excl (c : N) : bool := negb (c =? ch_excl)%N.
Ltac clear_all := repeat match goal with H : _ |- _ => clear H end.
Ltac len_eq' := clear_all; len_eq.

Section Headline.
  Variables (ln : nat) (r : s_record).
  Hypothesis Wd : wf_date (sr_date r) = true.
  Hypothesis Ws : match sr_should r with Some (_, d) => wf_dur d = true | None => True end.
  Hypothesis Wt : blank_text (sr_trail r) = true.

  Lemma parse_headline_spec :
    parse_headline ln (headline_text r) =
    HeadRec (denote_date (sr_date r))
            (match sr_should r with Some (_, d) => Some (d_mins (denote_dur d)) | None => None end) [].
  Proof.
    pose proof (render_date_chars _ Wd) as Dc.
    assert (Dnb : forallb (fun c => negb (is_space_or_tab c)) (render_date (sr_date r)) = true).
    { revert Dc. apply forallb_impl. intros c. unfold date_char, is_digit, is_space_or_tab. lia. }
    assert (Das : ascii (render_date (sr_date r)) = true).
    { revert Dc. apply forallb_impl. intros c. unfold date_char, is_digit. lia. }
    assert (Dhead : exists c0 r0, render_date (sr_date r) = c0 :: r0 /\ is_space_or_tab c0 = false).
    { unfold render_date, four_digits. cbn [app]. eexists; eexists; split; [reflexivity|].
      unfold wf_date in Wd. assert (0 <= sd_year (sr_date r) / 1000 <= 9) by (Z.div_mod_to_equations; lia).
      unfold is_space_or_tab, dchar. lia. }
    pose proof (parse_render_date _ Wd) as Pd.
    remember (render_date (sr_date r)) as rd eqn:Erd.
    remember (sr_trail r) as trail eqn:Etr.
    assert (Thead : match trail with c :: _ => is_space_or_tab c = true | [] => True end).
    { destruct trail as [|c t]; [trivial|]. cbn [blank_text forallb] in Wt. apply andb_true_iff in Wt as [H _]. exact H. }
    unfold headline_text. rewrite <- Erd, <- Etr.
    destruct (sr_should r) as [[extra d]|] eqn:Esh.
    - (* with a should-total *)
      pose proof Ws as Wdur. unfold wf_dur in Wdur. apply andb_true_iff in Wdur as [Sh _].
      pose proof (render_dur_dur_chars d Sh) as Uc.
      pose proof (render_dur_ascii d Sh) as Uas.
      pose proof (render_dur_nonempty d Sh) as Une.
      pose proof (parse_render_dur d Ws) as Pu.
      remember (render_dur d) as ru eqn:Eru.
      assert (Uhead : forall x, match ru ++ x with c :: _ => is_space_or_tab c = false | [] => True end).
      { intros x. destruct ru as [|c t]; [congruence|].
        cbn [app forallb] in *. apply andb_true_iff in Uc as [H _]. unfold dur_char, is_digit in H. unfold is_space_or_tab. lia. }
      assert (U41 : forallb not_rpar (ru ++ [33%N]) = true).
      { rewrite forallb_app. apply andb_true_iff; split; [|reflexivity].
        revert Uc. apply forallb_impl. intros c. unfold dur_char, is_digit, not_rpar, ch_rpar. lia. }
      assert (U33 : forallb not_excl ru = true).
      { revert Uc. apply forallb_impl. intros c. unfold dur_char, is_digit, not_excl, ch_excl. lia. }
      remember (repeat 32%N (S extra)) as sp eqn:Esp.
      assert (Hsp : forallb is_space_or_tab sp = true) by (subst sp; apply ascii_repeat_space_blank).
      assert (Hsp0 : exists s', sp = 32%N :: s') by (subst sp; eexists; reflexivity).
      unfold spaces. rewrite <- Esp. clear Esp Erd Etr Eru.
      remember (rd ++ (sp ++ [40%N] ++ ru ++ [33; 41]%N) ++ trail) as cs eqn:Ecs.
      unfold parse_headline. cbv zeta.
      destruct Dhead as (c0 & r0 & Erd & Hc0).
      rewrite (peek_at_cons cs 0 [] c0 (r0 ++ (sp ++ [40%N] ++ ru ++ [33; 41]%N) ++ trail) ltac:(rewrite Ecs, Erd; reflexivity) eq_refl).
      rewrite Hc0. destruct Hsp0 as [s' Es'].
      rewrite (peek_until_at_cons is_space_or_tab cs 0 [] rd 32%N (s' ++ [40%N] ++ ru ++ [33; 41]%N ++ trail)
                 ltac:(rewrite Ecs, Es'; app_eq) eq_refl Dnb eq_refl).
      cbv iota beta. unfold str at 1. rewrite (utf8_encode_ascii _ Das), Pd.
      rewrite (skip_while_all_at is_space_or_tab cs (length rd) rd sp (40%N :: ru ++ [33; 41]%N ++ trail)
                 ltac:(rewrite Ecs; app_eq) eq_refl Hsp eq_refl).
      rewrite (peek_at_cons cs (length rd + length sp) (rd ++ sp) 40%N (ru ++ [33; 41]%N ++ trail)
                 ltac:(rewrite Ecs; app_eq) ltac:(len_eq')).
      change (40 =? ch_lpar)%N with true. cbv iota.
      rewrite (skip_while_stay is_space_or_tab cs (S (length rd + length sp)) (rd ++ sp ++ [40%N]) (ru ++ [33; 41]%N ++ trail)
                 ltac:(rewrite Ecs; app_eq) ltac:(len_eq') (Uhead _)).
      rewrite (peek_until_at_cons (fun c => (c =? ch_rpar)%N) cs (S (length rd + length sp)) (rd ++ sp ++ [40%N]) (ru ++ [33%N]) 41%N trail
                 ltac:(rewrite Ecs; app_eq) ltac:(len_eq') U41 eq_refl).
      cbv iota beta. change (negb true) with false. cbv iota.
      replace (Nat.eqb (length (ru ++ [33%N])) 0) with false by (rewrite app_length; cbn [length]; symmetry; apply Nat.eqb_neq; clear; lia).
      cbv iota.
      rewrite (peek_until_at_cons (fun c => (c =? ch_excl)%N) cs (S (length rd + length sp)) (rd ++ sp ++ [40%N]) ru 33%N (41%N :: trail)
                 ltac:(rewrite Ecs; app_eq) ltac:(len_eq') U33 eq_refl).
      cbv iota beta. change (negb true) with false. cbv iota.
      unfold parser_duration, str. rewrite (utf8_encode_ascii _ Uas), Pu.
      rewrite (skip_while_stay is_space_or_tab cs (S (length rd + length sp) + length ru + 1) (rd ++ sp ++ [40%N] ++ ru ++ [33%N]) (41%N :: trail)
                 ltac:(rewrite Ecs; app_eq) ltac:(len_eq') eq_refl).
      rewrite (peek_at_cons cs (S (length rd + length sp) + length ru + 1) (rd ++ sp ++ [40%N] ++ ru ++ [33%N]) 41%N trail
                 ltac:(rewrite Ecs; app_eq) ltac:(len_eq')).
      change (41 =? ch_rpar)%N with true. change (negb true) with false. cbv iota.
      rewrite (skip_while_all_at is_space_or_tab cs (S (S (length rd + length sp) + length ru + 1)) (rd ++ sp ++ [40%N] ++ ru ++ [33; 41]%N) trail []
                 ltac:(rewrite Ecs, app_nil_r; app_eq) ltac:(len_eq') Wt I).
      replace (Z.of_nat (S (S (length rd + length sp) + length ru + 1) + length trail) <? zlen cs) with false; [reflexivity|].
      symmetry. apply Z.ltb_ge. unfold zlen. rewrite Ecs. apply Nat2Z.inj_le. len_eq'.
    - (* without *)
      clear Etr.
      remember (rd ++ [] ++ trail) as cs eqn:Ecs. cbn [app] in Ecs.
      unfold parse_headline. cbv zeta.
      destruct Dhead as (c0 & r0 & Erd' & Hc0).
      rewrite (peek_at_cons cs 0 [] c0 (r0 ++ trail) ltac:(rewrite Ecs, Erd'; reflexivity) eq_refl).
      rewrite Hc0.
      rewrite (peek_until_at is_space_or_tab cs 0 [] rd trail Ecs eq_refl Dnb Thead).
      cbv iota beta. unfold str at 1. rewrite (utf8_encode_ascii _ Das), Pd.
      rewrite (skip_while_all_at is_space_or_tab cs (length rd) rd trail [] ltac:(rewrite Ecs, app_nil_r; reflexivity) eq_refl Wt I).
      rewrite (peek_at_end cs (length rd + length trail) ltac:(rewrite Ecs; len_eq')).
      change (rune_error =? ch_lpar)%N with false. cbv iota.
      rewrite (skip_while_stay is_space_or_tab cs (length rd + length trail) cs [] (eq_sym (app_nil_r cs)) ltac:(rewrite Ecs; len_eq') I).
      replace (Z.of_nat (length rd + length trail) <? zlen cs) with false; [reflexivity|].
      symmetry. apply Z.ltb_ge. unfold zlen. rewrite Ecs. apply Nat2Z.inj_le. len_eq'.
  Qed.
End Headline.

(* ================= record summary lines ================= *)

Lemma find_indentation_none b0 x : is_space_or_tab b0 = false -> find_indentation (b0 :: x) = None.
Proof.
  unfold is_space_or_tab. intros H. unfold find_indentation, indentations. cbn [find has_prefix].
  replace (32 =? b0)%N with false by lia. replace (9 =? b0)%N with false by lia. reflexivity.
Qed.

Lemma blank_char_is_zs c : blank_char c = is_zs c || (c =? 9)%N.
Proof. unfold blank_char. rewrite orb_comm. reflexivity. Qed.

Lemma all_blank_runes_eq t : all_blank_runes t = all_blank t.
Proof. unfold all_blank_runes, all_blank. induction t as [|c t IH]; [reflexivity|]. cbn [forallb]. rewrite IH, blank_char_is_zs. reflexivity. Qed.

(* the first byte of the encoding of a text whose first rune is not a blank is not a blank *)
Lemma encode_head_not_blank c t : is_space_or_tab c = false ->
  exists b0 x, utf8_encode (c :: t) = b0 :: x /\ is_space_or_tab b0 = false.
Proof.
  intros H. unfold utf8_encode. cbn [flat_map]. destruct (encode_rune_bytes c) as [[Hc ->] | [Hc Hb]].
  - eexists; eexists; split; [reflexivity|exact H].
  - destruct (encode_rune c) as [|b0 r] eqn:E; [exfalso; exact (encode_rune_nonempty c E)|].
    inversion Hb; subst. eexists; eexists; split; [reflexivity|]. unfold is_space_or_tab. lia.
Qed.

Lemma blank_char_space_or_tab c : blank_char c = false -> is_space_or_tab c = false.
Proof. unfold blank_char, space_separator, is_space_or_tab. lia. Qed.

Lemma parse_summary_lines_spec summ : forallb summary_line_ok summ = true ->
  forall ls ln rest acc, map l_text ls = map utf8_encode summ ->
  parse_summary_lines ln (ls ++ rest) acc [] =
  match rest with
  | [] => (acc ++ map utf8_encode summ, [], None, [], (ln + length summ)%nat)
  | l :: _ =>
    match find_indentation (l_text l) with
    | Some st => (acc ++ map utf8_encode summ, [], Some st, rest, (ln + length summ)%nat)
    | None => parse_summary_lines (ln + length summ) rest (acc ++ map utf8_encode summ) []
    end
  end.
Proof.
  induction summ as [|t summ IH]; intros W ls ln rest acc M.
  - destruct ls; [|discriminate]. cbn [app map length]. rewrite app_nil_r, Nat.add_0_r.
    destruct rest as [|l r]; [reflexivity|]. cbn [parse_summary_lines].
    destruct (find_indentation (l_text l)); reflexivity.
  - destruct ls as [|l ls]; [discriminate|]. cbn [map] in M. injection M as Ml M.
    cbn [forallb] in W. apply andb_true_iff in W as [Wt W].
    unfold summary_line_ok in Wt. apply andb_true_iff in Wt as [Tok Hd].
    destruct t as [|c t']; [discriminate|]. apply negb_true_iff in Hd.
    destruct (encode_head_not_blank c t' (blank_char_space_or_tab c Hd)) as (b0 & x & Eb & Hb0).
    cbn [app parse_summary_lines]. rewrite Ml, Eb, (find_indentation_none _ _ Hb0). rewrite <- Eb.
    rewrite (decode_encode _ Tok). rewrite <- blank_char_is_zs, Hd.
    rewrite (IH W ls (S ln) rest (acc ++ [str (c :: t')]) M).
    cbn [map length]. rewrite <- !app_assoc. cbn [app]. replace (S ln + length summ)%nat with (ln + S (length summ))%nat by lia.
    reflexivity.
Qed.

(* ================= entry summary continuation lines ================= *)

Definition no_double_prefix (style : bytes) (rest : list line) : Prop :=
  match rest with l :: _ => has_prefix (style ++ style) (l_text l) = false | [] => True end.

Lemma parse_more_spec i more : forallb (fun t => text_ok t && negb (all_blank t)) more = true ->
  let ind := indent_text i in
  forall ls ln rest acc, map l_text ls = map (fun t => utf8_encode (ind ++ ind ++ t)) more ->
  no_double_prefix ind rest ->
  parse_entry_summary_more ind ln (ls ++ rest) acc = (acc ++ map utf8_encode more, None, rest, (ln + length more)%nat).
Proof.
  intros W ind. induction more as [|t more IH]; intros ls ln rest acc M R.
  - destruct ls; [|discriminate]. cbn [app map length]. rewrite app_nil_r, Nat.add_0_r.
    destruct rest as [|l r]; [reflexivity|]. cbn [parse_entry_summary_more]. cbn in R. rewrite R. reflexivity.
  - destruct ls as [|l ls]; [discriminate|]. cbn [map] in M. injection M as Ml M.
    cbn [forallb] in W. apply andb_true_iff in W as [Wt W]. apply andb_true_iff in Wt as [Tok Nb].
    apply negb_true_iff in Nb.
    cbn [app parse_entry_summary_more]. rewrite Ml.
    assert (Iok : text_ok ind = true) by (subst ind; destruct i; reflexivity).
    assert (Ias : ascii ind = true) by (apply indent_ascii).
    rewrite decode_encode by (rewrite !text_ok_app, Iok, Tok; reflexivity).
    rewrite !utf8_encode_app, (utf8_encode_ascii _ Ias), app_assoc, has_prefix_app.
    replace (2 * length ind)%nat with (length (ind ++ ind)) by (rewrite app_length; lia).
    rewrite app_assoc, skipn_pre.
    rewrite all_blank_runes_eq, Nb.
    destruct t as [|c t']; [discriminate|]. change (Nat.eqb (length (c :: t')) 0) with false. cbn [orb].
    rewrite (IH W ls (S ln) rest (acc ++ [str (c :: t')]) M R).
    cbn [map length]. rewrite <- !app_assoc. cbn [app]. replace (S ln + length more)%nat with (ln + S (length more))%nat by lia.
    reflexivity.
Qed.

(* ================= entries ================= *)

Lemma parse_entries_step k style ln l rest es errs :
  parse_entries (S k) style ln (l :: rest) es errs =
      let cs := utf8_decode (l_text l) in
      if negb (has_prefix style (l_text l)) || is_space_or_tab (peek cs (length style))
      then (es, errs ++ [mk_err ln 0 (zlen cs) ErrorIllegalIndentation])
      else
        match parse_entry_value ln cs (length style) with
        | EvErr e => parse_entries k style (S ln) rest es (errs ++ [e])
        | ev =>
          let pos := match ev with EvDur _ p => p | EvRange _ p => p | EvOpen _ _ p => p | EvErr _ => O end in
          let first := if is_space_or_tab (peek cs pos) then [str (skipn (S pos) cs)] else [[]] in
          let '(summary, serr, rest', ln') := parse_entry_summary_more style (S ln) rest first in
          match serr with
          | Some e => parse_entries k style ln' rest' es (errs ++ [e])
          | None =>
            match ev with
            | EvDur d _ => parse_entries k style ln' rest' (es ++ [{| e_value := VDuration d; e_summary := summary |}]) errs
            | EvRange r _ => parse_entries k style ln' rest' (es ++ [{| e_value := VRange r; e_summary := summary |}]) errs
            | EvOpen o sp p =>
              if has_open_entry es
              then let p' := if is_space_or_tab (peek cs p) then S p else p in
                   parse_entries k style ln' rest' es (errs ++ [mk_err ln (Z.of_nat sp) (Z.of_nat p' - Z.of_nat sp) ErrorDuplicateOpenRange])
              else parse_entries k style ln' rest' (es ++ [{| e_value := VOpen o; e_summary := summary |}]) errs
            | EvErr _ => (es, errs)
            end
          end
        end.
Proof. reflexivity. Qed.

Definition first_tail (e : s_entry) : text := match se_first e with Some t => 32%N :: t | None => [] end.

Lemma first_tail_ok e : tail_ok (first_tail e).
Proof. unfold first_tail. destruct (se_first e); cbn; trivial. Qed.

Lemma text_ok_repeat c n : scalar c && negb (c =? 10)%N = true -> text_ok (repeat c n) = true.
Proof. intros H. induction n; [reflexivity|]. cbn [repeat]. unfold text_ok in *. cbn [forallb]. rewrite H. exact IHn. Qed.

Lemma render_value_text_ok v : wf_value v = true -> text_ok (render_value v) = true /\ ascii (render_value v) = true.
Proof.
  intros W. destruct v as [d | a sp1 sp2 b | a sp1 sp2 extra]; cbn [wf_value render_value] in *.
  - unfold wf_dur in W. apply andb_true_iff in W as [Sh _]. split; [|apply render_dur_ascii; exact Sh].
    pose proof (render_dur_dur_chars d Sh) as H. revert H. apply forallb_impl. intros c. unfold dur_char, is_digit, scalar. lia.
  - apply andb_true_iff in W as [W _]. apply andb_true_iff in W as [Wa Wb].
    rewrite !text_ok_app, !ascii_app. rewrite (render_time_text_ok a Wa), (render_time_text_ok b Wb), (render_time_ascii a Wa), (render_time_ascii b Wb).
    unfold spaces. rewrite !text_ok_repeat, !ascii_repeat by reflexivity. split; reflexivity.
  - rewrite !text_ok_app, !ascii_app. rewrite (render_time_text_ok a W), (render_time_ascii a W).
    unfold spaces. rewrite !text_ok_repeat, !ascii_repeat by reflexivity. split; reflexivity.
Qed.

Section EntryStep.
  Variables (i : indent) (e : s_entry).
  Hypothesis We : wf_entry e = true.
  Let ind := indent_text i.
  Let v := se_value e.
  Let cs := ind ++ render_value v ++ first_tail e.

  Lemma entry_line_text_ok : text_ok cs = true.
  Proof.
    unfold wf_entry in We. apply andb_true_iff in We as [W1 Wm]. apply andb_true_iff in W1 as [Wv Wf].
    unfold cs. rewrite !text_ok_app. destruct (render_value_text_ok v Wv) as [-> _].
    replace (text_ok ind) with true by (unfold ind; destruct i; reflexivity).
    unfold first_tail. destruct (se_first e) as [t|]; [|reflexivity]. change (text_ok (32%N :: t)) with (text_ok t). rewrite Wf. reflexivity.
  Qed.

  (* the bytes of the entry's first line: the indentation, then a non-blank ASCII character *)
  Lemma entry_line_bytes : exists c x, utf8_encode cs = ind ++ c :: x /\ is_space_or_tab c = false.
  Proof.
    unfold wf_entry in We. apply andb_true_iff in We as [W1 Wm]. apply andb_true_iff in W1 as [Wv Wf].
    pose proof (render_value_head v Wv) as Hd. destruct (render_value_text_ok v Wv) as [_ As].
    unfold cs, ind. rewrite utf8_encode_app, (utf8_encode_ascii _ (indent_ascii i)).
    destruct (render_value v) as [|c r]; [contradiction|].
    cbn [ascii forallb] in As. apply andb_true_iff in As as [Hc _].
    cbn [app]. rewrite (encode_cons_ascii _ _ Hc). eexists; eexists; split; [reflexivity|exact Hd].
  Qed.

  Lemma entry_step k ln l ls_m rest es errs :
    l_text l = utf8_encode cs ->
    map l_text ls_m = map (fun t => utf8_encode (ind ++ ind ++ t)) (se_more e) ->
    no_double_prefix ind rest ->
    (is_open_value v = true -> has_open_entry es = false) ->
    parse_entries (S k) ind ln (l :: ls_m ++ rest) es errs =
    parse_entries k ind (S ln + length (se_more e)) rest (es ++ [denote_entry e]) errs.
  Proof.
    intros Ml Mm R Hopen.
    pose proof entry_line_text_ok as Tok. destruct entry_line_bytes as (c & x & Eb & Hc).
    pose proof We as We'. unfold wf_entry in We'. apply andb_true_iff in We' as [W1 Wm]. apply andb_true_iff in W1 as [Wv Wf].
    rewrite parse_entries_step. cbv zeta. rewrite Ml, (decode_encode _ Tok).
    rewrite Eb, has_prefix_app. change (negb true) with false. rewrite orb_false_l.
    assert (Hpk : peek cs (length ind) = c).
    { pose proof (render_value_head v Wv) as Hd. destruct (render_value_text_ok v Wv) as [_ As].
      unfold cs in *. destruct (render_value v) as [|c' r']; [contradiction|].
      cbn [ascii forallb] in As. apply andb_true_iff in As as [Hc' _].
      unfold ind in Eb. rewrite utf8_encode_app, (utf8_encode_ascii _ (indent_ascii i)) in Eb. cbn [app] in Eb. rewrite (encode_cons_ascii _ _ Hc') in Eb.
      apply app_inv_head in Eb. injection Eb as -> _.
      apply (peek_at_cons _ _ ind c (r' ++ first_tail e)); reflexivity. }
    rewrite Hpk, Hc.
    unfold cs at 1. rewrite (parse_entry_value_spec ln ind v (first_tail e) Wv (first_tail_ok e)). fold cs.
    set (pos := (length ind + length (render_value v))%nat).
    (* the summary text on the entry's own line *)
    assert (Hfirst : (if is_space_or_tab (peek cs pos) then [str (skipn (S pos) cs)] else [[]])
                     = [match se_first e with Some t => utf8_encode t | None => [] end]).
    { unfold first_tail in cs. destruct (se_first e) as [t|].
      - rewrite (peek_at_cons cs pos (ind ++ render_value v) 32%N t ltac:(unfold cs; app_eq) ltac:(unfold pos; clear; len_eq)).
        change (is_space_or_tab 32) with true. cbv iota.
        replace (S pos) with (length (ind ++ render_value v ++ [32%N])) by (unfold pos; clear; len_eq).
        replace cs with ((ind ++ render_value v ++ [32%N]) ++ t) by (unfold cs; app_eq).
        rewrite skipn_pre. reflexivity.
      - rewrite (peek_at_end cs pos ltac:(unfold cs, pos; clear; len_eq)). reflexivity. }
    assert (Hmore : forall first, parse_entry_summary_more ind (S ln) (ls_m ++ rest) first
                    = (first ++ map utf8_encode (se_more e), None, rest, (S ln + length (se_more e))%nat)).
    { intros first. apply (parse_more_spec i (se_more e) Wm); assumption. }
    unfold denote_entry. fold v.
    destruct v as [d | a sp1 sp2 b | a sp1 sp2 extra] eqn:Ev; cbn [denote_value ev_of]; cbv iota beta; fold pos;
      rewrite Hfirst, Hmore; cbv iota beta.
    - reflexivity.
    - reflexivity.
    - rewrite (Hopen eq_refl). reflexivity.
  Qed.
End EntryStep.

Lemma is_open_denote e : is_open (denote_entry e) = is_open_value (se_value e).
Proof. unfold is_open, denote_entry. cbn [e_value]. destruct (se_value e); reflexivity. Qed.

Lemma count_open_cons e es : count_open (e :: es) = ((if is_open_value (se_value e) then 1 else 0) + count_open es)%nat.
Proof. unfold count_open. cbn [filter]. destruct (is_open_value (se_value e)); reflexivity. Qed.

Lemma no_double_prefix_entries i es ls : forallb wf_entry es = true ->
  map l_text ls = map utf8_encode (flat_map (entry_texts (indent_text i)) es) ->
  no_double_prefix (indent_text i) ls.
Proof.
  intros W M. destruct es as [|e es]; [destruct ls; [exact I|discriminate]|].
  cbn [flat_map entry_texts app map] in M. destruct ls as [|l ls]; [discriminate|]. injection M as Ml _.
  cbn [forallb] in W. apply andb_true_iff in W as [We _].
  destruct (entry_line_bytes i e We) as (c & x & Eb & Hc).
  change (l_text l = utf8_encode (indent_text i ++ render_value (se_value e) ++ first_tail e)) in Ml.
  unfold no_double_prefix. rewrite Ml, Eb, has_prefix_app_same.
  apply has_prefix_indent_head. exact Hc.
Qed.

Lemma parse_entries_spec i es : forallb wf_entry es = true ->
  forall fuel ln ls acc,
  map l_text ls = map utf8_encode (flat_map (entry_texts (indent_text i)) es) ->
  (length ls <= fuel)%nat ->
  (count_open es + (if has_open_entry acc then 1 else 0) <= 1)%nat ->
  parse_entries fuel (indent_text i) ln ls acc [] = (acc ++ map denote_entry es, []).
Proof.
  induction es as [|e es IH]; intros W fuel ln ls acc M Hf Ho.
  - destruct ls; [|discriminate]. cbn [map]. rewrite app_nil_r. destruct fuel; reflexivity.
  - cbn [forallb] in W. apply andb_true_iff in W as [We W].
    cbn [flat_map] in M. unfold entry_texts at 1 in M. cbn [app map] in M.
    destruct ls as [|l ls]; [discriminate|]. injection M as Ml M.
    rewrite map_app in M. apply map_eq_app in M as (ls_m & ls_r & -> & Mm & Mr).
    rewrite map_map in Mm.
    destruct fuel as [|k]; [cbn [length] in Hf; lia|].
    rewrite count_open_cons in Ho.
    rewrite (entry_step i e We k ln l ls_m ls_r acc [] Ml Mm (no_double_prefix_entries i es ls_r W Mr)).
    + rewrite (IH W k _ ls_r (acc ++ [denote_entry e]) Mr).
      * cbn [map]. rewrite <- app_assoc. reflexivity.
      * cbn [length] in Hf. rewrite app_length in Hf. lia.
      * unfold has_open_entry in *. rewrite existsb_app. cbn [existsb]. rewrite is_open_denote, orb_false_r.
        destruct (existsb is_open acc); destruct (is_open_value (se_value e)); cbn [orb] in *; lia.
    + intros Hop. rewrite Hop in Ho. destruct (has_open_entry acc); [lia|reflexivity].
Qed.

(* ================= one block ================= *)

Lemma record_text_not_blank r t : wf_record r = true -> In t (record_texts r) -> blank_text t = false.
Proof.
  intros W Hin. unfold wf_record in W. repeat (apply andb_true_iff in W as [W ?]).
  unfold record_texts in Hin. destruct Hin as [<- | Hin].
  - (* headline: begins with a digit *)
    unfold headline_text, render_date, four_digits. cbn [app blank_text forallb].
    unfold wf_date in W. assert (0 <= sd_year (sr_date r) / 1000 <= 9) by (Z.div_mod_to_equations; lia).
    replace ((dchar (sd_year (sr_date r) / 1000) =? 32)%N || (dchar (sd_year (sr_date r) / 1000) =? 9)%N) with false by (unfold dchar; lia).
    reflexivity.
  - apply in_app_or in Hin as [Hin | Hin].
    + (* summary line: begins with a non-blank character *)
      rewrite forallb_forall in H1. specialize (H1 t Hin). unfold summary_line_ok in H1. apply andb_true_iff in H1 as [_ Hd].
      destruct t as [|c t']; [discriminate|]. apply negb_true_iff in Hd. apply blank_char_space_or_tab in Hd.
      cbn [blank_text forallb]. unfold is_space_or_tab in Hd. rewrite Hd. reflexivity.
    + apply in_flat_map in Hin as (e & He & Hin). rewrite forallb_forall in H0. specialize (H0 e He).
      pose proof H0 as We. unfold wf_entry in H0. apply andb_true_iff in H0 as [W1 Wm]. apply andb_true_iff in W1 as [Wv Wf].
      unfold entry_texts in Hin. destruct Hin as [<- | Hin].
      * (* entry line: holds the first character of the value *)
        pose proof (render_value_head _ Wv) as Hd. destruct (render_value (se_value e)) as [|c rv]; [contradiction|].
        unfold blank_text. rewrite !forallb_app. cbn [forallb]. unfold is_space_or_tab in Hd. rewrite Hd.
        cbn [andb]. apply andb_false_r.
      * (* continuation line: not only blank characters *)
        apply in_map_iff in Hin as (t' & <- & Hin). rewrite forallb_forall in Wm. specialize (Wm t' Hin).
        apply andb_true_iff in Wm as [_ Nb]. apply negb_true_iff in Nb.
        unfold blank_text. rewrite !forallb_app.
        assert (forallb (fun c => ((c =? 32) || (c =? 9))%N) t' = false).
        { destruct (forallb (fun c => ((c =? 32) || (c =? 9))%N) t') eqn:E; [|reflexivity].
          rewrite <- Nb. symmetry. unfold all_blank. revert E. apply forallb_impl. intros c. unfold blank_char, space_separator. lia. }
        rewrite H0. rewrite !andb_false_r. reflexivity.
Qed.

Lemma take_blank_app head rest : forallb is_blank head = true ->
  match rest with l :: _ => is_blank l = false | [] => True end ->
  take_blank (head ++ rest) = (head, rest).
Proof.
  intros Hh Hr. induction head as [|l head IH]; cbn [app forallb] in *.
  - destruct rest as [|l r]; [reflexivity|]. cbn [take_blank]. rewrite Hr. reflexivity.
  - apply andb_true_iff in Hh as [Hl Hh]. cbn [take_blank]. rewrite Hl, (IH Hh). reflexivity.
Qed.

Lemma take_significant_app sig rest : forallb (fun l => negb (is_blank l)) sig = true ->
  match rest with l :: _ => is_blank l = true | [] => True end ->
  take_significant (sig ++ rest) = (sig, rest).
Proof.
  intros Hs Hr. induction sig as [|l sig IH]; cbn [app forallb] in *.
  - destruct rest as [|l r]; [reflexivity|]. cbn [take_significant]. rewrite Hr. reflexivity.
  - apply andb_true_iff in Hs as [Hl Hs]. apply negb_true_iff in Hl. cbn [take_significant]. rewrite Hl, (IH Hs). reflexivity.
Qed.

Lemma wf_record_inv r : wf_record r = true ->
  wf_date (sr_date r) = true
  /\ match sr_should r with Some (_, d) => wf_dur d = true | None => True end
  /\ blank_text (sr_trail r) = true
  /\ forallb summary_line_ok (sr_summary r) = true
  /\ forallb wf_entry (sr_entries r) = true
  /\ (count_open (sr_entries r) <= 1)%nat.
Proof.
  unfold wf_record. intros W.
  apply andb_true_iff in W as [W H5]. apply andb_true_iff in W as [W H4]. apply andb_true_iff in W as [W H3].
  apply andb_true_iff in W as [W H2]. apply andb_true_iff in W as [H0 H1].
  repeat split; try assumption.
  - destruct (sr_should r) as [[? ?]|]; [exact H1|exact I].
  - apply Nat.leb_le. exact H5.
Qed.

Lemma headline_text_ok r : wf_record r = true -> text_ok (headline_text r) = true.
Proof.
  intros W0. destruct (wf_record_inv r W0) as (W & H3 & H2 & H1 & H0 & H).
  unfold headline_text. rewrite !text_ok_app.
  assert (T1 : text_ok (render_date (sr_date r)) = true).
  { pose proof (render_date_chars _ W) as Dc. revert Dc. apply forallb_impl. intros c. unfold date_char, is_digit, scalar. lia. }
  assert (T3 : text_ok (sr_trail r) = true).
  { revert H2. apply forallb_impl. intros c. unfold scalar. lia. }
  rewrite T1, T3. destruct (sr_should r) as [[extra d]|]; [|reflexivity].
  unfold wf_dur in H3. apply andb_true_iff in H3 as [Sh _].
  rewrite !text_ok_app. unfold spaces. rewrite text_ok_repeat by reflexivity.
  assert (T2 : text_ok (render_dur d) = true).
  { pose proof (render_dur_dur_chars d Sh) as Uc. revert Uc. apply forallb_impl. intros c. unfold dur_char, is_digit, scalar. lia. }
  rewrite T2. reflexivity.
Qed.

Lemma is_blank_of_text l t : l_text l = utf8_encode t -> is_blank l = blank_text t.
Proof. intros E. unfold is_blank. rewrite E. apply is_blank_encode. Qed.

Lemma sig_not_blank r sig : wf_record r = true -> map l_text sig = map utf8_encode (record_texts r) ->
  forallb (fun l => negb (is_blank l)) sig = true.
Proof.
  intros W. generalize (record_text_not_blank r). intros NB. specialize (fun t => NB t W).
  revert sig NB. generalize (record_texts r). intros ts. induction ts as [|t ts IH]; intros sig NB M.
  - destruct sig; [reflexivity|discriminate].
  - destruct sig as [|l sig]; [discriminate|]. cbn [map] in M. injection M as Ml M.
    cbn [forallb]. rewrite (is_blank_of_text l t Ml), (NB t (or_introl eq_refl)). cbn [negb andb].
    apply IH; [|exact M]. intros t' Hin. apply NB. right. exact Hin.
Qed.

(* L2: a block made of a specification record's lines, with any blank lines around *)
Theorem parse_record_spec r b head sig tail : wf_record r = true ->
  b_lines b = head ++ sig ++ tail ->
  forallb is_blank head = true -> forallb is_blank tail = true ->
  map l_text sig = map utf8_encode (record_texts r) ->
  parse_record b = Ok (inl (denote_record r)).
Proof.
  intros W Hb Hh Ht M.
  pose proof (sig_not_blank r sig W M) as Hs.
  destruct (wf_record_inv r W) as (W' & H3 & H2 & H1 & H0 & H).
  change (map l_text sig = utf8_encode (headline_text r) ::
            map utf8_encode (sr_summary r ++ flat_map (entry_texts (indent_text (sr_indent r))) (sr_entries r))) in M.
  apply map_eq_cons in M as (hl & rest & -> & Mh & M).
  assert (Htail : match tail with l :: _ => is_blank l = true | [] => True end).
  { destruct tail; [trivial|]. cbn [forallb] in Ht. apply andb_true_iff in Ht as [Ht _]. exact Ht. }
  assert (Hsig0 : is_blank hl = false).
  { cbn [forallb] in Hs. apply andb_true_iff in Hs as [Hs _]. apply negb_true_iff in Hs. exact Hs. }
  unfold parse_record, significant_lines. rewrite Hb.
  rewrite (take_blank_app head ((hl :: rest) ++ tail) Hh Hsig0).
  rewrite (take_significant_app (hl :: rest) tail Hs Htail).
  rewrite Mh, (decode_encode _ (headline_text_ok r W)).
  rewrite (parse_headline_spec (length head) r W' H3 H2).
  rewrite map_app in M. apply map_eq_app in M as (ls_s & ls_e & -> & Ms & Me).
  rewrite (parse_summary_lines_spec (sr_summary r) H1 ls_s (S (length head)) ls_e [] Ms).
  cbn [app].
  destruct ls_e as [|le ls_e'] eqn:Els.
  - (* no entries *)
    assert (En : sr_entries r = []).
    { destruct (sr_entries r) as [|e es]; [reflexivity|]. cbn [flat_map entry_texts app map] in Me. discriminate. }
    unfold denote_record. rewrite En. reflexivity.
  - rewrite <- Els in *.
    destruct (sr_entries r) as [|e es] eqn:Ee; [rewrite Els in Me; discriminate|].
    assert (Hind : find_indentation (l_text le) = Some (indent_text (sr_indent r))).
    { rewrite Els in Me. cbn [flat_map entry_texts app map] in Me. injection Me as Ml _.
      cbn [forallb] in H0. apply andb_true_iff in H0 as [We _].
      destruct (entry_line_bytes (sr_indent r) e We) as (c & x & Eb & Hc).
      unfold first_tail in Eb. rewrite Ml.
      change (utf8_encode (indent_text (sr_indent r) ++ render_value (se_value e) ++ first_tail e)
              = indent_text (sr_indent r) ++ c :: x) in Eb.
      change (find_indentation (utf8_encode (indent_text (sr_indent r) ++ render_value (se_value e) ++ first_tail e))
              = Some (indent_text (sr_indent r))).
      rewrite Eb. apply find_indentation_entry. exact Hc. }
    rewrite Hind.
    rewrite (parse_entries_spec (sr_indent r) (e :: es) H0 (length ls_e) _ ls_e [] Me (le_n _)).
    + unfold denote_record. rewrite Ee. reflexivity.
    + cbn [has_open_entry existsb]. lia.
Qed.
