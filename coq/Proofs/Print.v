(* Print — C09: the serialiser writes the rendering of a canonical specification document, hence (with C01)
   print -> parse round trip, idempotence, and the literal normalisations. *)
From Klog Require Import Base.Prelude Base.Utf8 Model.Calendar Model.Values Model.Record Model.Lines Model.Parser Model.Serialiser
  Proofs.Values Proofs.TagsUtf8 Spec.Spec Proofs.SpecValues Proofs.SpecEntry Proofs.SpecRecord Proofs.SpecDoc.
From Coq Require Import ZifyBool.
Open Scope Z_scope.

(* ================= values ================= *)

Lemma time_ok_valid t : time_ok t = true -> valid_time t.
Proof. unfold time_ok, valid_time. lia. Qed.

Lemma print_time_render t : time_ok t = true -> print_time t = render_time (canon_time t).
Proof. intros H. apply (ct_all t (time_ok_valid t H)). Qed.
Lemma wf_canon_time t : time_ok t = true -> wf_time (canon_time t) = true.
Proof. intros H. apply (ct_all t (time_ok_valid t H)). Qed.
Lemma denote_canon_time t : time_ok t = true -> denote_time (canon_time t) = t.
Proof. intros H. apply (ct_all t (time_ok_valid t H)). Qed.
Lemma timeline_canon_time t : time_ok t = true -> timeline (canon_time t) = time_offset t.
Proof. intros H. rewrite <- timeline_offset by (apply wf_canon_time; exact H). rewrite denote_canon_time by exact H. reflexivity. Qed.

Lemma flags_ok_canonical d : duration_flags_ok d = true -> dur_canonical d = d.
Proof.
  unfold duration_flags_ok, dur_canonical. destruct d as [m p z]. cbn [d_mins d_plus d_zsign].
  destruct (m =? 0) eqn:E0; intros H.
  - apply andb_true_iff in H as [H Hp]. apply Bool.eqb_prop in Hp. subst p.
    f_equal; [lia|]. destruct (z <? 0) eqn:E1; [lia|]. destruct (0 <? z) eqn:E2; lia.
  - apply andb_true_iff in H as [Hz Hp]. f_equal; [|lia].
    destruct (m <? 0); [|reflexivity]. apply negb_true_iff in Hp. congruence.
Qed.

Lemma fits_int64_spec m : fits_int64 m = true -> - max_int64 <= m <= max_int64.
Proof. unfold fits_int64, max_int64. lia. Qed.

Lemma spaces_flag (b : bool) : negb (Nat.eqb (if b then 1 else 0) 0) = b.
Proof. destruct b; reflexivity. Qed.

Lemma print_value_render v : value_ok v = true -> print_value v = render_value (canon_value v).
Proof.
  destruct v as [d|r|o]; cbn [value_ok print_value canon_value render_value]; intros H.
  - apply print_duration_render.
  - apply andb_true_iff in H as [H _]. apply andb_true_iff in H as [Ha Hb].
    unfold print_range. rewrite (print_time_render _ Ha), (print_time_render _ Hb).
    destruct (r_spaces r); reflexivity.
  - unfold print_open_range. rewrite (print_time_render _ H). destruct (o_spaces o); reflexivity.
Qed.

Lemma wf_canon_value v : value_ok v = true -> wf_value (canon_value v) = true.
Proof.
  destruct v as [d|r|o]; cbn [value_ok canon_value wf_value]; intros H.
  - apply andb_true_iff in H as [H _]. apply (canon_dur_facts d (fits_int64_spec _ H)).
  - apply andb_true_iff in H as [H Ho]. apply andb_true_iff in H as [Ha Hb].
    rewrite (wf_canon_time _ Ha), (wf_canon_time _ Hb), (timeline_canon_time _ Ha), (timeline_canon_time _ Hb). exact Ho.
  - apply wf_canon_time. exact H.
Qed.

Lemma denote_canon_value v : value_ok v = true -> denote_value (canon_value v) = v.
Proof.
  destruct v as [d|r|o]; cbn [value_ok canon_value denote_value]; intros H.
  - apply andb_true_iff in H as [H F]. destruct (canon_dur_facts d (fits_int64_spec _ H)) as [_ ->].
    rewrite (flags_ok_canonical d F). reflexivity.
  - apply andb_true_iff in H as [H _]. apply andb_true_iff in H as [Ha Hb].
    rewrite (denote_canon_time _ Ha), (denote_canon_time _ Hb), spaces_flag. destruct r; reflexivity.
  - rewrite (denote_canon_time _ H), spaces_flag. destruct o; reflexivity.
Qed.

Lemma is_open_canon v : is_open_value (canon_value v) = match v with VOpen _ => true | _ => false end.
Proof. destruct v; reflexivity. Qed.

(* ================= summary lines ================= *)

Lemma bytes_line_ok_inv s : bytes_line_ok s = true -> utf8_encode (utf8_decode s) = s /\ text_ok (utf8_decode s) = true.
Proof. unfold bytes_line_ok. intros H. apply andb_true_iff in H as [H1 H2]. apply bytes_eqb_eq in H1. split; assumption. Qed.

Lemma encode_decode_lines ls : forallb bytes_line_ok ls = true -> map utf8_encode (map utf8_decode ls) = ls.
Proof.
  induction ls as [|s ls IH]; [reflexivity|]. cbn [forallb map]. intros H. apply andb_true_iff in H as [Hs H].
  destruct (bytes_line_ok_inv s Hs) as [-> _]. rewrite (IH H). reflexivity.
Qed.

(* ================= one entry ================= *)

Definition more_ok (s : bytes) : bool := bytes_line_ok s && negb (all_blank (utf8_decode s)).

Lemma entry_ok_inv e : entry_ok e = true ->
  value_ok (e_value e) = true /\
  match e_summary e with [] => True | f :: more => bytes_line_ok f = true /\ forallb more_ok more = true end.
Proof.
  unfold entry_ok. intros H. apply andb_true_iff in H as [Hv Hs]. split; [exact Hv|].
  destruct (e_summary e) as [|f more]; [exact I|]. apply andb_true_iff in Hs. exact Hs.
Qed.

Lemma more_ok_lines more : forallb more_ok more = true -> forallb bytes_line_ok more = true.
Proof. apply forallb_impl. intros s H. unfold more_ok in H. apply andb_true_iff in H as [H _]. exact H. Qed.

Lemma wf_canon_entry e : entry_ok e = true -> wf_entry (canon_entry e) = true.
Proof.
  intros H. destruct (entry_ok_inv e H) as [Hv Hs]. unfold wf_entry, canon_entry. cbn [se_value se_first se_more].
  rewrite (wf_canon_value _ Hv). cbn [andb].
  destruct (e_summary e) as [|f more]; [reflexivity|]. destruct Hs as [Hf Hm]. cbn [tl].
  apply andb_true_iff; split.
  - destruct f as [|c f']; [reflexivity|]. apply (bytes_line_ok_inv _ Hf).
  - rewrite forallb_forall. intros t Hin. apply in_map_iff in Hin as (s & <- & Hin).
    rewrite forallb_forall in Hm. specialize (Hm s Hin). unfold more_ok in Hm. apply andb_true_iff in Hm as [Hl Hb].
    destruct (bytes_line_ok_inv s Hl) as [_ ->]. exact Hb.
Qed.

Lemma denote_canon_entry e : entry_ok e = true -> denote_entry (canon_entry e) = normalise_entry e.
Proof.
  intros H. destruct (entry_ok_inv e H) as [Hv Hs]. unfold denote_entry, canon_entry, normalise_entry. cbn [se_value se_first se_more].
  rewrite (denote_canon_value _ Hv). f_equal.
  destruct (e_summary e) as [|f more]; [reflexivity|]. destruct Hs as [Hf Hm]. cbn [tl].
  rewrite (encode_decode_lines more (more_ok_lines more Hm)).
  destruct f as [|c f']; [reflexivity|]. destruct (bytes_line_ok_inv _ Hf) as [-> _]. reflexivity.
Qed.

(* Serialiser.entry_lines writes the specification's entry lines of the canonical entry *)
Lemma entry_lines_render e : entry_ok e = true ->
  entry_lines e = map utf8_encode (entry_texts (indent_text I4) (canon_entry e)).
Proof.
  intros H. destruct (entry_ok_inv e H) as [Hv Hs].
  pose proof (wf_canon_value _ Hv) as Wv. destruct (render_value_text_ok _ Wv) as [_ As].
  unfold entry_lines, entry_texts, canon_entry. cbn [se_value se_first se_more map].
  rewrite (print_value_render _ Hv).
  assert (E0 : forall tail, utf8_encode (indent_text I4 ++ render_value (canon_value (e_value e)) ++ tail)
                            = canonical_indent ++ render_value (canon_value (e_value e)) ++ utf8_encode tail).
  { intros tail. rewrite !utf8_encode_app, (utf8_encode_ascii _ As). reflexivity. }
  destruct (e_summary e) as [|f more].
  - rewrite E0. cbn [map tl]. rewrite app_nil_r. reflexivity.
  - destruct Hs as [Hf Hm]. cbn [tl]. f_equal.
    + destruct f as [|c f']; [rewrite E0, app_nil_r; reflexivity|].
      rewrite E0. destruct (bytes_line_ok_inv _ Hf) as [Ef _].
      change (utf8_encode (32%N :: utf8_decode (c :: f'))) with (32%N :: utf8_encode (utf8_decode (c :: f'))).
      rewrite Ef, <- app_assoc. reflexivity.
    + rewrite !map_map. apply map_ext_in. intros s Hin.
      rewrite forallb_forall in Hm. specialize (Hm s Hin). unfold more_ok in Hm. apply andb_true_iff in Hm as [Hl _].
      destruct (bytes_line_ok_inv s Hl) as [Es _].
      rewrite !utf8_encode_app, Es. reflexivity.
Qed.

(* ================= one record ================= *)

Definition sum_ok (s : bytes) : bool := bytes_line_ok s && summary_line_ok (utf8_decode s).

Lemma record_ok_inv r : record_ok r = true ->
  valid_cdate (dt (rec_date r)) = true /\ fits_int64 (should_minutes r) = true
  /\ forallb sum_ok (rec_summary r) = true /\ forallb entry_ok (rec_entries r) = true
  /\ (length (filter is_open (rec_entries r)) <= 1)%nat.
Proof.
  unfold record_ok. intros H. apply andb_true_iff in H as [H H5]. apply andb_true_iff in H as [H H4].
  apply andb_true_iff in H as [H H3]. apply andb_true_iff in H as [H1 H2].
  repeat split; try assumption. apply Nat.leb_le. exact H5.
Qed.

Lemma sum_ok_lines ls : forallb sum_ok ls = true -> forallb bytes_line_ok ls = true.
Proof. apply forallb_impl. intros s H. unfold sum_ok in H. apply andb_true_iff in H as [H _]. exact H. Qed.

Lemma headline_render r : record_ok r = true -> headline_of r = utf8_encode (headline_text (canon_record r)).
Proof.
  intros H. destruct (record_ok_inv r H) as (Hd & Hs & _).
  unfold headline_of, headline_text, canon_record. cbn [sr_date sr_should sr_trail].
  rewrite (print_date_render _ Hd).
  pose proof (wf_canon_date _ Hd) as Wd. pose proof (render_date_chars _ Wd) as Dc.
  assert (Das : ascii (render_date (canon_date (rec_date r))) = true).
  { revert Dc. apply forallb_impl. intros c. unfold date_char, is_digit. lia. }
  destruct (should_minutes r =? 0) eqn:E0.
  - rewrite !app_nil_r. symmetry. apply utf8_encode_ascii. exact Das.
  - rewrite print_duration_render.
    assert (Hm : - max_int64 <= d_mins (mk_dur (should_minutes r)) <= max_int64) by (apply fits_int64_spec; exact Hs).
    destruct (canon_dur_facts _ Hm) as [Wu _]. unfold wf_dur in Wu. apply andb_true_iff in Wu as [Sh _].
    rewrite app_nil_r. symmetry. apply utf8_encode_ascii.
    rewrite !ascii_app, Das, (render_dur_ascii _ Sh). reflexivity.
Qed.

Lemma flat_map_map {A B C} (f : B -> list C) (g : A -> B) l : flat_map f (map g l) = flat_map (fun x => f (g x)) l.
Proof. induction l as [|x l IH]; [reflexivity|]. cbn [map flat_map]. rewrite IH. reflexivity. Qed.

Lemma map_flat_map {A B C} (f : B -> C) (g : A -> list B) l : map f (flat_map g l) = flat_map (fun x => map f (g x)) l.
Proof. induction l as [|x l IH]; [reflexivity|]. cbn [flat_map]. rewrite map_app, IH. reflexivity. Qed.

Lemma flat_map_ext_in {A B} (f g : A -> list B) l : (forall x, In x l -> f x = g x) -> flat_map f l = flat_map g l.
Proof.
  induction l as [|x l IH]; intros H; [reflexivity|]. cbn [flat_map]. rewrite (H x (or_introl eq_refl)), IH; [reflexivity|].
  intros y Hy. apply H. right. exact Hy.
Qed.

(* Serialiser.record_lines writes the specification's lines of the canonical record *)
Lemma record_lines_render r : record_ok r = true -> record_lines r = map utf8_encode (record_texts (canon_record r)).
Proof.
  intros H. destruct (record_ok_inv r H) as (Hd & Hs & Hsum & Hent & _).
  unfold record_lines, record_texts. cbn [map]. rewrite (headline_render r H). f_equal.
  rewrite map_app. unfold canon_record. cbn [sr_summary sr_entries sr_indent].
  f_equal; [symmetry; apply encode_decode_lines, sum_ok_lines, Hsum|].
  rewrite flat_map_map, map_flat_map.
  apply flat_map_ext_in. intros e He. rewrite forallb_forall in Hent. apply entry_lines_render, Hent, He.
Qed.

Lemma count_open_canon es : count_open (map canon_entry es) = length (filter is_open es).
Proof.
  unfold count_open. induction es as [|e es IH]; [reflexivity|]. cbn [map filter].
  unfold canon_entry at 1. cbn [se_value]. rewrite is_open_canon. unfold is_open at 1.
  destruct (e_value e); cbn [length]; rewrite IH; reflexivity.
Qed.

Lemma wf_canon_record r : record_ok r = true -> wf_record (canon_record r) = true.
Proof.
  intros H. destruct (record_ok_inv r H) as (Hd & Hs & Hsum & Hent & Hop).
  unfold wf_record, canon_record. cbn [sr_date sr_should sr_trail sr_summary sr_entries].
  rewrite (wf_canon_date _ Hd). cbn [andb blank_text forallb]. rewrite andb_true_r.
  apply andb_true_iff; split; [apply andb_true_iff; split; [apply andb_true_iff; split|]|].
  - destruct (should_minutes r =? 0); [reflexivity|].
    apply (canon_dur_facts (mk_dur (should_minutes r)) (fits_int64_spec _ Hs)).
  - rewrite forallb_forall. intros t Hin. apply in_map_iff in Hin as (s & <- & Hin).
    rewrite forallb_forall in Hsum. specialize (Hsum s Hin). unfold sum_ok in Hsum. apply andb_true_iff in Hsum as [_ Hsum]. exact Hsum.
  - rewrite forallb_forall. intros e' Hin. apply in_map_iff in Hin as (e & <- & Hin).
    rewrite forallb_forall in Hent. apply wf_canon_entry, Hent, Hin.
  - rewrite count_open_canon. apply Nat.leb_le. exact Hop.
Qed.

Lemma denote_canon_record r : record_ok r = true -> denote_record (canon_record r) = normalise_record r.
Proof.
  intros H. destruct (record_ok_inv r H) as (Hd & Hs & Hsum & Hent & Hop).
  unfold denote_record, canon_record, normalise_record. cbn [sr_date sr_should sr_summary sr_entries].
  rewrite denote_canon_date, (encode_decode_lines _ (sum_ok_lines _ Hsum)). f_equal.
  - destruct (should_minutes r =? 0) eqn:E0; [reflexivity|].
    destruct (canon_dur_facts (mk_dur (should_minutes r)) (fits_int64_spec _ Hs)) as [_ ->].
    unfold dur_canonical, mk_dur. cbn [d_mins]. rewrite E0. cbn [d_mins].
    unfold should_minutes in *. destruct (rec_should r); [reflexivity|discriminate].
  - rewrite map_map. apply map_ext_in. intros e He. rewrite forallb_forall in Hent. apply denote_canon_entry, Hent, He.
Qed.

(* ================= the document ================= *)

Lemma text_of_lines_lf ts : forall i,
  text_of_lines (attach (fun _ => false) true i ts) = flat_map (fun t => utf8_encode t ++ [10%N]) ts.
Proof.
  unfold text_of_lines. induction ts as [|t ts IH]; intros i; [reflexivity|].
  destruct ts as [|t2 ts']; [reflexivity|].
  change (attach (fun _ => false) true i (t :: t2 :: ts')) with
    ({| l_text := utf8_encode t; l_ending := [10%N] |} :: attach (fun _ => false) true (S i) (t2 :: ts')).
  cbn [flat_map]. rewrite (IH (S i)). reflexivity.
Qed.

Lemma flat_map_of_map {A B C} (f : B -> list C) (g : A -> B) l : flat_map f (map g l) = flat_map (fun x => f (g x)) l.
Proof. apply flat_map_map. Qed.

Lemma records_lines_render rs : forallb record_ok rs = true ->
  records_lines rs = map utf8_encode (flat_map (fun rg => record_texts (fst rg) ++ snd rg) (canon_records rs)).
Proof.
  induction rs as [|r rs IH]; intros H; [reflexivity|]. cbn [forallb] in H. apply andb_true_iff in H as [Hr H].
  destruct rs as [|r2 rs'].
  - cbn [records_lines canon_records flat_map fst snd]. rewrite !app_nil_r. apply record_lines_render. exact Hr.
  - change (records_lines (r :: r2 :: rs')) with (record_lines r ++ [[]] ++ records_lines (r2 :: rs')).
    change (canon_records (r :: r2 :: rs')) with ((canon_record r, [[]]) :: canon_records (r2 :: rs')).
    cbn [flat_map fst snd]. rewrite !map_app, <- app_assoc.
    f_equal; [apply record_lines_render; exact Hr|]. f_equal. apply IH. exact H.
Qed.

(* C09 (1): the printed text is the rendering of the canonical document *)
Theorem print_is_canonical_render rs : wf_records rs -> print_records rs = render (canon rs).
Proof.
  intros H. unfold render, doc_lines, canon, doc_texts. cbn [do_lead do_records do_crlf do_final_newline app].
  rewrite text_of_lines_lf. unfold print_records. rewrite (records_lines_render rs H), flat_map_map. reflexivity.
Qed.

Lemma denote_canon rs : wf_records rs -> denote (canon rs) = normalise rs.
Proof.
  unfold wf_records, denote, canon, normalise. cbn [do_records]. induction rs as [|r rs IH]; intros H; [reflexivity|].
  cbn [forallb] in H. apply andb_true_iff in H as [Hr H].
  destruct rs as [|r2 rs'].
  - cbn [canon_records map fst]. rewrite (denote_canon_record r Hr). reflexivity.
  - change (canon_records (r :: r2 :: rs')) with ((canon_record r, [[]]) :: canon_records (r2 :: rs')).
    cbn [map fst]. rewrite (denote_canon_record r Hr). f_equal. apply IH. exact H.
Qed.

(* ================= no line of the printed text ends in CR ================= *)

Lemma ends_in_cr_app a b : b <> [] -> ends_in_cr (a ++ b) = ends_in_cr b.
Proof.
  intros Hb. unfold ends_in_cr. rewrite rev_app_distr. destruct (rev b) as [|c r] eqn:E; [|reflexivity].
  exfalso. apply Hb. rewrite <- (rev_involutive b), E. reflexivity.
Qed.

Lemma ends_in_cr_none s : forallb (fun c => negb (c =? 13)%N) s = true -> ends_in_cr s = false.
Proof.
  intros H. unfold ends_in_cr. destruct (rev s) as [|c r] eqn:E; [reflexivity|].
  assert (In c s) by (apply in_rev; rewrite E; left; reflexivity).
  rewrite forallb_forall in H. specialize (H c H0). apply negb_true_iff, N.eqb_neq in H.
  destruct c as [|p]; [reflexivity|]. do 4 (destruct p as [p|p|]; try reflexivity). congruence.
Qed.

Lemma render_value_no_cr v : wf_value v = true -> forallb (fun c => negb (c =? 13)%N) (render_value v) = true.
Proof.
  assert (T : forall t, wf_time t = true -> forallb (fun c => negb (c =? 13)%N) (render_time t) = true).
  { intros t W. pose proof (render_time_ge48 t W) as H. revert H. apply forallb_impl. intros c. lia. }
  assert (R : forall c n, negb (c =? 13)%N = true -> forallb (fun c => negb (c =? 13)%N) (repeat c n) = true).
  { intros c n H. induction n; [reflexivity|]. cbn [repeat forallb]. rewrite H. exact IHn. }
  intros W. destruct v as [d | a sp1 sp2 b | a sp1 sp2 extra]; cbn [wf_value render_value] in *.
  - unfold wf_dur in W. apply andb_true_iff in W as [Sh _]. pose proof (render_dur_dur_chars d Sh) as H. revert H.
    apply forallb_impl. intros c. unfold dur_char, is_digit. lia.
  - apply andb_true_iff in W as [W _]. apply andb_true_iff in W as [Wa Wb].
    rewrite !forallb_app, (T a Wa), (T b Wb). unfold spaces. rewrite !R by reflexivity. reflexivity.
  - rewrite !forallb_app, (T a W). unfold spaces. rewrite !R by reflexivity. reflexivity.
Qed.

Lemma entry_lines_no_cr e : entry_ok e = true -> forallb no_cr (e_summary e) = true -> forallb no_cr (entry_lines e) = true.
Proof.
  intros H Hc. destruct (entry_ok_inv e H) as [Hv Hs].
  pose proof (render_value_no_cr _ (wf_canon_value _ Hv)) as Nv. rewrite <- (print_value_render _ Hv) in Nv.
  assert (V : no_cr (canonical_indent ++ print_value (e_value e)) = true).
  { unfold no_cr. rewrite ends_in_cr_none; [reflexivity|]. rewrite forallb_app, Nv. reflexivity. }
  unfold entry_lines. destruct (e_summary e) as [|f more]; [cbn [forallb]; rewrite V; reflexivity|].
  cbn [forallb] in *. apply andb_true_iff in Hc as [Hf Hm]. apply andb_true_iff; split.
  - destruct f as [|c f']; [exact V|]. unfold no_cr in *. rewrite app_assoc, ends_in_cr_app by discriminate. exact Hf.
  - rewrite forallb_forall. intros l Hin. apply in_map_iff in Hin as (s & <- & Hin).
    rewrite forallb_forall in Hm. specialize (Hm s Hin). unfold no_cr in *.
    destruct s as [|c s']; [reflexivity|]. rewrite app_assoc, ends_in_cr_app by discriminate. exact Hm.
Qed.

Lemma headline_no_cr r : record_ok r = true -> no_cr (headline_of r) = true.
Proof.
  intros H. destruct (record_ok_inv r H) as (Hd & _). unfold no_cr, headline_of.
  destruct (should_minutes r =? 0).
  - rewrite app_nil_r, (print_date_render _ Hd). unfold render_date, two_digits.
    rewrite !app_assoc. rewrite ends_in_cr_app by discriminate.
    unfold ends_in_cr. cbn [rev app]. unfold dchar.
    pose proof (Z.mod_pos_bound (sd_day (canon_date (rec_date r))) 10 ltac:(lia)) as B.
    destruct (Z.to_N (48 + sd_day (canon_date (rec_date r)) mod 10)) as [|p] eqn:E; [reflexivity|].
    assert (Npos p <> 13%N) by (rewrite <- E; lia).
    do 4 (destruct p as [p|p|]; try reflexivity). congruence.
  - rewrite !app_assoc. rewrite ends_in_cr_app by discriminate. reflexivity.
Qed.

Lemma record_lines_no_cr r : record_ok r = true ->
  forallb no_cr (rec_summary r) && forallb (fun e => forallb no_cr (e_summary e)) (rec_entries r) = true ->
  forallb no_cr (record_lines r) = true.
Proof.
  intros H Hc. apply andb_true_iff in Hc as [Hs He]. destruct (record_ok_inv r H) as (_ & _ & _ & Hent & _).
  unfold record_lines. cbn [forallb]. rewrite (headline_no_cr r H), forallb_app, Hs. cbn [andb].
  rewrite forallb_forall. intros l Hin. apply in_flat_map in Hin as (e & Hin & Hl).
  rewrite forallb_forall in Hent, He. pose proof (entry_lines_no_cr e (Hent e Hin) (He e Hin)) as N.
  rewrite forallb_forall in N. apply N, Hl.
Qed.

Lemma records_lines_no_cr rs : forallb record_ok rs = true -> no_trailing_cr rs = true -> forallb no_cr (records_lines rs) = true.
Proof.
  unfold no_trailing_cr. induction rs as [|r rs IH]; intros H Hc; [reflexivity|].
  cbn [forallb] in H, Hc. apply andb_true_iff in H as [Hr H]. apply andb_true_iff in Hc as [Hcr Hc].
  destruct rs as [|r2 rs'].
  - cbn [records_lines]. apply record_lines_no_cr; assumption.
  - change (records_lines (r :: r2 :: rs')) with (record_lines r ++ [[]] ++ records_lines (r2 :: rs')).
    rewrite !forallb_app, (record_lines_no_cr r Hr Hcr). cbn [forallb andb]. apply (IH H Hc).
Qed.

Lemma unambiguous_attach_lf ts : forall i,
  forallb line_unambiguous (attach (fun _ => false) true i ts) = forallb no_cr (map utf8_encode ts).
Proof.
  induction ts as [|t ts IH]; intros i; [reflexivity|].
  destruct ts as [|t2 ts']; [reflexivity|].
  change (attach (fun _ => false) true i (t :: t2 :: ts')) with
    ({| l_text := utf8_encode t; l_ending := [10%N] |} :: attach (fun _ => false) true (S i) (t2 :: ts')).
  cbn [forallb map]. rewrite (IH (S i)). reflexivity.
Qed.

Lemma gaps_ok_canon rs : gaps_ok (canon_records rs) = true.
Proof.
  induction rs as [|r rs IH]; [reflexivity|]. destruct rs as [|r2 rs']; [reflexivity|].
  change (canon_records (r :: r2 :: rs')) with ((canon_record r, [[]]) :: canon_records (r2 :: rs')).
  destruct (canon_records (r2 :: rs')) as [|x y] eqn:E; [destruct rs'; discriminate|].
  change (gaps_ok ((canon_record r, [[]]) :: x :: y)) with (forallb blank_text [[]] && negb (Nat.eqb (length [@nil N]) 0) && gaps_ok (x :: y)).
  rewrite IH. reflexivity.
Qed.

Lemma wf_canon_records rs : forallb record_ok rs = true -> forallb (fun rg => wf_record (fst rg)) (canon_records rs) = true.
Proof.
  induction rs as [|r rs IH]; intros H; [reflexivity|]. cbn [forallb] in H. apply andb_true_iff in H as [Hr H].
  destruct rs as [|r2 rs'].
  - cbn [canon_records forallb fst]. rewrite (wf_canon_record r Hr). reflexivity.
  - change (canon_records (r :: r2 :: rs')) with ((canon_record r, [[]]) :: canon_records (r2 :: rs')).
    cbn [forallb fst]. rewrite (wf_canon_record r Hr), (IH H). reflexivity.
Qed.

Lemma wf_canon rs : wf_records rs -> no_trailing_cr rs = true -> wf (canon rs).
Proof.
  intros H Hc. unfold wf, wf_doc, canon. cbn [do_lead do_records forallb].
  rewrite (wf_canon_records rs H), gaps_ok_canon. cbn [andb].
  unfold doc_lines, doc_texts. cbn [do_lead do_records do_crlf do_final_newline app].
  rewrite unambiguous_attach_lf, <- (records_lines_render rs H). apply records_lines_no_cr; assumption.
Qed.

(* C09 (2): what was printed parses, to the same records up to the two normalisations *)
Theorem print_parse_roundtrip rs : wf_records rs -> no_trailing_cr rs = true ->
  parse_text (print_records rs) = Ok (Parsed (normalise rs) (blocks_of (print_records rs))).
Proof.
  intros H Hc. rewrite (print_is_canonical_render rs H), (parse_conforming _ (wf_canon rs H Hc)), (denote_canon rs H). reflexivity.
Qed.

(* C09 (3): printing the re-read records gives the same text; normalising twice changes nothing *)
Lemma entry_lines_normalise e : entry_lines (normalise_entry e) = entry_lines e.
Proof. unfold entry_lines, normalise_entry. cbn [e_value e_summary]. destruct (e_summary e); reflexivity. Qed.

Lemma should_minutes_normalise r : should_minutes (normalise_record r) = should_minutes r.
Proof.
  unfold normalise_record, should_minutes at 1. cbn [rec_should].
  destruct (should_minutes r =? 0) eqn:E; [lia|reflexivity].
Qed.

Lemma record_lines_normalise r : record_lines (normalise_record r) = record_lines r.
Proof.
  unfold record_lines, headline_of. rewrite should_minutes_normalise. unfold normalise_record at 1 2 3. cbn [rec_date rec_summary rec_entries].
  f_equal. f_equal. rewrite flat_map_map. apply flat_map_ext_in. intros e _. apply entry_lines_normalise.
Qed.

Lemma records_lines_normalise rs : records_lines (normalise rs) = records_lines rs.
Proof.
  unfold normalise. induction rs as [|r rs IH]; [reflexivity|]. destruct rs as [|r2 rs'].
  - cbn [map records_lines]. apply record_lines_normalise.
  - change (records_lines (map normalise_record (r :: r2 :: rs')))
      with (record_lines (normalise_record r) ++ [[]] ++ records_lines (map normalise_record (r2 :: rs'))).
    change (records_lines (r :: r2 :: rs')) with (record_lines r ++ [[]] ++ records_lines (r2 :: rs')).
    rewrite record_lines_normalise, IH. reflexivity.
Qed.

Theorem print_idempotent rs : print_records (normalise rs) = print_records rs.
Proof. unfold print_records. rewrite records_lines_normalise. reflexivity. Qed.

Lemma normalise_idempotent rs : normalise (normalise rs) = normalise rs.
Proof.
  unfold normalise. rewrite map_map. apply map_ext. intros r.
  unfold normalise_record at 1. rewrite should_minutes_normalise. unfold normalise_record. cbn [rec_date rec_should rec_summary rec_entries].
  f_equal.
  - destruct (should_minutes r =? 0); reflexivity.
  - rewrite map_map. apply map_ext. intros e. unfold normalise_entry. cbn [e_value e_summary]. destruct (e_summary e); reflexivity.
Qed.

(* ================= the records denoted by a well-formed document are well-formed records ================= *)

Lemma bytes_line_ok_encode t : text_ok t = true -> bytes_line_ok (utf8_encode t) = true.
Proof.
  intros H. unfold bytes_line_ok. rewrite (decode_encode t H), H, andb_true_r. apply bytes_eqb_eq. reflexivity.
Qed.

Lemma time_ok_denote t : wf_time t = true -> time_ok (denote_time t) = true.
Proof. intros W. pose proof (denote_time_valid t W) as V. unfold valid_time in V. unfold time_ok. lia. Qed.

Lemma dur_amount_nonneg d : dur_shape d = true -> 0 <= dur_amount d.
Proof.
  unfold dur_shape. intros W. repeat (apply andb_true_iff in W as [W ?]).
  pose proof (opt_value_nonneg _ H1). pose proof (opt_value_nonneg _ H0). unfold dur_amount. lia.
Qed.

Lemma value_ok_denote_dur d : wf_dur d = true ->
  fits_int64 (d_mins (denote_dur d)) = true /\ duration_flags_ok (denote_dur d) = true.
Proof.
  unfold wf_dur. intros W. apply andb_true_iff in W as [Sh Hb]. pose proof (dur_amount_nonneg d Sh) as Hn.
  unfold denote_dur, fits_int64, duration_flags_ok. cbn [d_mins d_plus d_zsign].
  destruct (du_sign d); cbn [sign_factor]; (split; [lia|]).
  - replace (1 * dur_amount d =? 0) with (dur_amount d =? 0) by lia. destruct (dur_amount d =? 0) eqn:E; [reflexivity|].
    replace (1 * dur_amount d <? 0) with false by lia. reflexivity.
  - replace (1 * dur_amount d =? 0) with (dur_amount d =? 0) by lia. destruct (dur_amount d =? 0) eqn:E; [reflexivity|].
    replace (1 * dur_amount d <? 0) with false by lia. reflexivity.
  - replace (-1 * dur_amount d =? 0) with (dur_amount d =? 0) by lia. destruct (dur_amount d =? 0) eqn:E; [reflexivity|].
    replace (-1 * dur_amount d <? 0) with true by lia. reflexivity.
Qed.

Lemma value_ok_denote v : wf_value v = true -> value_ok (denote_value v) = true.
Proof.
  destruct v as [d | a sp1 sp2 b | a sp1 sp2 extra]; cbn [wf_value denote_value value_ok]; intros W.
  - destruct (value_ok_denote_dur d W) as [-> ->]. reflexivity.
  - apply andb_true_iff in W as [W Ho]. apply andb_true_iff in W as [Wa Wb]. cbn [r_start r_end].
    rewrite (time_ok_denote a Wa), (time_ok_denote b Wb), (timeline_offset a Wa), (timeline_offset b Wb). exact Ho.
  - cbn [o_start]. apply time_ok_denote. exact W.
Qed.

Lemma entry_ok_denote e : wf_entry e = true -> entry_ok (denote_entry e) = true.
Proof.
  unfold wf_entry. intros W. apply andb_true_iff in W as [W Wm]. apply andb_true_iff in W as [Wv Wf].
  unfold entry_ok, denote_entry. cbn [e_value e_summary]. rewrite (value_ok_denote _ Wv). cbn [andb].
  apply andb_true_iff; split.
  - destruct (se_first e) as [t|]; [apply bytes_line_ok_encode; exact Wf|reflexivity].
  - rewrite forallb_forall. intros s Hin. apply in_map_iff in Hin as (t & <- & Hin).
    rewrite forallb_forall in Wm. specialize (Wm t Hin). apply andb_true_iff in Wm as [Tok Nb].
    rewrite (bytes_line_ok_encode t Tok), (decode_encode t Tok). exact Nb.
Qed.

Lemma record_ok_denote r : wf_record r = true -> record_ok (denote_record r) = true.
Proof.
  intros W. destruct (wf_record_inv r W) as (Wd & Ws & Wt & Wsum & Went & Wop).
  unfold record_ok, denote_record. cbn [rec_date rec_summary rec_entries].
  apply andb_true_iff; split; [apply andb_true_iff; split; [apply andb_true_iff; split; [apply andb_true_iff; split|]|]|].
  - unfold valid_cdate, denote_date. cbn [dt c_year c_month c_day]. rewrite <- wf_date_valid_ymd. exact Wd.
  - unfold should_minutes. cbn [rec_should]. destruct (sr_should r) as [[extra d]|]; [|reflexivity].
    apply (value_ok_denote_dur d Ws).
  - rewrite forallb_forall. intros s Hin. apply in_map_iff in Hin as (t & <- & Hin).
    rewrite forallb_forall in Wsum. specialize (Wsum t Hin). pose proof Wsum as Wsum'. unfold summary_line_ok in Wsum'.
    apply andb_true_iff in Wsum' as [Tok _]. rewrite (bytes_line_ok_encode t Tok), (decode_encode t Tok). exact Wsum.
  - rewrite forallb_forall. intros e' Hin. apply in_map_iff in Hin as (e & <- & Hin).
    rewrite forallb_forall in Went. apply entry_ok_denote, Went, Hin.
  - apply Nat.leb_le. replace (length (filter is_open (map denote_entry (sr_entries r)))) with (count_open (sr_entries r)); [exact Wop|].
    clear. unfold count_open. induction (sr_entries r) as [|e es IH]; [reflexivity|]. cbn [map filter].
    rewrite is_open_denote. destruct (is_open_value (se_value e)); cbn [length]; rewrite IH; reflexivity.
Qed.

Lemma wf_records_denote d : wf d -> wf_records (denote d).
Proof.
  unfold wf, wf_doc. intros W. apply andb_true_iff in W as [W _]. apply andb_true_iff in W as [W _]. apply andb_true_iff in W as [_ Wr].
  unfold wf_records, denote. rewrite forallb_forall. intros r Hin. apply in_map_iff in Hin as (rg & <- & Hin).
  rewrite forallb_forall in Wr. apply record_ok_denote, Wr, Hin.
Qed.

(* C09 (4): parse . print . parse = parse (up to normalisation) *)
Theorem parse_print_parse d : wf d -> no_trailing_cr (denote d) = true ->
  parse_text (print_records (denote d)) = Ok (Parsed (normalise (denote d)) (blocks_of (print_records (denote d)))).
Proof. intros W Hc. apply print_parse_roundtrip; [apply wf_records_denote; exact W|exact Hc]. Qed.

(* ================= K2: the guard no_trailing_cr is needed ================= *)

Definition k2_record : record :=
  {| rec_date := {| dt := {| c_year := 2020; c_month := 1; c_day := 1 |}; dt_dashes := true |};
     rec_should := None; rec_summary := [b!"foo" ++ [13%N]]; rec_entries := [] |}.

Lemma print_parse_cr_witness :
  wf_records [k2_record] /\ print_records [k2_record] = b!"2020-01-01" ++ [10%N] ++ b!"foo" ++ [13; 10]%N
  /\ forall bs, parse_text (print_records [k2_record]) <> Ok (Parsed (normalise [k2_record]) bs).
Proof.
  split; [vm_compute; reflexivity|]. split; [vm_compute; reflexivity|].
  assert (E : match parse_text (print_records [k2_record]) with
              | Ok (Parsed [r] _) => rec_summary r
              | _ => []
              end = [b!"foo"]) by (vm_compute; reflexivity).
  intros bs Hc. rewrite Hc in E. vm_compute in E. discriminate.
Qed.

(* ================= literal normalisations ================= *)

(* printing the value read from any time literal gives the specification's canonical spelling of that value *)
Lemma literal_normalisation_time t : wf_time t = true ->
  exists t', parse_time (render_time t) = Ok t'
          /\ print_time t' = render_time (canon_time t')
          /\ denote_time (canon_time t') = t'.
Proof.
  intros W. exists (denote_time t). split; [apply parse_render_time; exact W|].
  pose proof (time_ok_denote t W) as V. split; [apply print_time_render; exact V|apply denote_canon_time; exact V].
Qed.

Lemma literal_normalisation_examples :
  (exists t, parse_time b!"08:00" = Ok t /\ print_time t = b!"8:00")
  /\ (exists t, parse_time b!"24:00" = Ok t /\ print_time t = b!"0:00>")
  /\ (exists t, parse_time b!"<24:00" = Ok t /\ print_time t = b!"0:00")
  /\ (exists t, parse_time b!"12:05am" = Ok t /\ print_time t = b!"12:05am")
  /\ (exists d, parse_duration b!"90m" = Ok d /\ print_duration d = b!"1h30m")
  /\ (exists d, parse_duration b!"+0h" = Ok d /\ print_duration d = b!"+0m")
  /\ (exists d, parse_duration b!"-00h05m" = Ok d /\ print_duration d = b!"-5m").
Proof. repeat split; eexists; split; vm_compute; reflexivity. Qed.

Lemma print_parse_cr_refuted : exists rs, wf_records rs /\
  forall bs, parse_text (print_records rs) <> Ok (Parsed (normalise rs) bs).
Proof. exists [k2_record]. split; [exact (proj1 print_parse_cr_witness) | exact (proj2 (proj2 print_parse_cr_witness))]. Qed.

Lemma parse_print_parse_both d : wf d -> no_trailing_cr (denote d) = true ->
  parse_text (render d) = Ok (Parsed (denote d) (blocks_of (render d))) /\
  parse_text (print_records (denote d)) = Ok (Parsed (normalise (denote d)) (blocks_of (print_records (denote d)))).
Proof. intros W Hc. split; [apply parse_conforming; exact W|apply parse_print_parse; assumption]. Qed.

Lemma literal_normalisation_duration d : wf_dur d = true ->
  exists d', parse_duration (render_dur d) = Ok d' /\ print_duration d' = render_dur (canon_dur d').
Proof. intros W. exists (denote_dur d). split; [apply parse_render_dur; exact W|apply print_duration_render]. Qed.
