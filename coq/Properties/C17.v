(* C17 — property theorems (being built). *)
From Klog Require Import Base.Prelude Model.Reconcile Model.Commands.
