(* Rounding: clock-relative argument resolution (C17).
     - [round_spec]          service.RoundToNearest is the nearest multiple, ties up, for every minute and rounding
     - [at_time_spec]        AtTime: the rounded time written relative to the target date
     - [stop_fallback_spec]  Stop: which record is closed and with which end time
   Everything here is about Model/Commands.v. *)
From Klog Require Import Base.Prelude Base.Utf8 Model.Calendar Model.Values Model.Record Model.Lines Model.Parser
  Model.Reconcile Model.Commands Proofs.Sweep Proofs.Values Proofs.Calendar.
From Coq Require Import ZifyBool.
Open Scope Z_scope.

(* ---------------------------------------------------------------- rounding *)

Definition roundings : list Z := [5; 10; 12; 15; 20; 30; 60].

Definition midnight : time := {| t_hour := 0; t_min := 0; t_shift := 0; t_24h := true |}.

Lemma midnight_valid : valid_time midnight.
Proof. unfold valid_time, midnight; simpl; lia. Qed.

(* the nearest multiple of v, ties up *)
Definition nearest (off v : Z) : Z := v * ((2 * off + v) / (2 * v)).

(* the offset RoundToNearest aims at *)
Definition round_target (off v : Z) : Z :=
  off - go_mod off v + (if go_mod off v >=? go_div v 2 + go_mod v 2 then v else 0).

Lemma round_target_nearest off v : 0 <= off -> In v roundings -> round_target off v = nearest off v.
Proof.
  intros Hoff Hv. unfold round_target, nearest, go_mod, go_div.
  rewrite Z.rem_mod_nonneg by (try exact Hoff; unfold roundings in Hv; simpl in Hv; lia).
  unfold roundings in Hv; simpl in Hv.
  destruct Hv as [<-|[<-|[<-|[<-|[<-|[<-|[<-|[]]]]]]]];
    match goal with |- context [Z.quot ?a 2 + Z.rem ?a 2] =>
      let c := eval vm_compute in (Z.quot a 2 + Z.rem a 2) in change (Z.quot a 2 + Z.rem a 2) with c end;
    match goal with |- context [if ?b then _ else _] => destruct b eqn:E end;
    Z.div_mod_to_equations; lia.
Qed.

Lemma nearest_bounds off v : 0 <= off < 1440 -> In v roundings -> 0 <= nearest off v <= 1440 /\ (nearest off v) mod v = 0.
Proof.
  intros Hoff Hv. unfold nearest. unfold roundings in Hv; simpl in Hv.
  destruct Hv as [<-|[<-|[<-|[<-|[<-|[<-|[<-|[]]]]]]]]; Z.div_mod_to_equations; lia.
Qed.

(* nearest: no multiple of v is closer, and a tie is resolved upwards *)
Lemma nearest_is_nearest off v k : 0 <= off -> In v roundings ->
  Z.abs (off - nearest off v) <= Z.abs (off - v * k) /\
  (Z.abs (off - nearest off v) = Z.abs (off - v * k) -> v * k <= nearest off v).
Proof.
  intros Hoff Hv. unfold nearest. unfold roundings in Hv; simpl in Hv.
  destruct Hv as [<-|[<-|[<-|[<-|[<-|[<-|[<-|[]]]]]]]]; Z.div_mod_to_equations; lia.
Qed.

Lemma sm_ok_small z : -10000 <= z <= 10000 -> sm_ok z = true.
Proof. unfold sm_ok, sm_min, max_int64. lia. Qed.

Lemma round_spec t v : valid_time t -> t_shift t = 0 -> In v roundings ->
  exists t', round_to_nearest t v = Ok t' /\ valid_time t' /\
             time_offset t' = nearest (time_offset t) v /\ 0 <= time_offset t' <= 1440 /\ t_24h t' = true.
Proof.
  intros Hv Hs Hin.
  assert (Hoff : 0 <= time_offset t < 1440).
  { destruct Hv as (Hh & Hm & _). rewrite offset_spec. unfold shift_of. rewrite Hs. change (0 <? 0) with false. cbv iota. lia. }
  unfold round_to_nearest.
  fold (round_target (time_offset t) v).
  rewrite round_target_nearest by (lia || exact Hin).
  destruct (nearest_bounds _ _ Hoff Hin) as [Hb _].
  set (n := nearest (time_offset t) v) in *.
  destruct (plus_spec midnight n midnight_valid) as [Hok _].
  - apply sm_ok_small. lia.
  - change (time_offset midnight) with 0. apply sm_ok_small. lia.
  - change (time_offset midnight) with 0 in Hok. cbn zeta in Hok. rewrite Z.add_0_l in Hok.
    destruct Hok as (t' & Ht' & Hval & Hofs & H24); [lia|].
    fold midnight. rewrite Ht'. exists t'. split; [reflexivity|]. split; [exact Hval|]. split; [exact Hofs|]. split; [lia|exact H24].
Qed.

(* RoundToNearest never panics and never yields an error on a plain time, whatever the allowed rounding *)
Lemma round_never_crash t v : valid_time t -> t_shift t = 0 -> In v roundings -> is_ok (round_to_nearest t v) = true.
Proof. intros A B C. destruct (round_spec t v A B C) as (t' & -> & _). reflexivity. Qed.

(* ---------------------------------------------------------------- AtTime *)

Definition clock_ok (now : clock) : Prop :=
  valid_cdate (now_date now) = true /\ 0 <= now_h now <= 23 /\ 0 <= now_m now <= 59.

(* the rounding in force: the flag, else the configured default *)
Definition rounding_of (cfg : config) (a : at_args) : option Z :=
  match a_round a with Some v => Some v | None => cfg_round cfg end.

Definition rounding_ok (cfg : config) (a : at_args) : Prop :=
  match rounding_of cfg a with Some v => In v roundings | None => True end.

Definition now_offset (now : clock) : Z := 60 * now_h now + now_m now.

Definition rounded_offset (now : clock) (cfg : config) (a : at_args) : Z :=
  match rounding_of cfg a with Some v => nearest (now_offset now) v | None => now_offset now end.

Lemma rounded_offset_bounds now cfg a : clock_ok now -> rounding_ok cfg a -> 0 <= rounded_offset now cfg a <= 1440.
Proof.
  intros (_ & Hh & Hm) Hr. unfold rounded_offset, rounding_ok in *. destruct (rounding_of cfg a) as [v|].
  - apply nearest_bounds; [unfold now_offset; lia | exact Hr].
  - unfold now_offset. lia.
Qed.

(* a day's neighbour is a different, valid day *)
Lemma plus_days_neighbour c n c' : valid_cdate c = true -> plus_days c n = Ok c' ->
  wf_date c' /\ days_of c' = days_of c + n.
Proof.
  intros Hv H. apply valid_wf in Hv as [Hw _]. rewrite plus_days_spec in H by exact Hw.
  destruct ((D0 <=? days_of c + n) && (days_of c + n <=? D1)); [|discriminate].
  injection H as <-. apply days_cfd.
Qed.

Lemma cdate_eqb_refl c : cdate_eqb c c = true.
Proof. unfold cdate_eqb. rewrite !Z.eqb_refl. reflexivity. Qed.

Lemma cdate_eqb_neq a b : a <> b -> cdate_eqb a b = false.
Proof. intros H. destruct (cdate_eqb a b) eqn:E; [|reflexivity]. apply cdate_eqb_eq in E. contradiction. Qed.

Lemma days_neq a b : days_of a <> days_of b -> a <> b.
Proof. intros H ->. apply H. reflexivity. Qed.

(* the time AtTime starts from: now, rounded *)
Lemma rounded_now now cfg a : clock_ok now -> rounding_ok cfg a ->
  exists t0 t,
    new_time (now_h now) (now_m now) 0 true = Ok t0 /\
    match a_round a with
    | Some v => round_to_nearest t0 v
    | None => match cfg_round cfg with Some v => round_to_nearest t0 v | None => Ok t0 end
    end = Ok t /\ valid_time t /\ time_offset t = rounded_offset now cfg a.
Proof.
  intros (_ & Hh & Hm) Hr.
  set (t0 := {| t_hour := now_h now; t_min := now_m now; t_shift := 0; t_24h := true |}).
  assert (H0 : new_time (now_h now) (now_m now) 0 true = Ok t0).
  { unfold new_time.
    destruct ((now_h now =? 24) && (now_m now =? 0) && (0 <=? 0)) eqn:E1; [lia|].
    destruct ((0 <=? now_h now) && (now_h now <=? 23) && (0 <=? now_m now) && (now_m now <=? 59)) eqn:E2; [reflexivity|lia]. }
  assert (Hv0 : valid_time t0) by (unfold valid_time, t0; cbn [t_hour t_min t_shift]; lia).
  assert (Ho0 : time_offset t0 = now_offset now) by (rewrite offset_spec; unfold shift_of, t0, now_offset; cbn [t_hour t_min t_shift]; change (0 <? 0) with false; cbv iota; lia).
  assert (Hs0 : t_shift t0 = 0) by reflexivity.
  exists t0. unfold rounded_offset, rounding_ok, rounding_of in *.
  destruct (a_round a) as [v|].
  - destruct (round_spec t0 v Hv0 Hs0 Hr) as (t & Ht & Hvt & Hot & _). exists t. rewrite Ho0 in Hot. auto.
  - destruct (cfg_round cfg) as [v|].
    + destruct (round_spec t0 v Hv0 Hs0 Hr) as (t & Ht & Hvt & Hot & _). exists t. rewrite Ho0 in Hot. auto.
    + exists t0. auto.
Qed.

Lemma at_time_unfold now cfg a d t0 t : a_time a = None ->
  at_date now (a_date a) = Ok d ->
  new_time (now_h now) (now_m now) 0 true = Ok t0 ->
  match a_round a with
  | Some v => round_to_nearest t0 v
  | None => match cfg_round cfg with Some v => round_to_nearest t0 v | None => Ok t0 end
  end = Ok t ->
  at_time now cfg a =
    if cdate_eqb (now_date now) (dt d) then COk t
    else
      let+ yest := of_outcome (plus_days (now_date now) (-1)) in
      if cdate_eqb yest (dt d) then
        match time_plus t 1440 with Ok t' => COk t' | Err _ => CErr CEImpossibleTime | Crash _ => CCrash end
      else
        let+ tom := of_outcome (plus_days (now_date now) 1) in
        if cdate_eqb tom (dt d) then
          match time_plus t (-1440) with Ok t' => COk t' | Err _ => CErr CEImpossibleTime | Crash _ => CCrash end
        else CErr CEMissingTime.
Proof.
  intros Ha Hd H0 Ht. unfold at_time. rewrite Ha, Hd, H0. cbn [of_outcome cbind]. rewrite Ht. reflexivity.
Qed.

(* AtTime without --time, by the target date [d]:
   today: the rounded time; yesterday: that time tomorrow-shifted (an error when it is 24:00, which would need
   two shifts); tomorrow: the rounded time yesterday-shifted; any other date: "missing time". *)
Lemma at_time_spec now cfg a d y tm :
  clock_ok now -> rounding_ok cfg a -> a_time a = None ->
  plus_days (now_date now) (-1) = Ok y -> plus_days (now_date now) 1 = Ok tm ->
  at_date now (a_date a) = Ok d ->
  let r := rounded_offset now cfg a in
  (dt d = now_date now -> exists t, at_time now cfg a = COk t /\ valid_time t /\ time_offset t = r) /\
  (dt d = y -> r < 1440 -> exists t, at_time now cfg a = COk t /\ valid_time t /\ time_offset t = r + 1440) /\
  (dt d = y -> r = 1440 -> at_time now cfg a = CErr CEImpossibleTime) /\
  (dt d = tm -> exists t, at_time now cfg a = COk t /\ valid_time t /\ time_offset t = r - 1440) /\
  (dt d <> now_date now -> dt d <> y -> dt d <> tm -> at_time now cfg a = CErr CEMissingTime).
Proof.
  intros Hc Hr Ha Hy Htm Hd r.
  pose proof (rounded_offset_bounds now cfg a Hc Hr) as Hb. fold r in Hb.
  destruct (rounded_now now cfg a Hc Hr) as (t0 & t & H0 & Ht & Hvt & Hot). fold r in Hot.
  rewrite (at_time_unfold now cfg a d t0 t Ha Hd H0 Ht). rewrite Hy, Htm. cbn [of_outcome cbind].
  destruct Hc as (Hvd & _).
  destruct (plus_days_neighbour _ _ _ Hvd Hy) as [Hwy Hdy].
  destruct (plus_days_neighbour _ _ _ Hvd Htm) as [Hwt Hdt].
  assert (Hny : now_date now <> y) by (apply days_neq; lia).
  assert (Hnt : now_date now <> tm) by (apply days_neq; lia).
  assert (Hyt : y <> tm) by (apply days_neq; lia).
  assert (Sp : sm_ok (time_offset t + 1440) = true) by (apply sm_ok_small; lia).
  assert (Sm : sm_ok (time_offset t + -1440) = true) by (apply sm_ok_small; lia).
  destruct (plus_spec t 1440 Hvt eq_refl Sp) as [Pok Perr].
  destruct (plus_spec t (-1440) Hvt eq_refl Sm) as [Mok _].
  cbn zeta in Pok, Perr, Mok. rewrite Hot in Pok, Perr, Mok.
  split; [|split; [|split; [|split]]].
  - intros E. rewrite E, cdate_eqb_refl. exists t. auto.
  - intros E Hlt. rewrite E, (cdate_eqb_neq _ _ Hny), cdate_eqb_refl.
    destruct Pok as (t' & -> & Hv' & Ho' & _); [lia|]. exists t'. auto.
  - intros E Heq. rewrite E, (cdate_eqb_neq _ _ Hny), cdate_eqb_refl. rewrite Perr by lia. reflexivity.
  - intros E. rewrite E, (cdate_eqb_neq _ _ Hnt), (cdate_eqb_neq _ _ Hyt), cdate_eqb_refl.
    destruct Mok as (t' & -> & Hv' & Ho' & _); [lia|]. exists t'. auto.
  - intros N1 N2 N3.
    rewrite (cdate_eqb_neq (now_date now) (dt d)) by congruence.
    rewrite (cdate_eqb_neq y (dt d)) by congruence.
    rewrite (cdate_eqb_neq tm (dt d)) by congruence. reflexivity.
Qed.

(* AtTime never panics (a clock whose neighbouring days exist) *)
Lemma at_time_never_crash now cfg a y tm :
  clock_ok now -> rounding_ok cfg a -> (forall t, a_time a = Some t -> valid_time t) ->
  plus_days (now_date now) (-1) = Ok y -> plus_days (now_date now) 1 = Ok tm ->
  at_time now cfg a <> CCrash /\ (forall t, at_time now cfg a = COk t -> valid_time t).
Proof.
  intros Hc Hr Hat Hy Htm.
  destruct (a_time a) as [tt|] eqn:Ha.
  - unfold at_time. rewrite Ha. split; [discriminate|]. intros t [= <-]. apply Hat. reflexivity.
  - assert (Hd : exists d, at_date now (a_date a) = Ok d).
    { unfold at_date. destruct (a_date a); try (eexists; reflexivity); rewrite ?Hy, ?Htm; eexists; reflexivity. }
    destruct Hd as [d Hd].
    destruct (at_time_spec now cfg a d y tm Hc Hr Ha Hy Htm Hd) as (S1 & S2 & S3 & S4 & S5).
    pose proof (rounded_offset_bounds now cfg a Hc Hr) as Hb.
    destruct (cdate_eqb (dt d) (now_date now)) eqn:E1.
    { apply cdate_eqb_eq in E1. destruct (S1 E1) as (t & -> & Hv & _). split; [discriminate|]. intros ? [= <-]. exact Hv. }
    destruct (cdate_eqb (dt d) y) eqn:E2.
    { apply cdate_eqb_eq in E2. destruct (Z.eq_dec (rounded_offset now cfg a) 1440) as [E|E].
      - rewrite (S3 E2 E). split; discriminate.
      - destruct (S2 E2 ltac:(lia)) as (t & -> & Hv & _). split; [discriminate|]. intros ? [= <-]. exact Hv. }
    destruct (cdate_eqb (dt d) tm) eqn:E3.
    { apply cdate_eqb_eq in E3. destruct (S4 E3) as (t & -> & Hv & _). split; [discriminate|]. intros ? [= <-]. exact Hv. }
    rewrite S5; [split; discriminate| | |]; intros E; rewrite E, cdate_eqb_refl in *; discriminate.
Qed.

(* by date selection *)
Lemma at_time_by_selection now cfg a y tm :
  clock_ok now -> rounding_ok cfg a -> a_time a = None ->
  plus_days (now_date now) (-1) = Ok y -> plus_days (now_date now) 1 = Ok tm ->
  let r := rounded_offset now cfg a in
  match a_date a with
  | DDefault | DToday => exists t, at_time now cfg a = COk t /\ time_offset t = r
  | DYesterday => if r <? 1440 then exists t, at_time now cfg a = COk t /\ time_offset t = r + 1440
                  else at_time now cfg a = CErr CEImpossibleTime
  | DTomorrow => exists t, at_time now cfg a = COk t /\ time_offset t = r - 1440
  | DExplicit d =>
    if cdate_eqb (dt d) (now_date now) then exists t, at_time now cfg a = COk t /\ time_offset t = r
    else if cdate_eqb (dt d) y then
      (if r <? 1440 then exists t, at_time now cfg a = COk t /\ time_offset t = r + 1440
       else at_time now cfg a = CErr CEImpossibleTime)
    else if cdate_eqb (dt d) tm then exists t, at_time now cfg a = COk t /\ time_offset t = r - 1440
    else at_time now cfg a = CErr CEMissingTime
  end.
Proof.
  intros Hc Hr Ha Hy Htm r.
  pose proof (rounded_offset_bounds now cfg a Hc Hr) as Hb. fold r in Hb.
  assert (G : forall d, at_date now (a_date a) = Ok d ->
    if cdate_eqb (dt d) (now_date now) then exists t, at_time now cfg a = COk t /\ time_offset t = r
    else if cdate_eqb (dt d) y then
      (if r <? 1440 then exists t, at_time now cfg a = COk t /\ time_offset t = r + 1440
       else at_time now cfg a = CErr CEImpossibleTime)
    else if cdate_eqb (dt d) tm then exists t, at_time now cfg a = COk t /\ time_offset t = r - 1440
    else at_time now cfg a = CErr CEMissingTime).
  { intros d Hd. destruct (at_time_spec now cfg a d y tm Hc Hr Ha Hy Htm Hd) as (S1 & S2 & S3 & S4 & S5). fold r in S1, S2, S3, S4.
    destruct (cdate_eqb (dt d) (now_date now)) eqn:E1.
    { apply cdate_eqb_eq in E1. destruct (S1 E1) as (t & -> & _ & Ho). exists t. auto. }
    destruct (cdate_eqb (dt d) y) eqn:E2.
    { apply cdate_eqb_eq in E2. destruct (r <? 1440) eqn:E.
      - destruct (S2 E2 ltac:(lia)) as (t & -> & _ & Ho). exists t. auto.
      - apply S3; [exact E2|lia]. }
    destruct (cdate_eqb (dt d) tm) eqn:E3.
    { apply cdate_eqb_eq in E3. destruct (S4 E3) as (t & -> & _ & Ho). exists t. auto. }
    apply S5; intros E; rewrite E, cdate_eqb_refl in *; discriminate. }
  destruct Hc as (Hvd & _).
  destruct (plus_days_neighbour _ _ _ Hvd Hy) as [Hwy Hdy].
  destruct (plus_days_neighbour _ _ _ Hvd Htm) as [Hwt Hdt].
  assert (Hny : y <> now_date now) by (apply days_neq; lia).
  assert (Hnt : tm <> now_date now) by (apply days_neq; lia).
  assert (Hyt : tm <> y) by (apply days_neq; lia).
  assert (Ay : at_date now DYesterday = Ok {| dt := y; dt_dashes := true |}) by (unfold at_date; rewrite Hy; reflexivity).
  assert (At : at_date now DTomorrow = Ok {| dt := tm; dt_dashes := true |}) by (unfold at_date; rewrite Htm; reflexivity).
  destruct (a_date a) as [| | | |d] eqn:Ed.
  - pose proof (G _ eq_refl) as G'. cbn [dt] in G'. rewrite cdate_eqb_refl in G'. exact G'.
  - pose proof (G _ eq_refl) as G'. cbn [dt] in G'. rewrite cdate_eqb_refl in G'. exact G'.
  - pose proof (G _ Ay) as G'. cbn [dt] in G'. rewrite (cdate_eqb_neq _ _ Hny), cdate_eqb_refl in G'. exact G'.
  - pose proof (G _ At) as G'. cbn [dt] in G'. rewrite (cdate_eqb_neq _ _ Hnt), (cdate_eqb_neq _ _ Hyt), cdate_eqb_refl in G'. exact G'.
  - exact (G d eq_refl).
Qed.

(* without representable neighbours the model (like the code) panics: Date.PlusDays on 0000-01-01 *)
Lemma at_time_first_day_crash :
  at_time {| now_date := mk 0 1 1; now_h := 12; now_m := 0 |}
          {| cfg_round := None; cfg_should := None; cfg_dashes := None; cfg_24h := None |}
          {| a_date := DYesterday; a_time := None; a_round := None |} = CCrash.
Proof. vm_cast_no_check (@eq_refl (cresult time) CCrash). Qed.

(* ---------------------------------------------------------------- Stop: the yesterday fallback *)

(* the tail of ReconcileFile: serialise and re-parse *)
Definition finish (x : cresult reconciler) : cresult bytes :=
  let+ r := x in
  match make_result r with
  | Some (text, _) => COk text
  | None => CErr CEInvalidResult
  end.

Lemma reconcile_file_one file rs bs mk step : parse_text file = Ok (Parsed rs bs) ->
  reconcile_file file mk [step] = let+ r0 := mk rs bs in finish (step rs r0).
Proof.
  intros Hp. unfold reconcile_file, finish. rewrite Hp. destruct (mk rs bs) as [r0| |]; reflexivity.
Qed.

Lemma find_record_idx_spec d rs : forall i j, find_record_idx d rs i = Some j ->
  exists k r, j = (i + k)%nat /\ nth_error rs k = Some r /\ dt (rec_date r) = d.
Proof.
  induction rs as [|r rs IH]; intros i j H; [discriminate|].
  cbn [find_record_idx] in H. destruct (cdate_eqb (dt (rec_date r)) d) eqn:E.
  - injection H as <-. exists O, r. split; [lia|]. split; [reflexivity|]. apply cdate_eqb_eq. exact E.
  - destruct (IH _ _ H) as (k & r' & -> & Hn & Hd). exists (S k), r'. split; [lia|]. split; [exact Hn|exact Hd].
Qed.

Lemma reconciler_at_record_date d rs bs r : reconciler_at_record d rs bs = Some r -> dt (rec_date (rc_record r)) = d.
Proof.
  unfold reconciler_at_record. destruct (find_record_idx d rs 0) as [i|] eqn:E; [|discriminate].
  destruct (find_record_idx_spec _ _ _ _ E) as (k & r' & -> & Hn & Hd). cbn [Nat.add].
  rewrite Hn. destruct (nth_error bs k); [|discriminate]. intros [= <-]. exact Hd.
Qed.

Lemma find_record_idx_none d rs : forall i, find_record_idx d rs i = None -> forall r, In r rs -> dt (rec_date r) <> d.
Proof.
  induction rs as [|r0 rs IH]; intros i H r Hin; [destruct Hin|].
  cbn [find_record_idx] in H. destruct (cdate_eqb (dt (rec_date r0)) d) eqn:E; [discriminate|].
  destruct Hin as [<-|Hin].
  - intros Heq. rewrite Heq, cdate_eqb_refl in E. discriminate.
  - exact (IH _ H r Hin).
Qed.

Definition stop_time (x : outcome time) : cresult time :=
  match x with Ok t' => COk t' | Err _ => CErr CEImpossibleTime | Crash _ => CCrash end.

(* Stop with an explicit date selection: only the record of that date is looked at, and the day before is not
   computed at all - so the first day of the calendar is an ordinary target (fix F13: `klog stop --date 0000-01-01`
   used to panic in Date.PlusDays(-1)) *)
Lemma stop_explicit_date now cfg a summary file d t rs bs :
  at_date now (a_date a) = Ok d -> at_time now cfg a = COk t -> was_automatic a = false ->
  parse_text file = Ok (Parsed rs bs) ->
  exec_simple now cfg (Stop a summary) file =
    match reconciler_at_record (dt d) rs bs with
    | Some r => finish (lift_r (close_open_range r t (time_format cfg a) (match summary with Some s => s | None => [] end)))
    | None => CErr CENoSuchRecord
    end.
Proof.
  intros Hd Ht Ha Hp.
  unfold exec_simple. rewrite Hd. cbn [of_outcome cbind]. rewrite Ht. cbn [cbind]. cbv zeta. rewrite Ha. cbn [cbind].
  rewrite (reconcile_file_one file rs bs _ _ Hp).
  unfold first_creator, at_record.
  destruct (reconciler_at_record (dt d) rs bs) as [r|] eqn:E1.
  - cbn [flat_map app cbind andb]. reflexivity.
  - reflexivity.
Qed.

(* Stop, spelled out: the record of the target date when there is one; otherwise, and only when neither a date
   nor a time was selected, yesterday's record with the end time shifted by 24 hours *)
Lemma stop_unfold now cfg a summary file d t y rs bs :
  at_date now (a_date a) = Ok d -> at_time now cfg a = COk t -> plus_days (dt d) (-1) = Ok y ->
  valid_cdate (dt d) = true ->
  parse_text file = Ok (Parsed rs bs) ->
  let fmt := time_format cfg a in
  let add := match summary with Some s => s | None => [] end in
  exec_simple now cfg (Stop a summary) file =
    match reconciler_at_record (dt d) rs bs with
    | Some r => finish (lift_r (close_open_range r t fmt add))
    | None =>
      if was_automatic a then
        match reconciler_at_record y rs bs with
        | Some r => let+ t' := stop_time (time_plus t 1440) in finish (lift_r (close_open_range r t' fmt add))
        | None => CErr CENoSuchRecord
        end
      else CErr CENoSuchRecord
    end.
Proof.
  intros Hd Ht Hy Hvd Hp fmt add.
  destruct (plus_days_neighbour _ _ _ Hvd Hy) as [Hwy Hdy].
  assert (Hne : dt d <> y) by (apply days_neq; lia).
  unfold exec_simple. rewrite Hd. cbn [of_outcome cbind]. rewrite Ht. cbn [cbind]. cbv zeta.
  destruct (was_automatic a) eqn:Ea.
  - rewrite Hy. cbn [of_outcome cbind].
    rewrite (reconcile_file_one file rs bs _ _ Hp).
    unfold first_creator, at_record.
    destruct (reconciler_at_record (dt d) rs bs) as [r|] eqn:E1.
    + cbn [flat_map app cbind].
      rewrite (reconciler_at_record_date _ _ _ _ E1), (cdate_eqb_neq _ _ Hne), andb_false_r.
      cbn [cbind]. reflexivity.
    + destruct (reconciler_at_record y rs bs) as [r|] eqn:E2.
      * cbn [flat_map app cbind].
        rewrite (reconciler_at_record_date _ _ _ _ E2), cdate_eqb_refl. cbn [andb].
        unfold stop_time. destruct (time_plus t 1440); reflexivity.
      * reflexivity.
  - (* an explicit date: the day before is not even computed (fix F13) *)
    cbn [cbind].
    rewrite (reconcile_file_one file rs bs _ _ Hp).
    unfold first_creator, at_record.
    destruct (reconciler_at_record (dt d) rs bs) as [r|] eqn:E1.
    + cbn [flat_map app cbind andb]. reflexivity.
    + reflexivity.
Qed.

(* the shifted end time: 24 hours later, an error (not a panic) when that is beyond 23:59> *)
Lemma stop_time_spec t : valid_time t ->
  (time_offset t < 1440 -> exists t', stop_time (time_plus t 1440) = COk t' /\ valid_time t' /\ time_offset t' = time_offset t + 1440) /\
  (1440 <= time_offset t -> stop_time (time_plus t 1440) = CErr CEImpossibleTime) /\
  stop_time (time_plus t 1440) <> CCrash.
Proof.
  intros Hv. pose proof (offset_bounds t Hv) as Hb.
  assert (Sp : sm_ok (time_offset t + 1440) = true) by (apply sm_ok_small; lia).
  destruct (plus_spec t 1440 Hv eq_refl Sp) as [Pok Perr]. cbn zeta in Pok, Perr.
  split; [|split].
  - intros H. destruct Pok as (t' & -> & Hv' & Ho' & _); [lia|]. exists t'. auto.
  - intros H. rewrite Perr by lia. reflexivity.
  - destruct (Z_lt_le_dec (time_offset t) 1440) as [H|H].
    + destruct Pok as (t' & -> & _); [lia|]. discriminate.
    + rewrite Perr by lia. discriminate.
Qed.

(* the property's wording: `stop` without date and time selection at clock reading [now] closes today's record
   at the rounded time; only when no record is dated today does it close yesterday's, at that time + 24h; when that
   cannot be written (the rounded time is 24:00) the command fails with an error *)
Lemma stop_fallback_spec now cfg a summary file y tm rs bs :
  clock_ok now -> rounding_ok cfg a -> was_automatic a = true ->
  plus_days (now_date now) (-1) = Ok y -> plus_days (now_date now) 1 = Ok tm ->
  parse_text file = Ok (Parsed rs bs) ->
  let r := rounded_offset now cfg a in
  let fmt := time_format cfg a in
  let add := match summary with Some s => s | None => [] end in
  exists t, valid_time t /\ time_offset t = r /\
    exec_simple now cfg (Stop a summary) file =
      match reconciler_at_record (now_date now) rs bs with
      | Some rc => finish (lift_r (close_open_range rc t fmt add))
      | None =>
        match reconciler_at_record y rs bs with
        | Some rc => let+ t' := stop_time (time_plus t 1440) in finish (lift_r (close_open_range rc t' fmt add))
        | None => CErr CENoSuchRecord
        end
      end /\
    (r < 1440 -> exists t', stop_time (time_plus t 1440) = COk t' /\ valid_time t' /\ time_offset t' = r + 1440) /\
    (r = 1440 -> stop_time (time_plus t 1440) = CErr CEImpossibleTime).
Proof.
  intros Hc Hr Hauto Hy Htm Hp r fmt add.
  assert (Ha : a_time a = None /\ (a_date a = DDefault \/ a_date a = DToday)).
  { unfold was_automatic in Hauto. destruct (a_date a), (a_time a); try discriminate; auto. }
  destruct Ha as [Ha Hsel].
  assert (Hd : at_date now (a_date a) = Ok {| dt := now_date now; dt_dashes := true |})
    by (destruct Hsel as [-> | ->]; reflexivity).
  destruct (at_time_spec now cfg a _ y tm Hc Hr Ha Hy Htm Hd) as (S1 & _). cbn [dt] in S1.
  destruct (S1 eq_refl) as (t & Ht & Hvt & Hot). fold r in Hot.
  exists t. split; [exact Hvt|]. split; [exact Hot|].
  pose proof (rounded_offset_bounds now cfg a Hc Hr) as Hb. fold r in Hb.
  destruct Hc as (Hvd & _).
  split; [|split].
  - rewrite (stop_unfold now cfg a summary file _ t y rs bs Hd Ht Hy Hvd Hp). cbn [dt]. rewrite Hauto. reflexivity.
  - intros Hlt. destruct (stop_time_spec t Hvt) as (A & _). rewrite Hot in A. apply A. exact Hlt.
  - intros Heq. destruct (stop_time_spec t Hvt) as (_ & B & _). apply B. lia.
Qed.

(* with an explicit date selection (or time) there is no fallback: after F6 `stop --yesterday` never touches
   the day before yesterday *)
Lemma stop_no_fallback now cfg a summary file d t y rs bs :
  was_automatic a = false ->
  at_date now (a_date a) = Ok d -> at_time now cfg a = COk t -> plus_days (dt d) (-1) = Ok y ->
  valid_cdate (dt d) = true -> parse_text file = Ok (Parsed rs bs) ->
  reconciler_at_record (dt d) rs bs = None ->
  exec_simple now cfg (Stop a summary) file = CErr CENoSuchRecord.
Proof.
  intros Hauto Hd Ht Hy Hvd Hp Hnone.
  rewrite (stop_unfold now cfg a summary file d t y rs bs Hd Ht Hy Hvd Hp). rewrite Hnone, Hauto. reflexivity.
Qed.
