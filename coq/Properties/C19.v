(* C19 — property theorems (stub). *)
From Klog Require Import Base.Prelude.
