(* CommandsHistory: C04 — one abstract model for all six commands, the single-step refinement theorem, and its lift
   to histories (the file produced by one command is the input of the next). *)
From Klog Require Import Base.Prelude Base.Utf8 Model.Calendar Model.Values Model.Record Model.Lines Model.Parser
  Model.Tags Model.Serialiser Model.Reconcile Model.Commands Proofs.Lines Proofs.Parser Proofs.TagsUtf8 Proofs.Calendar
  Proofs.Values Spec.Spec Proofs.SpecValues Proofs.SpecEntry Proofs.SpecRecord Proofs.SpecDoc Proofs.Print
  Proofs.Style Proofs.Reconcile Proofs.Commands Proofs.Rounding Proofs.CommandsSpec Proofs.CommandsRefine Proofs.CommandsStop
  Proofs.CommandsPause Proofs.CommandsArgs Proofs.CommandsTags.
From Coq Require Import ZifyBool.
Open Scope Z_scope.

(* a command with its arguments given as specification objects (an entry, summary lines as rune texts) *)
Inductive scommand :=
| STrack (ds : datesel) (se : s_entry)
| SStart (a : at_args) (s : sum_args)
| SStop (a : at_args) (add_r : option (list text))
| SSwitch (a : at_args) (s : sum_args)
| SCreate (ds : datesel) (should : option Z) (srunes : list text)
| SPause (sr : option (list text)) (no_tags extend : bool) (ticks : list Z).

Definition to_command (sc : scommand) : command :=
  match sc with
  | STrack ds se => Track ds (entry_arg se)
  | SStart a s => Start a s
  | SStop a add_r => Stop a (option_map (map utf8_encode) add_r)
  | SSwitch a s => Switch a s
  | SCreate ds should srunes => Create ds should (map utf8_encode srunes)
  | SPause sr no_tags extend ticks => Pause (option_map (map utf8_encode) sr) no_tags extend ticks
  end.

(* ---------------------------------------------------------------- the abstract model, on parsed records *)

Definition a_track (cfg : config) (d : date) (fmt : reformat bool) (e : entry) (rs : list record) : cresult (list record) :=
  match find_record_idx (dt d) rs 0 with
  | Some i =>
    match nth_error rs i with
    | Some r => if is_open e && existsb is_open (rec_entries r) then CErr CEInvalidResult else COk (a_add_entry cfg d fmt e rs)
    | None => CCrash
    end
  | None => COk (a_add_entry cfg d fmt e rs)
  end.

Definition a_exec (now : Commands.clock) (cfg : config) (sc : scommand) (rs : list record) : cresult (list record) :=
  match sc with
  | STrack ds se =>
    let+ d := of_outcome (at_date now ds) in
    a_track cfg d (date_format cfg ds) (denote_entry se) rs
  | SStart a s =>
    let+ d := of_outcome (at_date now (a_date a)) in
    let+ t := at_time now cfg a in
    a_start cfg d (date_format cfg (a_date a)) t (time_format cfg a) s rs
  | SStop a add_r =>
    let+ d := of_outcome (at_date now (a_date a)) in
    let+ t := at_time now cfg a in
    let+ y := of_outcome (plus_days (dt d) (-1)) in
    a_stop (was_automatic a) d y t (time_format cfg a) (map utf8_encode (match add_r with Some l => l | None => [] end)) rs
  | SSwitch a s =>
    let+ d := of_outcome (at_date now (a_date a)) in
    let+ t := at_time now cfg a in
    a_switch d t (time_format cfg a) s rs
  | SCreate ds should srunes =>
    let+ d := of_outcome (at_date now ds) in
    COk (insert_record {| rec_date := a_new_date d (date_format cfg ds) rs;
                          rec_should := match should with Some m => Some m | None => cfg_should cfg end;
                          rec_summary := map utf8_encode srunes; rec_entries := [] |} rs)
  | SPause sr no_tags extend ticks =>
    let+ y := of_outcome (plus_days (now_date now) (-1)) in
    a_pause (now_date now) y (option_map (map utf8_encode) sr) no_tags extend ticks rs
  end.

(* ---------------------------------------------------------------- what is asked of the arguments and of the file *)

Definition lines_arg_ok (sr : list text) : Prop :=
  match sr with [] => True | s0r :: mr => text_ok s0r = true /\ forallb (fun t => text_ok t && negb (all_blank t)) mr = true end /\
  no_cr_lines (map utf8_encode sr).

(* the given --summary text is made of specification summary lines *)
Definition sum_arg_ok (s : sum_args) : Prop := match s_text s with Some text => summary_ok text | None => True end.

(* no summary line of an entry of the file ends in a carriage return (`--resume` would copy it before a bare LF) *)
Definition file_no_cr (recs : srecs) : Prop :=
  forall rg se, In rg recs -> In se (sr_entries (fst rg)) -> no_cr_lines (e_summary (denote_entry se)).

Definition step_pre (now : Commands.clock) (cfg : config) (sc : scommand) (recs : srecs) : Prop :=
  match sc with
  | STrack ds se =>
    datesel_ok now ds /\ should_fits (cfg_should cfg) /\ wf_entry se = true /\ no_cr_lines (entry_arg se)
  | SStart a s =>
    datesel_ok now (a_date a) /\ should_fits (cfg_should cfg) /\ time_arg_ok a /\ sum_arg_ok s /\ file_no_cr recs
  | SStop a add_r =>
    datesel_ok now (a_date a) /\ time_arg_ok a /\
    add_ok (match add_r with Some l => l | None => [] end) /\
    (forall rg, In rg recs -> open_entry_ok (fst rg))
  | SSwitch a s =>
    time_arg_ok a /\ (forall rg, In rg recs -> open_entry_ok (fst rg)) /\ sum_arg_ok s /\ file_no_cr recs
  | SCreate ds should srunes =>
    datesel_ok now ds /\
    should_fits (match should with Some m => Some m | None => cfg_should cfg end) /\
    forallb summary_line_ok srunes = true /\ no_cr_lines (map utf8_encode srunes)
  | SPause sr no_tags extend ticks =>
    lines_arg_ok (match sr with Some l => l | None => [] end)
  end.

Lemma spec_state_wf file recs : spec_state file recs -> forallb (fun rg => wf_record (fst rg)) recs = true.
Proof. intros (lead & gs & C & _). exact (cf_wf _ _ _ _ C). Qed.

(* ---------------------------------------------------------------- one command *)

Lemma of_outcome_cok {A} (o : outcome A) a : of_outcome o = COk a -> o = Ok a.
Proof. exact (of_outcome_ok o a). Qed.

Lemma exec_of_simple now cfg c file file' : is_pause_cmd c = false -> exec_simple now cfg c file = COk file' ->
  exec now cfg c file = (file', COk tt).
Proof. intros Hc H. destruct c; try discriminate Hc; unfold exec; rewrite H; reflexivity. Qed.

Theorem exec_refines now cfg sc file recs rs' :
  spec_state file recs -> step_pre now cfg sc recs ->
  a_exec now cfg sc (denote_recs recs) = COk rs' ->
  exists file' recs',
    exec now cfg (to_command sc) file = (file', COk tt) /\
    spec_state file' recs' /\ denote_recs recs' = rs' /\
    exists bs', parse_text file' = Ok (Parsed (denote_recs recs') bs').
Proof.
  intros S Hpre Ha. destruct sc as [ds se|a s|a add_r|a s|ds should srunes|sr no_tags extend ticks]; cbn [a_exec to_command step_pre] in *.
  - (* track *)
    destruct Hpre as (Hv & Hsh & We & Hcr).
    apply cbind_ok in Ha as (d & Hd & Ha). apply of_outcome_cok in Hd. pose proof (at_date_valid now ds d Hv Hd) as Hv'. clear Hv. rename Hv' into Hv.
    assert (Hok : a_add_entry_ok d (denote_entry se) (denote_recs recs) /\ rs' = a_add_entry cfg d (date_format cfg ds) (denote_entry se) (denote_recs recs)).
    { unfold a_track in Ha. unfold a_add_entry_ok. destruct (find_record_idx (dt d) (denote_recs recs) 0) as [i|]; [|split; [exact I|congruence]].
      destruct (nth_error (denote_recs recs) i) as [r|]; [|discriminate].
      destruct (is_open (denote_entry se) && existsb is_open (rec_entries r)) eqn:E; [discriminate|]. split; [|congruence].
      intros Ho. rewrite Ho in E. cbn [andb] in E. exact E. }
    destruct Hok as [Hok ->].
    destruct (track_refines now cfg ds file recs d se S Hd Hv Hsh We Hcr Hok) as (file' & recs' & He & S' & Hden & P').
    exists file', recs'. split; [apply exec_of_simple; [reflexivity|exact He]|]. auto.
  - (* start *)
    destruct Hpre as (Hv & Hsh & Hvt & Hsa & Hncr).
    apply cbind_ok in Ha as (d & Hd & Ha). apply of_outcome_cok in Hd. apply cbind_ok in Ha as (t & Ht & Ha).
    destruct (start_refines now cfg a s file recs d t rs' S Hd Ht (at_time_valid now cfg a t Hvt Ht) (at_date_valid now _ d Hv Hd) Hsh
                (summaries_ok_of s recs (spec_state_wf _ _ S) Hsa Hncr) Ha) as (file' & recs' & He & S' & Hden & P').
    exists file', recs'. split; [apply exec_of_simple; [reflexivity|exact He]|]. auto.
  - (* stop *)
    destruct Hpre as (Hv & Hvt & Hadd & Hnb).
    apply cbind_ok in Ha as (d & Hd & Ha). apply of_outcome_cok in Hd. apply cbind_ok in Ha as (t & Ht & Ha).
    apply cbind_ok in Ha as (y & Hy & Ha). apply of_outcome_cok in Hy.
    destruct (stop_refines now cfg a (option_map (map utf8_encode) add_r) (match add_r with Some l => l | None => [] end) file recs d t y rs'
                S Hd Ht (at_time_valid now cfg a t Hvt Ht) Hy (at_date_valid now _ d Hv Hd)) as (file' & recs' & He & S' & Hden & P'); try assumption.
    { destruct add_r; reflexivity. }
    exists file', recs'. split; [apply exec_of_simple; [reflexivity|exact He]|]. auto.
  - (* switch *)
    destruct Hpre as (Hvt & Hnb & Hsa & Hncr).
    apply cbind_ok in Ha as (d & Hd & Ha). apply of_outcome_cok in Hd. apply cbind_ok in Ha as (t & Ht & Ha).
    destruct (switch_refines now cfg a s file recs d t rs' S Hd Ht (at_time_valid now cfg a t Hvt Ht) Hnb
                (summaries_ok_of s recs (spec_state_wf _ _ S) Hsa Hncr) Ha) as (file' & recs' & He & S' & Hden & P').
    exists file', recs'. split; [apply exec_of_simple; [reflexivity|exact He]|]. auto.
  - (* create *)
    destruct Hpre as (Hv & Hsh & Hsum & Hcr).
    apply cbind_ok in Ha as (d & Hd & Ha). apply of_outcome_cok in Hd. injection Ha as <-.
    destruct (create_refines now cfg ds should srunes file recs d S Hd (at_date_valid now ds d Hv Hd) Hsh Hsum Hcr) as (file' & recs' & He & S' & Hden & P').
    exists file', recs'. split; [apply exec_of_simple; [reflexivity|exact He]|]. auto.
  - (* pause *)
    destruct Hpre as (Hsr & Hcr). pose proof (tags_ok_conforming recs (spec_state_wf _ _ S)) as Htags.
    apply cbind_ok in Ha as (y & Hy & Ha). apply of_outcome_cok in Hy.
    destruct (pause_refines now cfg (option_map (map utf8_encode) sr) (match sr with Some l => l | None => [] end) no_tags extend ticks file recs y rs'
                S Hy) as (file' & recs' & He & S' & Hden & P'); try assumption.
    { destruct sr; reflexivity. }
    exists file', recs'. auto.
Qed.

(* ---------------------------------------------------------------- histories *)

Definition history := list (Commands.clock * scommand).

Fixpoint exec_history (cfg : config) (h : history) (file : bytes) : bytes :=
  match h with
  | [] => file
  | (now, sc) :: rest => exec_history cfg rest (step_file now cfg file (to_command sc))
  end.

Fixpoint a_exec_history (cfg : config) (h : history) (rs : list record) : cresult (list record) :=
  match h with
  | [] => COk rs
  | (now, sc) :: rest => let+ rs' := a_exec now cfg sc rs in a_exec_history cfg rest rs'
  end.

(* the requirements on arguments and file hold at every step, on the file as it is at that step *)
Fixpoint history_pre (cfg : config) (h : history) (file : bytes) : Prop :=
  match h with
  | [] => True
  | (now, sc) :: rest =>
    (forall recs, spec_state file recs -> step_pre now cfg sc recs) /\
    history_pre cfg rest (step_file now cfg file (to_command sc))
  end.

Theorem history_refines cfg h : forall file recs rs',
  spec_state file recs -> history_pre cfg h file ->
  a_exec_history cfg h (denote_recs recs) = COk rs' ->
  exists recs', spec_state (exec_history cfg h file) recs' /\ denote_recs recs' = rs' /\
    exists bs', parse_text (exec_history cfg h file) = Ok (Parsed rs' bs').
Proof.
  induction h as [|[now sc] rest IH]; intros file recs rs' S Hpre Ha.
  - cbn [a_exec_history exec_history] in *. injection Ha as <-. exists recs. split; [exact S|]. split; [reflexivity|].
    destruct S as (lead & gs & C & _). eexists. exact (spec_file_parse _ _ _ _ C).
  - cbn [a_exec_history exec_history history_pre] in *. destruct Hpre as [Hstep Hrest].
    apply cbind_ok in Ha as (rs1 & H1 & Ha).
    destruct (exec_refines now cfg sc file recs rs1 S (Hstep recs S) H1) as (file1 & recs1 & He & S1 & Hden1 & _).
    assert (Ef : step_file now cfg file (to_command sc) = file1) by (unfold step_file; rewrite He; reflexivity).
    rewrite Ef in *. rewrite <- Hden1 in Ha. exact (IH file1 recs1 rs' S1 Hrest Ha).
Qed.
