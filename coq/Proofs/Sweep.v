(* Finite sweeps: a boolean check over an interval of Z, evaluated by vm_compute, lifted to forall. *)
From Klog Require Import Base.Prelude.
Open Scope Z_scope.

Fixpoint range_forallb (f : Z -> bool) (lo : Z) (n : nat) : bool :=
  match n with
  | O => true
  | S k => f lo && range_forallb f (lo + 1) k
  end.

Lemma range_forallb_sound f n : forall lo,
  range_forallb f lo n = true -> forall z, lo <= z < lo + Z.of_nat n -> f z = true.
Proof.
  induction n as [|k IH]; intros lo H z Hz.
  - simpl in Hz. lia.
  - simpl in H. apply andb_true_iff in H as [H0 H1].
    destruct (Z.eq_dec z lo) as [->|Hne]; [exact H0|].
    apply (IH (lo + 1)); [exact H1 | lia].
Qed.
