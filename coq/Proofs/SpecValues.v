(* SpecValues — layer L0 of C01: every value literal of the specification (Spec/Spec.v) is read by the model's
   value parsers (Model/Values.v) as the value it denotes; decimal lemmas; print = render of the canonical spelling. *)
From Klog Require Import Base.Prelude Base.Utf8 Model.Calendar Model.Values Model.Record Model.Lines
  Proofs.Sweep Proofs.Values Spec.Spec.
From Coq Require Import ZifyBool.
Open Scope Z_scope.

(* ================= decimal ================= *)

Lemma digit_is_digit c : digit c = is_digit c.
Proof. reflexivity. Qed.
Lemma digit_is_digit_forall ds : forallb digit ds = forallb is_digit ds.
Proof. reflexivity. Qed.

Lemma integer_value_gen ds : forall a,
  fold_left (fun acc c => 10 * acc + (Z.of_N c - 48)) ds a = fold_left (fun acc c => acc * 10 + digit_val c) ds a.
Proof. induction ds as [|c ds IH]; intros a; cbn [fold_left]; [reflexivity|]. rewrite IH. f_equal. unfold digit_val. lia. Qed.

Lemma integer_value_digits_val ds : integer_value ds = digits_val ds.
Proof. apply integer_value_gen. Qed.

Lemma digits_val_app a b : digits_val (a ++ b) = fold_left (fun acc c => acc * 10 + digit_val c) b (digits_val a).
Proof. unfold digits_val. apply fold_left_app. Qed.

Lemma digits_val_snoc a c : digits_val (a ++ [c]) = digits_val a * 10 + digit_val c.
Proof. rewrite digits_val_app. reflexivity. Qed.

Lemma digits_val_nonneg_gen ds : forall a, 0 <= a -> forallb is_digit ds = true ->
  0 <= fold_left (fun acc c => acc * 10 + digit_val c) ds a.
Proof.
  induction ds as [|c ds IH]; intros a Ha H; cbn [fold_left forallb] in *; [exact Ha|].
  apply andb_true_iff in H as [Hc H]. apply IH; [|exact H]. unfold is_digit, digit_val in *. lia.
Qed.

Lemma digits_val_nonneg ds : forallb is_digit ds = true -> 0 <= digits_val ds.
Proof. apply digits_val_nonneg_gen. lia. Qed.

Lemma dchar_digit_char d : dchar d = digit_char d.
Proof. unfold dchar, digit_char. f_equal. lia. Qed.

Lemma is_digit_dchar d : 0 <= d <= 9 -> is_digit (dchar d) = true.
Proof. intros H. unfold is_digit, dchar. lia. Qed.

Lemma digit_val_dchar d : 0 <= d -> digit_val (dchar d) = d.
Proof. intros H. unfold digit_val, dchar. lia. Qed.

(* the specification's decimal and the model's (Go's strconv.Itoa) agree on non-negative numbers *)
Lemma digits_fuel_dec_fuel k : forall z acc, 0 <= z -> digits_fuel k z acc = dec_fuel k z acc.
Proof.
  induction k as [|k IH]; intros z acc Hz; cbn [digits_fuel dec_fuel]; [reflexivity|].
  destruct (z <? 10) eqn:E.
  - rewrite dchar_digit_char. f_equal. f_equal. rewrite Z.mod_small; lia.
  - rewrite dchar_digit_char. apply IH. apply Z.div_pos; lia.
Qed.

Lemma decimal_dec_nonneg z : 0 <= z -> decimal z = dec_nonneg z.
Proof. intros H. apply digits_fuel_dec_fuel. exact H. Qed.

Lemma dec_of_nonneg z : 0 <= z -> dec z = decimal z.
Proof. intros H. unfold dec. destruct (z <? 0) eqn:E; [lia|]. symmetry. apply decimal_dec_nonneg. exact H. Qed.

(* enough fuel: z < 2^k *)
Lemma digits_fuel_value k : forall z acc, 0 <= z < 2 ^ Z.of_nat k ->
  fold_left (fun acc c => acc * 10 + digit_val c) (digits_fuel k z acc) 0
  = fold_left (fun acc c => acc * 10 + digit_val c) acc z.
Proof.
  induction k as [|k IH]; intros z acc Hz.
  - cbn [digits_fuel]. change (2 ^ Z.of_nat 0) with 1 in Hz. replace z with 0 by lia. reflexivity.
  - cbn [digits_fuel]. destruct (z <? 10) eqn:E.
    + cbn [fold_left]. rewrite digit_val_dchar by lia. f_equal.
    + rewrite IH.
      * cbn [fold_left]. rewrite digit_val_dchar by (apply Z.mod_pos_bound; lia). f_equal.
        pose proof (Z.div_mod z 10 ltac:(lia)). lia.
      * rewrite Nat2Z.inj_succ, Z.pow_succ_r in Hz by lia.
        split; [apply Z.div_pos; lia|]. apply Z.div_lt_upper_bound; lia.
Qed.

Lemma log2_fuel z : 0 <= z -> 0 <= z < 2 ^ Z.of_nat (S (Z.to_nat (Z.log2 z))).
Proof.
  intros Hz. split; [exact Hz|].
  rewrite Nat2Z.inj_succ, Z2Nat.id by apply Z.log2_nonneg.
  destruct (Z.eq_dec z 0) as [->|Hne]; [reflexivity|].
  apply Z.log2_spec. lia.
Qed.

Lemma decimal_value z : 0 <= z -> digits_val (decimal z) = z.
Proof. intros Hz. unfold digits_val, decimal. rewrite digits_fuel_value by (apply log2_fuel; exact Hz). reflexivity. Qed.

Lemma digits_fuel_digits k : forall z acc, 0 <= z -> forallb is_digit acc = true ->
  forallb is_digit (digits_fuel k z acc) = true.
Proof.
  induction k as [|k IH]; intros z acc Hz Ha; cbn [digits_fuel]; [exact Ha|].
  destruct (z <? 10) eqn:E.
  - cbn [forallb]. rewrite is_digit_dchar by lia. exact Ha.
  - apply IH; [apply Z.div_pos; lia|]. cbn [forallb]. rewrite is_digit_dchar; [exact Ha|].
    pose proof (Z.mod_pos_bound z 10 ltac:(lia)). lia.
Qed.

Lemma digits_fuel_length k : forall z acc, (length acc <= length (digits_fuel k z acc))%nat.
Proof.
  induction k as [|k IH]; intros z acc; cbn [digits_fuel]; [lia|].
  destruct (z <? 10); [cbn [length]; lia|]. etransitivity; [|apply IH]. cbn [length]. lia.
Qed.

Lemma decimal_digits z : 0 <= z -> forallb is_digit (decimal z) = true.
Proof. intros Hz. apply digits_fuel_digits; [exact Hz|reflexivity]. Qed.

Lemma decimal_nonempty z : decimal z <> [].
Proof.
  unfold decimal. cbn [digits_fuel]. destruct (z <? 10); [discriminate|].
  intros H. pose proof (digits_fuel_length (Z.to_nat (Z.log2 z)) (z / 10) [dchar (z mod 10)]) as L.
  rewrite H in L. cbn [length] in L. lia.
Qed.

Lemma decimal_integer_ok z : 0 <= z -> integer_ok (decimal z) = true.
Proof.
  intros Hz. unfold integer_ok. rewrite digit_is_digit_forall. rewrite decimal_digits by exact Hz.
  destruct (decimal z) eqn:E; [exfalso; exact (decimal_nonempty z E)|reflexivity].
Qed.

(* ================= fixed-width decimals (small sweeps, bounds in the statements) ================= *)

Definition two_check (n : Z) : bool :=
  bytes_eqb (pad_left 2 (dec n)) (two_digits n)
  && bytes_eqb (dec n) (if n <? 10 then [dchar n] else two_digits n).

Lemma two_sweep : range_forallb two_check 0 100 = true.
Proof. vm_cast_no_check (eq_refl true). Qed.

Lemma pad2_two_digits n : 0 <= n <= 99 -> pad_left 2 (dec n) = two_digits n.
Proof.
  intros H. pose proof (range_forallb_sound _ _ _ two_sweep n ltac:(lia)) as C.
  apply andb_true_iff in C as [C _]. apply bytes_eqb_eq. exact C.
Qed.

Lemma dec_small n : 0 <= n <= 99 -> dec n = if n <? 10 then [dchar n] else two_digits n.
Proof.
  intros H. pose proof (range_forallb_sound _ _ _ two_sweep n ltac:(lia)) as C.
  apply andb_true_iff in C as [_ C]. apply bytes_eqb_eq. exact C.
Qed.

Definition four_check (n : Z) : bool := bytes_eqb (pad_left 4 (dec n)) (four_digits n).

Lemma four_sweep : range_forallb four_check 0 (Z.to_nat 10000) = true.
Proof. vm_cast_no_check (eq_refl true). Qed.

Lemma pad4_four_digits n : 0 <= n <= 9999 -> pad_left 4 (dec n) = four_digits n.
Proof.
  intros H. pose proof (range_forallb_sound _ _ _ four_sweep n ltac:(lia)) as C.
  apply bytes_eqb_eq. exact C.
Qed.

Lemma two_digits_digits n : 0 <= n <= 99 -> forallb is_digit (two_digits n) = true.
Proof.
  intros H. unfold two_digits. cbn [forallb].
  rewrite !is_digit_dchar; [reflexivity| |].
  - pose proof (Z.mod_pos_bound n 10 ltac:(lia)). lia.
  - split; [apply Z.div_pos; lia|]. apply Z.lt_succ_r. apply Z.div_lt_upper_bound; lia.
Qed.

Lemma two_digits_value n : 0 <= n <= 99 -> digits_val (two_digits n) = n.
Proof.
  intros H. unfold two_digits, digits_val. cbn [fold_left].
  rewrite !digit_val_dchar.
  - pose proof (Z.div_mod n 10 ltac:(lia)). lia.
  - apply Z.mod_pos_bound; lia.
  - apply Z.div_pos; lia.
Qed.

Lemma four_digits_value n : 0 <= n <= 9999 -> digits_val (four_digits n) = n.
Proof.
  intros H. unfold four_digits, digits_val. cbn [fold_left].
  assert (0 <= n / 1000) by (apply Z.div_pos; lia).
  pose proof (Z.mod_pos_bound (n / 100) 10 ltac:(lia)).
  pose proof (Z.mod_pos_bound (n / 10) 10 ltac:(lia)).
  pose proof (Z.mod_pos_bound n 10 ltac:(lia)).
  rewrite !digit_val_dchar by lia.
  Z.div_mod_to_equations. lia.
Qed.

Lemma four_digits_digits n : 0 <= n <= 9999 -> forallb is_digit (four_digits n) = true.
Proof.
  intros H. unfold four_digits. cbn [forallb].
  rewrite !is_digit_dchar; [reflexivity| | | |]; Z.div_mod_to_equations; lia.
Qed.

(* ================= dates ================= *)

Lemma month_length_days_in_month y m : month_length y m = days_in_month y m.
Proof.
  unfold month_length, days_in_month, leap_year, is_leap.
  destruct m as [|p|p]; try reflexivity.
  do 4 (try destruct p as [p|p|]; try reflexivity).
Qed.

Lemma wf_date_valid_ymd d : wf_date d = valid_ymd (sd_year d) (sd_month d) (sd_day d).
Proof. unfold wf_date, valid_ymd. rewrite month_length_days_in_month. reflexivity. Qed.

Lemma parse_date_digits a b c d e f g h (dash : bool) :
  forallb is_digit [a; b; c; d; e; f; g; h] = true ->
  let sep := if dash then ch_minus else ch_slash in
  parse_date [a; b; c; d; sep; e; f; sep; g; h] =
  if valid_ymd (digits_val [a; b; c; d]) (digits_val [e; f]) (digits_val [g; h])
  then Ok {| dt := {| c_year := digits_val [a; b; c; d]; c_month := digits_val [e; f]; c_day := digits_val [g; h] |};
             dt_dashes := dash |}
  else Err EUnrepresentableDate.
Proof.
  cbn [forallb]. intros H. repeat (apply andb_true_iff in H as [? H]).
  cbv zeta. unfold parse_date.
  repeat match goal with Hd : is_digit _ = true |- _ => rewrite Hd; clear Hd end.
  destruct dash; reflexivity.
Qed.

(* L0, dates: every date literal of the specification (all Gregorian dates 0000-9999, both separators) *)
Lemma parse_render_date d : wf_date d = true -> parse_date (render_date d) = Ok (denote_date d).
Proof.
  intros W. pose proof W as V. rewrite wf_date_valid_ymd in V.
  unfold wf_date in W.
  assert (Hy : 0 <= sd_year d <= 9999) by lia.
  assert (Hm : 0 <= sd_month d <= 99) by lia.
  assert (Hd : 0 <= sd_day d <= 99).
  { split; [lia|]. rewrite month_length_days_in_month in W. unfold days_in_month in W.
    destruct (sd_month d =? 2); [destruct (is_leap (sd_year d)); lia|].
    destruct ((sd_month d =? 4) || (sd_month d =? 6) || (sd_month d =? 9) || (sd_month d =? 11)); lia. }
  pose proof (four_digits_digits _ Hy) as D4. pose proof (two_digits_digits _ Hm) as D2. pose proof (two_digits_digits _ Hd) as D2'.
  pose proof (four_digits_value _ Hy) as V4. pose proof (two_digits_value _ Hm) as V2. pose proof (two_digits_value _ Hd) as V2'.
  unfold render_date, four_digits, two_digits in *. cbn [app].
  cbn [forallb] in D4, D2, D2'.
  change 45%N with ch_minus. change 47%N with ch_slash.
  rewrite (parse_date_digits _ _ _ _ _ _ _ _ (sd_dash d)).
  - rewrite V4, V2, V2', V. reflexivity.
  - cbn [forallb]. repeat (apply andb_true_iff in D4 as [? D4]). repeat (apply andb_true_iff in D2 as [? D2]).
    repeat (apply andb_true_iff in D2' as [? D2']).
    rewrite H, H0, H1, H2, H3, H4, H5, H6. reflexivity.
Qed.

(* Date.ToString writes the specification's spelling *)
Lemma print_date_render d : valid_cdate (dt d) = true -> print_date d = render_date (canon_date d).
Proof.
  unfold valid_cdate, valid_ymd. intros V.
  assert (Hd : c_day (dt d) <= 31).
  { unfold days_in_month in V. destruct (c_month (dt d) =? 2); [destruct (is_leap (c_year (dt d))); lia|].
    destruct ((c_month (dt d) =? 4) || (c_month (dt d) =? 6) || (c_month (dt d) =? 9) || (c_month (dt d) =? 11)); lia. }
  unfold print_date, render_date, canon_date. cbn [sd_year sd_month sd_day sd_dash].
  rewrite pad4_four_digits, !pad2_two_digits by lia.
  destruct (dt_dashes d); reflexivity.
Qed.

Lemma denote_canon_date d : denote_date (canon_date d) = d.
Proof. destruct d as [[y m dd] f]. reflexivity. Qed.

Lemma wf_canon_date d : valid_cdate (dt d) = true -> wf_date (canon_date d) = true.
Proof. intros V. rewrite wf_date_valid_ymd. exact V. Qed.

Lemma date_roundtrip d : valid_cdate (dt d) = true -> parse_date (print_date d) = Ok d.
Proof.
  intros V. rewrite print_date_render by exact V. rewrite parse_render_date by (apply wf_canon_date; exact V).
  rewrite denote_canon_date. reflexivity.
Qed.

(* ================= times ================= *)

(* a time literal begins with `<` or with one or two digits and a colon: it cannot begin a duration *)
Definition time_shape (s : text) : bool :=
  match s with
  | c :: r =>
    if (c =? 60)%N then true else
    is_digit c && match r with
                  | c2 :: r2 => (c2 =? 58)%N || (is_digit c2 && match r2 with c3 :: _ => (c3 =? 58)%N | [] => false end)
                  | [] => false
                  end
  | [] => false
  end.

(* no dash, space or tab inside, all ASCII *)
Definition plain_char (c : N) : bool := negb (c =? 45)%N && negb (c =? 32)%N && negb (c =? 9)%N && (c <? 128)%N.

Definition valid_time_b (t : time) : bool :=
  (0 <=? t_hour t) && (t_hour t <=? 23) && (0 <=? t_min t) && (t_min t <=? 59) && (-1 <=? t_shift t) && (t_shift t <=? 1).

Lemma valid_time_b_spec t : valid_time_b t = true <-> valid_time t.
Proof. unfold valid_time_b, valid_time. lia. Qed.

Definition st_check (t : s_time) : bool :=
  negb (wf_time t) ||
  (match parse_time (render_time t) with Ok t' => time_eqb_full t' (denote_time t) | _ => false end
   && valid_time_b (denote_time t)
   && (time_offset (denote_time t) =? timeline t)
   && forallb plain_char (render_time t)
   && time_shape (render_time t)
   && text_ok (render_time t)
   && forallb (fun c => (48 <=? c)%N) (render_time t)).

Lemma st_sweep_true :
  range_forallb (fun s => range_forallb (fun h => range_forallb (fun m =>
    forallb (fun p => forallb (fun c =>
      st_check {| st_shift := s; st_hh := h; st_pad := p; st_mm := m; st_clock := c |}) [C24; CAm; CPm]) [true; false])
    0 60) 0 25) (-1) 3 = true.
Proof. vm_cast_no_check (eq_refl true). Qed.

Lemma st_all t : wf_time t = true -> st_check t = true.
Proof.
  intros W. pose proof W as W'. unfold wf_time in W'.
  assert (Hs : -1 <= st_shift t < -1 + Z.of_nat 3) by lia.
  assert (Hm : 0 <= st_mm t < 0 + Z.of_nat 60) by lia.
  assert (Hh : 0 <= st_hh t < 0 + Z.of_nat 25) by (destruct (st_clock t); lia).
  pose proof st_sweep_true as S.
  apply range_forallb_sound with (z := st_shift t) in S; [|exact Hs].
  apply range_forallb_sound with (z := st_hh t) in S; [|exact Hh].
  apply range_forallb_sound with (z := st_mm t) in S; [|exact Hm].
  rewrite forallb_forall in S. specialize (S (st_pad t) ltac:(destruct (st_pad t); cbn; auto)).
  rewrite forallb_forall in S. specialize (S (st_clock t) ltac:(destruct (st_clock t); cbn; auto)).
  destruct t; exact S.
Qed.

Section TimeFacts.
  Variable t : s_time.
  Hypothesis W : wf_time t = true.

  Let C : st_check t = true := st_all t W.

  Lemma st_facts :
    parse_time (render_time t) = Ok (denote_time t)
    /\ valid_time (denote_time t)
    /\ time_offset (denote_time t) = timeline t
    /\ forallb plain_char (render_time t) = true
    /\ time_shape (render_time t) = true
    /\ text_ok (render_time t) = true
    /\ forallb (fun c => (48 <=? c)%N) (render_time t) = true.
  Proof.
    pose proof C as H. unfold st_check in H. rewrite W in H. cbn [negb orb] in H.
    repeat (apply andb_true_iff in H as [H ?]).
    split; [|split; [|split; [|split; [|split; [|split]]]]]; try assumption.
    - destruct (parse_time (render_time t)) as [t'| |]; try discriminate.
      apply time_eqb_full_eq in H. congruence.
    - apply valid_time_b_spec. assumption.
    - lia.
  Qed.
End TimeFacts.

(* L0, times: every time literal of the specification *)
Lemma parse_render_time t : wf_time t = true -> parse_time (render_time t) = Ok (denote_time t).
Proof. intros W. apply (st_facts t W). Qed.
Lemma denote_time_valid t : wf_time t = true -> valid_time (denote_time t).
Proof. intros W. apply (st_facts t W). Qed.
Lemma timeline_offset t : wf_time t = true -> time_offset (denote_time t) = timeline t.
Proof. intros W. apply (st_facts t W). Qed.
Lemma render_time_plain t : wf_time t = true -> forallb plain_char (render_time t) = true.
Proof. intros W. apply (st_facts t W). Qed.
Lemma render_time_shape t : wf_time t = true -> time_shape (render_time t) = true.
Proof. intros W. apply (st_facts t W). Qed.
Lemma render_time_text_ok t : wf_time t = true -> text_ok (render_time t) = true.
Proof. intros W. apply (st_facts t W). Qed.
Lemma render_time_ge48 t : wf_time t = true -> forallb (fun c => (48 <=? c)%N) (render_time t) = true.
Proof. intros W. apply (st_facts t W). Qed.

(* Time.ToString writes a specification spelling (no padding, no 24:00), and that spelling denotes the time *)
Definition ct_check (t : time) : bool :=
  bytes_eqb (print_time t) (render_time (canon_time t))
  && wf_time (canon_time t)
  && time_eqb_full (denote_time (canon_time t)) t.

Lemma ct_sweep_true :
  range_forallb (fun h => range_forallb (fun m => range_forallb (fun s => forallb (fun f =>
    ct_check {| t_hour := h; t_min := m; t_shift := s; t_24h := f |}) [true; false]) (-1) 3) 0 60) 0 24 = true.
Proof. vm_cast_no_check (eq_refl true). Qed.

Lemma ct_all t : valid_time t ->
  print_time t = render_time (canon_time t) /\ wf_time (canon_time t) = true /\ denote_time (canon_time t) = t.
Proof.
  intros (Hh & Hm & Hs). pose proof ct_sweep_true as S.
  apply range_forallb_sound with (z := t_hour t) in S; [|lia].
  apply range_forallb_sound with (z := t_min t) in S; [|lia].
  apply range_forallb_sound with (z := t_shift t) in S; [|lia].
  rewrite forallb_forall in S. specialize (S (t_24h t) ltac:(destruct (t_24h t); cbn; auto)).
  assert (E : {| t_hour := t_hour t; t_min := t_min t; t_shift := t_shift t; t_24h := t_24h t |} = t) by (destruct t; reflexivity).
  rewrite E in S. unfold ct_check in S.
  repeat (apply andb_true_iff in S as [S ?]).
  split; [apply bytes_eqb_eq; assumption|]. split; [assumption|]. apply time_eqb_full_eq. assumption.
Qed.

(* ================= durations ================= *)

Lemma span_digits ds r : forallb is_digit ds = true ->
  match r with c :: _ => is_digit c = false | [] => True end ->
  span is_digit (ds ++ r) = (ds, r).
Proof.
  intros Hd Hr. induction ds as [|c ds IH]; cbn [app span forallb] in *.
  - destruct r as [|c r]; [reflexivity|]. cbn [span]. rewrite Hr. reflexivity.
  - apply andb_true_iff in Hd as [Hc Hd]. rewrite Hc, (IH Hd). reflexivity.
Qed.

(* match_duration after the sign has been split off *)
Definition md_body (sg : N) (s1 : bytes) : option dur_match :=
  let '(ds1, r1) := span is_digit s1 in
  match ds1, r1 with
  | [], [] => Some {| dm_sign := sg; dm_h := []; dm_m := [] |}
  | [], _ => None
  | _, c :: r2 =>
    if (c =? ch_h)%N then
      let '(ds2, r3) := span is_digit r2 in
      match ds2, r3 with
      | [], [] => Some {| dm_sign := sg; dm_h := ds1; dm_m := [] |}
      | [], _ => None
      | _, [c2] => if (c2 =? ch_m)%N then Some {| dm_sign := sg; dm_h := ds1; dm_m := ds2 |} else None
      | _, _ => None
      end
    else if (c =? ch_m)%N then
      match r2 with
      | [] => Some {| dm_sign := sg; dm_h := []; dm_m := ds1 |}
      | _ => None
      end
    else None
  | _, [] => None
  end.

Lemma match_duration_signed x r : (x =? ch_minus)%N || (x =? ch_plus)%N = true -> match_duration (x :: r) = md_body x r.
Proof. intros H. unfold match_duration, md_body. rewrite H. reflexivity. Qed.

Lemma match_duration_unsigned x r : (x =? ch_minus)%N || (x =? ch_plus)%N = false -> match_duration (x :: r) = md_body 0%N (x :: r).
Proof. intros H. unfold match_duration, md_body. rewrite H. reflexivity. Qed.

Lemma digit_not_sign c : is_digit c = true -> (c =? ch_minus)%N || (c =? ch_plus)%N = false.
Proof. unfold is_digit, ch_minus, ch_plus. lia. Qed.

Lemma md_body_hm sg hs ms : hs <> [] -> ms <> [] -> forallb is_digit hs = true -> forallb is_digit ms = true ->
  md_body sg (hs ++ [ch_h] ++ ms ++ [ch_m]) = Some {| dm_sign := sg; dm_h := hs; dm_m := ms |}.
Proof.
  intros Nh Nm Dh Dm. unfold md_body.
  rewrite span_digits by (try assumption; reflexivity). cbn [app].
  destruct hs as [|h0 hs']; [congruence|].
  rewrite N.eqb_refl. rewrite span_digits by (try assumption; reflexivity).
  destruct ms as [|m0 ms']; [congruence|]. rewrite N.eqb_refl. reflexivity.
Qed.

Lemma md_body_h sg hs : hs <> [] -> forallb is_digit hs = true ->
  md_body sg (hs ++ [ch_h]) = Some {| dm_sign := sg; dm_h := hs; dm_m := [] |}.
Proof.
  intros Nh Dh. unfold md_body.
  rewrite span_digits by (try assumption; reflexivity).
  destruct hs as [|h0 hs']; [congruence|].
  rewrite N.eqb_refl. reflexivity.
Qed.

Lemma md_body_m sg ms : ms <> [] -> forallb is_digit ms = true ->
  md_body sg (ms ++ [ch_m]) = Some {| dm_sign := sg; dm_h := []; dm_m := ms |}.
Proof.
  intros Nm Dm. unfold md_body.
  rewrite span_digits by (try assumption; reflexivity).
  destruct ms as [|m0 ms']; [congruence|].
  change ((ch_m =? ch_h)%N) with false. cbv iota. rewrite N.eqb_refl. reflexivity.
Qed.

Definition sign_char (s : dsign) : N := match s with SNone => 0%N | SPlus => ch_plus | SMinus => ch_minus end.
Definition opt_digits (o : option text) : bytes := match o with Some ds => ds | None => [] end.

Lemma integer_ok_inv ds : integer_ok ds = true -> ds <> [] /\ forallb is_digit ds = true.
Proof.
  unfold integer_ok. intros H. apply andb_true_iff in H as [H1 H2]. split; [|exact H2].
  destruct ds; [discriminate|discriminate].
Qed.

(* the regular expression of durations accepts every literal of the right shape, with the parts as written *)
Lemma match_render_dur d : dur_shape d = true ->
  match_duration (render_dur d) = Some {| dm_sign := sign_char (du_sign d); dm_h := opt_digits (du_h d); dm_m := opt_digits (du_m d) |}
  /\ (opt_digits (du_h d) <> [] \/ opt_digits (du_m d) <> []).
Proof.
  unfold dur_shape, render_dur. intros W.
  repeat (apply andb_true_iff in W as [W ?]).
  destruct (du_h d) as [hs|], (du_m d) as [ms|]; cbn [present orb opt_ok opt_digits] in *; try discriminate.
  - apply integer_ok_inv in H1 as [Nh Dh]. apply integer_ok_inv in H0 as [Nm Dm].
    split; [|left; exact Nh].
    assert (B : forall sg, md_body sg ((hs ++ [104%N]) ++ (ms ++ [109%N]) ) = Some {| dm_sign := sg; dm_h := hs; dm_m := ms |}).
    { intros sg. rewrite <- app_assoc. apply md_body_hm; assumption. }
    destruct hs as [|h0 hs']; [congruence|]. cbn [forallb] in Dh. apply andb_true_iff in Dh as [Dh0 Dh].
    destruct (du_sign d); cbn [app sign_char].
    + rewrite match_duration_unsigned by (apply digit_not_sign; exact Dh0). apply B.
    + rewrite match_duration_signed by reflexivity. apply B.
    + rewrite match_duration_signed by reflexivity. apply B.
  - apply integer_ok_inv in H1 as [Nh Dh].
    split; [|left; exact Nh].
    assert (B : forall sg, md_body sg ((hs ++ [104%N]) ++ []) = Some {| dm_sign := sg; dm_h := hs; dm_m := [] |}).
    { intros sg. rewrite app_nil_r. apply md_body_h; assumption. }
    destruct hs as [|h0 hs']; [congruence|]. cbn [forallb] in Dh. apply andb_true_iff in Dh as [Dh0 Dh].
    destruct (du_sign d); cbn [app sign_char].
    + rewrite match_duration_unsigned by (apply digit_not_sign; exact Dh0). apply B.
    + rewrite match_duration_signed by reflexivity. apply B.
    + rewrite match_duration_signed by reflexivity. apply B.
  - apply integer_ok_inv in H0 as [Nm Dm].
    split; [|right; exact Nm].
    assert (B : forall sg, md_body sg (ms ++ [109%N]) = Some {| dm_sign := sg; dm_h := []; dm_m := ms |}).
    { intros sg. apply md_body_m; assumption. }
    destruct ms as [|m0 ms']; [congruence|]. cbn [forallb] in Dm. apply andb_true_iff in Dm as [Dm0 Dm].
    destruct (du_sign d); cbn [app sign_char].
    + rewrite match_duration_unsigned by (apply digit_not_sign; exact Dm0). apply B.
    + rewrite match_duration_signed by reflexivity. apply B.
    + rewrite match_duration_signed by reflexivity. apply B.
Qed.

Lemma opt_value_digits o : opt_value o = digits_val (opt_digits o).
Proof. destruct o; [apply integer_value_digits_val|reflexivity]. Qed.

Lemma opt_value_nonneg o : opt_ok o = true -> 0 <= opt_value o.
Proof.
  destruct o as [ds|]; cbn [opt_ok opt_value]; [|lia].
  intros H. apply integer_ok_inv in H as [_ H]. rewrite integer_value_digits_val. apply digits_val_nonneg. exact H.
Qed.

Lemma atoi_or_zero ds : digits_val ds <= max_int64 ->
  match ds with [] => Some 0 | _ => atoi_digits ds end = Some (digits_val ds).
Proof.
  intros H. destruct ds as [|c r]; [reflexivity|]. unfold atoi_digits.
  destruct (digits_val (c :: r) <=? max_int64) eqn:E; [reflexivity|lia].
Qed.

Lemma atoi_or_zero_big ds : max_int64 < digits_val ds ->
  match ds with [] => Some 0 | _ => atoi_digits ds end = None.
Proof.
  intros H. destruct ds as [|c r]; [exfalso; unfold max_int64 in H; cbn in H; lia|]. unfold atoi_digits.
  destruct (digits_val (c :: r) <=? max_int64) eqn:E; [lia|reflexivity].
Qed.

(* the value computed from the capture groups *)
Lemma sm_ok_spec x : sm_ok x = true <-> - max_int64 <= x <= max_int64.
Proof. unfold sm_ok, sm_min. lia. Qed.

Lemma mul64_60 a : Z.abs a <= 153722867280912930 -> mul64 a 60 = Some (a * 60).
Proof.
  intros H. unfold mul64. change (Z.abs 60) with 60. change (max_int64 / 60) with 153722867280912930.
  assert (sm_ok a = true) by (apply sm_ok_spec; unfold max_int64; lia).
  match goal with |- (if ?c then _ else _) = _ => destruct c eqn:E end; [reflexivity|].
  rewrite H0 in E. change (sm_ok 60) with true in E. cbn [andb] in E. lia.
Qed.

Lemma add64_ok a b : - max_int64 <= a <= max_int64 -> - max_int64 <= b <= max_int64 -> - max_int64 <= a + b <= max_int64 ->
  add64 a b = Some (a + b).
Proof.
  intros Ha Hb Hc. unfold add64. apply sm_ok_spec in Ha, Hb, Hc. rewrite Ha, Hb, Hc. reflexivity.
Qed.

Lemma new_duration_fmt_ok h m sg plus zs : 0 <= h -> 0 <= m -> 60 * h + m <= max_int64 -> (sg = 1 \/ sg = -1) ->
  new_duration_fmt (sg * h) (sg * m) plus zs = Ok {| d_mins := sg * (60 * h + m); d_plus := plus; d_zsign := zs |}.
Proof.
  intros Hh Hm Hb Hs. unfold new_duration_fmt.
  rewrite mul64_60 by (unfold max_int64 in Hb; destruct Hs as [-> | ->]; lia).
  rewrite add64_ok by (unfold max_int64 in *; destruct Hs as [-> | ->]; lia).
  f_equal. f_equal. lia.
Qed.

Lemma parse_duration_of_match s m : match_duration s = Some m ->
  dm_h m <> [] \/ dm_m m <> [] ->
  0 <= digits_val (dm_h m) -> 0 <= digits_val (dm_m m) ->
  60 * digits_val (dm_h m) + digits_val (dm_m m) <= max_int64 -> (dm_h m <> [] -> digits_val (dm_m m) < 60) ->
  parse_duration s =
  let sg := if (dm_sign m =? ch_minus)%N then -1 else 1 in
  let a := 60 * digits_val (dm_h m) + digits_val (dm_m m) in
  Ok {| d_mins := sg * a; d_plus := (dm_sign m =? ch_plus)%N;
        d_zsign := if (a =? 0) && negb (dm_sign m =? 0)%N then sg else 0 |}.
Proof.
  intros M Hne Hh Hm Hb H60. unfold parse_duration. rewrite M. cbv zeta.
  assert (S1 : (if (dm_sign m =? ch_minus)%N then -1 else 1) = 1 \/ (if (dm_sign m =? ch_minus)%N then -1 else 1) = -1)
    by (destruct (dm_sign m =? ch_minus)%N; auto).
  remember (if (dm_sign m =? ch_minus)%N then -1 else 1) as sg eqn:Esg. clear Esg.
  remember (negb (dm_sign m =? 0)%N) as nz eqn:Enz. clear Enz.
  destruct (dm_h m) as [|hc hr] eqn:Eh; destruct (dm_m m) as [|mc mr] eqn:Em.
  - exfalso. destruct Hne; congruence.
  - change (digits_val []) with 0 in *. unfold atoi_digits.
    destruct (digits_val (mc :: mr) <=? max_int64) eqn:E; [|lia].
    cbn [andb]. rewrite new_duration_fmt_ok by (try assumption; lia).
    replace ((0 =? 0) && (digits_val (mc :: mr) =? 0)) with (60 * 0 + digits_val (mc :: mr) =? 0) by lia. reflexivity.
  - change (digits_val []) with 0 in *. unfold atoi_digits.
    destruct (digits_val (hc :: hr) <=? max_int64) eqn:E; [|lia].
    change (true && (60 <=? 0)) with false. cbv iota. rewrite new_duration_fmt_ok by (try assumption; lia).
    replace ((digits_val (hc :: hr) =? 0) && (0 =? 0)) with (60 * digits_val (hc :: hr) + 0 =? 0) by lia. reflexivity.
  - unfold atoi_digits.
    destruct (digits_val (hc :: hr) <=? max_int64) eqn:E; [|lia].
    destruct (digits_val (mc :: mr) <=? max_int64) eqn:E2; [|lia].
    assert (digits_val (mc :: mr) < 60) by (apply H60; discriminate).
    destruct (true && (60 <=? digits_val (mc :: mr))) eqn:E3; [lia|].
    rewrite new_duration_fmt_ok by (try assumption; lia).
    replace ((digits_val (hc :: hr) =? 0) && (digits_val (mc :: mr) =? 0)) with (60 * digits_val (hc :: hr) + digits_val (mc :: mr) =? 0) by lia.
    reflexivity.
Qed.

Lemma denote_dur_sign d :
  (if (sign_char (du_sign d) =? ch_minus)%N then -1 else 1) = sign_factor (du_sign d)
  /\ (sign_char (du_sign d) =? ch_plus)%N = match du_sign d with SPlus => true | _ => false end
  /\ negb (sign_char (du_sign d) =? 0)%N = match du_sign d with SNone => false | _ => true end.
Proof. destruct (du_sign d); repeat split; reflexivity. Qed.

(* L0, durations: every duration literal of the specification whose amount fits int64 *)
Lemma parse_render_dur d : wf_dur d = true -> parse_duration (render_dur d) = Ok (denote_dur d).
Proof.
  unfold wf_dur. intros W. apply andb_true_iff in W as [Sh Hb].
  destruct (match_render_dur d Sh) as [M Hne].
  pose proof Sh as Sh'. unfold dur_shape in Sh'. repeat (apply andb_true_iff in Sh' as [Sh' ?]).
  pose proof (opt_value_nonneg _ H1) as Nh. pose proof (opt_value_nonneg _ H0) as Nm.
  unfold dur_amount in Hb. rewrite !opt_value_digits in *.
  rewrite (parse_duration_of_match _ _ M); cbn [dm_h dm_m dm_sign]; try assumption.
  - cbv zeta. destruct (denote_dur_sign d) as (E1 & E2 & E3). rewrite E1, E2, E3.
    unfold denote_dur, dur_amount. rewrite !opt_value_digits.
    f_equal. f_equal.
    destruct (60 * digits_val (opt_digits (du_h d)) + digits_val (opt_digits (du_m d)) =? 0); destruct (du_sign d); reflexivity.
  - unfold max_int64. lia.
  - intros Nh'. destruct (du_h d); cbn [opt_digits present] in *; [lia|congruence].
Qed.

(* beyond the guard the value constructor panics (finding K5): the guard of wf_dur is exact *)
Lemma parse_render_dur_overflow d : dur_shape d = true -> max_int64 < dur_amount d ->
  exists c, parse_duration (render_dur d) = Crash c.
Proof.
  intros Sh Hb. destruct (match_render_dur d Sh) as [M Hne].
  pose proof Sh as Sh'. unfold dur_shape in Sh'. repeat (apply andb_true_iff in Sh' as [Sh' ?]).
  pose proof (opt_value_nonneg _ H1) as Nh. pose proof (opt_value_nonneg _ H0) as Nm.
  unfold dur_amount in Hb. rewrite !opt_value_digits in *.
  unfold parse_duration. rewrite M. cbn [dm_h dm_m dm_sign].
  set (hs := opt_digits (du_h d)) in *. set (ms := opt_digits (du_m d)) in *.
  assert (H60 : hs <> [] -> digits_val ms < 60).
  { subst hs ms. destruct (du_h d); cbn [opt_digits present] in *; [lia|congruence]. }
  clearbody hs ms.
  assert (Cases : forall (o1 o2 : option Z),
    o1 = match hs with [] => Some 0 | _ => atoi_digits hs end ->
    o2 = match ms with [] => Some 0 | _ => atoi_digits ms end ->
    exists c, match o1 with None => Crash CAtoiRange | Some h =>
      match o2 with None => Crash CAtoiRange | Some mi =>
        if (match hs with [] => false | _ => true end) && (60 <=? mi) then Err EUnrepresentableDuration
        else new_duration_fmt ((if (sign_char (du_sign d) =? ch_minus)%N then -1 else 1) * h)
               ((if (sign_char (du_sign d) =? ch_minus)%N then -1 else 1) * mi) (sign_char (du_sign d) =? ch_plus)%N
               (if (h =? 0) && (mi =? 0) && negb (sign_char (du_sign d) =? 0)%N then (if (sign_char (du_sign d) =? ch_minus)%N then -1 else 1) else 0)
      end end = Crash c).
  { intros o1 o2 E1 E2.
    destruct (Z_le_gt_dec (digits_val hs) max_int64) as [L1|G1].
    2:{ rewrite atoi_or_zero_big in E1 by lia. subst o1. eexists; reflexivity. }
    rewrite atoi_or_zero in E1 by exact L1. subst o1.
    destruct (Z_le_gt_dec (digits_val ms) max_int64) as [L2|G2].
    2:{ rewrite atoi_or_zero_big in E2 by lia. subst o2. eexists; reflexivity. }
    rewrite atoi_or_zero in E2 by exact L2. subst o2.
    assert (G : (match hs with [] => false | _ => true end) && (60 <=? digits_val ms) = false).
    { destruct hs as [|c r]; [reflexivity|]. cbn [andb]. assert (digits_val ms < 60) by (apply H60; discriminate). lia. }
    rewrite G.
    remember (if (sign_char (du_sign d) =? ch_minus)%N then -1 else 1) as sg eqn:Esg.
    assert (S1 : sg = 1 \/ sg = -1) by (subst sg; destruct (sign_char (du_sign d) =? ch_minus)%N; auto).
    unfold new_duration_fmt.
    destruct (mul64 (sg * digits_val hs) 60) as [hm|] eqn:Emul; [|eexists; reflexivity].
    assert (hm = sg * digits_val hs * 60).
    { unfold mul64 in Emul. destruct (sm_ok (sg * digits_val hs) && sm_ok 60 && ((60 =? 0) || (Z.abs (sg * digits_val hs) <=? max_int64 / Z.abs 60))); congruence. }
    subst hm.
    destruct (add64 (sg * digits_val hs * 60) (sg * digits_val ms)) as [t|] eqn:Eadd; [|eexists; reflexivity].
    exfalso. unfold add64 in Eadd.
    destruct (sm_ok (sg * digits_val hs * 60) && sm_ok (sg * digits_val ms) && sm_ok (sg * digits_val hs * 60 + sg * digits_val ms)) eqn:E3; [|discriminate].
    unfold sm_ok, sm_min in E3. destruct S1 as [-> | ->]; lia. }
  destruct hs as [|hc hr]; destruct ms as [|mc mr].
  - exfalso. destruct Hne; congruence.
  - apply (Cases _ _ eq_refl eq_refl).
  - apply (Cases _ _ eq_refl eq_refl).
  - apply (Cases _ _ eq_refl eq_refl).
Qed.

(* ---- Duration.ToString writes a specification spelling ---- *)

Lemma abs_quot_rem m : Z.abs (go_div m 60) = Z.abs m / 60 /\ Z.abs (go_mod m 60) = Z.abs m mod 60.
Proof.
  unfold go_div, go_mod. destruct (Z_le_gt_dec 0 m) as [H|H].
  - rewrite Z.quot_div_nonneg, Z.rem_mod_nonneg by lia. rewrite (Z.abs_eq m) by lia.
    pose proof (Z.div_pos m 60 H ltac:(lia)). pose proof (Z.mod_pos_bound m 60 ltac:(lia)). lia.
  - replace m with (- (- m)) at 1 3 by lia. rewrite Z.quot_opp_l, Z.rem_opp_l by lia.
    rewrite Z.quot_div_nonneg, Z.rem_mod_nonneg by lia. rewrite (Z.abs_neq m) by lia.
    pose proof (Z.div_pos (- m) 60 ltac:(lia) ltac:(lia)). pose proof (Z.mod_pos_bound (- m) 60 ltac:(lia)). lia.
Qed.

Lemma print_duration_render d : print_duration d = render_dur (canon_dur d).
Proof.
  unfold print_duration, canon_dur, render_dur.
  destruct (d_mins d =? 0) eqn:E0.
  - cbn [du_sign du_h du_m]. destruct (d_zsign d <? 0); [reflexivity|]. destruct (0 <? d_zsign d); reflexivity.
  - cbn [du_sign du_h du_m]. destruct (abs_quot_rem (d_mins d)) as [-> ->].
    assert (Ha : 0 <= Z.abs (d_mins d) / 60) by (apply Z.div_pos; lia).
    pose proof (Z.mod_pos_bound (Z.abs (d_mins d)) 60 ltac:(lia)) as Hb.
    f_equal.
    + destruct (d_mins d <? 0); [reflexivity|]. destruct (d_plus d); reflexivity.
    + f_equal.
      * destruct (0 <? Z.abs (d_mins d) / 60); [|reflexivity]. rewrite dec_of_nonneg by lia. reflexivity.
      * destruct (0 <? Z.abs (d_mins d) mod 60); [|reflexivity]. rewrite dec_of_nonneg by lia. reflexivity.
Qed.

(* what reading back a printed duration yields: the value, and the notation flags that ToString shows *)
Definition dur_canonical (d : duration) : duration :=
  if d_mins d =? 0
  then {| d_mins := 0; d_plus := 0 <? d_zsign d; d_zsign := if d_zsign d <? 0 then -1 else if 0 <? d_zsign d then 1 else 0 |}
  else {| d_mins := d_mins d; d_plus := if d_mins d <? 0 then false else d_plus d; d_zsign := 0 |}.

Lemma canon_dur_facts d : - max_int64 <= d_mins d <= max_int64 ->
  wf_dur (canon_dur d) = true /\ denote_dur (canon_dur d) = dur_canonical d.
Proof.
  intros Hb. unfold canon_dur, dur_canonical.
  destruct (d_mins d =? 0) eqn:E0.
  - split.
    + reflexivity.
    + unfold denote_dur, dur_amount. cbn [du_sign du_h du_m opt_value]. change (integer_value [48%N]) with 0.
      cbn [Z.mul Z.add Z.eqb].
      destruct (d_zsign d <? 0) eqn:E1; [f_equal; lia|]. destruct (0 <? d_zsign d) eqn:E2; f_equal; lia.
  - set (a := Z.abs (d_mins d)).
    assert (Ha : 0 <= a / 60) by (apply Z.div_pos; lia).
    pose proof (Z.mod_pos_bound a 60 ltac:(lia)) as Hm.
    pose proof (Z.div_mod a 60 ltac:(lia)) as Hdm.
    assert (Hv : dur_amount {| du_sign := if d_mins d <? 0 then SMinus else if d_plus d then SPlus else SNone;
                      du_h := if 0 <? a / 60 then Some (decimal (a / 60)) else None;
                      du_m := if 0 <? a mod 60 then Some (decimal (a mod 60)) else None |} = a).
    { unfold dur_amount. cbn [du_h du_m].
      destruct (0 <? a / 60) eqn:E1; destruct (0 <? a mod 60) eqn:E2; cbn [opt_value];
        rewrite ?integer_value_digits_val, ?decimal_value by lia; lia. }
    split.
    + unfold wf_dur. rewrite Hv. unfold dur_shape. cbn [du_h du_m].
      apply andb_true_iff. split; [|unfold max_int64 in Hb; lia].
      destruct (0 <? a / 60) eqn:E1; destruct (0 <? a mod 60) eqn:E2; cbn [present opt_ok opt_value orb andb];
        rewrite ?decimal_integer_ok, ?integer_value_digits_val, ?decimal_value by lia; try reflexivity; try lia.
    + unfold denote_dur. rewrite Hv. cbn [du_sign].
      replace (a =? 0) with false by lia.
      destruct (d_mins d <? 0) eqn:E1; [cbn [sign_factor]; f_equal; lia|].
      destruct (d_plus d); cbn [sign_factor]; f_equal; lia.
Qed.

Lemma duration_roundtrip d : - max_int64 <= d_mins d <= max_int64 ->
  parse_duration (print_duration d) = Ok (dur_canonical d).
Proof.
  intros Hb. destruct (canon_dur_facts d Hb) as [W D].
  rewrite print_duration_render, parse_render_dur by exact W. rewrite D. reflexivity.
Qed.

(* ================= statements for C16 ================= *)

Lemma decimal_roundtrip z : 0 <= z -> digits_val (dec_nonneg z) = z /\ all_digits (dec_nonneg z) = true /\ dec_nonneg z <> [].
Proof.
  intros H. rewrite <- (decimal_dec_nonneg z H). split; [apply decimal_value; exact H|]. split; [apply decimal_digits; exact H|apply decimal_nonempty].
Qed.

Lemma duration_overflow_witness : parse_duration b!"9223372036854775808m" = Crash CAtoiRange
  /\ parse_duration b!"153722867280912931h" = Crash CIntegerOverflow
  /\ parse_duration b!"153722867280912930h8m" = Crash CIntegerOverflow.
Proof. repeat split; vm_compute; reflexivity. Qed.

(* a date literal of the right shape that is not a Gregorian date is rejected *)
Lemma parse_render_date_invalid d : 0 <= sd_year d <= 9999 -> 0 <= sd_month d <= 99 -> 0 <= sd_day d <= 99 ->
  wf_date d = false -> parse_date (render_date d) = Err EUnrepresentableDate.
Proof.
  intros Hy Hm Hd W. rewrite wf_date_valid_ymd in W.
  pose proof (four_digits_digits _ Hy) as D4. pose proof (two_digits_digits _ Hm) as D2. pose proof (two_digits_digits _ Hd) as D2'.
  pose proof (four_digits_value _ Hy) as V4. pose proof (two_digits_value _ Hm) as V2. pose proof (two_digits_value _ Hd) as V2'.
  unfold render_date, four_digits, two_digits in *. cbn [app].
  cbn [forallb] in D4, D2, D2'.
  change 45%N with ch_minus. change 47%N with ch_slash.
  rewrite (parse_date_digits _ _ _ _ _ _ _ _ (sd_dash d)).
  - rewrite V4, V2, V2', W. reflexivity.
  - cbn [forallb]. repeat (apply andb_true_iff in D4 as [? D4]). repeat (apply andb_true_iff in D2 as [? D2]).
    repeat (apply andb_true_iff in D2' as [? D2']).
    rewrite H, H0, H1, H2, H3, H4, H5, H6. reflexivity.
Qed.

Lemma time_literals_accepted t : wf_time t = true ->
  parse_time (render_time t) = Ok (denote_time t) /\ valid_time (denote_time t) /\ time_offset (denote_time t) = timeline t.
Proof. intros W. split; [apply parse_render_time; exact W|]. split; [apply denote_time_valid; exact W|apply timeline_offset; exact W]. Qed.

Lemma date_literals d :
  (wf_date d = true -> parse_date (render_date d) = Ok (denote_date d)) /\
  (0 <= sd_year d <= 9999 -> 0 <= sd_month d <= 99 -> 0 <= sd_day d <= 99 -> wf_date d = false ->
   parse_date (render_date d) = Err EUnrepresentableDate).
Proof. split; [apply parse_render_date|apply parse_render_date_invalid]. Qed.
