(* CommandsPauseReject: C04, the rejecting half for `klog pause` — nothing to pause (no record of today or yesterday, no
   open range in it), `--extend` without a pause entry, `--extend` together with `--summary`: the command fails with
   the model's error; a rejection of the initial step leaves the file untouched, a rejection at a later clock reading
   leaves what the earlier steps wrote (which the model's records describe). *)
From Klog Require Import Base.Prelude Base.Utf8 Model.Calendar Model.Values Model.Record Model.Lines Model.Parser
  Model.Tags Model.Serialiser Model.Reconcile Model.Commands Proofs.Lines Proofs.Parser Proofs.TagsUtf8 Proofs.Calendar
  Proofs.Values Spec.Spec Proofs.SpecValues Proofs.SpecEntry Proofs.SpecRecord Proofs.SpecDoc Proofs.Print
  Proofs.Style Proofs.Reconcile Proofs.Commands Proofs.Rounding Proofs.CommandsSpec Proofs.CommandsRefine Proofs.CommandsStop
  Proofs.CommandsPause Proofs.CommandsTags.
From Coq Require Import ZifyBool.
Open Scope Z_scope.

(* ---------------------------------------------------------------- one step rejected *)

Lemma pause_reconcile_rejects now file lead gs recs y op f e :
  conforms (lines_of file) lead gs recs -> plus_days (now_date now) (-1) = Ok y ->
  (forall i rg rc, nth_error recs i = Some rg -> rc_record rc = denote_record (fst rg) ->
     f i (denote_recs recs) = CErr e -> op rc = CErr e) ->
  a_pause_step (now_date now) y f (denote_recs recs) = CErr e ->
  pause_reconcile now file op = CErr e.
Proof.
  intros C Hy Hstep Ha. unfold a_pause_step in Ha. unfold pause_reconcile. rewrite Hy.
  rewrite (reconcile_file_one file _ _ _ _ (spec_file_parse file lead gs recs C)).
  unfold first_creator, at_record.
  assert (Found : forall dd i, find_record_idx dd (denote_recs recs) 0 = Some i -> f i (denote_recs recs) = CErr e ->
            exists rc, reconciler_at_record dd (denote_recs recs) (expect_blocks 0 lead gs) = Some rc /\ finish (op rc) = CErr e).
  { intros dd i Hf Hx. destruct (find_record_idx_nth _ _ _ _ Hf) as (k & r & -> & Hn & _). cbn [Nat.add] in *.
    unfold denote_recs in Hn. rewrite nth_error_map in Hn. destruct (nth_error recs k) as [rg|] eqn:Hrg; [|discriminate].
    destruct (Forall2_nth_r _ _ _ _ _ (cf_groups _ _ _ _ C) Hrg) as (g & Hg & _).
    destruct (at_record_conforming _ lead gs recs dd k rg g C Hf Hrg Hg) as (rc & Hrc & F).
    exists rc. split; [exact Hrc|]. unfold finish. rewrite (Hstep k rg rc Hrg (arf_record _ _ _ _ _ _ _ _ F) Hx). reflexivity. }
  destruct (find_record_idx (now_date now) (denote_recs recs) 0) as [i|] eqn:Hf.
  - destruct (Found _ _ Hf Ha) as (rc & Hrc & Hfin). rewrite Hrc. cbn [flat_map app cbind]. exact Hfin.
  - rewrite (find_record_idx_none_at _ _ _ Hf).
    destruct (find_record_idx y (denote_recs recs) 0) as [i|] eqn:Hfy.
    + destruct (Found _ _ Hfy Ha) as (rc & Hrc & Hfin). rewrite Hrc. cbn [flat_map app cbind]. exact Hfin.
    + rewrite (find_record_idx_none_at _ _ _ Hfy). injection Ha as <-. reflexivity.
Qed.

Lemma extend_rejects rc r i inc rs e : nth_error rs i = Some r -> rc_record rc = r ->
  a_extend_in i inc rs = CErr e -> lift_r (extend_pause rc inc) = CErr e.
Proof.
  intros Hn Hrec Ha. unfold a_extend_in in Ha. rewrite Hn in Ha. unfold a_extend_entries in Ha.
  unfold extend_pause. rewrite Hrec.
  destruct (existsb is_open (rec_entries r)) eqn:Eo; cbn [negb] in Ha.
  - assert (Hoi : (find_open_index r =? -1) = false).
    { destruct (find_open_index r =? -1) eqn:E; [|reflexivity]. apply Z.eqb_eq, find_open_index_none in E. congruence. }
    rewrite Hoi. cbv zeta in *.
    destruct (find_last_idx is_pause (rec_entries r) 0 (-1) =? -1) eqn:Ep; [cbn [cbind] in Ha; injection Ha as <-; reflexivity|].
    destruct (nth_error (rec_entries r) _) as [pe|]; [|discriminate].
    destruct (dur_plus (entry_minutes pe) inc); cbn [cbind] in Ha; discriminate.
  - cbn [cbind] in Ha. injection Ha as <-.
    assert (Hoi : (find_open_index r =? -1) = true) by (apply Z.eqb_eq, find_open_index_none; exact Eo).
    rewrite Hoi. reflexivity.
Qed.

Lemma append_pause_rejects rc r i summary with_tags rs e : nth_error rs i = Some r -> rc_record rc = r ->
  a_append_pause i summary with_tags rs = CErr e -> lift_r (append_pause go_tags_of rc summary with_tags) = CErr e.
Proof.
  intros Hn Hrec Ha. unfold a_append_pause in Ha. rewrite Hn in Ha.
  destruct (existsb is_open (rec_entries r)) eqn:Eo; cbn [negb] in Ha; [discriminate|]. injection Ha as <-.
  unfold append_pause. cbv zeta. rewrite Hrec.
  assert (Hoi : (find_open_index r =? -1) = true) by (apply Z.eqb_eq, find_open_index_none; exact Eo).
  rewrite Hoi. reflexivity.
Qed.

(* ---------------------------------------------------------------- the whole command, success or rejection *)

Fixpoint a_pause_loop_full (today y : cdate) (ticks : list Z) (captured : Z) (rs : list record) : list record * cresult unit :=
  match ticks with
  | [] => (rs, COk tt)
  | t :: rest =>
    let uncaptured := go_div t 60 - captured in
    if 0 <? uncaptured then
      match a_pause_step today y (fun i => a_extend_in i (- uncaptured)) rs with
      | COk rs' => a_pause_loop_full today y rest (captured + uncaptured) rs'
      | CErr e => (rs, CErr e)
      | CCrash => (rs, CCrash)
      end
    else a_pause_loop_full today y rest captured rs
  end.

Definition a_pause_init (today y : cdate) (summary : option (list bytes)) (no_tags extend : bool) (rs : list record) : cresult (list record) :=
  if extend && (match summary with Some _ => true | None => false end) then CErr CEFlags else
  a_pause_step today y
    (fun i => if extend then a_extend_in i 0
              else a_append_pause i (match summary with Some s => s | None => [] end) (negb no_tags)) rs.

(* the records after the command and what it reports *)
Definition a_pause_full (today y : cdate) (summary : option (list bytes)) (no_tags extend : bool) (ticks : list Z) (rs : list record)
  : list record * cresult unit :=
  match a_pause_init today y summary no_tags extend rs with
  | COk rs1 => a_pause_loop_full today y ticks 0 rs1
  | CErr e => (rs, CErr e)
  | CCrash => (rs, CCrash)
  end.

Lemma pause_extend_step_rejects now file recs y inc e :
  spec_state file recs -> plus_days (now_date now) (-1) = Ok y ->
  a_pause_step (now_date now) y (fun i => a_extend_in i inc) (denote_recs recs) = CErr e ->
  pause_reconcile now file (fun r => lift_r (extend_pause r inc)) = CErr e.
Proof.
  intros (lead & gs & C & _) Hy Ha. unfold spec_file in C.
  apply (pause_reconcile_rejects now file lead gs recs y _ (fun i => a_extend_in i inc) e C Hy); [|exact Ha].
  intros i rg rc Hrg Hrec Hx. exact (extend_rejects rc _ i inc _ e (nth_error_denote_recs _ _ _ Hrg) Hrec Hx).
Qed.

Theorem pause_loop_full_refines now y ticks : plus_days (now_date now) (-1) = Ok y ->
  forall captured file recs rs' res, spec_state file recs ->
  a_pause_loop_full (now_date now) y ticks captured (denote_recs recs) = (rs', res) -> res <> CCrash ->
  exists file' recs', pause_loop now ticks captured file = (file', res) /\ spec_state file' recs' /\ denote_recs recs' = rs'.
Proof.
  intros Hy. induction ticks as [|t rest IH]; intros captured file recs rs' res S Ha Hnc.
  - cbn [a_pause_loop_full] in Ha. injection Ha as <- <-. exists file, recs. auto.
  - cbn [a_pause_loop_full pause_loop] in *. destruct (0 <? go_div t 60 - captured).
    + destruct (a_pause_step (now_date now) y _ (denote_recs recs)) as [rs1|e|] eqn:Hstep.
      * destruct (pause_extend_step now file recs y _ rs1 S Hy Hstep) as (file1 & recs1 & Hrun & S1 & Hden1).
        rewrite Hrun. rewrite <- Hden1 in Ha. exact (IH _ _ _ _ _ S1 Ha Hnc).
      * injection Ha as <- <-. rewrite (pause_extend_step_rejects now file recs y _ e S Hy Hstep). exists file, recs. auto.
      * injection Ha as <- <-. contradiction.
    + exact (IH _ _ _ _ _ S Ha Hnc).
Qed.

(* a rejection of the initial step: the model's error, the file untouched *)
Theorem pause_init_rejects now cfg summary no_tags extend ticks file recs y e :
  spec_state file recs -> plus_days (now_date now) (-1) = Ok y ->
  a_pause_init (now_date now) y summary no_tags extend (denote_recs recs) = CErr e ->
  exec now cfg (Pause summary no_tags extend ticks) file = (file, CErr e).
Proof.
  intros S Hy Ha. unfold a_pause_init in Ha. cbn [exec].
  destruct (extend && match summary with Some _ => true | None => false end); [injection Ha as <-; reflexivity|].
  assert (G : pause_reconcile now file (fun r => lift_r (if extend then extend_pause r 0
                else append_pause go_tags_of r (match summary with Some s => s | None => [] end) (negb no_tags))) = CErr e);
    [|rewrite G; reflexivity].
  destruct extend.
  - exact (pause_extend_step_rejects now file recs y 0 e S Hy Ha).
  - destruct S as (lead & gs & C & _). unfold spec_file in C.
    apply (pause_reconcile_rejects now file lead gs recs y _
             (fun i => a_append_pause i (match summary with Some s => s | None => [] end) (negb no_tags)) e C Hy); [|exact Ha].
    intros i rg rc Hrg Hrec Hx. exact (append_pause_rejects rc _ i _ _ _ e (nth_error_denote_recs _ _ _ Hrg) Hrec Hx).
Qed.

(* the whole command: whatever the model says - success, or a rejection at the initial step or at a later clock
   reading - the command reports the same, and the file it leaves is a conforming one holding the model's records *)
Theorem pause_full_refines now cfg summary sr no_tags extend ticks file recs y rs' res :
  spec_state file recs -> plus_days (now_date now) (-1) = Ok y ->
  match summary with Some s => s | None => [] end = map utf8_encode sr ->
  match sr with [] => True | s0r :: mr => text_ok s0r = true /\ forallb (fun t => text_ok t && negb (all_blank t)) mr = true end ->
  no_cr_lines (map utf8_encode sr) -> tags_ok recs ->
  a_pause_full (now_date now) y summary no_tags extend ticks (denote_recs recs) = (rs', res) -> res <> CCrash ->
  exists file' recs',
    exec now cfg (Pause summary no_tags extend ticks) file = (file', res) /\
    spec_state file' recs' /\ denote_recs recs' = rs'.
Proof.
  intros S Hy Hsum Hsr Hcr Htags Ha Hnc. unfold a_pause_full in Ha.
  destruct (a_pause_init (now_date now) y summary no_tags extend (denote_recs recs)) as [rs1|e|] eqn:Hinit.
  - (* the initial step succeeds: reuse the success theorem with no ticks, then the loop *)
    assert (Hp : a_pause (now_date now) y summary no_tags extend [] (denote_recs recs) = COk rs1).
    { unfold a_pause, a_pause_init in *. destruct (extend && _); [discriminate|]. rewrite Hinit. reflexivity. }
    destruct (pause_refines now cfg summary sr no_tags extend [] file recs y rs1 S Hy Hsum Hsr Hcr Htags Hp) as (file1 & recs1 & He & S1 & Hden1 & _).
    cbn [exec] in He. cbn [exec].
    destruct (extend && match summary with Some _ => true | None => false end); [discriminate He|].
    destruct (pause_reconcile now file _) as [f1| |]; cbn [pause_loop] in He; [|discriminate He|discriminate He].
    injection He as ->. rewrite <- Hden1 in Ha.
    exact (pause_loop_full_refines now y ticks Hy 0 file1 recs1 rs' res S1 Ha Hnc).
  - injection Ha as <- <-. rewrite (pause_init_rejects now cfg summary no_tags extend ticks file recs y e S Hy Hinit). exists file, recs. auto.
  - injection Ha as <- <-. contradiction.
Qed.

(* ---------------------------------------------------------------- without the requirement on the tags *)

Lemma spec_state_tags_ok file recs : spec_state file recs -> tags_ok recs.
Proof. intros (lead & gs & C & _). exact (tags_ok_conforming recs (cf_wf _ _ _ _ C)). Qed.

Theorem pause_refines_conforming now cfg summary sr no_tags extend ticks file recs y rs' :
  spec_state file recs -> plus_days (now_date now) (-1) = Ok y ->
  match summary with Some s => s | None => [] end = map utf8_encode sr ->
  match sr with [] => True | s0r :: mr => text_ok s0r = true /\ forallb (fun t => text_ok t && negb (all_blank t)) mr = true end ->
  no_cr_lines (map utf8_encode sr) ->
  a_pause (now_date now) y summary no_tags extend ticks (denote_recs recs) = COk rs' ->
  exists file' recs',
    exec now cfg (Pause summary no_tags extend ticks) file = (file', COk tt) /\
    spec_state file' recs' /\ denote_recs recs' = rs' /\
    exists bs', parse_text file' = Ok (Parsed (denote_recs recs') bs').
Proof. intros S Hy Hsum Hsr Hcr Ha. exact (pause_refines now cfg summary sr no_tags extend ticks file recs y rs' S Hy Hsum Hsr Hcr (spec_state_tags_ok _ _ S) Ha). Qed.

Theorem pause_full_conforming now cfg summary sr no_tags extend ticks file recs y rs' res :
  spec_state file recs -> plus_days (now_date now) (-1) = Ok y ->
  match summary with Some s => s | None => [] end = map utf8_encode sr ->
  match sr with [] => True | s0r :: mr => text_ok s0r = true /\ forallb (fun t => text_ok t && negb (all_blank t)) mr = true end ->
  no_cr_lines (map utf8_encode sr) ->
  a_pause_full (now_date now) y summary no_tags extend ticks (denote_recs recs) = (rs', res) -> res <> CCrash ->
  exists file' recs',
    exec now cfg (Pause summary no_tags extend ticks) file = (file', res) /\
    spec_state file' recs' /\ denote_recs recs' = rs'.
Proof. intros S Hy Hsum Hsr Hcr Ha Hnc. exact (pause_full_refines now cfg summary sr no_tags extend ticks file recs y rs' res S Hy Hsum Hsr Hcr (spec_state_tags_ok _ _ S) Ha Hnc). Qed.

(* ---------------------------------------------------------------- the rejections of `pause`, one by one *)

(* the record `pause` works on: the first one dated today, else the first one dated yesterday *)
Definition pause_target (today y : cdate) (rs : list record) : option nat :=
  match find_record_idx today rs 0 with Some i => Some i | None => find_record_idx y rs 0 end.

Lemma a_pause_step_target today y f rs :
  a_pause_step today y f rs = match pause_target today y rs with Some i => f i rs | None => CErr CENoSuchRecord end.
Proof. unfold a_pause_step, pause_target. destruct (find_record_idx today rs 0); [reflexivity|]. destruct (find_record_idx y rs 0); reflexivity. Qed.

(* --extend together with --summary: refused whatever the file is *)
Theorem pause_flags_rejects now cfg s no_tags ticks file :
  exec now cfg (Pause (Some s) no_tags true ticks) file = (file, CErr CEFlags).
Proof. reflexivity. Qed.

(* no record of today or yesterday *)
Theorem pause_no_record_rejects now cfg summary no_tags extend ticks file recs y :
  spec_state file recs -> plus_days (now_date now) (-1) = Ok y ->
  extend && (match summary with Some _ => true | None => false end) = false ->
  pause_target (now_date now) y (denote_recs recs) = None ->
  exec now cfg (Pause summary no_tags extend ticks) file = (file, CErr CENoSuchRecord).
Proof.
  intros S Hy Hf Ht. apply (pause_init_rejects now cfg summary no_tags extend ticks file recs y _ S Hy).
  unfold a_pause_init. rewrite Hf, a_pause_step_target, Ht. reflexivity.
Qed.

(* the record has no open range: nothing to pause (with or without --extend) *)
Theorem pause_no_open_rejects now cfg summary no_tags extend ticks file recs y i r :
  spec_state file recs -> plus_days (now_date now) (-1) = Ok y ->
  extend && (match summary with Some _ => true | None => false end) = false ->
  pause_target (now_date now) y (denote_recs recs) = Some i -> nth_error (denote_recs recs) i = Some r ->
  existsb is_open (rec_entries r) = false ->
  exec now cfg (Pause summary no_tags extend ticks) file = (file, CErr CEManipulation).
Proof.
  intros S Hy Hf Ht Hr Ho. apply (pause_init_rejects now cfg summary no_tags extend ticks file recs y _ S Hy).
  unfold a_pause_init. rewrite Hf, a_pause_step_target, Ht. destruct extend.
  - unfold a_extend_in. rewrite Hr. unfold a_extend_entries. rewrite Ho. reflexivity.
  - unfold a_append_pause. rewrite Hr, Ho. reflexivity.
Qed.

(* --extend on a record without a pause entry *)
Theorem pause_extend_no_pause_rejects now cfg no_tags ticks file recs y i r :
  spec_state file recs -> plus_days (now_date now) (-1) = Ok y ->
  pause_target (now_date now) y (denote_recs recs) = Some i -> nth_error (denote_recs recs) i = Some r ->
  existsb is_pause (rec_entries r) = false ->
  exec now cfg (Pause None no_tags true ticks) file = (file, CErr CEManipulation).
Proof.
  intros S Hy Ht Hr Hp. apply (pause_init_rejects now cfg None no_tags true ticks file recs y _ S Hy).
  unfold a_pause_init. cbn [andb]. rewrite a_pause_step_target, Ht.
  unfold a_extend_in. rewrite Hr. unfold a_extend_entries. destruct (negb (existsb is_open (rec_entries r))); [reflexivity|].
  cbv zeta. rewrite (find_last_idx_none is_pause (rec_entries r) 0 (-1) Hp). reflexivity.
Qed.
