(* Suite "bookmarks": requests evaluated by the model for the correspondence check (stub). *)
From Klog Require Import Base.Prelude Model.Show Model.Bookmarks.
Definition suite_bookmarks (cmd : bytes) (args : list bytes) : option bytes := None.
