(* C19 — the bookmark database behaves as a persistent name-to-file map.
   Property theorems only; each is closed by [exact <lemma>] and followed by Print Assumptions.

   The operating system's part (filepath.Abs in the process's working directory, what reading a target
   file gives, filepath.Dir/Base) is a parameter of every theorem: [abs fstat dir_of base_of], with the
   three hypotheses about [abs] written out in each statement (absolute result, fixed point on its own
   results, valid UTF-8 preserved). The correspondence suite "paths" checks them on the real functions. *)
From Klog Require Import Base.Prelude Base.Utf8 Model.Json Model.Bookmarks Proofs.Json Proofs.Bookmarks.
From Coq Require Import Sorted Permutation.
Open Scope N_scope.

(* ---- 1. the JSON string codec ---- *)

(* every valid UTF-8 string survives the encoder (HTML escaping off) followed by the decoder *)
Theorem C19_json_string_roundtrip : forall s, valid_utf8 s -> decode_string (encode_string s) = Ok s.
Proof. exact json_string_roundtrip. Qed.
Print Assumptions C19_json_string_roundtrip.

(* [valid_utf8] (the decoder never reports an error) is exactly "encoding of a list of Unicode scalar values" *)
Theorem C19_valid_utf8_runes : forall s, valid_utf8 s <-> exists rs, Forall scalar rs /\ s = utf8_encode rs.
Proof. exact valid_utf8_runes. Qed.
Print Assumptions C19_valid_utf8_runes.

(* arguments reach the commands unchanged (kong transcodes them through JSON) *)
Theorem C19_kong_arg_valid : forall s, valid_utf8 s -> kong_arg s = s.
Proof. exact kong_arg_valid. Qed.
Print Assumptions C19_kong_arg_valid.

(* every JSON value whose strings are valid UTF-8 is printed to a text that parses back to it:
   compact, indented, and as json.Encoder writes it (with the final newline) — used by C20 as well *)
Theorem C19_json_print_parse_compact : forall v, json_ok v -> parse_json (print_compact v) = Ok v.
Proof. exact parse_print_compact. Qed.
Print Assumptions C19_json_print_parse_compact.

Theorem C19_json_print_parse_pretty : forall v, json_ok v -> parse_json (print_pretty v) = Ok v.
Proof. exact parse_print_pretty. Qed.
Print Assumptions C19_json_print_parse_pretty.

Theorem C19_json_encoder_output_parses : forall pretty v, json_ok v -> parse_json (encoder_output pretty v) = Ok v.
Proof. exact parse_encoder_output. Qed.
Print Assumptions C19_json_encoder_output_parses.

(* the parser is total: every text gives a value or a syntax error; its fuel is never exhausted *)
Theorem C19_parse_json_total : forall s c, parse_json s <> Crash c.
Proof. exact parse_json_no_crash. Qed.
Print Assumptions C19_parse_json_total.

(* ---- 2. the database file ---- *)

(* [db_ok abs m]: names are in normal form (not empty, no leading @), names and targets are valid UTF-8,
   targets are fixed points of [abs] (absolute, clean), names strictly ascending (hence unique).
   Writing such a map and reading the file back gives exactly that map; the empty map is the empty file. *)
Theorem C19_db_roundtrip : forall abs,
  (forall p, is_abs (abs p) = true) ->
  forall m, db_ok abs m -> from_json abs (to_json m) = Ok m.
Proof. intros abs H1. exact (db_roundtrip abs H1). Qed.
Print Assumptions C19_db_roundtrip.

Theorem C19_db_empty : forall abs, to_json [] = [] /\ from_json abs [] = Ok [] /\ db_ok abs [].
Proof. intros abs. exact (conj eq_refl (conj eq_refl (db_ok_nil abs))). Qed.
Print Assumptions C19_db_empty.

(* normal form of names: exactly "not empty and no leading @"; NewName is idempotent *)
Theorem C19_name_normal_form : forall n,
  (new_name n = n <-> n <> [] /\ (forall t, n <> 64 :: t)) /\ new_name (new_name n) = new_name n /\ new_name [] = default_name.
Proof. intros n. exact (conj (new_name_fixed n) (conj (new_name_idem n) eq_refl)). Qed.
Print Assumptions C19_name_normal_form.

(* the collection is a finite map: the laws of assignment, deletion and lookup *)
Theorem C19_map_laws : forall n p m,
  get n (set n p m) = Some p /\
  (forall n', n' <> n -> get n' (set n p m) = get n' m) /\
  (keys_sorted m -> get n (remove n m) = None) /\
  (forall n', n' <> n -> get n' (remove n m) = get n' m) /\
  (keys_sorted m -> keys_sorted (set n p m) /\ keys_sorted (remove n m) /\ all m = m).
Proof.
  intros n p m.
  exact (conj (get_set_same n p m) (conj (fun n' => get_set_other n n' p m) (conj (get_remove_same n m)
        (conj (fun n' => get_remove_other n n' m)
              (fun H => conj (set_sorted n p m H) (conj (remove_sorted n m H) (all_sorted_id m H))))))).
Qed.
Print Assumptions C19_map_laws.

(* All() sorts what it collects from the Go map in whatever order the map is iterated: the result is the
   canonical representation for EVERY permutation of the bindings, so the iteration order cannot matter *)
Theorem C19_all_order_independent : forall c m, Permutation c m -> keys_sorted m -> all c = m.
Proof. exact all_perm. Qed.
Print Assumptions C19_all_order_independent.

(* ---- 3. histories ---- *)

(* For EVERY finite sequence of set / unset / clear / list / info / resolve commands (names and paths of the
   set commands valid UTF-8), started on any database file that reads as a well-formed map m: running the
   commands on the FILE ([run_history]: each command re-reads the file, acts, re-writes it) and running the
   specification on the plain MAP ([spec_history]) give, step by step, the same exit code and output
   ([snd cr = snd sr]), a well-formed map, and a file that reads back to exactly that map. *)
Theorem C19_bookmarks_refine : forall abs fstat dir_of base_of,
  (forall p, is_abs (abs p) = true) -> (forall p, abs (abs p) = abs p) -> (forall p, valid_utf8 p -> valid_utf8 (abs p)) ->
  forall ops file m, db_ok abs m -> from_json abs file = Ok m -> Forall op_ok ops ->
  Forall2 (fun cr sr => snd cr = snd sr /\ db_ok abs (fst sr) /\ from_json abs (fst cr) = Ok (fst sr))
          (run_history abs fstat dir_of base_of ops file) (spec_history abs fstat dir_of base_of ops m).
Proof. intros abs fstat dir_of base_of H1 H2 H3. exact (history_refines abs fstat dir_of base_of H1 H2 H3). Qed.
Print Assumptions C19_bookmarks_refine.

(* in particular from the absent / empty file and the empty map *)
Theorem C19_bookmarks_refine_from_empty : forall abs fstat dir_of base_of,
  (forall p, is_abs (abs p) = true) -> (forall p, abs (abs p) = abs p) -> (forall p, valid_utf8 p -> valid_utf8 (abs p)) ->
  forall ops, Forall op_ok ops ->
  Forall2 (fun cr sr => snd cr = snd sr /\ db_ok abs (fst sr) /\ from_json abs (fst cr) = Ok (fst sr))
          (run_history abs fstat dir_of base_of ops []) (spec_history abs fstat dir_of base_of ops []).
Proof.
  intros abs fstat dir_of base_of H1 H2 H3 ops Hops.
  exact (history_refines abs fstat dir_of base_of H1 H2 H3 ops [] [] (db_ok_nil abs) eq_refl Hops).
Qed.
Print Assumptions C19_bookmarks_refine_from_empty.

(* the specification never panics, hence (same replies) neither does any command of such a history *)
Theorem C19_no_panic : forall abs fstat dir_of base_of, (forall p, is_abs (abs p) = true) ->
  forall o m, snd (step (spec_op abs fstat dir_of base_of o) m) <> RPanic.
Proof. intros abs fstat dir_of base_of H1. exact (spec_never_panics abs fstat dir_of base_of H1). Qed.
Print Assumptions C19_no_panic.

(* set adds or overwrites exactly one name (the unnamed bookmark being "default"), whenever it is allowed
   (target is a valid file, or --force) *)
Theorem C19_set_effect : forall abs fstat dir_of base_of,
  (forall p, is_abs (abs p) = true) -> (forall p, abs (abs p) = abs p) -> (forall p, valid_utf8 p -> valid_utf8 (abs p)) ->
  forall file m path name force, db_ok abs m -> from_json abs file = Ok m ->
  valid_utf8 path -> valid_utf8 name -> (force = true \/ fstat (abs path) = FValid) ->
  exists file' out, run_op abs fstat dir_of base_of (OpSet path name force) file = Ok (file', out) /\
    from_json abs file' = Ok (set (new_name name) (abs path) m) /\
    get (new_name name) (set (new_name name) (abs path) m) = Some (abs path) /\
    (forall n', n' <> new_name name -> get n' (set (new_name name) (abs path) m) = get n' m).
Proof. intros abs fstat dir_of base_of H1 H2 H3. exact (set_effect abs fstat dir_of base_of H1 H2 H3). Qed.
Print Assumptions C19_set_effect.

(* unset of an unknown name fails (exit code 6) and leaves the file exactly as it was *)
Theorem C19_unset_unknown : forall abs fstat dir_of base_of file m name,
  from_json abs file = Ok m -> get (new_name name) m = None ->
  run_op abs fstat dir_of base_of (OpUnset name) file = Err (EOther 6) /\
  step (run_op abs fstat dir_of base_of (OpUnset name)) file = (file, RFail (EOther 6)).
Proof. intros abs fstat dir_of base_of. exact (unset_unknown abs fstat dir_of base_of). Qed.
Print Assumptions C19_unset_unknown.

(* unset of a known name removes exactly that name *)
Theorem C19_unset_known : forall abs fstat dir_of base_of,
  (forall p, is_abs (abs p) = true) ->
  forall file m name p, db_ok abs m -> from_json abs file = Ok m -> get (new_name name) m = Some p ->
  exists file' out, run_op abs fstat dir_of base_of (OpUnset name) file = Ok (file', out) /\
    from_json abs file' = Ok (remove (new_name name) m) /\
    get (new_name name) (remove (new_name name) m) = None /\
    (forall n', n' <> new_name name -> get n' (remove (new_name name) m) = get n' m).
Proof. intros abs fstat dir_of base_of H1. exact (unset_known abs fstat dir_of base_of H1). Qed.
Print Assumptions C19_unset_known.

(* the listing prints exactly the map's bindings, one line each, in strictly ascending (byte) order of names *)
Theorem C19_list_sorted : forall abs fstat dir_of base_of file m,
  db_ok abs m -> from_json abs file = Ok m -> m <> [] ->
  run_op abs fstat dir_of base_of OpList file = Ok (file, flat_map line_of m) /\
  StronglySorted (fun a b => bytes_ltb (fst a) (fst b) = true) m.
Proof. intros abs fstat dir_of base_of. exact (list_sorted abs fstat dir_of base_of). Qed.
Print Assumptions C19_list_sorted.

(* ---- non-vacuity ---- *)

(* a well-formed map with Unicode, a quote and a space in names and targets, for the lexical Unix [abs] *)
Definition ex_abs : bytes -> bytes := unix_abs b!"/home/u".
Definition ex_map : coll :=
  [ (b!"a""b", b!"/data/my file.klg");
    (b!"default", b!"/home/u/t.klg");
    ([195; 188; 98], [47; 230; 151; 165; 46; 107; 108; 103]) ].

Example C19_nonvacuous_db :
  Forall (fun e => new_name (fst e) = fst e /\ valid_utf8b (fst e) = true /\ valid_utf8b (snd e) = true /\ ex_abs (snd e) = snd e) ex_map
  /\ from_json ex_abs (to_json ex_map) = Ok ex_map
  /\ to_json ex_map <> [].
Proof.
  split; [repeat constructor; vm_compute; reflexivity|].
  split; [vm_compute; reflexivity | vm_compute; congruence].
Qed.

(* a history that exercises every command, with @-prefixes, the unnamed bookmark and an unknown name:
   file-level run and map-level specification agree step by step (computed) *)
Definition ex_fstat (p : bytes) : fstatus := if bytes_eqb p b!"/home/u/t.klg" then FValid else FMissing.
Definition ex_ops : list op :=
  [ OpSet b!"t.klg" [] false; OpSet b!"./x/../t.klg" b!"@@w k" false; OpSet b!"nope.klg" b!"q" false;
    OpSet b!"nope.klg" b!"q" true; OpList; OpInfo b!"@w k" IPath; OpResolve []; OpResolve [b!"@q"];
    OpUnset b!"zz"; OpUnset b!"@default"; OpResolve []; OpClear; OpList ].

Example C19_nonvacuous_history :
  map snd (run_history ex_abs ex_fstat unix_dir unix_base ex_ops []) =
  map snd (spec_history ex_abs ex_fstat unix_dir unix_base ex_ops [])
  /\ map (fun cr => from_json ex_abs (fst cr)) (run_history ex_abs ex_fstat unix_dir unix_base ex_ops []) =
     map (fun sr => Ok (fst sr)) (spec_history ex_abs ex_fstat unix_dir unix_base ex_ops [])
  /\ Forall (fun o => match o with OpSet p n _ => valid_utf8b p && valid_utf8b n = true | _ => True end) ex_ops
  /\ length (filter (fun r => match r with ROk _ => true | _ => false end)
                    (map snd (run_history ex_abs ex_fstat unix_dir unix_base ex_ops []))) = 9%nat.
Proof.
  split; [vm_compute; reflexivity|]. split; [vm_compute; reflexivity|].
  split; [repeat constructor | vm_compute; reflexivity].
Qed.

Example C19_nonvacuous_string :
  valid_utf8 [34; 92; 10; 1; 226; 128; 168; 240; 159; 152; 128; 195; 169; 127]
  /\ encode_string [34; 92; 10; 1; 226; 128; 168; 240; 159; 152; 128; 195; 169; 127]
     = [34; 92; 34; 92; 92; 92; 110; 92; 117; 48; 48; 48; 49; 92; 117; 50; 48; 50; 56; 240; 159; 152; 128; 195; 169; 127; 34]
  /\ valid_utf8b [237; 160; 128] = false /\ encode_string [255] = [34; 92; 117; 102; 102; 102; 100; 34].
Proof. repeat split; vm_compute; reflexivity. Qed.
