(* Suite "parse": blocks, parsing, printing (C01 C06 C08 C09 C10). *)
From Klog Require Import Base.Prelude Base.Utf8 Model.Calendar Model.Values Model.Record Model.Lines Model.Parser
  Model.Serialiser Model.Show Model.ShowRecord.
Open Scope Z_scope.

Definition zs_table : bytes :=
  words (map (fun n => dec (Z.of_N n)) (filter is_zs (map N.of_nat (seq 0 12400)))).

Definition suite_parse (cmd : bytes) (args : list bytes) : option bytes :=
  if bytes_eqb cmd b!"parse" then
    match args with
    | [s] => Some (show_parse_result (parse_text (arg_bytes s)))
    | _ => None
    end
  else if bytes_eqb cmd b!"blocks" then
    match args with
    | [s] => Some (show_blocks (blocks_of (arg_bytes s)))
    | _ => None
    end
  else if bytes_eqb cmd b!"print" then
    (* parse, then print canonically; the printed text is parsed again and printed again *)
    match args with
    | [s] =>
      match parse_text (arg_bytes s) with
      | Ok (Parsed rs _) =>
        let p1 := print_records rs in
        Some (words [b!"ok"; hex_of_bytes p1;
                     match parse_text p1 with
                     | Ok (Parsed rs2 _) => words ([b!"reparsed"; hex_of_bytes (print_records rs2); dec (Z.of_nat (length rs2))] ++ map show_record rs2)
                     | _ => b!"reparse-failed"
                     end])
      | Ok (Failed _) => Some b!"errors"
      | _ => Some b!"crash"
      end
    | _ => None
    end
  else if bytes_eqb cmd b!"zs-table" then Some zs_table
  else None.
