// Command harness drives the implementation (/repo, built with -tags verif) on the request lines
// that the extracted Coq model is run on, and prints one canonical result line per request.
package main

import (
	"bufio"
	"encoding/hex"
	"fmt"
	"os"
	"strings"
)

// handler evaluates one request on the implementation.
type handler func(args []string) string

var handlers = map[string]handler{}

func register(cmd string, h handler) { handlers[cmd] = h }

func argBytes(s string) string {
	if s == "-" {
		return ""
	}
	b, err := hex.DecodeString(s)
	if err != nil {
		panic("bad hex argument: " + s)
	}
	return string(b)
}

// hx prints a string as hex; the empty string as "-" (every field of a result line is a non-empty token).
func hx(s string) string {
	if s == "" {
		return "-"
	}
	return hex.EncodeToString([]byte(s))
}

func b01(b bool) string {
	if b {
		return "1"
	}
	return "0"
}

// safely runs f and maps a Go panic to the model's "crash" outcome.
func safely(f func() string) (out string) {
	defer func() {
		if r := recover(); r != nil {
			out = "crash"
			if os.Getenv("VERIF_CRASH_DETAIL") != "" {
				out = fmt.Sprintf("crash %v", r)
			}
		}
	}()
	return f()
}

func main() {
	if len(os.Args) < 2 || os.Args[1] != "run" {
		fmt.Fprintln(os.Stderr, "usage: harness run < requests > results")
		os.Exit(2)
	}
	in := bufio.NewReaderSize(os.Stdin, 1<<20)
	out := bufio.NewWriterSize(os.Stdout, 1<<20)
	defer out.Flush()
	for {
		line, err := in.ReadString('\n')
		if len(line) == 0 && err != nil {
			break
		}
		line = strings.TrimRight(line, "\n")
		toks := strings.Split(line, " ")
		h, ok := handlers[toks[0]]
		if !ok {
			fmt.Fprintln(out, "?unknown-request")
		} else {
			fmt.Fprintln(out, safely(func() string { return h(toks[1:]) }))
		}
		if err != nil {
			break
		}
	}
}
