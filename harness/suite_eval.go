package main

import (
	"encoding/json"
	"fmt"
	"os"
	"path/filepath"
	"regexp"
	"strconv"
	"strings"
	gotime "time"

	"github.com/jotaen/klog/klog/parser"
	"github.com/jotaen/klog/klog/parser/reconciling"
)

var fixedNoon = gotime.Date(2020, 6, 15, 12, 0, 0, 0, gotime.Local)

// runSafely runs a klog command line and maps a panic to (-1, "", "panic: ...").
func runSafely(e *cliEnv, args ...string) (code int, out string, errText string) {
	defer func() {
		if r := recover(); r != nil {
			code, out, errText = -1, "", fmt.Sprintf("panic: %v", r)
		}
	}()
	return runKlog(e, args...)
}

var readOnlyCommands = [][]string{
	{"print", "--no-style"}, {"print", "--with-totals"}, {"print", "--sort", "asc"},
	{"total"}, {"total", "--diff", "--decimal"},
	{"report"}, {"report", "--aggregate", "week", "--fill", "--diff"}, {"report", "--aggregate", "month", "--chart"},
	{"report", "--aggregate", "quarter"}, {"report", "--aggregate", "year", "--fill"},
	{"tags", "--values", "--count"}, {"today", "--diff"}, {"json"}, {"json", "--pretty"},
}

var caretLine = regexp.MustCompile(`^    ( *)(\^*)$`)
var inLine = regexp.MustCompile(` in line (\d+)`)
var sgr = regexp.MustCompile("\x1b\\[[0-9;]*m")

type jsonErr struct {
	Line   int `json:"line"`
	Column int `json:"column"`
	Length int `json:"length"`
}
type jsonEnv struct {
	Records []any     `json:"records"`
	Errors  []jsonErr `json:"errors"`
}

func init() {
	register("eval-all", func(a []string) string {
		text := argBytes(a[0])
		dir := scratchDir()
		defer os.RemoveAll(dir)
		f := filepath.Join(dir, "in.klg")
		writeFile(f, text)
		recs, _, errs := parser.NewSerialParser().Parse(text)
		// --fill walks every day between the first and the last record: only for files spanning a few years
		minY, maxY := 99999, -1
		for _, r := range recs {
			if y := r.Date().Year(); y < minY {
				minY = y
			}
			if y := r.Date().Year(); y > maxY {
				maxY = y
			}
		}
		n := 0
		for _, cmd := range readOnlyCommands {
			if maxY-minY > 3 && strings.Contains(strings.Join(cmd, " "), "--fill") {
				continue
			}
			for _, cpus := range []int{1, 3} {
				e := &cliEnv{Home: dir, Sticky: true, Clock: []gotime.Time{fixedNoon}, NumCpus: cpus}
				code, _, errText := runSafely(e, append(append([]string{}, cmd...), f)...)
				if code == -1 {
					return "crash " + strings.Join(cmd, "_") + " " + hx(errText)
				}
				if errs == nil && code != 0 {
					return "fail " + strings.Join(cmd, "_") + " " + strconv.Itoa(code) + " " + hx(errText)
				}
				if errs != nil && code == 0 && cmd[0] != "json" {
					return "accepted-invalid " + strings.Join(cmd, "_")
				}
				n++
			}
		}
		return "ok " + strconv.Itoa(n)
	})

	register("render-errors", func(a []string) string {
		text := argBytes(a[0])
		_, _, errs := parser.NewSerialParser().Parse(text)
		if errs == nil {
			return "valid"
		}
		dir := scratchDir()
		defer os.RemoveAll(dir)
		f := filepath.Join(dir, "in.klg")
		writeFile(f, text)
		for _, cpus := range []int{1, 4} {
			e := &cliEnv{Home: dir, Sticky: true, Clock: []gotime.Time{fixedNoon}, NumCpus: cpus}
			// terminal rendering
			code, _, errText := runSafely(e, "print", f)
			if code == -1 {
				return "crash-terminal " + hx(errText)
			}
			if code == 0 {
				return "terminal-accepted-invalid"
			}
			plain := sgr.ReplaceAllString(errText, "")
			var lines []int
			for _, m := range inLine.FindAllStringSubmatch(plain, -1) {
				n, _ := strconv.Atoi(m[1])
				lines = append(lines, n)
			}
			var carets [][2]int
			rows := strings.Split(plain, "\n")
			for i, row := range rows {
				// the caret row is the second row after the "[SYNTAX ERROR] in line" row
				if inLine.MatchString(row) && i+2 < len(rows) {
					m := caretLine.FindStringSubmatch(rows[i+2])
					if m == nil {
						return "terminal-caret-row-malformed " + hx(rows[i+2])
					}
					carets = append(carets, [2]int{len(m[1]), len(m[2])})
				}
			}
			if len(lines) != len(errs) || len(carets) != len(errs) {
				return fmt.Sprintf("terminal-count %d %d %d", len(lines), len(carets), len(errs))
			}
			for i, er := range errs {
				if lines[i] != er.LineNumber() || carets[i][0] != er.Position() || carets[i][1] != er.Length() {
					return fmt.Sprintf("terminal-differs err=%d line %d/%d pos %d/%d len %d/%d", i, lines[i], er.LineNumber(), carets[i][0], er.Position(), carets[i][1], er.Length())
				}
			}
			// JSON rendering
			code, out, errText := runSafely(e, "json", f)
			if code == -1 {
				return "crash-json " + hx(errText)
			}
			var env jsonEnv
			if jErr := json.Unmarshal([]byte(out), &env); jErr != nil {
				return "json-malformed " + hx(out)
			}
			if env.Records != nil || len(env.Errors) != len(errs) {
				return "json-envelope"
			}
			for i, er := range errs {
				je := env.Errors[i]
				if je.Line != er.LineNumber() || je.Column != er.Position()+1 || je.Length != er.Length() {
					return fmt.Sprintf("json-differs err=%d", i)
				}
			}
		}
		return "ok " + strconv.Itoa(len(errs))
	})

	register("noop-reconcile", func(a []string) string {
		text := argBytes(a[0])
		rs, bs, errs := parser.NewSerialParser().Parse(text)
		if errs != nil {
			return "invalid"
		}
		for i, r := range rs {
			rc := reconciling.NewReconcilerAtRecord(r.Date())(rs, bs)
			if rc == nil {
				return "no-reconciler " + strconv.Itoa(i)
			}
			res, err := rc.MakeResult()
			if err != nil {
				return "make-result-failed " + strconv.Itoa(i)
			}
			if res.AllSerialised != text {
				return "differs " + strconv.Itoa(i) + " " + hx(res.AllSerialised)
			}
		}
		return "identical"
	})
}

var totalRe = regexp.MustCompile(`^Total: (-?\d+)\nShould: (-?\d+)\nDiff: ([-+]?\d+)\n\(In (\d+) records?\)\n$`)

var evalTotalConfig string

func init() {
	// eval-total-cfg: the same evaluation with a configuration file whose settings concern only what klog WRITES
	// (defaults for new records, rounding, notation): none of them may change what `klog total` reports
	register("eval-total-cfg", func(a []string) string {
		evalTotalConfig = "default_should_total = 7h30m!\ndefault_rounding = 15m\ndate_format = YYYY/MM/DD\ntime_convention = 12h\n"
		defer func() { evalTotalConfig = "" }()
		return handlers["eval-total"](a)
	})
	register("eval-total", func(a []string) string {
		y, _ := strconv.Atoi(a[0])
		mo, _ := strconv.Atoi(a[1])
		d, _ := strconv.Atoi(a[2])
		h, _ := strconv.Atoi(a[3])
		mi, _ := strconv.Atoi(a[4])
		text := argBytes(a[6])
		dir := scratchDir()
		defer os.RemoveAll(dir)
		f := filepath.Join(dir, "in.klg")
		writeFile(f, text)
		args := []string{"total", "--decimal", "--no-style", "--no-warn", "--diff"}
		if a[5] == "1" {
			args = append(args, "--now")
		}
		e := &cliEnv{Home: dir, Sticky: true, Config: evalTotalConfig, Clock: []gotime.Time{gotime.Date(y, gotime.Month(mo), d, h, mi, 30, 0, gotime.Local)}}
		code, out, errText := runSafely(e, append(args, f)...)
		if code == -1 {
			return "crash"
		}
		if code != 0 {
			if _, _, errs := parser.NewSerialParser().Parse(text); errs != nil {
				return "invalid"
			}
			if a[5] == "1" {
				// refused --now: the same command without --now ends differently (told by behaviour, not by the message)
				c2, _, e2 := runSafely(e, append(args[:len(args)-1:len(args)-1], f)...)
				if c2 != code || e2 != errText {
					return "err uncloseable"
				}
			}
			return "fail " + strconv.Itoa(code) + " " + hx(errText)
		}
		m := totalRe.FindStringSubmatch(out)
		if m == nil {
			return "unparsed " + hx(out)
		}
		return "ok " + m[1] + " " + m[2] + " " + strings.TrimPrefix(m[3], "+") + " " + m[4]
	})
}

func init() {
	// every command behaves identically whatever the number of CPUs (C07): read-only commands compared by
	// exit code, stdout and error text; one mutating command compared by the file it writes
	register("cpus-all", func(a []string) string {
		text := argBytes(a[0])
		dir := scratchDir()
		defer os.RemoveAll(dir)
		f := filepath.Join(dir, "in.klg")
		n := 0
		cmds := append([][]string{}, readOnlyCommands...)
		cmds = append(cmds, []string{"total", "--now"}, []string{"print", "--tag", "tag"}, []string{"json", "--sort", "desc"})
		for _, cmd := range cmds {
			if strings.Contains(strings.Join(cmd, " "), "--fill") && len(text) > 0 {
				continue
			}
			var ref string
			for i, cpus := range []int{1, 2, 3, 7, 64} {
				writeFile(f, text)
				e := &cliEnv{Home: dir, Sticky: true, Clock: []gotime.Time{fixedNoon}, NumCpus: cpus}
				code, out, errText := runSafely(e, append(append([]string{}, cmd...), f)...)
				got := strconv.Itoa(code) + "\x00" + out + "\x00" + errText
				if i == 0 {
					ref = got
				} else if got != ref {
					return "differs " + strings.Join(cmd, "_") + " cpus=" + strconv.Itoa(cpus)
				}
				n++
			}
		}
		var refFile string
		for i, cpus := range []int{1, 2, 3, 8} {
			writeFile(f, text)
			e := &cliEnv{Home: dir, Sticky: true, Clock: []gotime.Time{fixedNoon}, NumCpus: cpus}
			code, _, _ := runSafely(e, "track", "--no-warn", "1h cpu test", f)
			got := strconv.Itoa(code) + "\x00" + readFile(f)
			if i == 0 {
				refFile = got
			} else if got != refFile {
				return "differs track cpus=" + strconv.Itoa(cpus)
			}
			n++
		}
		return "same " + strconv.Itoa(n)
	})
}
