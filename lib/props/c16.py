"""C16 — dates, times, durations, ranges: exact text round trip and exact arithmetic."""
import sys, os
sys.path.insert(0, os.path.dirname(os.path.dirname(os.path.abspath(__file__))))
from common import hx, unhx
from check import Suite

I64 = 2**63 - 1

def all_time_strings():
    for lt in ("", "<"):
        for h in [str(i) for i in range(10)] + ["%02d" % i for i in range(100)]:
            for m in range(100):
                for ap in ("", "am", "pm"):
                    for gt in ("", ">"):
                        yield "%s%s:%02d%s%s" % (lt, h, m, ap, gt)

MALFORMED_TIMES = ["", ":", "8", "8:", ":00", "8:0", "8:000", "123:00", "8:00 ", " 8:00", "8:00am ", "8:00AM", "8:00a", "8:00m",
                   "8:00pmam", "<<8:00", "8:00>>", "><8:00", "8.00", "8:00\n", "\n8:00", "٨:00", "8:٠٠", "8:00p", "-8:00", "+8:00",
                   "8:00>am", "<8:00>", "<24:00", "24:00>", "24:00", "24:01", "<24:00am", "0:00am", "13:00pm", "12:00am", "12:00pm",
                   "12:59am>", "<12:00pm", "8:00\x00", "\xff8:00", "8:60", "23:59>", "<0:00", "00:00", "08:00", "8:00ａｍ"]

def gen_times(tier, rng):
    out = ["time " + hx(s) for s in MALFORMED_TIMES]
    out += ["time " + hx(s) for s in all_time_strings()]
    # mutations: one byte inserted / deleted / replaced in a valid literal
    alphabet = "0123456789:<>amp -+h?\t\xc3"
    base = ["8:00", "<23:59", "12:30am>", "0:00>", "24:00", "11:05pm"]
    n = 2000 if tier == "quick" else 60000
    for _ in range(n):
        s = list(rng.choice(base))
        k = rng.randrange(3)
        i = rng.randrange(len(s) + 1)
        c = rng.choice(alphabet)
        if k == 0:
            s.insert(i, c)
        elif k == 1 and s:
            del s[min(i, len(s) - 1)]
        elif s:
            s[min(i, len(s) - 1)] = c
        out.append("time " + hx("".join(s).encode("latin-1")))
    return out

def gen_durations(tier, rng):
    out = []
    hmax, mmax = (120, 130)
    hs = range(0, hmax + 1) if tier != "quick" else list(range(0, 30)) + [59, 60, 61, 99, 100, 119, 120]
    for sign in ("", "+", "-"):
        for h in hs:
            out.append("dur " + hx("%s%dh" % (sign, h)))
            for m in range(0, mmax + 1):
                out.append("dur " + hx("%s%dh%dm" % (sign, h, m)))
        for m in range(0, mmax + 1):
            out.append("dur " + hx("%s%dm" % (sign, m)))
    special = ["", "-", "+", "h", "m", "hm", "1", "1h1", "1m1h", "1m1m", "1h1h", "1H", "1M", " 1h", "1h ", "1h 30m", "--1h", "+-1h", "1.5h",
               "01h", "001h05m", "0h", "0m", "-0h", "+0m", "-0h0m", "+0h0m", "0h00m", "000000000000000000000000001h", "1h060m", "1h59m", "1h60m",
               "60m", "61m", "6000m", "-6000m", "1h-30m", "１h", "1h\n", "\n1h", "1h\x00",
               str(I64) + "m", "-" + str(I64) + "m", str(I64 + 1) + "m", "-" + str(I64 + 1) + "m", str(I64) + "h", str(I64 // 60) + "h", str(I64 // 60 + 1) + "h",
               "-" + str(I64 // 60) + "h7m", str(I64 // 60) + "h7m", str(I64 // 60) + "h8m", "-" + str(I64 // 60) + "h8m", "-" + str(I64 // 60) + "h59m",
               "99999999999999999999h", "99999999999999999999m", "1h99999999999999999999m", "-99999999999999999999h5m",
               "153722867280912930h", "153722867280912930h7m", "153722867280912931h", "0000000000000000000099h"]
    out += ["dur " + hx(s) for s in special]
    n = 3000 if tier == "quick" else 100000
    for _ in range(n):
        s = ""
        if rng.random() < 0.5: s += rng.choice("+-")
        if rng.random() < 0.7: s += "0" * rng.choice([0, 0, 0, 1, 3]) + str(rng.choice([rng.randrange(200), rng.randrange(10**6), rng.randrange(2**64)])) + "h"
        if rng.random() < 0.7: s += "0" * rng.choice([0, 0, 1]) + str(rng.choice([rng.randrange(70), rng.randrange(200), rng.randrange(2**64)])) + "m"
        if rng.random() < 0.15:
            i = rng.randrange(len(s) + 1); s = s[:i] + rng.choice("hm+-0 9x") + s[i:]
        out.append("dur " + hx(s))
    return out

def gen_dates(tier, rng):
    if tier == "quick":
        years = sorted(set([0, 1, 4, 100, 400, 1582, 1600, 1900, 1970, 1999, 2000, 2020, 2023, 2024, 2100, 9999] + [rng.randrange(10000) for _ in range(14)]))
    else:
        years = range(10000)
    for y in years:
        for m in range(0, 14):
            for d in (range(0, 33) if (tier == "quick" or y % 97 == 0) else (0, 1, 27, 28, 29, 30, 31, 32)):
                for s1, s2 in (("-", "-"), ("/", "/"), ("-", "/"), ("/", "-")):
                    yield "date " + hx("%04d%s%02d%s%02d" % (y, s1, m, s2, d))
    special = ["", "2020-1-1", "2020-01-1", "20-01-01", "02020-01-01", "2020-01-01 ", " 2020-01-01", "2020.01.01", "2020-01-01\n", "2020_01_01",
               "2020-01-011", "２０２０-01-01", "2020--01-01", "2020-01--01", "-2020-01-01", "2020-02-29", "2021-02-29", "1900-02-29", "2000-02-29",
               "0000-01-01", "9999-12-31", "0000-00-00", "2020/01/01", "2020-13-01", "2020-00-10", "2020-01-32", "2020-04-31", "abcd-01-01", "2020-ab-01"]
    yield from ("date " + hx(s) for s in special)

def all_times():
    for sh in ("<", "", ">"):
        for h in range(24):
            for m in range(60):
                yield ("<" if sh == "<" else "") + "%d:%02d" % (h, m) + (">" if sh == ">" else "")

def to12(t):
    lt = t.startswith("<"); gt = t.endswith(">")
    core = t.strip("<>"); h, m = core.split(":"); h = int(h)
    ap = "am" if h < 12 else "pm"
    h12 = 12 if h % 12 == 0 else h % 12
    return ("<" if lt else "") + "%d:%s%s" % (h12, m, ap) + (">" if gt else "")

def gen_plus(tier, rng):
    ts = list(all_times())
    if tier == "quick":
        for t in ts[::7]:
            for d in list(range(-2880, 2881, 97)) + [-2881, 2881, 2880, -2880, 0, 1, -1, 1440, -1440, 2879, -2879, 4319, -4319, 4320, -4320]:
                yield "plus %s %d" % (hx(t), d)
        for t in ts[::61]:
            yield "plus %s %d" % (hx(to12(t)), rng.randrange(-3000, 3000))
        for t in ts[::5]:
            # 12-hour notation: sums landing on and around midnight, noon and the ends of the window
            o = off_of(hx(t))
            for target in (-1441, -1440, -1439, -1, 0, 1, 719, 720, 721, 1439, 1440, 1441, 2879, 2880):
                yield "plus %s %d" % (hx(to12(t)), target - o)
        for d in (I64, -I64, I64 - 1439, I64 - 1440, -I64 + 1440, -I64 + 1439, I64 // 2):
            for t in ("0:00", "<0:00", "23:59>", "12:00"):
                yield "plus %s %d" % (hx(t), d)
    else:
        for k, t in enumerate(ts):
            for d in range(-2881 + k % 3, 2882, 3):
                yield "plus %s %d" % (hx(t), d)
            o = off_of(hx(t))
            for target in (-1441, -1440, -1439, -1, 0, 1, 719, 720, 721, 1439, 1440, 1441, 2879, 2880):
                yield "plus %s %d" % (hx(to12(t)), target - o)
            for d in range(-2881 + k % 7, 2882, 7):
                yield "plus %s %d" % (hx(to12(t)), d)

def gen_ranges(tier, rng):
    ts = list(all_times())
    if tier == "quick":
        for _ in range(40000):
            a, b = rng.choice(ts), rng.choice(ts)
            if rng.random() < 0.2: a = to12(a)
            if rng.random() < 0.2: b = to12(b)
            yield "range %s %s %d" % (hx(a), hx(b), rng.randrange(2))
        for a in ("24:00", "<24:00", "0:00>", "0:00", "23:59>", "<0:00"):
            for b in ("24:00", "<24:00", "0:00>", "0:00", "23:59>", "<0:00"):
                yield "range %s %s 1" % (hx(a), hx(b))
    else:
        for i, a in enumerate(ts):
            for b in ts[i % 4::4]:
                yield "range %s %s 1" % (hx(a), hx(b))

# ---- property oracle, written from the specification, evaluated on the implementation's output ----

def spec_time(s):
    """(offset, is24h) of a literal per Specification.md, or None"""
    import re
    m = re.fullmatch(rb"(<)?([0-9]{1,2}):([0-9]{2})(am|pm)?(>)?", s)
    if not m or (m.group(1) and m.group(5)):
        return None
    h, mi = int(m.group(2)), int(m.group(3))
    if mi > 59: return None
    if m.group(4):
        if not 1 <= h <= 12: return None
        h = h % 12 + (12 if m.group(4) == b"pm" else 0)
    shift = -1 if m.group(1) else (1 if m.group(5) else 0)
    if h == 24 and mi == 0 and not m.group(4) and shift <= 0:
        h, shift = 0, shift + 1
    if h > 23: return None
    return shift * 1440 + h * 60 + mi, not m.group(4)

def oracle_time(req, out):
    s = unhx(req.split(" ")[1])
    want = spec_time(s)
    f = out.split(" ")
    if f[0] == "crash": return "crash on a time literal"
    if want is None:
        return None if f[0] == "err" else "string %r is not a time literal of the specification but was accepted" % s
    if f[0] != "ok": return "time literal %r rejected" % s
    if int(f[5]) != want[0] or (f[4] == "1") != want[1]:
        return "time literal %r read as offset %s 24h=%s, specification says %s" % (s, f[5], f[4], want)
    return None

def oracle_dur(req, out):
    import re
    s = unhx(req.split(" ")[1])
    f = out.split(" ")
    m = re.fullmatch(rb"([-+])?(?:([0-9]+)h)?(?:([0-9]+)m)?", s)
    want = None
    if m and (m.group(2) is not None or m.group(3) is not None):
        h = int(m.group(2) or b"0"); mi = int(m.group(3) or b"0")
        if not (m.group(2) is not None and mi >= 60):
            want = (h * 60 + mi) * (-1 if m.group(1) == b"-" else 1)
    if f[0] == "crash":
        return "crash on duration string %r (must be accepted or rejected)" % s
    if want is None:
        return None if f[0] == "err" else "string %r is not a duration literal but was accepted" % s
    if abs(want) > I64:
        return None if f[0] == "err" else "unrepresentable duration accepted"
    if f[0] != "ok": return "duration literal %r rejected" % s
    if int(f[1]) != want: return "duration literal %r read as %s minutes, specification says %d" % (s, f[1], want)
    return None

def dim(y, m):
    if m == 2: return 29 if (y % 4 == 0 and y % 100 != 0) or y % 400 == 0 else 28
    return 30 if m in (4, 6, 9, 11) else 31

def oracle_date(req, out):
    import re
    s = unhx(req.split(" ")[1])
    f = out.split(" ")
    if f[0] == "crash": return "crash on a date string"
    m = re.fullmatch(rb"([0-9]{4})([-/])([0-9]{2})([-/])([0-9]{2})", s)
    ok = False
    if m and m.group(2) == m.group(4):
        y, mo, d = int(m.group(1)), int(m.group(3)), int(m.group(5))
        ok = 1 <= mo <= 12 and 1 <= d <= dim(y, mo)
    if not ok:
        return None if f[0] == "err" else "string %r is not a date literal but was accepted" % s
    if f[0] != "ok": return "date literal %r rejected" % s
    if (int(f[1]), int(f[2]), int(f[3])) != (y, mo, d) or bytes.fromhex(f[5]) != s:
        return "date literal %r does not round-trip: %s" % (s, out)
    return None

def off_of(s):
    return spec_time(unhx(s))[0]

def oracle_plus(req, out):
    _, t, d = req.split(" ")
    f = out.split(" ")
    m = off_of(t) + int(d)
    if f[0] == "crash":
        return "crash in Time.Plus"
    if -1440 <= m < 2880:
        if f[0] != "ok" or int(f[5]) != m:
            return "time %s plus %s minutes should be the time at offset %d, got %s" % (unhx(t), d, m, out)
        if (f[4] == "1") != spec_time(unhx(t))[1]:
            return "Plus changed the clock notation"
    elif f[0] != "err":
        return "time %s plus %s minutes is outside [-1440,2880) but was accepted" % (unhx(t), d)
    return None

def oracle_range(req, out):
    _, a, b, _sp = req.split(" ")
    f = out.split(" ")
    oa, ob = off_of(a), off_of(b)
    if f[0] == "crash": return "crash constructing a range"
    if ob >= oa:
        if f[0] != "ok" or int(f[1]) != ob - oa:
            return "range %s-%s should be valid and last %d minutes, got %s" % (unhx(a), unhx(b), ob - oa, out)
    elif f[0] != "err":
        return "reversed range accepted"
    return None

def k5_overflowing_duration(req, out):
    """known finding K5: NewDurationFromString panics when a numeric part or the total does not fit int64"""
    import re
    if not req.startswith("dur ") or out != "crash": return False
    s = unhx(req.split(" ")[1])
    m = re.fullmatch(rb"([-+])?(?:([0-9]+)h)?(?:([0-9]+)m)?", s)
    if not m: return False
    h = int(m.group(2) or b"0"); mi = int(m.group(3) or b"0")
    return h > I64 or mi > I64 or h * 60 > I64 or h * 60 + mi > I64

def gen_cmp(tier, rng):
    """pairs of time literals: equality and order of the values they denote"""
    ts = list(all_times())
    for a in ("24:00", "<24:00", "0:00>", "0:00", "12:00am", "12:00pm", "12:00", "<12:00am", "12:00am>", "23:59>", "<0:00", "<8:00", "8:00>", "8:00"):
        for b in ("24:00", "<24:00", "0:00>", "0:00", "12:00am", "12:00pm", "12:00", "<12:00am", "12:00am>", "23:59>", "<0:00", "<8:00", "8:00>", "8:00"):
            yield "cmp %s %s" % (hx(a), hx(b))
    n = 60000 if tier == "quick" else 4000000
    for _ in range(n):
        a = rng.choice(ts)
        k = rng.random()
        if k < 0.35:                      # the same clock reading under another shift / notation
            core = a.strip("<>")
            b = rng.choice(["<", "", ""]) + core
            if not b.startswith("<") and rng.random() < 0.5: b += ">"
        elif k < 0.5:
            b = a
        else:
            b = rng.choice(ts)
        if rng.random() < 0.3: a = to12(a)
        if rng.random() < 0.3: b = to12(b)
        yield "cmp %s %s" % (hx(a), hx(b))

def oracle_cmp(req, out):
    _, a, b = req.split(" ")
    oa, ob = off_of(a), off_of(b)
    want = "ok %d %d" % (1 if oa == ob else 0, 1 if oa >= ob else 0)
    return None if out == want else "%s vs %s: klog says %r, the specification's values give %r" % (unhx(a), unhx(b), out, want)

def suites():
    return [
        Suite("times", gen_times, oracle=oracle_time, exhaustive=lambda t: True,
              rule="all 132,000 strings <?D{1,2}:DD(am|pm)?>? + hand-written malformed + byte mutations; non-trivial = accepted literal"),
        Suite("durations", gen_durations, oracle=oracle_dur, exhaustive=lambda t: t != "quick",
              rule="sign x hours x minutes 0..130 x 3 layouts (+ leading zeros, int64 boundary, random long digits); non-trivial = accepted"),
        Suite("dates", gen_dates, oracle=oracle_date, exhaustive=lambda t: t != "quick",
              rule="Y-M-D strings, month 00..13, day 00..32, 4 separator combinations per year; non-trivial = accepted"),
        Suite("plus", gen_plus, oracle=oracle_plus, exhaustive=lambda t: t != "quick",
              rule="times x durations in [-2881,2881] (+ int64 boundary durations); non-trivial = result is a time"),
        Suite("compare", gen_cmp, oracle=oracle_cmp, exhaustive=lambda t: False,
              rule="pairs of time literals (same clock reading under different shifts and notations, the specification's equalities, random pairs): IsEqualTo / IsAfterOrEqual; non-trivial = equal pair",
              nontrivial=lambda r, o: o.startswith("ok 1")),
        Suite("ranges", gen_ranges, oracle=oracle_range, exhaustive=lambda t: t != "quick",
              rule="pairs of shifted times, both notations; non-trivial = valid range"),
    ]
