package main

// Suite "query" (C13): filter and sort flags of `klog print`, end to end through klog.Run
// (kong, the decoders of app/main/decoder.go, FilterArgs.ApplyFilter, service.Filter, SortArgs.ApplySort,
// the serialiser), printed exactly like coq/Model/SuiteQuery.v.
//
//	query-run <y> <m> <d> <sort> <n> <flag_1> ... <flag_n> <hex file>

import (
	"os"
	"path/filepath"
	"sort"
	"strconv"
	"strings"
	gotime "time"

	"github.com/jotaen/klog/klog"
	"github.com/jotaen/klog/klog/parser"
)

// queryArgs turns the flag tokens of a request (`name` or `name:hex`) into command-line arguments.
func queryArgs(flags []string, sortTok string) []string {
	var out []string
	for _, f := range flags {
		if i := strings.IndexByte(f, ':'); i >= 0 {
			out = append(out, "--"+f[:i]+"="+argBytes(f[i+1:]))
		} else {
			out = append(out, "--"+f)
		}
	}
	if sortTok != "-" {
		out = append(out, "--sort="+argBytes(sortTok))
	}
	return out
}

// canonRuns lists the records of each maximal run of equal dates in ascending order of their canonical text.
func canonRuns(rs []klog.Record) []string {
	lines := make([]string, len(rs))
	for i, r := range rs {
		lines[i] = showRecord(r)
	}
	i := 0
	for i < len(rs) {
		j := i + 1
		for j < len(rs) && rs[j].Date().IsEqualTo(rs[i].Date()) {
			j++
		}
		sort.Strings(lines[i:j])
		i = j
	}
	return lines
}

func init() {
	register("query-run", func(a []string) string {
		y, _ := strconv.Atoi(a[0])
		m, _ := strconv.Atoi(a[1])
		d, _ := strconv.Atoi(a[2])
		sortTok := a[3]
		n, _ := strconv.Atoi(a[4])
		flags := a[5 : 5+n]
		text := argBytes(a[5+n])

		dir := scratchDir()
		defer os.RemoveAll(dir)
		f := filepath.Join(dir, "in.klg")
		writeFile(f, text)
		now := gotime.Date(y, gotime.Month(m), d, 12, 0, 0, 0, gotime.Local)
		env := &cliEnv{Home: dir, Clock: []gotime.Time{now}, Sticky: true, Env: map[string]string{"NO_COLOR": "1"}, NumCpus: 1}
		args := append([]string{"print", "--no-style", "--no-warn"}, queryArgs(flags, sortTok)...)
		args = append(args, f)
		code, out, errText := runKlog(env, args...)
		if code != 0 {
			if strings.HasPrefix(errText, "Invocation error") {
				return "argerr"
			}
			_, _, errs := parser.NewSerialParser().Parse(text)
			if errs != nil {
				return "invalid"
			}
			return "fail " + strconv.Itoa(code)
		}
		// what was printed, read back
		rs, _, errs := parser.NewSerialParser().Parse(out)
		if errs != nil {
			return "reparse-failed " + hx(out)
		}
		parts := []string{"ok", strconv.Itoa(len(rs))}
		if sortTok != "-" && argBytes(sortTok) != "" {
			parts = append(parts, canonRuns(rs)...)
		} else {
			for _, r := range rs {
				parts = append(parts, showRecord(r))
			}
		}
		return strings.Join(parts, " ")
	})
}
