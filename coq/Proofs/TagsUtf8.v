(* Facts about Base/Utf8.v (Go's UTF-8 decoding/encoding) needed by the tag proofs:
   shape of a decoded rune, stability of decoding under truncation at a rune boundary,
   decode-after-encode, and the symbol decomposition [decode_syms] of Model/Tags.v. *)
From Klog Require Import Base.Prelude Base.Utf8 Model.Tags.
From Coq Require Import ZifyBool.
Open Scope N_scope.

Ltac Zify.zify_post_hook ::= Z.to_euclidean_division_equations.

(* a Unicode scalar value: what a rune of a Go string can be after decoding *)
Definition is_scalar (r : N) : bool := (r <? 1114112) && negb ((55296 <=? r) && (r <=? 57343)).

Ltac split_ifs :=
  repeat match goal with
         | |- context [if ?c then _ else _] => destruct c eqn:?
         end.

(* ---------- inversion of decode_rune ---------- *)

Lemma decode_rune_inv s r w : decode_rune s = (r, w) -> s <> [] ->
  (exists b t, s = b :: t /\ w = 1%nat /\ ((b < 128 /\ r = b) \/ (128 <= b /\ r = rune_error))) \/
  (exists b0 b1 t, s = b0 :: b1 :: t /\ w = 2%nat /\ 194 <= b0 < 224 /\ 128 <= b1 <= 191 /\
     r = (b0 - 192) * 64 + (b1 - 128)) \/
  (exists b0 b1 b2 t, s = b0 :: b1 :: b2 :: t /\ w = 3%nat /\ 224 <= b0 < 240 /\ 128 <= b1 <= 191 /\ 128 <= b2 <= 191 /\
     (b0 = 224 -> 160 <= b1) /\ (b0 = 237 -> b1 <= 159) /\
     r = (b0 - 224) * 4096 + (b1 - 128) * 64 + (b2 - 128)) \/
  (exists b0 b1 b2 b3 t, s = b0 :: b1 :: b2 :: b3 :: t /\ w = 4%nat /\ 240 <= b0 < 245 /\ 128 <= b1 <= 191 /\
     128 <= b2 <= 191 /\ 128 <= b3 <= 191 /\ (b0 = 240 -> 144 <= b1) /\ (b0 = 244 -> b1 <= 143) /\
     r = (b0 - 240) * 262144 + (b1 - 128) * 4096 + (b2 - 128) * 64 + (b3 - 128)).
Proof.
  intros H Hne. destruct s as [|b0 t]; [congruence|]. clear Hne.
  unfold decode_rune in H.
  destruct (b0 <? 128) eqn:E1.
  { injection H as <- <-. left. exists b0, t. repeat split; try reflexivity. left. split; [lia | reflexivity]. }
  destruct (b0 <? 194) eqn:E2.
  { injection H as <- <-. left. exists b0, t. repeat split. right. split; [lia | reflexivity]. }
  assert (Herr : (rune_error, 1%nat) = (r, w) ->
    exists b t0, b0 :: t = b :: t0 /\ w = 1%nat /\ (b < 128 /\ r = b \/ 128 <= b /\ r = rune_error)).
  { intros [= <- <-]. exists b0, t. repeat split. right. split; [lia | reflexivity]. }
  destruct (b0 <? 224) eqn:E3.
  { destruct t as [|b1 t]; [left; auto|].
    unfold is_cont in H. destruct ((128 <=? b1) && (b1 <=? 191)) eqn:E4; [|left; auto].
    injection H as <- <-. right; left. exists b0, b1, t. repeat split; try lia. }
  destruct (b0 <? 240) eqn:E4.
  { destruct t as [|b1 [|b2 t]]; [left; auto | left; auto |].
    unfold in_range, is_cont in H.
    destruct (b0 =? 224) eqn:Ea; destruct (b0 =? 237) eqn:Eb;
    match type of H with (if ?c then _ else _) = _ => destruct c eqn:E5 end; try (left; auto; fail);
    injection H as <- <-; right; right; left; exists b0, b1, b2, t; repeat split; try lia. }
  destruct (b0 <? 245) eqn:E5.
  { destruct t as [|b1 [|b2 [|b3 t]]]; [left; auto | left; auto | left; auto |].
    unfold in_range, is_cont in H.
    destruct (b0 =? 240) eqn:Ea; destruct (b0 =? 244) eqn:Eb;
    match type of H with (if ?c then _ else _) = _ => destruct c eqn:E6 end; try (left; auto; fail);
    injection H as <- <-; right; right; right; exists b0, b1, b2, b3, t; repeat split; try lia. }
  left; auto.
Qed.

Lemma decode_rune_width s : s <> [] -> (1 <= snd (decode_rune s) <= length s)%nat.
Proof.
  intros Hne. destruct (decode_rune s) as [r w] eqn:E. simpl.
  destruct (decode_rune_inv _ _ _ E Hne) as [(b & t & -> & -> & _) | [(b0 & b1 & t & -> & -> & _) |
    [(b0 & b1 & b2 & t & -> & -> & _) | (b0 & b1 & b2 & b3 & t & -> & -> & _)]]]; simpl; lia.
Qed.

(* every decoded rune is a scalar value *)
Lemma decode_rune_scalar s : is_scalar (fst (decode_rune s)) = true.
Proof.
  destruct s as [|b t]; [reflexivity|].
  destruct (decode_rune (b :: t)) as [r w] eqn:E. simpl.
  destruct (decode_rune_inv _ _ _ E ltac:(discriminate)) as [(b' & t' & _ & _ & [[? ->] | [? ->]]) | [(b0 & b1 & t' & _ & _ & ? & ? & ->) |
    [(b0 & b1 & b2 & t' & _ & _ & ? & ? & ? & ? & ? & ->) | (b0 & b1 & b2 & b3 & t' & _ & _ & ? & ? & ? & ? & ? & ? & ->)]]];
  unfold is_scalar, rune_error; lia.
Qed.

(* an ASCII rune is its own single byte; every byte of any other symbol is >= 128 *)
Lemma decode_rune_bytes s r w : decode_rune s = (r, w) -> s <> [] ->
  (r < 128 /\ firstn w s = [r]) \/ (128 <= r /\ Forall (fun x => 128 <= x) (firstn w s)).
Proof.
  intros E Hne.
  destruct (decode_rune_inv _ _ _ E Hne) as [(b & t & -> & -> & [[? ->] | [? ->]]) | [(b0 & b1 & t & -> & -> & ? & ? & ->) |
    [(b0 & b1 & b2 & t & -> & -> & ? & ? & ? & ? & ? & ->) | (b0 & b1 & b2 & b3 & t & -> & -> & ? & ? & ? & ? & ? & ? & ->)]]];
  simpl firstn.
  - left. split; [assumption | reflexivity].
  - right. split; [unfold rune_error; lia | repeat constructor; assumption].
  - right. split; [lia | repeat constructor; lia].
  - right. split; [lia | repeat constructor; lia].
  - right. split; [lia | repeat constructor; lia].
Qed.

(* decoding looks at no byte beyond the rune it returns: truncating the input at or after the end of
   the first rune does not change it (also when that rune is an error of width 1) *)
Lemma decode_rune_firstn s k : (1 <= k)%nat -> (snd (decode_rune s) <= k)%nat ->
  decode_rune (firstn k s) = decode_rune s.
Proof.
  intros Hk Hw.
  destruct s as [|b0 [|b1 [|b2 [|b3 t]]]]; destruct k as [|[|[|[|k]]]]; try lia; cbn [firstn]; try reflexivity;
  revert Hw; unfold decode_rune; split_ifs; cbn [snd]; intros; try reflexivity; try lia.
Qed.

(* ---------- decode after encode ---------- *)

Lemma decode_encode_rune r t : is_scalar r = true ->
  decode_rune (encode_rune r ++ t) = (r, length (encode_rune r)).
Proof.
  unfold is_scalar, encode_rune. intros Hs.
  destruct (r <? 128) eqn:E1.
  { simpl. rewrite E1. reflexivity. }
  destruct (r <? 2048) eqn:E2.
  { cbn [app length]. unfold decode_rune, is_cont.
    replace (192 + r / 64 <? 128) with false by lia.
    replace (192 + r / 64 <? 194) with false by lia.
    replace (192 + r / 64 <? 224) with true by lia.
    replace ((128 <=? 128 + r mod 64) && (128 + r mod 64 <=? 191)) with true by lia.
    f_equal. lia. }
  replace ((55296 <=? r) && (r <=? 57343) || (1114111 <? r)) with false by lia.
  destruct (r <? 65536) eqn:E3.
  { cbn [app length]. unfold decode_rune, is_cont, in_range.
    replace (224 + r / 4096 <? 128) with false by lia.
    replace (224 + r / 4096 <? 194) with false by lia.
    replace (224 + r / 4096 <? 224) with false by lia.
    replace (224 + r / 4096 <? 240) with true by lia.
    match goal with |- (if ?c then _ else _) = _ => replace c with true end.
    - f_equal. lia.
    - destruct (224 + r / 4096 =? 224) eqn:Ea; destruct (224 + r / 4096 =? 237) eqn:Eb; lia. }
  cbn [app length]. unfold decode_rune, is_cont, in_range.
  replace (240 + r / 262144 <? 128) with false by lia.
  replace (240 + r / 262144 <? 194) with false by lia.
  replace (240 + r / 262144 <? 224) with false by lia.
  replace (240 + r / 262144 <? 240) with false by lia.
  replace (240 + r / 262144 <? 245) with true by lia.
  match goal with |- (if ?c then _ else _) = _ => replace c with true end.
  - f_equal. lia.
  - destruct (240 + r / 262144 =? 240) eqn:Ea; destruct (240 + r / 262144 =? 244) eqn:Eb; lia.
Qed.

Lemma encode_rune_nonempty r : encode_rune r <> [].
Proof. unfold encode_rune. split_ifs; discriminate. Qed.

(* a byte below 128 occurs in an encoding only as the encoding of that very rune *)
Lemma encode_rune_bytes r : (r < 128 /\ encode_rune r = [r]) \/ (128 <= r /\ Forall (fun x => 128 <= x) (encode_rune r)).
Proof.
  unfold encode_rune. destruct (r <? 128) eqn:E1; [left; split; [lia | reflexivity]|].
  right. split; [lia|]. split_ifs; repeat constructor; lia.
Qed.

(* ---------- symbols ---------- *)

Lemma syms_fuel_enough n : forall m s, (length s <= n)%nat -> (length s <= m)%nat -> syms_fuel n s = syms_fuel m s.
Proof.
  induction n as [|n IH]; intros m s Hn Hm.
  - destruct s; [|simpl in Hn; lia]. destruct m; reflexivity.
  - destruct s as [|b t]; [destruct m; reflexivity|].
    destruct m as [|m]; [simpl in Hm; lia|].
    cbn [syms_fuel]. destruct (decode_rune (b :: t)) as [r w] eqn:E.
    pose proof (decode_rune_width (b :: t) ltac:(discriminate)) as Hw. rewrite E in Hw. cbn [snd] in Hw.
    f_equal. apply IH; rewrite skipn_length; cbn [length] in *; lia.
Qed.

Lemma decode_syms_nil : decode_syms [] = [].
Proof. reflexivity. Qed.

Lemma decode_syms_cons b t :
  decode_syms (b :: t) =
  (fst (decode_rune (b :: t)), firstn (snd (decode_rune (b :: t))) (b :: t))
  :: decode_syms (skipn (snd (decode_rune (b :: t))) (b :: t)).
Proof.
  unfold decode_syms. cbn [length syms_fuel]. destruct (decode_rune (b :: t)) as [r w] eqn:E. cbn [fst snd].
  f_equal. pose proof (decode_rune_width (b :: t) ltac:(discriminate)) as Hw. rewrite E in Hw. cbn [snd] in Hw.
  apply syms_fuel_enough; rewrite skipn_length; cbn [length] in *; lia.
Qed.

(* the symbols, concatenated, are the string *)
Lemma raw_decode_syms s : raw (decode_syms s) = s.
Proof.
  remember (length s) as n eqn:Hn. revert s Hn.
  induction n as [n IH] using lt_wf_ind. intros s Hn.
  destruct s as [|b t]; [reflexivity|].
  rewrite decode_syms_cons. unfold raw. cbn [flat_map snd]. fold (raw (decode_syms (skipn (snd (decode_rune (b :: t))) (b :: t)))).
  pose proof (decode_rune_width (b :: t) ltac:(discriminate)) as Hw.
  rewrite (IH (length (skipn (snd (decode_rune (b :: t))) (b :: t)))); [apply firstn_skipn | | reflexivity].
  rewrite skipn_length. cbn [length] in *. lia.
Qed.

Lemma utf8_decode_syms s : utf8_decode s = map fst (decode_syms s).
Proof.
  unfold utf8_decode, decode_widths, decode_syms. generalize (length s) as n. intros n. revert s.
  induction n as [|n IH]; intros s; [reflexivity|].
  destruct s as [|b t]; [reflexivity|]. cbn [decode_fuel syms_fuel].
  destruct (decode_rune (b :: t)) as [r w]. cbn [map fst]. f_equal. apply IH.
Qed.

(* a list of symbols that is the decomposition of its own concatenation *)
Definition wf_syms (l : list sym) : Prop := decode_syms (raw l) = l.

Lemma wf_decode_syms s : wf_syms (decode_syms s).
Proof. unfold wf_syms. rewrite raw_decode_syms. reflexivity. Qed.

Lemma raw_app a b : raw (a ++ b) = raw a ++ raw b.
Proof. unfold raw. apply flat_map_app. Qed.

Lemma wf_syms_cons_inv x l : wf_syms (x :: l) ->
  snd x <> [] /\ decode_rune (snd x ++ raw l) = (fst x, length (snd x)) /\ wf_syms l.
Proof.
  destruct x as [xr xb]. unfold wf_syms. cbn [raw flat_map fst snd]. fold (raw l). intros H.
  remember (xb ++ raw l) as s eqn:Es. destruct s as [|b t]; [rewrite decode_syms_nil in H; discriminate|]. symmetry in Es.
  rewrite decode_syms_cons in H.
  pose proof (decode_rune_width (b :: t) ltac:(discriminate)) as Hw.
  destruct (decode_rune (b :: t)) as [r w] eqn:E. cbn [fst snd] in *. injection H as Hr Hb Hl.
  assert (Hraw : raw l = skipn w (b :: t)).
  { apply (app_inv_head xb). rewrite Es, <- Hb. symmetry. apply firstn_skipn. }
  assert (Hlen : length xb = w) by (rewrite <- Hb, firstn_length; lia).
  split; [|split].
  - intro Hnil. rewrite Hnil in Hlen. simpl in Hlen. lia.
  - rewrite Hlen, <- Hr. reflexivity.
  - rewrite Hraw. exact Hl.
Qed.

Lemma wf_syms_suffix l1 l2 : wf_syms (l1 ++ l2) -> wf_syms l2.
Proof.
  induction l1 as [|x l1 IH]; [auto|]. intros H. apply IH. apply (wf_syms_cons_inv x _ H).
Qed.

Lemma wf_syms_prefix l1 l2 : wf_syms (l1 ++ l2) -> wf_syms l1.
Proof.
  induction l1 as [|x l1 IH]; intros H; [reflexivity|].
  destruct (wf_syms_cons_inv x _ H) as (Hne & Hdec & Hwf). specialize (IH Hwf).
  destruct x as [xr xb]. cbn [fst snd] in *.
  unfold wf_syms. cbn [raw flat_map snd]. fold (raw l1).
  rewrite raw_app in Hdec.
  destruct xb as [|b t]; [congruence|].
  (* the first rune of the shorter string *)
  assert (Hd : decode_rune ((b :: t) ++ raw l1) = (xr, length (b :: t))).
  { rewrite <- (decode_rune_firstn ((b :: t) ++ raw l1 ++ raw l2) (length ((b :: t) ++ raw l1))) in Hdec.
    - rewrite app_assoc, firstn_app, firstn_all, Nat.sub_diag, firstn_O, app_nil_r in Hdec. exact Hdec.
    - simpl. lia.
    - rewrite Hdec. cbn [snd]. rewrite app_length. lia. }
  change ((b :: t) ++ raw l1) with (b :: t ++ raw l1) in *.
  rewrite decode_syms_cons, Hd. cbn [fst snd].
  change (b :: t ++ raw l1) with ((b :: t) ++ raw l1).
  rewrite firstn_app, firstn_all, Nat.sub_diag, firstn_O, app_nil_r.
  rewrite skipn_app, skipn_all, Nat.sub_diag. cbn [skipn app].
  rewrite IH. reflexivity.
Qed.

Lemma wf_syms_middle l1 l2 l3 : wf_syms (l1 ++ l2 ++ l3) -> wf_syms l2.
Proof. intros H. apply wf_syms_suffix in H. apply wf_syms_prefix in H. exact H. Qed.

(* the shape of one well-formed symbol *)
Lemma wf_sym_bytes x l : wf_syms (x :: l) ->
  (fst x < 128 /\ snd x = [fst x]) \/ (128 <= fst x /\ Forall (fun b => 128 <= b) (snd x)).
Proof.
  intros H. destruct (wf_syms_cons_inv x l H) as (Hne & Hdec & _).
  destruct x as [xr xb]. cbn [fst snd] in *.
  assert (Hs : xb ++ raw l <> []) by (destruct xb; [congruence | discriminate]).
  destruct (decode_rune_bytes _ _ _ Hdec Hs) as [[Hr Hf] | [Hr Hf]];
  rewrite firstn_app, firstn_all, Nat.sub_diag, firstn_O, app_nil_r in Hf; [left | right]; split; assumption.
Qed.

Lemma wf_syms_In x l : wf_syms l -> In x l ->
  (fst x < 128 /\ snd x = [fst x]) \/ (128 <= fst x /\ Forall (fun b => 128 <= b) (snd x)).
Proof.
  intros Hwf Hin. apply in_split in Hin as (l1 & l2 & ->).
  apply wf_syms_suffix in Hwf. apply (wf_sym_bytes x l2 Hwf).
Qed.

(* ---------- strings.ToLower ---------- *)

Lemma utf8_decode_encode rs : Forall (fun r => is_scalar r = true) rs -> utf8_decode (utf8_encode rs) = rs.
Proof.
  rewrite utf8_decode_syms. induction 1 as [|r rs Hr _ IH]; [reflexivity|].
  unfold utf8_encode. cbn [flat_map]. fold (utf8_encode rs).
  pose proof (decode_encode_rune r (utf8_encode rs) Hr) as Hd.
  destruct (encode_rune r) as [|b t] eqn:Ee; [exfalso; exact (encode_rune_nonempty r Ee)|].
  change ((b :: t) ++ utf8_encode rs) with (b :: t ++ utf8_encode rs) in *.
  rewrite decode_syms_cons, Hd. cbn [fst snd map]. f_equal.
  change (b :: t ++ utf8_encode rs) with ((b :: t) ++ utf8_encode rs).
  rewrite skipn_app, skipn_all, Nat.sub_diag. cbn [skipn app]. exact IH.
Qed.

Lemma utf8_decode_scalar s : Forall (fun r => is_scalar r = true) (utf8_decode s).
Proof.
  rewrite utf8_decode_syms.
  remember (length s) as n eqn:Hn. revert s Hn.
  induction n as [n IH] using lt_wf_ind. intros s Hn.
  destruct s as [|b t]; [constructor|].
  rewrite decode_syms_cons. cbn [map fst]. constructor; [apply decode_rune_scalar|].
  pose proof (decode_rune_width (b :: t) ltac:(discriminate)) as Hw.
  apply (IH (length (skipn (snd (decode_rune (b :: t))) (b :: t)))); [|reflexivity].
  rewrite skipn_length. cbn [length] in *. lia.
Qed.
