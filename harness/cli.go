package main

import (
	"os"
	"strings"
	gotime "time"

	"github.com/jotaen/klog/klog/app"
	cliutil "github.com/jotaen/klog/klog/app/cli/util"
	klogmain "github.com/jotaen/klog/klog/app/main"
)

// cliEnv is the runtime environment a klog command line is run in: a scratch config folder,
// a controlled clock, configuration, captured stdout. The real app.Context is embedded, so file
// access, parsing, reconciling and serialisation are the implementation's own.
type cliEnv struct {
	Home    string            // klog config folder (scratch directory)
	Clock   []gotime.Time     // successive readings of Now(); see clockMode
	Sticky  bool              // true: the last reading repeats forever; false: Now() panics with clockExhausted
	Config  string            // contents of config.ini
	Env     map[string]string // environment variables klog reads (NO_COLOR, EDITOR, ...)
	NumCpus int
	nowIdx  int
	out     strings.Builder
}

type clockExhausted struct{}

type fakeCtx struct {
	app.Context
	env *cliEnv
}

func (c *fakeCtx) Now() gotime.Time {
	e := c.env
	if len(e.Clock) == 0 {
		return gotime.Date(2000, 1, 1, 12, 0, 0, 0, gotime.Local)
	}
	if e.nowIdx >= len(e.Clock) {
		if e.Sticky {
			return e.Clock[len(e.Clock)-1]
		}
		panic(clockExhausted{})
	}
	t := e.Clock[e.nowIdx]
	e.nowIdx++
	return t
}

func (c *fakeCtx) Print(s string) { c.env.out.WriteString(s) }

// runKlog runs one klog command line through klog.Run (kong argument parsing, decoders, command,
// error prettifying) and returns exit code, captured stdout and the error text.
func runKlog(e *cliEnv, args ...string) (code int, stdout string, errText string) {
	e.out.Reset()
	e.nowIdx = 0
	n := e.NumCpus
	if n == 0 {
		n = 1
	}
	cfg, cErr := app.NewConfig(
		app.FromDeterminedValues{NumCpus: n},
		app.FromEnvVars{GetVar: func(k string) string { return e.Env[k] }},
		app.FromConfigFile{FileContents: e.Config},
	)
	if cErr != nil {
		return app.CONFIG_ERROR.ToInt(), "", "config: " + cErr.Error()
	}
	klogmain.VerifContextWrapper = func(ctx app.Context) app.Context { return &fakeCtx{ctx, e} }
	cliutil.VerifTickInterval = gotime.Microsecond
	defer func() {
		klogmain.VerifContextWrapper = nil
		if r := recover(); r != nil {
			if _, ok := r.(clockExhausted); ok {
				// the harness ended an endless loop (klog pause): not an error
				code, stdout, errText = 0, e.out.String(), ""
				return
			}
			panic(r)
		}
	}()
	c, err := klogmain.Run(app.NewFileOrPanic(e.Home), app.Meta{Version: "verif"}, cfg, args)
	if err != nil {
		return c, e.out.String(), err.Error()
	}
	return c, e.out.String(), ""
}

func scratchDir() string {
	d, err := os.MkdirTemp("", "klogverif")
	if err != nil {
		panic(err)
	}
	return d
}

func writeFile(path string, contents string) {
	if err := os.WriteFile(path, []byte(contents), 0600); err != nil {
		panic(err)
	}
}

func readFile(path string) string {
	b, err := os.ReadFile(path)
	if err != nil {
		return "<unreadable>"
	}
	return string(b)
}
