(* Commands: the mutating commands as a whole (C05, C03 at command level, C04). About Model/Commands.v.
   Part 1 (C05): [reconcile_file] returns a file only from its last step, and only one that parses:
     - [exec_ok_valid], [exec_written_valid]    what is written parses
     - [exec_err_no_write]                      a failing command leaves the file as it was
     - [reconcile_file_step_fails]              a failure of step k of n aborts the whole command
     - [reconcile_file_unparseable], [reconcile_file_no_record], [reconcile_file_invalid_result]
   Part 2 (C03): every command is a minimal edit of the line list.
   C04 (refinement of an abstract model on parsed records) is in Proofs/CommandsSpec.v, CommandsRefine.v,
   CommandsStop.v, CommandsPause.v, CommandsHistory.v and CommandsReject.v. *)
From Klog Require Import Base.Prelude Base.Utf8 Model.Calendar Model.Values Model.Record Model.Lines Model.Parser
  Model.Tags Model.Reconcile Model.Commands Proofs.Lines Proofs.Parser Proofs.Style Proofs.Reconcile.
From Coq Require Import ZifyBool.
Open Scope Z_scope.

(* ---------------------------------------------------------------- plumbing *)

Lemma cbind_ok {A B} (x : cresult A) (f : A -> cresult B) y : cbind x f = COk y -> exists a, x = COk a /\ f a = COk y.
Proof. destruct x as [a| |]; cbn [cbind]; [|discriminate|discriminate]. intros H. exists a. auto. Qed.

Lemma of_outcome_ok {A} (o : outcome A) a : of_outcome o = COk a -> o = Ok a.
Proof. destruct o; cbn [of_outcome]; [|discriminate|discriminate]. intros [= <-]. reflexivity. Qed.

Definition parses (file : bytes) : Prop := exists rs bs, parse_text file = Ok (Parsed rs bs).

(* the steps of ApplyReconciler, threaded through *)
Definition run_steps (rs : list record) (steps : list (list record -> reconciler -> cresult reconciler)) (acc : cresult reconciler)
  : cresult reconciler :=
  fold_left (fun acc step => let+ r := acc in step rs r) steps acc.

Lemma run_steps_err rs steps e : run_steps rs steps (CErr e) = CErr e.
Proof. induction steps as [|s steps IH]; [reflexivity|]. cbn [run_steps fold_left cbind]. exact IH. Qed.

Lemma run_steps_crash rs steps : run_steps rs steps CCrash = CCrash.
Proof. induction steps as [|s steps IH]; [reflexivity|]. cbn [run_steps fold_left cbind]. exact IH. Qed.

Lemma run_steps_app rs s1 s2 acc : run_steps rs (s1 ++ s2) acc = run_steps rs s2 (run_steps rs s1 acc).
Proof. unfold run_steps. apply fold_left_app. Qed.

Lemma run_steps_cons rs s steps r : run_steps rs (s :: steps) (COk r) = run_steps rs steps (s rs r).
Proof. reflexivity. Qed.

Lemma reconcile_file_unfold file mk steps :
  reconcile_file file mk steps =
  match parse_text file with
  | Ok (Parsed rs bs) =>
    let+ r0 := mk rs bs in
    let+ r := run_steps rs steps (COk r0) in
    match make_result r with
    | Some (text, _) => COk text
    | None => CErr CEInvalidResult
    end
  | Ok (Failed _) => CErr CEParse
  | _ => CCrash
  end.
Proof. reflexivity. Qed.

Lemma make_result_some r text rs : make_result r = Some (text, rs) ->
  text = text_of_lines (rc_lines r) /\ exists bs, parse_text text = Ok (Parsed rs bs).
Proof.
  unfold make_result. destruct (parse_text (text_of_lines (rc_lines r))) as [[rs' bs|es]| |] eqn:E; try discriminate.
  intros [= <- <-]. split; [reflexivity|]. exists bs. exact E.
Qed.

(* ReconcileFile succeeded: the target parsed, a creator yielded a reconciler, every step succeeded, and the text
   that is written is the reconciler's lines, which re-parse *)
Theorem reconcile_file_ok file mk steps file' : reconcile_file file mk steps = COk file' ->
  exists rs bs r0 r rs', parse_text file = Ok (Parsed rs bs) /\ mk rs bs = COk r0 /\
    run_steps rs steps (COk r0) = COk r /\ file' = text_of_lines (rc_lines r) /\
    make_result r = Some (file', rs') /\ exists bs', parse_text file' = Ok (Parsed rs' bs').
Proof.
  rewrite reconcile_file_unfold. destruct (parse_text file) as [[rs bs|es]| |]; try discriminate.
  intros H. apply cbind_ok in H as (r0 & Hmk & H). apply cbind_ok in H as (r & Hst & H).
  destruct (make_result r) as [[text rs']|] eqn:Em; [|discriminate]. injection H as <-.
  destruct (make_result_some _ _ _ Em) as (Ht & bs' & Hp).
  exists rs, bs, r0, r, rs'. repeat split; try assumption. exists bs'. exact Hp.
Qed.

(* ---------------------------------------------------------------- C05: success means a valid file *)

Theorem reconcile_file_valid file mk steps file' : reconcile_file file mk steps = COk file' -> parses file'.
Proof.
  intros H. apply reconcile_file_ok in H as (rs & bs & r0 & r & rs' & _ & _ & _ & _ & _ & bs' & Hp).
  exists rs', bs'. exact Hp.
Qed.

Theorem exec_ok_valid now cfg c file file' : exec_simple now cfg c file = COk file' -> parses file'.
Proof.
  destruct c as [ds entry|a s|a summary|a s|ds should summary|summary no_tags extend ticks]; cbn [exec_simple]; intros H.
  - apply cbind_ok in H as (d & _ & H). exact (reconcile_file_valid _ _ _ _ H).
  - apply cbind_ok in H as (d & _ & H). apply cbind_ok in H as (t & _ & H). exact (reconcile_file_valid _ _ _ _ H).
  - apply cbind_ok in H as (d & _ & H). apply cbind_ok in H as (t & _ & H). cbv zeta in H.
    apply cbind_ok in H as (y & _ & H). exact (reconcile_file_valid _ _ _ _ H).
  - apply cbind_ok in H as (d & _ & H). apply cbind_ok in H as (t & _ & H). exact (reconcile_file_valid _ _ _ _ H).
  - apply cbind_ok in H as (d & _ & H). exact (reconcile_file_valid _ _ _ _ H).
  - discriminate.
Qed.

Lemma pause_reconcile_valid now file op file' : pause_reconcile now file op = COk file' -> parses file'.
Proof.
  unfold pause_reconcile. destruct (plus_days (now_date now) (-1)); [|discriminate|discriminate].
  apply reconcile_file_valid.
Qed.

Lemma pause_loop_valid now ticks : forall captured file, parses file -> parses (fst (pause_loop now ticks captured file)).
Proof.
  induction ticks as [|t rest IH]; intros captured file Hp; cbn [pause_loop]; [exact Hp|].
  destruct (0 <? go_div t 60 - captured).
  - destruct (pause_reconcile now file _) as [file'| |] eqn:E; cbn [fst]; [|exact Hp|exact Hp].
    apply IH. exact (pause_reconcile_valid _ _ _ _ E).
  - apply IH. exact Hp.
Qed.

(* every command, `pause` with all its ticks included: the file afterwards is the file before, or one that parses *)
Theorem exec_written_valid now cfg c file : fst (exec now cfg c file) = file \/ parses (fst (exec now cfg c file)).
Proof.
  destruct c as [ds entry|a s|a summary|a s|ds should summary|summary no_tags extend ticks];
    try (unfold exec; match goal with |- context [exec_simple ?n ?g ?c ?f] => destruct (exec_simple n g c f) as [f'| |] eqn:E end;
         cbn [fst]; [right; exact (exec_ok_valid _ _ _ _ _ E)|left; reflexivity|left; reflexivity]).
  cbn [exec]. destruct (extend && _); [left; reflexivity|].
  destruct (pause_reconcile now file _) as [file1| |] eqn:E; [|left; reflexivity|left; reflexivity].
  right. apply pause_loop_valid. exact (pause_reconcile_valid _ _ _ _ E).
Qed.

(* success as reported: the file on disk parses *)
Theorem exec_success_valid now cfg c file file' : exec now cfg c file = (file', COk tt) -> parses file'.
Proof.
  intros H. destruct c as [ds entry|a s|a summary|a s|ds should summary|summary no_tags extend ticks];
    try (unfold exec in H;
         match type of H with context [exec_simple ?n ?g ?c ?f] => destruct (exec_simple n g c f) as [f'| |] eqn:E end;
         try discriminate; injection H as <-; exact (exec_ok_valid _ _ _ _ _ E)).
  cbn [exec] in H. destruct (extend && _); [discriminate|].
  destruct (pause_reconcile now file _) as [file1| |] eqn:E; [|discriminate|discriminate].
  pose proof (pause_loop_valid now ticks 0 file1 (pause_reconcile_valid _ _ _ _ E)) as G.
  rewrite H in G. exact G.
Qed.

(* ---------------------------------------------------------------- C05: failure means an untouched file *)

Definition is_pause_cmd (c : command) : bool := match c with Pause _ _ _ _ => true | _ => false end.

Theorem exec_err_no_write now cfg c file file' res : is_pause_cmd c = false ->
  exec now cfg c file = (file', res) -> res <> COk tt -> file' = file.
Proof.
  intros Hc H Hres. destruct c; try discriminate Hc; unfold exec in H;
    match type of H with context [exec_simple ?n ?g ?c ?f] => destruct (exec_simple n g c f) as [f'| |] end;
    injection H as <- <-; try reflexivity; contradiction.
Qed.

(* the failure classes *)
Theorem reconcile_file_unparseable file mk steps es : parse_text file = Ok (Failed es) ->
  reconcile_file file mk steps = CErr CEParse.
Proof. intros H. rewrite reconcile_file_unfold, H. reflexivity. Qed.

Theorem reconcile_file_no_creator file mk steps rs bs e : parse_text file = Ok (Parsed rs bs) -> mk rs bs = CErr e ->
  reconcile_file file mk steps = CErr e.
Proof. intros H Hm. rewrite reconcile_file_unfold, H, Hm. reflexivity. Qed.

Lemma first_creator_none cs : Forall (fun o => o = None) cs -> first_creator cs = CErr CENoSuchRecord.
Proof.
  intros H. unfold first_creator. induction H as [|o cs Ho H IH]; [reflexivity|]. subst o. cbn [flat_map app]. exact IH.
Qed.

(* a failure in step k of n: the steps before it succeeded, step k reports an error — the command reports that error
   and returns no file, whatever the later steps would have done *)
Theorem reconcile_file_step_fails file mk s1 step s2 rs bs r0 rk e :
  parse_text file = Ok (Parsed rs bs) -> mk rs bs = COk r0 ->
  run_steps rs s1 (COk r0) = COk rk -> step rs rk = CErr e ->
  reconcile_file file mk (s1 ++ step :: s2) = CErr e.
Proof.
  intros Hp Hm H1 Hs. rewrite reconcile_file_unfold, Hp, Hm. cbn [cbind].
  rewrite run_steps_app, H1, run_steps_cons, Hs, run_steps_err. reflexivity.
Qed.

Theorem reconcile_file_step_crashes file mk s1 step s2 rs bs r0 rk :
  parse_text file = Ok (Parsed rs bs) -> mk rs bs = COk r0 ->
  run_steps rs s1 (COk r0) = COk rk -> step rs rk = CCrash ->
  reconcile_file file mk (s1 ++ step :: s2) = CCrash.
Proof.
  intros Hp Hm H1 Hs. rewrite reconcile_file_unfold, Hp, Hm. cbn [cbind].
  rewrite run_steps_app, H1, run_steps_cons, Hs, run_steps_crash. reflexivity.
Qed.

(* the edited text would not be a valid file: refused *)
Theorem reconcile_file_invalid_result file mk steps rs bs r0 r :
  parse_text file = Ok (Parsed rs bs) -> mk rs bs = COk r0 -> run_steps rs steps (COk r0) = COk r ->
  ~ parses (text_of_lines (rc_lines r)) -> reconcile_file file mk steps = CErr CEInvalidResult.
Proof.
  intros Hp Hm Hs Hn. rewrite reconcile_file_unfold, Hp, Hm. cbn [cbind]. rewrite Hs. cbn [cbind].
  unfold make_result. destruct (parse_text (text_of_lines (rc_lines r))) as [[rs' bs'|es]| |] eqn:E; try reflexivity.
  elim Hn. exists rs', bs'. exact E.
Qed.

(* never a file and a failure at once, never success without all steps: the only way to COk is [reconcile_file_ok] *)

(* an unparseable target: no command succeeds; once the arguments are resolved the error is "parse" *)
Theorem exec_unparseable now cfg c file es : parse_text file = Ok (Failed es) -> is_pause_cmd c = false ->
  exec_simple now cfg c file = CErr CEParse \/
  (forall file2, exec_simple now cfg c file2 = exec_simple now cfg c file) /\ forall f, exec_simple now cfg c file <> COk f.
Proof.
  intros Hp Hc.
  destruct c as [ds entry|a s|a summary|a s|ds should summary|summary no_tags extend ticks]; try discriminate Hc; cbn [exec_simple].
  - destruct (of_outcome (at_date now ds)) as [d| |]; cbn [cbind]; [left; exact (reconcile_file_unparseable _ _ _ _ Hp)| |];
      right; split; [reflexivity|discriminate|reflexivity|discriminate].
  - destruct (of_outcome (at_date now (a_date a))) as [d| |]; cbn [cbind]; [| |];
      [|right; split; [reflexivity|discriminate]|right; split; [reflexivity|discriminate]].
    destruct (at_time now cfg a) as [t| |]; cbn [cbind]; [left; exact (reconcile_file_unparseable _ _ _ _ Hp)| |];
      right; split; [reflexivity|discriminate|reflexivity|discriminate].
  - destruct (of_outcome (at_date now (a_date a))) as [d| |]; cbn [cbind]; [| |];
      [|right; split; [reflexivity|discriminate]|right; split; [reflexivity|discriminate]].
    destruct (at_time now cfg a) as [t| |]; cbn [cbind]; [| |];
      [|right; split; [reflexivity|discriminate]|right; split; [reflexivity|discriminate]].
    cbv zeta. destruct (if was_automatic a then of_outcome (plus_days (dt d) (-1)) else COk (dt d)) as [y| |]; cbn [cbind];
      [left; exact (reconcile_file_unparseable _ _ _ _ Hp)| |]; right; split; [reflexivity|discriminate|reflexivity|discriminate].
  - destruct (of_outcome (at_date now (a_date a))) as [d| |]; cbn [cbind]; [| |];
      [|right; split; [reflexivity|discriminate]|right; split; [reflexivity|discriminate]].
    destruct (at_time now cfg a) as [t| |]; cbn [cbind]; [left; exact (reconcile_file_unparseable _ _ _ _ Hp)| |];
      right; split; [reflexivity|discriminate|reflexivity|discriminate].
  - destruct (of_outcome (at_date now ds)) as [d| |]; cbn [cbind]; [left; exact (reconcile_file_unparseable _ _ _ _ Hp)| |];
      right; split; [reflexivity|discriminate|reflexivity|discriminate].
Qed.

(* switch: a failure of the second step (start) after a successful first step (stop) writes nothing *)
Theorem switch_second_step_fails now cfg a s file d t rs bs r0 r1 e :
  at_date now (a_date a) = Ok d -> at_time now cfg a = COk t ->
  parse_text file = Ok (Parsed rs bs) -> reconciler_at_record (dt d) rs bs = Some r0 ->
  close_open_range r0 t (time_format cfg a) [] = ROk r1 ->
  (let+ summary := resolve_summary s (rc_record r1) None in
   lift_r (start_open_range r1 t (time_format cfg a) summary)) = CErr e ->
  exec now cfg (Switch a s) file = (file, CErr e).
Proof.
  intros Hd Ht Hp Hr H1 H2. unfold exec, exec_simple. rewrite Hd. cbn [of_outcome cbind]. rewrite Ht. cbn [cbind].
  match goal with |- context [reconcile_file file ?mk [?s1; ?s2]] =>
    assert (G : reconcile_file file mk ([s1] ++ s2 :: []) = CErr e) end.
  { apply (reconcile_file_step_fails file _ _ _ _ rs bs r0 r1 e Hp).
    - unfold first_creator, at_record. rewrite Hr. reflexivity.
    - cbn [run_steps fold_left cbind]. rewrite H1. reflexivity.
    - exact H2. }
  cbn [app] in G. rewrite G. reflexivity.
Qed.

(* no record of the target date: switch (and stop with a date selection, C17_stop_no_fallback) fail with "no such record" *)
Theorem switch_no_record now cfg a s file d t rs bs :
  at_date now (a_date a) = Ok d -> at_time now cfg a = COk t ->
  parse_text file = Ok (Parsed rs bs) -> reconciler_at_record (dt d) rs bs = None ->
  exec now cfg (Switch a s) file = (file, CErr CENoSuchRecord).
Proof.
  intros Hd Ht Hp Hr. unfold exec, exec_simple. rewrite Hd. cbn [of_outcome cbind]. rewrite Ht. cbn [cbind].
  rewrite (reconcile_file_no_creator file _ _ rs bs CENoSuchRecord Hp); [reflexivity|].
  unfold first_creator, at_record. rewrite Hr. reflexivity.
Qed.

(* ================================================================ Part 2 (C03): commands are minimal edits *)

(* the lines the reconciler starts from: the file's own lines; for a file of blank lines only, none *)
Lemma parsed_blocks file rs bs : parse_text file = Ok (Parsed rs bs) -> bs = blocks_of file.
Proof. intros H. exact (proj1 (proj1 (parse_text_blockwise file) rs bs H)). Qed.

Theorem start_lines file rs bs : parse_text file = Ok (Parsed rs bs) ->
  ((exists l, In l (lines_of file) /\ is_blank l = false) -> flatten_blocks bs = lines_of file) /\
  (Forall (fun l => is_blank l = true) (lines_of file) -> flatten_blocks bs = [] /\ rs = []).
Proof.
  intros H. pose proof (parsed_blocks _ _ _ H) as ->. split.
  - intros Hs. unfold blocks_of. apply blocks_lossless. exact Hs.
  - intros Hb. assert (E : blocks_of file = []) by (apply no_blocks_iff_all_blank; exact Hb).
    split; [rewrite E; reflexivity|].
    destruct (parse_text_total file) as [(rs' & bs' & H' & Hl & Hbs)|(es & H' & _)]; rewrite H' in H; [|discriminate].
    injection H as -> _. rewrite Hbs, E in Hl. destruct rs; [reflexivity|discriminate Hl].
Qed.

Lemma lift_r_ok x r : lift_r x = COk r -> x = ROk r.
Proof. destruct x; cbn [lift_r]; [|discriminate|discriminate]. intros [= <-]. reflexivity. Qed.

(* ---- an insertion into a block that was itself just inserted stays one block ---- *)

Lemma insert_into_block st k texts G blk post ls' :
  zlen G < k <= zlen G + zlen blk -> insert st k texts (G ++ blk ++ post) = Ok ls' ->
  exists blk', blk' <> [] /\ ls' = G ++ blk' ++ post.
Proof.
  intros Hk H. apply insert_inv in H as [_ ->]. unfold zlen in Hk.
  set (n := Z.to_nat k). set (m := (n - length G)%nat).
  assert (Hm : (1 <= m <= length blk)%nat) by (unfold m, n; lia).
  assert (Hn : (length G <= n)%nat) by (unfold n; lia).
  assert (F : firstn n (G ++ blk ++ post) = G ++ firstn m blk).
  { rewrite firstn_app, firstn_all2 by exact Hn. fold m. rewrite firstn_app.
    replace (m - length blk)%nat with O by lia. cbn [firstn]. rewrite app_nil_r. reflexivity. }
  assert (S : skipn n (G ++ blk ++ post) = skipn m blk ++ post).
  { rewrite skipn_app, skipn_all2 by exact Hn. fold m. cbn [app]. rewrite skipn_app.
    replace (m - length blk)%nat with O by lia. reflexivity. }
  rewrite F, S.
  assert (Hf : firstn m blk <> []).
  { intros E. apply (f_equal (@length _)) in E. rewrite firstn_length in E. cbn in E. lia. }
  rewrite (give_ending_app _ _ _ Hf).
  exists (give_ending_to_last (sp_val (st_eol st)) (firstn m blk) ++ map (mk_inserted st) texts ++ skipn m blk).
  split.
  - intros E. apply app_eq_nil in E as [E _]. apply (f_equal (@length _)) in E. rewrite give_ending_length in E.
    apply Hf. destruct (firstn m blk); [reflexivity|discriminate E].
  - rewrite <- !app_assoc. reflexivity.
Qed.

Lemma zlen_give_ending eol ls : zlen (give_ending_to_last eol ls) = zlen ls.
Proof. unfold zlen. rewrite give_ending_length. reflexivity. Qed.

(* a reconciler whose lines are [before] with one block added, the insertion point being inside or at the end of it *)
Definition one_block (before : list line) (rc : reconciler) : Prop :=
  exists pre post blk, before = pre ++ post /\ blk <> [] /\
    rc_lines rc = give_ending_to_last (sp_val (st_eol (rc_style rc))) pre ++ blk ++ post /\
    zlen pre < rc_last rc <= zlen pre + zlen blk.

Theorem new_record_shape d fmt should summary rs bs rc : reconciler_for_new_record d fmt should summary rs bs = Ok rc ->
  one_block (flatten_blocks bs) rc /\
  rc_record rc = {| rec_date := d; rec_should := should; rec_summary := summary; rec_entries := [] |} /\
  rc_style rc = elect default_style rs bs.
Proof.
  unfold reconciler_for_new_record. cbn zeta.
  set (st := elect default_style rs bs).
  set (headline := _ ++ match should with Some m => _ | None => [] end).
  destruct rs as [|r0 rs'].
  - destruct (insert st 0 _ (flatten_blocks bs)) as [ls| |] eqn:I; cbn [bind]; [|discriminate|discriminate].
    intros [= <-]. cbn [rc_lines rc_record rc_style rc_last]. split; [|split; reflexivity].
    apply insert_splice in I as (pre & post & E & Hl & ->).
    exists pre, post, (map (mk_inserted st) ((headline, O) :: map (fun s => (s, O)) summary)).
    cbn [rc_lines rc_style rc_last]. split; [exact E|]. split; [discriminate|]. split; [reflexivity|].
    rewrite Hl. unfold zlen. cbn [map List.length]. lia.
  - destruct (negb (cdate_geb (dt d) (dt (rec_date r0)))).
    + destruct (insert st 0 _ (flatten_blocks bs)) as [ls| |] eqn:I; cbn [bind]; [|discriminate|discriminate].
      intros [= <-]. cbn [rc_lines rc_record rc_style rc_last]. split; [|split; reflexivity].
      apply insert_splice in I as (pre & post & E & Hl & ->).
      exists pre, post, (map (mk_inserted st) (((headline, O) :: map (fun s => (s, O)) summary) ++ [([], O)])).
      cbn [rc_lines rc_style rc_last]. split; [exact E|]. split; [discriminate|]. split; [reflexivity|].
      rewrite Hl. unfold zlen. cbn [map List.length app]. lia.
    + destruct (nth_error bs _) as [b|]; [|discriminate].
      destruct (insert st (index_of_last_significant b) _ (flatten_blocks bs)) as [ls| |] eqn:I; cbn [bind]; [|discriminate|discriminate].
      intros [= <-]. cbn [rc_lines rc_record rc_style rc_last]. split; [|split; reflexivity].
      apply insert_splice in I as (pre & post & E & Hl & ->).
      exists pre, post, (map (mk_inserted st) (([], O) :: (headline, O) :: map (fun s => (s, O)) summary)).
      cbn [rc_lines rc_style rc_last]. split; [exact E|]. split; [discriminate|]. split; [reflexivity|].
      rewrite Hl. unfold zlen. cbn [map List.length]. lia.
Qed.

Lemma one_block_medit before rc : one_block before rc -> medit 0 1 before (rc_lines rc).
Proof. intros (pre & post & blk & -> & Hb & -> & _). apply edit_insertion. exact Hb. Qed.

Lemma one_block_insert before rc texts ls' : one_block before rc ->
  insert (rc_style rc) (rc_last rc) texts (rc_lines rc) = Ok ls' -> medit 0 1 before ls'.
Proof.
  intros (pre & post & blk & -> & Hb & E & Hk) H. rewrite E in H.
  apply insert_into_block in H as (blk' & Hb' & ->); [|rewrite zlen_give_ending; exact Hk].
  apply edit_insertion. exact Hb'.
Qed.

Lemma first_creator_at_or_new d d' fmt should summary rs bs r0 :
  first_creator [at_record d rs bs; new_record d' fmt should summary rs bs] = COk r0 ->
  reconciler_at_record d rs bs = Some r0 \/
  (reconciler_at_record d rs bs = None /\ reconciler_for_new_record d' fmt should summary rs bs = Ok r0).
Proof.
  unfold first_creator, at_record, new_record. destruct (reconciler_at_record d rs bs) as [r|]; cbn [flat_map app].
  - intros [= <-]. left. reflexivity.
  - intros H. right. split; [reflexivity|]. apply of_outcome_ok. exact H.
Qed.

(* where a command's reconciler starts: the file's lines as they are, or with the new record's block *)
Definition start_point (before : list line) (r0 : reconciler) : Prop := rc_lines r0 = before \/ one_block before r0.

Lemma start_point_at_or_new d d' fmt should summary rs bs r0 :
  first_creator [at_record d rs bs; new_record d' fmt should summary rs bs] = COk r0 -> start_point (flatten_blocks bs) r0.
Proof.
  intros H. apply first_creator_at_or_new in H as [H|[_ H]].
  - left. exact (at_record_lines _ _ _ _ H).
  - right. exact (proj1 (new_record_shape _ _ _ _ _ _ _ H)).
Qed.

Lemma start_point_insert before r0 texts ls' : start_point before r0 -> texts <> [] ->
  insert (rc_style r0) (rc_last r0) texts (rc_lines r0) = Ok ls' -> medit 0 1 before ls'.
Proof.
  intros [E|Hb] Ht H.
  - rewrite <- E. exact (medit_of_insert _ _ _ _ _ H Ht).
  - exact (one_block_insert _ _ _ _ Hb H).
Qed.

(* the edit budget of each command: (rewritten lines, added blocks) *)
Definition edit_budget (c : command) : nat * nat :=
  match c with
  | Track _ _ => (0, 1) | Start _ _ => (0, 1) | Create _ _ _ => (0, 1)
  | Stop _ _ => (2, 1) | Switch _ _ => (2, 2) | Pause _ _ _ _ => (1, 1)
  end%nat.

(* C03 for every command but pause: on success the written text is the serialisation of a line list that is a
   minimal edit of the file's own lines *)
Theorem exec_simple_minimal now cfg c file file' : exec_simple now cfg c file = COk file' ->
  exists rs bs after, parse_text file = Ok (Parsed rs bs) /\ file' = text_of_lines after /\
    medit (fst (edit_budget c)) (snd (edit_budget c)) (flatten_blocks bs) after.
Proof.
  destruct c as [ds entry|a s|a summary|a s|ds should summary|summary no_tags extend ticks]; cbn [exec_simple edit_budget fst snd]; intros H.
  - (* track *)
    apply cbind_ok in H as (d & _ & H).
    apply reconcile_file_ok in H as (rs & bs & r0 & r & rs' & Hp & Hmk & Hst & -> & _).
    exists rs, bs, (rc_lines r). split; [exact Hp|]. split; [reflexivity|].
    cbn [run_steps fold_left cbind] in Hst. apply lift_r_ok in Hst. unfold append_entry in Hst.
    apply lift_lines_ok in Hst as (ls & Hi & ->). cbn [with_lines rc_lines].
    exact (start_point_insert _ _ _ _ (start_point_at_or_new _ _ _ _ _ _ _ _ Hmk) (to_multiline_nonempty _ _) Hi).
  - (* start *)
    apply cbind_ok in H as (d & _ & H). apply cbind_ok in H as (t & _ & H).
    apply reconcile_file_ok in H as (rs & bs & r0 & r & rs' & Hp & Hmk & Hst & -> & _).
    exists rs, bs, (rc_lines r). split; [exact Hp|]. split; [reflexivity|].
    cbn [run_steps fold_left cbind] in Hst. apply cbind_ok in Hst as (sm & _ & Hst). apply lift_r_ok in Hst.
    unfold start_open_range in Hst. destruct (negb _); [discriminate|].
    destruct (match apply_reformat (time_format cfg a) (time_format_of (rc_style r0)) with None => Ok t | Some f => _ end) as [st| |];
      [|discriminate|discriminate].
    apply lift_lines_ok in Hst as (ls & Hi & ->). cbn [with_lines rc_lines].
    exact (start_point_insert _ _ _ _ (start_point_at_or_new _ _ _ _ _ _ _ _ Hmk) (to_multiline_nonempty _ _) Hi).
  - (* stop *)
    apply cbind_ok in H as (d & _ & H). apply cbind_ok in H as (t & _ & H). cbv zeta in H.
    apply cbind_ok in H as (y & _ & H).
    apply reconcile_file_ok in H as (rs & bs & r0 & r & rs' & Hp & Hmk & Hst & -> & _).
    exists rs, bs, (rc_lines r). split; [exact Hp|]. split; [reflexivity|].
    cbn [run_steps fold_left cbind] in Hst. apply cbind_ok in Hst as (t' & _ & Hst). apply lift_r_ok in Hst.
    assert (E : rc_lines r0 = flatten_blocks bs).
    { unfold first_creator, at_record in Hmk.
      destruct (reconciler_at_record (dt d) rs bs) as [r1|] eqn:E1; cbn [flat_map app] in Hmk.
      - injection Hmk as <-. exact (at_record_lines _ _ _ _ E1).
      - destruct (was_automatic a); [|discriminate].
        destruct (reconciler_at_record y rs bs) as [r1|] eqn:E2; cbn [flat_map app] in Hmk; [|discriminate].
        injection Hmk as <-. exact (at_record_lines _ _ _ _ E2). }
    rewrite <- E. exact (close_open_range_minimal _ _ _ _ _ Hst).
  - (* switch *)
    apply cbind_ok in H as (d & _ & H). apply cbind_ok in H as (t & _ & H).
    apply reconcile_file_ok in H as (rs & bs & r0 & r & rs' & Hp & Hmk & Hst & -> & _).
    exists rs, bs, (rc_lines r). split; [exact Hp|]. split; [reflexivity|].
    cbn [run_steps fold_left cbind] in Hst. apply cbind_ok in Hst as (r1 & H1 & Hst).
    apply lift_r_ok in H1. apply cbind_ok in Hst as (sm & _ & Hst). apply lift_r_ok in Hst.
    assert (E : rc_lines r0 = flatten_blocks bs).
    { unfold first_creator, at_record in Hmk.
      destruct (reconciler_at_record (dt d) rs bs) as [r2|] eqn:E1; cbn [flat_map app] in Hmk; [|discriminate].
      injection Hmk as <-. exact (at_record_lines _ _ _ _ E1). }
    rewrite <- E.
    exact (medit_trans 2 1 0 1 _ _ _ (close_open_range_minimal _ _ _ _ _ H1) (start_open_range_minimal _ _ _ _ _ Hst)).
  - (* create *)
    apply cbind_ok in H as (d & _ & H).
    apply reconcile_file_ok in H as (rs & bs & r0 & r & rs' & Hp & Hmk & Hst & -> & _).
    exists rs, bs, (rc_lines r). split; [exact Hp|]. split; [reflexivity|].
    cbn [run_steps fold_left] in Hst. injection Hst as <-.
    unfold first_creator, new_record in Hmk. cbn [flat_map app] in Hmk. apply of_outcome_ok in Hmk.
    exact (new_record_minimal _ _ _ _ _ _ _ Hmk).
  - discriminate.
Qed.

(* pause: every single write (the initial AppendPause / ExtendPause 0, then one ExtendPause per completed minute)
   is a minimal edit of the file as it was just before that write *)
Theorem pause_reconcile_minimal now file op file' :
  (forall r r', op r = COk r' -> medit 1 1 (rc_lines r) (rc_lines r')) ->
  pause_reconcile now file op = COk file' ->
  exists rs bs after, parse_text file = Ok (Parsed rs bs) /\ file' = text_of_lines after /\ medit 1 1 (flatten_blocks bs) after.
Proof.
  intros Hop. unfold pause_reconcile. destruct (plus_days (now_date now) (-1)) as [y| |]; [|discriminate|discriminate].
  intros H. apply reconcile_file_ok in H as (rs & bs & r0 & r & rs' & Hp & Hmk & Hst & -> & _).
  exists rs, bs, (rc_lines r). split; [exact Hp|]. split; [reflexivity|].
  cbn [run_steps fold_left cbind] in Hst.
  assert (E : rc_lines r0 = flatten_blocks bs).
  { unfold first_creator, at_record in Hmk.
    destruct (reconciler_at_record (now_date now) rs bs) as [r1|] eqn:E1; cbn [flat_map app] in Hmk.
    - injection Hmk as <-. exact (at_record_lines _ _ _ _ E1).
    - destruct (reconciler_at_record y rs bs) as [r1|] eqn:E2; cbn [flat_map app] in Hmk; [|discriminate].
      injection Hmk as <-. exact (at_record_lines _ _ _ _ E2). }
  rewrite <- E. exact (Hop _ _ Hst).
Qed.

Lemma pause_append_op tags_of summary tags r r' : lift_r (append_pause tags_of r summary tags) = COk r' ->
  medit 1 1 (rc_lines r) (rc_lines r').
Proof. intros H. apply lift_r_ok in H. apply (edit_weaken _ 0 1); [exact (append_pause_minimal _ _ _ _ _ H)|lia|lia]. Qed.

Lemma pause_extend_op inc r r' : lift_r (extend_pause r inc) = COk r' -> medit 1 1 (rc_lines r) (rc_lines r').
Proof. intros H. apply lift_r_ok in H. apply (edit_weaken _ 1 0); [exact (extend_pause_minimal _ _ _ H)|lia|lia]. Qed.
