(* Suite "period": requests evaluated by the model for the correspondence check (stub). *)
From Klog Require Import Base.Prelude Model.Show Model.Period.
Definition suite_period (cmd : bytes) (args : list bytes) : option bytes := None.
