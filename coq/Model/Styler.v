(* Styler: model of klog/app/cli/terminalformat/{style.go, colour_theme.go, util.go} (C18).
   Definitions only.

   - a [theme] is the data a Go [Styler] carries besides its props: reset sequence, foreground and
     background prefix, colour suffix, underline and bold sequences, and the colour-code map (a Go
     map[Colour]string; a missing key reads as "" exactly like the Go map);
   - [seqs], [format], [format_and_restore] are Styler.seqs / Format / FormatAndRestore;
   - [strip] is StripAllAnsiSequences = regexp `\x1b\[[\d;]*m` (since 332f4bb; `+` before, which missed
     the parameterless reset ESC [ m), ReplaceAllString(text, ""): leftmost, non-overlapping; RE2's \d
     is ASCII 0-9 only; the pattern has no alternatives, and `m` is not in the class, so "the match
     at a position" is unique: ESC [ (any number of 0-9 ;) m;
   - documents are trees [piece]; [render th outer x] builds the output the way the Go code nests
     Format (top level) and FormatAndRestore (inside another style). *)
From Klog Require Import Base.Prelude Base.Utf8.
Open Scope N_scope.

(* ---------- StripAllAnsiSequences ---------- *)

Definition c_esc : N := 27.
Definition c_lbr : N := 91.   (* [ *)
Definition c_m : N := 109.    (* m *)
Definition c_semi : N := 59.  (* ; *)

Definition is_param (c : N) : bool := is_digit c || (c =? c_semi).

(* length of the maximal run of [0-9;] at the head of s *)
Fixpoint params_len (s : bytes) : nat :=
  match s with
  | c :: r => if is_param c then S (params_len r) else O
  | [] => O
  end.

(* length of the regexp match that starts at the head of s; 0 when there is none *)
Definition sgr_len (s : bytes) : nat :=
  match s with
  | e :: b :: r =>
    if (e =? c_esc) && (b =? c_lbr) then
      let n := params_len r in
      if (match nth_error r n with Some c => c =? c_m | None => false end)
      then (3 + n)%nat else O
    else O
  | _ => O
  end.

(* one left-to-right pass: [skip] bytes of a match that started earlier are still to be dropped;
   otherwise, if a match starts here drop it, else copy the byte *)
Fixpoint strip_aux (skip : nat) (s : bytes) : bytes :=
  match s with
  | [] => []
  | c :: r =>
    match skip with
    | S k => strip_aux k r
    | O => match sgr_len s with
           | S n => strip_aux n r
           | O => c :: strip_aux O r
           end
    end
  end.

Definition strip (s : bytes) : bytes := strip_aux O s.

(* utf8.RuneCountInString *)
Definition rune_count (s : bytes) : nat := length (utf8_decode s).

(* the number of "visible characters" of the property: runes after stripping *)
Definition vis_len (s : bytes) : nat := rune_count (strip s).

(* ---------- StyleProps, Styler ---------- *)

(* Colour: 0 = unspecified, 1 TEXT, 2 TEXT_SUBDUED, 3 TEXT_INVERSE, 4 GREEN, 5 RED, 6 YELLOW,
   7 BLUE_DARK, 8 BLUE_LIGHT, 9 PURPLE *)
Record props := mk_props { p_color : N; p_background : N; p_bold : bool; p_underlined : bool }.

Definition no_props : props := mk_props 0 0 false false.

Record theme := mk_theme {
  th_codes : list (N * bytes);
  th_reset : bytes;
  th_fg_prefix : bytes;
  th_bg_prefix : bytes;
  th_suffix : bytes;
  th_underlined : bytes;
  th_bold : bytes
}.

(* s.colourCodes[c]: "" for a missing key *)
Fixpoint lookup (k : N) (l : list (N * bytes)) : bytes :=
  match l with
  | [] => []
  | (k', v) :: r => if k =? k' then v else lookup k r
  end.

Definition is_nil {A} (l : list A) : bool := match l with [] => true | _ => false end.

Definition colour_seq (th : theme) (prefix : bytes) (c : N) : bytes :=
  if negb (c =? 0) && negb (is_nil (lookup c (th_codes th)))
  then prefix ++ lookup c (th_codes th) ++ th_suffix th
  else [].

(* Styler.seqs *)
Definition seqs (th : theme) (p : props) : bytes :=
  th_reset th
  ++ colour_seq th (th_fg_prefix th) (p_color p)
  ++ colour_seq th (th_bg_prefix th) (p_background p)
  ++ (if p_underlined p then th_underlined th else [])
  ++ (if p_bold p then th_bold th else []).

(* Styler.Format *)
Definition format (th : theme) (p : props) (text : bytes) : bytes :=
  seqs th p ++ text ++ th_reset th.

(* Styler.FormatAndRestore *)
Definition format_and_restore (th : theme) (p : props) (text : bytes) (prev : props) : bytes :=
  format th p text ++ seqs th prev.

(* ---------- the four themes of colour_theme.go ---------- *)

Definition no_colour : theme := mk_theme [] [] [] [] [] [] [].

Definition theme_256 (cc : list (N * bytes)) : theme :=
  mk_theme cc (c_esc :: b!"[0m") (c_esc :: b!"[38;5;") (c_esc :: b!"[48;5;") b!"m"
           (c_esc :: b!"[4m") (c_esc :: b!"[1m").

Definition theme_8 (cc : list (N * bytes)) : theme :=
  mk_theme cc (c_esc :: b!"[0m") (c_esc :: b!"[3") (c_esc :: b!"[4") b!"m"
           (c_esc :: b!"[4m") (c_esc :: b!"[1m").

Definition dark : theme :=
  theme_256 [(1, b!"015"); (2, b!"249"); (3, b!"000"); (4, b!"120"); (5, b!"167");
             (7, b!"117"); (8, b!"027"); (9, b!"213"); (6, b!"221")].

Definition light : theme :=
  theme_256 [(1, b!"000"); (2, b!"237"); (3, b!"015"); (4, b!"028"); (5, b!"124");
             (7, b!"025"); (8, b!"033"); (9, b!"055"); (6, b!"208")].

Definition basic : theme :=
  theme_8 [(1, []); (2, []); (3, b!"0"); (4, b!"2"); (5, b!"1");
           (7, b!"4"); (8, b!"6"); (9, b!"5"); (6, b!"3")].

(* NewStyler: an unknown name panics *)
Definition new_styler (name : bytes) : outcome theme :=
  if bytes_eqb name b!"no_colour" then Ok no_colour
  else if bytes_eqb name b!"dark" then Ok dark
  else if bytes_eqb name b!"light" then Ok light
  else if bytes_eqb name b!"basic" then Ok basic
  else Crash CExplicitPanic.

(* ---------- documents ---------- *)

Inductive piece :=
| Plain (t : bytes)
| Styled (p : props) (kids : list piece).

(* [outer] is the style of the enclosing piece: None at top level (Styler.Format),
   Some q inside a piece styled q (Styler.FormatAndRestore(text, q)) *)
Fixpoint render (th : theme) (outer : option props) (x : piece) : bytes :=
  match x with
  | Plain t => t
  | Styled p kids =>
    let body := (fix go (l : list piece) : bytes :=
                   match l with [] => [] | k :: r => render th (Some p) k ++ go r end) kids in
    match outer with
    | None => format th p body
    | Some q => format_and_restore th p body q
    end
  end.

Definition render_list (th : theme) (outer : option props) (l : list piece) : bytes :=
  flat_map (render th outer) l.

(* a whole output: a sequence of top-level pieces *)
Definition render_doc (th : theme) (doc : list piece) : bytes := render_list th None doc.

(* ---------- style boundaries ---------- *)

(* The output seen as a flat sequence of user/program text and style marks. *)
Inductive mark := MSeqs (p : props) | MReset.
Inductive tok := T (t : bytes) | M (m : mark).

Definition mark_bytes (th : theme) (m : mark) : bytes :=
  match m with MSeqs p => seqs th p | MReset => th_reset th end.

Definition tok_bytes (th : theme) (k : tok) : bytes :=
  match k with T t => t | M m => mark_bytes th m end.

Definition rend (th : theme) (l : list tok) : bytes := flat_map (tok_bytes th) l.

(* the unstyled text of a token sequence *)
Definition text_of (l : list tok) : bytes :=
  flat_map (fun k => match k with T t => t | M _ => [] end) l.

Fixpoint flatten (outer : option props) (x : piece) : list tok :=
  match x with
  | Plain t => [T t]
  | Styled p kids =>
    M (MSeqs p)
    :: (fix go (l : list piece) : list tok :=
          match l with [] => [] | k :: r => flatten (Some p) k ++ go r end) kids
    ++ M MReset
    :: match outer with None => [] | Some q => [M (MSeqs q)] end
  end.

Definition flatten_doc (doc : list piece) : list tok := flat_map (flatten None) doc.

(* ---------- sequences that straddle a boundary ---------- *)

(* p is a proper, non-empty prefix of a match: ESC | ESC [ | ESC [ params *)
Definition partialb (p : bytes) : bool :=
  match p with
  | e :: q =>
    (e =? c_esc) &&
    match q with
    | [] => true
    | b :: ds => (b =? c_lbr) && forallb is_param ds
    end
  | [] => false
  end.

(* q completes the proper prefix p (given partialb p) : p ++ (a prefix of q) is a match *)
Definition completesb (p q : bytes) : bool :=
  match sgr_len (p ++ q) with
  | O => false
  | n => Nat.ltb (length p) n
  end.

(* some suffix of a together with some prefix of b is a match, both parts non-empty *)
Fixpoint spansb (a b : bytes) : bool :=
  match a with
  | [] => false
  | _ :: r => (partialb a && completesb a b) || spansb r b
  end.

(* a ends inside an incomplete sequence *)
Fixpoint danglingb (a : bytes) : bool :=
  match a with
  | [] => false
  | _ :: r => partialb a || danglingb r
  end.

(* every split of the token list at a mark *)
Fixpoint safe_from (acc : bytes) (l : list tok) : bool :=
  match l with
  | [] => true
  | T t :: r => safe_from (acc ++ t) r
  | M _ :: r => negb (spansb acc (text_of r)) && safe_from acc r
  end.

Definition boundary_safeb (doc : list piece) : bool := safe_from [] (flatten_doc doc).
