package main

import (
	"sort"
	"strconv"
	"strings"

	"github.com/jotaen/klog/klog"
	"github.com/jotaen/klog/klog/service"
)

// argLines decodes `_` (no line) or hex strings joined by `,`.
func argLines(s string) []string {
	if s == "_" {
		return nil
	}
	var out []string
	for _, h := range strings.Split(s, ",") {
		out = append(out, argBytes(h))
	}
	return out
}

func hxd(s string) string {
	if s == "" {
		return "-"
	}
	return hx(s)
}

func showTag(t klog.Tag) string { return hxd(t.Name()) + ":" + hxd(t.Value()) }

// recordSummary goes through the validating constructor where it accepts the lines and falls back
// to the plain conversion otherwise (Tags() is defined on any RecordSummary).
func recordSummary(lines []string) klog.RecordSummary {
	if s, err := klog.NewRecordSummary(lines...); err == nil {
		return s
	}
	return klog.RecordSummary(lines)
}

func entrySummary(lines []string) klog.EntrySummary {
	if s, err := klog.NewEntrySummary(lines...); err == nil {
		return s
	}
	return klog.EntrySummary(lines)
}

func tagsOf(kind string, lines []string) *klog.TagSet {
	if kind == "e" {
		return entrySummary(lines).Tags()
	}
	return recordSummary(lines).Tags()
}

func init() {
	register("tags-find", func(a []string) string {
		ts := tagsOf(a[0], argLines(a[1]))
		strs := ts.ToStrings()
		// the original order is not exported; ToStrings() is in original order, and parsing each
		// string back yields the tag itself (checked: a difference shows up against the model)
		var orig, ss []string
		for _, s := range strs {
			t, err := klog.NewTagFromString(s)
			if err != nil {
				orig = append(orig, "unparsable")
			} else {
				orig = append(orig, showTag(t))
			}
			ss = append(ss, hxd(s))
		}
		var keys []string
		byKey := map[string]klog.Tag{}
		for t := range ts.ForLookup() {
			k := t.Name() + "=" + t.Value()
			keys = append(keys, k)
			byKey[k] = t
		}
		sort.Strings(keys)
		var look []string
		for _, k := range keys {
			look = append(look, showTag(byKey[k]))
		}
		return "ok o=" + strings.Join(orig, ",") + " s=" + strings.Join(ss, ",") + " l=" + strings.Join(look, ",")
	})
	register("tags-contains", func(a []string) string {
		q, err := klog.NewTagFromString(argBytes(a[0]))
		if err != nil {
			return "err " + err.Error()
		}
		ts := tagsOf("r", argLines(a[1]))
		return "ok " + showTag(q) + " " + hxd(q.ToString()) + " " + b01(ts.Contains(q))
	})
	register("tags-agg", func(a []string) string {
		var rs []klog.Record
		date, _ := klog.NewDate(2000, 1, 1)
		for i := 0; i < len(a); {
			switch a[i] {
			case "R":
				r := klog.NewRecord(date)
				if lines := argLines(a[i+1]); lines != nil {
					r.SetSummary(recordSummary(lines))
				}
				rs = append(rs, r)
				i += 2
			case "E":
				m, err := strconv.Atoi(a[i+1])
				if err != nil {
					panic("bad minutes")
				}
				var s klog.EntrySummary
				if lines := argLines(a[i+2]); lines != nil {
					s = entrySummary(lines)
				}
				rs[len(rs)-1].AddDuration(klog.NewDuration(0, m), s)
				i += 3
			default:
				panic("bad tags-agg token")
			}
		}
		out := []string{"ok"}
		for _, st := range service.AggregateTotalsByTags(rs...) {
			out = append(out, hxd(st.Tag.Name())+":"+hxd(st.Tag.Value())+":"+strconv.Itoa(st.Total.InMinutes())+":"+strconv.Itoa(st.Count))
		}
		return strings.Join(out, " ")
	})
}
