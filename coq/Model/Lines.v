(* Lines: splitting a text into lines and blocks (klog/parser/txt/line.go, block.go,
   engine/serial.go mapParse). Byte level. Definitions only.
   Models the code after fix F1 (ParseBlock advances by the decoded width of the last rune). *)
From Klog Require Import Base.Prelude Base.Utf8 Model.Values.
Open Scope N_scope.

Record line := { l_text : bytes; l_ending : bytes }.

Definition original (l : line) : bytes := l_text l ++ l_ending l.

(* splitOffLineEnding: "\r\n" first, then "\n" *)
Definition new_line (raw : bytes) : line :=
  match rev raw with
  | 10 :: 13 :: r => {| l_text := rev r; l_ending := [13; 10] |}
  | 10 :: r => {| l_text := rev r; l_ending := [10] |}
  | _ => {| l_text := raw; l_ending := [] |}
  end.

(* Line.IsBlank: all spaces or tabs *)
Definition is_blank_text (s : bytes) : bool := forallb (fun c => (c =? 32) || (c =? 9)) s.
Definition is_blank (l : line) : bool := is_blank_text (l_text l).

(* raw lines of a text: every line keeps its "\n"; a last line without "\n" is kept when non-empty *)
Fixpoint raw_lines_acc (s : bytes) (cur : bytes) : list bytes :=
  match s with
  | [] => match cur with [] => [] | _ => [rev cur] end
  | c :: r => if c =? 10 then rev (c :: cur) :: raw_lines_acc r [] else raw_lines_acc r (c :: cur)
  end.
Definition raw_lines (s : bytes) : list bytes := raw_lines_acc s [].
Definition lines_of (s : bytes) : list line := map new_line (raw_lines s).

(* Line.Indentation: first matching style of "    ", "   ", "  ", "\t" — on Original() *)
Definition indentations : list bytes := [[32; 32; 32; 32]; [32; 32; 32]; [32; 32]; [9]].
Definition find_indentation (s : bytes) : option bytes :=
  find (fun i => has_prefix i s) indentations.
Definition line_indentation (l : line) : bytes :=
  match find_indentation (original l) with Some i => i | None => [] end.

(* ---- blocks ---- *)

Record block := { b_preceding : nat; b_lines : list line }.

(* ParseBlock's mode automaton over the remaining lines:
   returns the block's lines and the lines left over; [None] when no significant line was seen. *)
Fixpoint take_blank (ls : list line) : list line * list line :=
  match ls with
  | l :: r => if is_blank l then let '(a, b) := take_blank r in (l :: a, b) else ([], ls)
  | [] => ([], [])
  end.
Fixpoint take_significant (ls : list line) : list line * list line :=
  match ls with
  | l :: r => if is_blank l then ([], ls) else let '(a, b) := take_significant r in (l :: a, b)
  | [] => ([], [])
  end.

Definition parse_block (ls : list line) : option (list line) * list line :=
  let '(head, r1) := take_blank ls in
  let '(sig, r2) := take_significant r1 in
  match sig with
  | [] => (None, [])
  | _ => let '(tail, r3) := take_blank r2 in (Some (head ++ sig ++ tail), r3)
  end.

(* mapParse's loop: fuel = number of lines (each block consumes at least one) *)
Fixpoint blocks_fuel (fuel : nat) (preceding : nat) (ls : list line) : list block :=
  match fuel with
  | O => []
  | S k =>
    match parse_block ls with
    | (Some bl, rest) => {| b_preceding := preceding; b_lines := bl |} :: blocks_fuel k (preceding + length bl) rest
    | (None, _) => []
    end
  end.

Definition blocks_of_lines (ls : list line) : list block := blocks_fuel (length ls) 0 ls.
Definition blocks_of (s : bytes) : list block := blocks_of_lines (lines_of s).

(* Block.SignificantLines: (significant, head count, tail count) *)
Definition significant_lines (b : block) : list line * nat * nat :=
  let '(head, r1) := take_blank (b_lines b) in
  let '(sig, r2) := take_significant r1 in
  (sig, length head, length r2).

Definition overall_line_index (b : block) (i : nat) : nat := b_preceding b + i.

Definition flatten_blocks (bs : list block) : list line := flat_map b_lines bs.
Definition text_of_lines (ls : list line) : bytes := flat_map original ls.
