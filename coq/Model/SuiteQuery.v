(* Suite "query" (C13): `klog print --no-style [filter flags] [--sort s] <file>` (query-run) and
   `klog json [filter flags] [--sort s] <file>` (query-json) at a given date.

     query-run  <y> <m> <d> <sort> <n> <flag_1> ... <flag_n> <hex file>
     query-json <y> <m> <d> <sort> <n> <flag_1> ... <flag_n> <hex file>

   <y m d>  the local date of the clock (NewDateFromGo(ctx.Now()))
   <sort>   the value of --sort, hex ("-": the flag is not given)
   <flag_i> `name` for a boolean flag (--name), `name:<hex value>` for --name=value; names as on the command line
   result   `argerr` (kong / a decoder rejects the command line), `crash` (a panic), `invalid` (the file has syntax
            errors), or `ok <k> <record_1> ... <record_k>`: the records printed, in print order, each as ShowRecord
            prints a parsed record (a should-total of 0 minutes reads `_`: klog print omits it). With --sort the records of each maximal run of equal dates are listed in
            ascending order of their canonical text: Go's sort.Slice leaves their order open (Proofs/Query.v
            sort_spec_determines: everything else is determined).
            query-json prints each record as `J <hex date text> <should-total minutes> <hex summary> <k> <entry>...`
            with <entry> = <type>:<total minutes>:<start minutes|_>:<end minutes|_>:<hex summary> (lines joined by LF),
            the fields of the JSON output that do not depend on evaluation or tag listing (those are C12/C14/C20). *)
From Klog Require Import Base.Prelude Base.Utf8 Model.Calendar Model.Values Model.Record Model.Lines Model.Parser
  Model.Tags Model.Period Model.Show Model.ShowRecord Model.Query.
Open Scope Z_scope.

(* `name` or `name:hex` *)
Definition split_flag (tok : bytes) : bytes * bytes :=
  match split_on 58%N tok [] with
  | [n] => (n, [])
  | n :: v :: _ => (n, arg_bytes v)
  | [] => ([], [])
  end.

(* a boolean flag given with a value, or a valued flag given without one, is a usage error *)
Definition flag_shape_ok (tok : bytes) : bool :=
  let has_value := existsb (N.eqb 58%N) tok in
  let name := fst (split_flag tok) in
  match index_of name bool_flag_names 0%nat with
  | Some _ => negb has_value
  | None => has_value
  end.

(* runs of equal date, each sorted by canonical text *)
Fixpoint canon_runs (cur : option cdate) (run : list bytes) (l : list (cdate * bytes)) : list bytes :=
  match l with
  | [] => sort_by bytes_ltb run
  | (d, s) :: r =>
    match cur with
    | Some c => if cdate_eqb c d then canon_runs cur (s :: run) r
                else sort_by bytes_ltb run ++ canon_runs (Some d) [s] r
    | None => canon_runs (Some d) [s] r
    end
  end.

(* the records are observed through `klog print`, which writes a should-total of zero minutes like an absent one
   (parser/serialiser.go serialiseRecord; Model/Serialiser.v headline_of; property C09) *)
Definition as_printed (r : record) : record :=
  if should_minutes r =? 0
  then {| rec_date := rec_date r; rec_should := None; rec_summary := rec_summary r; rec_entries := rec_entries r |}
  else r.

Definition show_selected (sorted : bool) (rs0 : list record) : bytes :=
  let rs := map as_printed rs0 in
  let lines := if sorted then canon_runs None [] (map (fun r => (rdate r, show_record r)) rs)
               else map show_record rs in
  words ([b!"ok"; dec (Z.of_nat (length rs))] ++ lines).

(* ---- the JSON view of a record (parser/json/serialiser.go toRecordViews), projected ---- *)
Definition lf : bytes := [10%N].

Definition show_json_entry (e : entry) : bytes :=
  let sum := hex_of_bytes (join lf (e_summary e)) in
  match e_value e with
  | VDuration d => fields [b!"duration"; dec (d_mins d); b!"_"; b!"_"; sum]
  | VRange r => fields [b!"range"; dec (range_minutes r); dec (time_offset (r_start r)); dec (time_offset (r_end r)); sum]
  | VOpen o => fields [b!"open_range"; b!"0"; dec (time_offset (o_start o)); b!"_"; sum]
  end.

Definition show_json_record (r : record) : bytes :=
  words ([b!"J"; hex_of_bytes (print_date (rec_date r)); dec (should_minutes r);
          hex_of_bytes (join lf (rec_summary r)); dec (Z.of_nat (length (rec_entries r)))]
         ++ map show_json_entry (rec_entries r)).

Definition show_selected_json (sorted : bool) (rs : list record) : bytes :=
  let lines := if sorted then canon_runs None [] (map (fun r => (rdate r, show_json_record r)) rs)
               else map show_json_record rs in
  words ([b!"ok"; dec (Z.of_nat (length rs))] ++ lines).

Fixpoint take_flags (n : nat) (l : list bytes) : option (list bytes * list bytes) :=
  match n with
  | O => Some ([], l)
  | S k => match l with
           | [] => None
           | x :: r => match take_flags k r with Some (a, b) => Some (x :: a, b) | None => None end
           end
  end.

Definition suite_query (cmd : bytes) (args : list bytes) : option bytes :=
  let json := bytes_eqb cmd b!"query-json" in
  if bytes_eqb cmd b!"query-run" || json then
    match args with
    | y :: mo :: d :: sort :: n :: rest =>
      match take_flags (Z.to_nat (parse_int n)) rest with
      | Some (flags, [file]) =>
        let today := {| c_year := parse_int y; c_month := parse_int mo; c_day := parse_int d |} in
        let sortv := arg_bytes sort in
        Some (
          if negb (forallb flag_shape_ok flags) then b!"argerr" else
          match decode_flags no_args (map split_flag flags) with
          | Err _ => b!"argerr"
          | Crash _ => b!"crash"
          | Ok a =>
            if negb (sort_value_ok sortv) then b!"argerr" else
            match parse_text (arg_bytes file) with
            | Ok (Parsed rs _) =>
              match run_query today a sortv rs with
              | Ok out => if json then show_selected_json (negb (bytes_eqb sortv [])) out
                          else show_selected (negb (bytes_eqb sortv [])) out
              | Err _ => b!"err"
              | Crash _ => b!"crash"
              end
            | Ok (Failed _) => b!"invalid"
            | _ => b!"crash"
            end
          end)
      | _ => None
      end
    | _ => None
    end
  else None.
