"""C11 — inserted text follows the file's own style, deterministically."""
import sys, os, re
sys.path.insert(0, os.path.dirname(os.path.dirname(os.path.abspath(__file__))))
from check import Suite
from props.commands import *
import specgen

def gen_styles(tier, rng):
    n = 1200 if tier == "quick" else 60000
    out = []
    for _ in range(n):
        doc = specgen.Doc(rng, max_records=5, max_entries=3)
        # whitespace-only lines that look like indentation, and ties between styles, are the interesting cases
        if rng.random() < 0.5:
            doc.lead = [rng.choice(["  ", "\t", "    ", "   ", ""]) for _ in range(rng.choice([1, 2]))]
            doc.gaps = [[rng.choice(["", "  ", "\t", "   "]) for _ in range(rng.choice([1, 2]))] for _ in doc.records]
        _, cfg, steps = make_history(rng, max_steps=2, kinds=["track", "start", "create", "switch", "start", "track"], doc=doc)
        first = Step(steps[0].clock, "stop", ["%s" % hx(b"0001-01-01"), hx(b"0:00"), "_", "_"])
        out.append(history_request(doc.render(), cfg, [first] + steps))
    return out

IND = [b"    ", b"   ", b"  ", b"\t"]

def blocks_of(b):
    """list of blocks, each a list of (text, ending); like klog: blank* sig+ blank*"""
    lines = text_lines(b)
    blank = lambda t: all(c in b" \t" for c in t)
    blocks, cur, seen_sig, trailing = [], [], False, False
    for l in lines:
        if blank(l[0]):
            if seen_sig: trailing = True
            cur.append(l)
        else:
            if trailing:
                blocks.append(cur); cur = []; seen_sig = False; trailing = False
            seen_sig = True
            cur.append(l)
    if seen_sig: blocks.append(cur)
    return blocks

def indent_of(text):
    for i in IND:
        if text.startswith(i): return i
    return None

def block_style(blk):
    sig = [l for l in blk if not all(c in b" \t" for c in l[0])]
    eol = sig[0][1] if sig and sig[0][1] else None
    ind = None
    for t, _ in sig:
        if indent_of(t): ind = indent_of(t); break
    return eol, ind

def expected(own, others, default):
    """set of acceptable values"""
    if own is not None: return {own}
    vals = [v for v in others if v is not None]
    if not vals: return {default}
    if len(set(vals)) == 1: return {vals[0]}
    return set(vals)

def oracle_style(req, out):
    cfg, file0, steps = parse_request(req)
    res = parse_result(out)
    if out.startswith("nondeterministic"):
        return "repeating the same command on the same input gave different bytes"
    if res is None or len(res) != len(steps):
        return "malformed result " + out[:100]
    before = file0
    prev_parsed = None
    for i, (st, after, valid, parsed) in enumerate(res):
        step = steps[i]
        if st == "ok" and step[5] in ("track", "start", "create") and prev_parsed is not None:
            a, b = text_lines(before), text_lines(after)
            p = 0
            while p < len(a) and p < len(b) and a[p] == b[p]: p += 1
            s = 0
            while s < len(a) - p and s < len(b) - p and a[len(a) - 1 - s] == b[len(b) - 1 - s]: s += 1
            ins = b[p:len(b) - s]
            # a last line that only gained its ending is not an inserted line
            if p < len(a) and ins and a[p][0] == ins[0][0] and a[p][1] == b"":
                ins = ins[1:]; p += 1
            blks = blocks_of(before)
            styles = [block_style(k) for k in blks]
            # the target block: the one holding the line before the insertion point (for entries)
            target = None
            if step[5] != "create":
                date, _ = resolve_date(step)
                recs = canon_records(prev_parsed) or []
                j = find_record(recs, date)
                if j is not None and j < len(styles): target = j
            own_eol, own_ind = styles[target] if target is not None else (None, None)
            eols = expected(own_eol, [e for e, _ in styles], b"\n")
            inds = expected(own_ind, [x for _, x in styles], b"    ")
            for t, e in ins:
                if e not in eols:
                    return "step %d (%s): inserted line %r ends with %r, expected one of %r" % (i, step[5], t[:40], e, sorted(eols))
                if t[:1] in (b" ", b"\t") and not all(c in b" \t" for c in t):
                    if not any(t.startswith(x) and (t[len(x):len(x) + 1] not in (b" ", b"\t") or t.startswith(x + x)) for x in inds):
                        return "step %d (%s): inserted line %r is not indented with %r" % (i, step[5], t[:40], sorted(inds))
            # date separator of a new record's headline
            if step[5] == "create" or (target is None and step[5] in ("track", "start")):
                heads = [t for t, _ in ins if re.match(rb"\d{4}[-/]\d{2}[-/]\d{2}", t)]
                if heads:
                    sep = heads[0][4:5]
                    recs = canon_records(prev_parsed) or []
                    if step[6] not in ("d", "t", "y", "m"):
                        want = {unhx(step[6])[4:5]}
                    elif cfg[2] != "_":
                        want = {b"-" if cfg[2] == "1" else b"/"}
                    else:
                        seps = re.findall(rb"(?m)^\d{4}([-/])\d{2}[-/]\d{2}", before)
                        want = {b"-"} if not seps else set(seps)
                    if sep not in want:
                        return "step %d (%s): new record dated with separator %r, expected %r" % (i, step[5], sep, sorted(want))
        # clock convention, dash spacing and placeholder length of a generated open range (start, and switch's new entry)
        if st == "ok" and step[5] in ("start", "switch") and prev_parsed is not None:
            facts = record_facts(prev_parsed)
            date, _ = resolve_date(step)
            recs = canon_records(prev_parsed) or []
            j = find_record(recs, date)
            a, b = text_lines(before), text_lines(after)
            new_lines = [t for t, _ in b if (t, _) not in a]
            opens = [re.match(rb"[ \t]+(<?\d{1,2}:\d{2}(am|pm)?>?)( *)-( *)(\?+)", t) for t in new_lines]
            opens = [m for m in opens if m]
            if opens:
                m = opens[-1]
                own = facts[j] if (j is not None and j < len(facts)) else (None, None, None)
                if step[5] == "switch" and j is not None:
                    # after closing, the record's own facts come from the entry that was just closed
                    pass
                others = facts
                if step[7] == "_":          # the time was generated
                    if cfg[3] != "_":
                        want24 = {cfg[3] == "1"}
                    else:
                        want24 = expected(own[0], [f[0] for f in others], True)
                    if (m.group(2) is None) not in want24:
                        return "step %d (%s): generated time %r does not follow the clock convention %r" % (i, step[5], m.group(1), sorted(want24))
                if step[5] == "start":
                    want_sp = expected(own[1], [f[1] for f in others], True)
                    if (len(m.group(3)) > 0) not in want_sp:
                        return "step %d (start): spacing around the dash in %r, expected spaces=%r" % (i, m.group(0), sorted(want_sp))
                    want_q = expected(own[2], [f[2] for f in others], 0)
                    if (len(m.group(5)) - 1) not in want_q:
                        return "step %d (start): placeholder %r, expected %r additional characters" % (i, m.group(5), sorted(want_q))
        before = after
        prev_parsed = parsed if valid else None
    return None

def record_facts(parsed):
    """per record: (24h clock of its last range/open range or None, spaces around dash or None, extra placeholder chars or None)"""
    toks = parsed.split(" ")
    out = []
    if toks[0] != "ok": return out
    i = 2
    while i < len(toks):
        n = int(toks[i + 4])
        c24 = sp = ex = None
        for e in toks[i + 5:i + 5 + n]:
            f = e.split(":")
            if f[0] == "G":
                c24 = f[1].split(".")[3] == "1"; sp = f[3] == "1"
            elif f[0] == "O":
                c24 = f[1].split(".")[3] == "1"; sp = f[2] == "1"; ex = int(f[3])
        out.append((c24, sp, ex))
        i += 5 + n
    return out

def suites():
    return [
        Suite("style", gen_styles, oracle=oracle_style, decisive=False, env={"VERIF_REPEAT": "4"},
              nontrivial=lambda r, o: o.count("ok:") >= 1,
              rule="files with every per-record combination of indentation, line ending, date separator, clock convention, dash spacing and placeholder length, ties between styles and whitespace-only lines that look like indentation; each history is run 4 times in fresh scratch directories and must give identical bytes; inserted lines are checked against own style > unanimous style of the file > default"),
    ]
