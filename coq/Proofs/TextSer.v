(* Lemmas about Model/TextSer.v (C18): the output of `klog print` is boundary-safe for every record,
   whatever bytes the summaries contain. *)
From Klog Require Import Base.Prelude Base.Utf8 Model.Styler Model.TextSer Proofs.Styler Proofs.Table.
From Coq Require Import Arith.
Open Scope N_scope.

(* ---------- guards ---------- *)

(* a byte that can continue a sequence after its ESC *)
Definition is_cont (c : N) : bool := (c =? c_lbr) || is_param c || (c =? c_m).

(* b does not start with such a byte *)
Definition no_cont (b : bytes) : Prop :=
  match b with [] => True | c :: _ => is_cont c = false end.

Lemma no_cont_nospan a b : no_cont b -> ~ spans a b.
Proof.
  intros Hn (a' & p & q & b' & _ & -> & Hp & Hq & (ds & Hds & Heq)).
  destruct q as [|y q]; [congruence|]. cbn [app no_cont] in Hn.
  destruct p as [|e p]; [congruence|]. cbn [app] in Heq. injection Heq as _ Heq.
  assert (Hin : In y (c_lbr :: ds ++ [c_m])) by (rewrite <- Heq; apply in_or_app; right; now left).
  unfold is_cont in Hn. apply orb_false_iff in Hn as [Hn Hm]. apply orb_false_iff in Hn as [Hl Hpa].
  destruct Hin as [<-|Hin]; [now rewrite N.eqb_refl in Hl|].
  apply in_app_or in Hin as [Hin|[<-|[]]]; [|now rewrite N.eqb_refl in Hm].
  rewrite forallb_forall in Hds. apply Hds in Hin. congruence.
Qed.

Lemma partialb_guard p c r : p <> [] -> is_cont c = false -> partialb (p ++ c :: r) = false.
Proof.
  intros Hp Hc. unfold is_cont in Hc. apply orb_false_iff in Hc as [Hc _]. apply orb_false_iff in Hc as [Hl Hpa].
  destruct p as [|e q0]; [congruence|]. cbn [app partialb].
  destruct q0 as [|b0 ds]; cbn [app].
  - rewrite Hl. now rewrite andb_false_r.
  - rewrite forallb_app. cbn [forallb]. rewrite Hpa. now rewrite !andb_false_r.
Qed.

(* whatever precedes it, a closed text that starts with a guard byte leaves the whole closed *)
Lemma closed_app_guard a b : closed b -> no_cont b -> b <> [] -> closed (a ++ b).
Proof.
  unfold closed. intros Hb Hn Hne. destruct b as [|c r]; [congruence|]. cbn [no_cont] in Hn.
  induction a as [|x a IH]; [exact Hb|].
  cbn [app danglingb]. change (x :: a ++ c :: r) with ((x :: a) ++ c :: r).
  rewrite partialb_guard by (auto; discriminate). exact IH.
Qed.

(* ---------- a sufficient, compositional criterion for boundary safety ---------- *)

(* at every mark: the text so far is closed, or what follows (then the continuation k) starts with a guard *)
Fixpoint guarded (acc : bytes) (l : list tok) (k : bytes) : Prop :=
  match l with
  | [] => True
  | T t :: r => guarded (acc ++ t) r k
  | M _ :: r => (closed acc \/ no_cont (text_of r ++ k)) /\ guarded acc r k
  end.

Lemma guarded_safe l : forall acc, guarded acc l [] -> safe_toks acc l.
Proof.
  induction l as [|[t|m0] r IH]; intros acc H l1 m l2 Heq.
  - destruct l1; discriminate.
  - destruct l1 as [|k l1]; [discriminate|]. cbn [app] in Heq. injection Heq as Hk Hr. subst k r.
    cbn [text_of flat_map]. fold (text_of l1). rewrite app_assoc. now apply (IH (acc ++ t) H l1 m l2).
  - destruct H as [H1 H2]. destruct l1 as [|k l1]; cbn [app] in Heq.
    + injection Heq as _ Hr. subst r. cbn [text_of flat_map]. rewrite app_nil_r.
      rewrite app_nil_r in H1. destruct H1 as [H1|H1]; [now apply closed_nospan|now apply no_cont_nospan].
    + injection Heq as Hk Hr. subst k r. cbn [text_of flat_map app]. fold (text_of l1).
      now apply (IH acc H2 l1 m l2).
Qed.

Lemma guarded_app l1 : forall acc l2 k,
  guarded acc l1 (text_of l2 ++ k) -> guarded (acc ++ text_of l1) l2 k -> guarded acc (l1 ++ l2) k.
Proof.
  induction l1 as [|[t|m] r IH]; intros acc l2 k H1 H2; cbn [app guarded text_of flat_map] in *.
  - now rewrite app_nil_r in H2.
  - fold (text_of r) in H2. apply IH; [exact H1|]. now rewrite <- app_assoc.
  - fold (text_of r) in H2. destruct H1 as [H1 H1']. split; [|now apply IH].
    rewrite text_of_app, <- app_assoc. exact H1.
Qed.

(* a token list that can be placed after any closed text and leaves the text closed *)
Definition good (X : list tok) : Prop :=
  forall acc k, closed acc -> guarded acc X k /\ closed (acc ++ text_of X).

Lemma good_nil : good [].
Proof. intros acc k H. split; [exact I|]. cbn. now rewrite app_nil_r. Qed.

Lemma good_app X Y : good X -> good Y -> good (X ++ Y).
Proof.
  intros HX HY acc k Hc. destruct (HX acc (text_of Y ++ k) Hc) as [G1 C1].
  destruct (HY (acc ++ text_of X) k C1) as [G2 C2]. split.
  - now apply guarded_app.
  - now rewrite text_of_app, app_assoc.
Qed.

Lemma good_text t : esc_free t -> good [T t].
Proof.
  intros H acc k Hc. split; [exact I|]. cbn [text_of flat_map]. rewrite app_nil_r.
  apply closed_app; [exact Hc|now apply esc_free_closed].
Qed.

Lemma flatten_styled outer p kids :
  flatten outer (Styled p kids)
  = M (MSeqs p) :: flat_map (flatten (Some p)) kids
    ++ M MReset :: match outer with None => [] | Some q => [M (MSeqs q)] end.
Proof.
  reflexivity.
Qed.

(* a styled value without ESC *)
Lemma good_atom p t : esc_free t -> good (flatten None (Styled p [Plain t])).
Proof.
  intros H acc k Hc. rewrite flatten_styled. cbn [flat_map flatten app guarded text_of].
  assert (Hc' : closed (acc ++ t)) by (apply closed_app; [exact Hc|now apply esc_free_closed]).
  repeat split; auto. now rewrite !app_nil_r.
Qed.

(* ---------- summaries: arbitrary text between well-shaped tags ---------- *)

(* what is needed of the text of a tag: it starts with a byte that cannot continue a sequence (the '#')
   and does not end inside an incomplete sequence (ESC can only occur inside a quoted value, which is
   closed by its quote) *)
Definition tag_ok (t : bytes) : Prop := t <> [] /\ no_cont t /\ closed t.

Definition segs_ok (l : list seg) : Prop := Forall (fun s : seg => fst s = true -> tag_ok (snd s)) l.

Definition seg_piece (s : seg) : piece := if fst s then Styled pr_tag [Plain (snd s)] else Plain (snd s).

Lemma segs_guarded l : segs_ok l -> forall acc k, no_cont k ->
  guarded acc (flat_map (flatten (Some pr_summary)) (map seg_piece l) ++ [M MReset]) k.
Proof.
  induction 1 as [|[tag t] l Hs _ IH]; intros acc k Hk.
  - cbn. split; [now right|exact I].
  - cbn [map flat_map]. unfold seg_piece at 1. cbn [fst snd]. destruct tag.
    + destruct (Hs eq_refl) as (Hne & Hnc & Hcl). cbn [snd] in *. rewrite flatten_styled.
      cbn [flat_map flatten]. rewrite <- !app_assoc. cbn [app]. cbn [guarded].
      assert (Hc' : closed (acc ++ t)) by now apply closed_app_guard.
      split; [right; cbn [text_of flat_map]; destruct t; [congruence|exact Hnc]|].
      split; [now left|]. split; [now left|]. now apply IH.
    + cbn [flatten app guarded]. now apply IH.
Qed.

Lemma ser_summary_flatten l :
  flatten None (ser_summary l)
  = M (MSeqs pr_summary) :: flat_map (flatten (Some pr_summary)) (map seg_piece l) ++ [M MReset].
Proof. unfold ser_summary. now rewrite flatten_styled. Qed.

(* a summary line followed by a text that starts with a guard byte and has no ESC (the line feed) *)
Lemma good_summary_then l c t : segs_ok l -> is_cont c = false -> esc_free (c :: t) ->
  good (flatten None (ser_summary l) ++ [T (c :: t)]).
Proof.
  intros Hl Hc Hf acc k Hacc. split.
  - apply guarded_app; [|exact I]. rewrite ser_summary_flatten. cbn [guarded]. split; [now left|].
    apply segs_guarded; [exact Hl|]. cbn. exact Hc.
  - rewrite text_of_app, app_assoc. cbn [text_of flat_map]. rewrite app_nil_r.
    apply closed_app_guard; [now apply esc_free_closed|exact Hc|discriminate].
Qed.

(* ---------- lines, records, the whole output ---------- *)

Definition esc_freeb (s : bytes) : bool := forallb (fun c => negb (c =? c_esc)) s.

Lemma esc_freeb_ok s : esc_freeb s = true -> esc_free s.
Proof.
  unfold esc_freeb. rewrite forallb_forall. intros H Hin. apply H in Hin. now rewrite N.eqb_refl in Hin.
Qed.

Lemma flatten_doc_app a b : flatten_doc (a ++ b) = flatten_doc a ++ flatten_doc b.
Proof. apply flat_map_app. Qed.

(* a line (followed by its line feed) can be placed after any closed text and leaves it closed *)
Definition line_good (l : line) : Prop := good (flatten_doc (l ++ [newline])).

Lemma good_plain t : esc_free t -> good (flatten_doc [Plain t]).
Proof. intros H. cbn. now apply good_text. Qed.

Lemma good_newline : good (flatten_doc [newline]).
Proof. apply good_plain, esc_freeb_ok. reflexivity. Qed.

Lemma good_styled_plain p t : esc_free t -> good (flatten_doc [Styled p [Plain t]]).
Proof. intros H. unfold flatten_doc. cbn [flat_map]. rewrite app_nil_r. now apply good_atom. Qed.

Lemma good_value k t : esc_free t -> good (flatten_doc [ser_value k t]).
Proof. intros H. destruct k; cbn [ser_value]; now apply good_styled_plain. Qed.

Lemma good_summary_nl l : segs_ok l -> good (flatten_doc ([ser_summary l] ++ [newline])).
Proof.
  intros H. unfold flatten_doc. cbn [app flat_map newline flatten].
  apply good_summary_then; [exact H|reflexivity|apply esc_freeb_ok; reflexivity].
Qed.

Definition entry_ok (e : p_entry) : Prop := esc_free (pe_text e) /\ Forall segs_ok (pe_summary e).

Definition record_ok (r : p_record) : Prop :=
  esc_free (pr_date_text r) /\ esc_free (pr_should_text r) /\
  Forall segs_ok (pr_summary_lines r) /\ Forall entry_ok (pr_entries r).

Lemma entry_lines_good e : entry_ok e -> Forall line_good (entry_lines e).
Proof.
  intros [Ht Hs]. unfold entry_lines.
  assert (Hind : esc_free indent) by (apply esc_freeb_ok; reflexivity).
  assert (Hfirst : good (flatten_doc [Plain indent; ser_value (pe_kind e) (pe_text e)])).
  { change [Plain indent; ser_value (pe_kind e) (pe_text e)] with ([Plain indent] ++ [ser_value (pe_kind e) (pe_text e)]).
    rewrite flatten_doc_app. apply good_app; [now apply good_plain|now apply good_value]. }
  destruct Hs as [|l0 rest H0 Hrest].
  - constructor; [|constructor]. unfold line_good. rewrite flatten_doc_app. apply good_app; [exact Hfirst|apply good_newline].
  - constructor.
    + unfold line_good. destruct (is_nil (seg_text l0)).
      * rewrite flatten_doc_app. apply good_app; [exact Hfirst|apply good_newline].
      * rewrite <- app_assoc, flatten_doc_app. apply good_app; [exact Hfirst|].
        change ([Plain b!" "; ser_summary l0] ++ [newline]) with ([Plain b!" "] ++ ([ser_summary l0] ++ [newline])).
        rewrite flatten_doc_app. apply good_app; [apply good_plain, esc_freeb_ok; reflexivity|now apply good_summary_nl].
    + apply Forall_map. eapply Forall_impl; [|exact Hrest]. intros l Hl. unfold line_good.
      change ([Plain (indent ++ indent); ser_summary l] ++ [newline])
        with ([Plain (indent ++ indent)] ++ ([ser_summary l] ++ [newline])).
      rewrite flatten_doc_app. apply good_app; [apply good_plain, esc_freeb_ok; reflexivity|now apply good_summary_nl].
Qed.

Lemma record_lines_good r : record_ok r -> Forall line_good (record_lines r).
Proof.
  intros (Hd & Hsh & Hsum & Hent). unfold record_lines. constructor.
  - unfold line_good. rewrite !flatten_doc_app. apply good_app; [apply good_app|apply good_newline].
    + now apply good_styled_plain.
    + destruct (is_nil (pr_should_text r)); [apply good_nil|].
      change [Plain b!" ("; Styled pr_should [Plain (pr_should_text r)]; Plain b!")"]
        with ([Plain b!" ("] ++ [Styled pr_should [Plain (pr_should_text r)]] ++ [Plain b!")"]).
      rewrite !flatten_doc_app. apply good_app; [apply good_plain, esc_freeb_ok; reflexivity|].
      apply good_app; [now apply good_styled_plain|apply good_plain, esc_freeb_ok; reflexivity].
  - apply Forall_app. split.
    + apply Forall_map. eapply Forall_impl; [|exact Hsum]. intros l Hl. now apply good_summary_nl.
    + apply Forall_flat_map. eapply Forall_impl; [|exact Hent]. intros e He. now apply entry_lines_good.
Qed.

Lemma records_lines_good rs : Forall record_ok rs -> Forall line_good (records_lines rs).
Proof.
  induction 1 as [|r rest Hr Hrest IH]; [constructor|].
  cbn [records_lines]. destruct rest as [|r2 rest']; [now apply record_lines_good|].
  apply Forall_app. split; [now apply record_lines_good|]. constructor; [|exact IH].
  unfold line_good. cbn [app]. apply good_newline.
Qed.

Lemma lines_doc_good ls : Forall line_good ls -> good (flatten_doc (lines_doc ls)).
Proof.
  induction 1 as [|l r Hl _ IH]; [apply good_nil|].
  unfold lines_doc. cbn [flat_map]. fold (lines_doc r). rewrite flatten_doc_app. now apply good_app.
Qed.

Lemma print_doc_good rs : Forall record_ok rs -> good (flatten_doc (print_doc rs)).
Proof.
  intros H. unfold print_doc. destruct rs as [|r rest]; [apply good_nil|].
  change (newline :: lines_doc (records_lines (r :: rest)) ++ [newline])
    with ([newline] ++ lines_doc (records_lines (r :: rest)) ++ [newline]).
  rewrite !flatten_doc_app. apply good_app; [apply good_newline|].
  apply good_app; [now apply lines_doc_good, records_lines_good|apply good_newline].
Qed.

(* the output of `klog print` is boundary-safe for every record: summaries are arbitrary bytes *)
Lemma print_boundary_safe rs : Forall record_ok rs -> boundary_safe (print_doc rs).
Proof.
  intros H. apply guarded_safe. apply (print_doc_good rs H [] []). reflexivity.
Qed.

Lemma print_neutral th rs : theme_ok th -> Forall record_ok rs ->
  strip (render_doc th (print_doc rs)) = strip (render_doc no_colour (print_doc rs)).
Proof. intros Hth H. apply strip_render; [exact Hth|now apply print_boundary_safe]. Qed.

(* '#'-led, quote- or letter-terminated texts are tags in the sense above *)
Lemma tag_ok_hash r : closed (35 :: r) -> tag_ok (35 :: r).
Proof. intros H. split; [discriminate|]. split; [reflexivity|exact H]. Qed.
