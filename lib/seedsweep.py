#!/usr/bin/env python3
"""seedsweep.py [-j N] [id-prefix...] — re-run, for every kept seeded change, the checks its meta.json records as having caught it
(scratch worktrees through lib/seedtest.py; /repo and /verif untouched) and list every one that is no longer caught."""
import sys, os, json, glob, re, subprocess
from concurrent.futures import ThreadPoolExecutor
ROOT = os.path.dirname(os.path.dirname(os.path.abspath(__file__)))
args = sys.argv[1:]
jobs = 3
if args[:1] == ["-j"]:
    jobs = int(args[1]); args = args[2:]
work = []
for m in sorted(glob.glob(os.path.join(ROOT, "seeded", "*", "meta.json"))):
    o = json.load(open(m))
    if args and not any(o["id"].startswith(a) for a in args):
        continue
    props = []
    for r in o.get("results", []):
        mm = re.search(r"CAUGHT (C\d+)", r)
        if mm and mm.group(1) not in props:
            props.append(mm.group(1))
    if props:
        work.append((o["id"], os.path.join(os.path.dirname(m), "patch.diff"), props))

def run(w):
    sid, patch, props = w
    r = subprocess.run(["python3", os.path.join(ROOT, "lib/seedtest.py"), patch] + props, stdout=subprocess.PIPE, stderr=subprocess.STDOUT, text=True)
    lines = [l for l in r.stdout.split("\n") if l.startswith(("CAUGHT", "MISSED", "PATCH"))]
    for l in lines:
        print(sid, l[:160], flush=True)
    return [(sid, l) for l in lines if not l.startswith("CAUGHT")]

with ThreadPoolExecutor(jobs) as ex:
    bad = [b for res in ex.map(run, work) for b in res]
print("SWEEP: %d seeded changes, %d no longer caught" % (len(work), len(bad)))
for sid, l in bad:
    print("  LOST", sid, l[:200])
sys.exit(1 if bad else 0)
