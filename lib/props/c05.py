"""C05 — a mutating command either leaves a valid file or leaves the file untouched."""
import sys, os
sys.path.insert(0, os.path.dirname(os.path.dirname(os.path.abspath(__file__))))
from check import Suite
from props.commands import *
from props.parsing import byte_stream, mutate
import specgen

def gen_histories(tier, rng):
    n = 1500 if tier == "quick" else 200000
    out = []
    for _ in range(n):
        doc, cfg, steps = make_history(rng)
        out.append(history_request(doc.render(), cfg, steps))
    return out

def gen_invalid_targets(tier, rng):
    """all mutating commands on files that do not parse, and parameters chosen to make a step fail"""
    n = 800 if tier == "quick" else 80000
    out = []
    for _ in range(n):
        doc, cfg, steps = make_history(rng, max_steps=3)
        f = specgen.inject_fault(doc, rng)
        b = f[0] if f else mutate(rng, doc.render())
        out.append(history_request(b, cfg, steps))
    return out

def nontrivial(req, out):
    return "fail:" in out or "ok:" in out

def suites():
    return [
        Suite("histories", gen_histories, oracle=oracle_c05, decisive=False, nontrivial=nontrivial,
              rule="histories of 1-6 mutating commands (all six kinds, all date selections, explicit/automatic/rounded times, summaries, --resume/--resume-nth, flag conflicts, non-entry texts) on conforming documents; after every step: success => file parses, failure => bytes unchanged"),
        Suite("invalid-targets", gen_invalid_targets, oracle=oracle_c05, decisive=False, nontrivial=nontrivial,
              rule="the same commands on files with an injected fault or byte mutations (unparseable targets)"),
    ]
