(* C01 — the parser accepts exactly spec-conforming files and extracts the denoted data.
   Property theorems only; each is closed by [exact <lemma>] and followed by Print Assumptions.
   The specification is the formal object Spec/Spec.v (syntax tree, wf, render, denote).

   LAYER REACHED: L3 — the acceptance half is closed at full strength (C01_parse_conforming: every well-formed
   specification document is accepted and parses to exactly the denoted records). The layers below it (L0 value
   literals, L1 entry value line, L2 record) are kept as theorems of their own.
   L4 (rejection) is reached for every fault class of the property text, each as an injection into an ARBITRARY
   well-formed document d (record k, line j), with the applicable shapes stated as hypotheses:
     malformed / non-Gregorian date, text after the headline, wrong or mixed indentation (first indented line; later
     lines, with the guard "not style+style" = legal continuation line), malformed time / duration / range (general
     form + the families: time-shaped non-times such as hour > 24, minute > 59, 24:01, 24:00>, 13:00pm; missing dash;
     missing or malformed end time; `1h60m`), reversed range, shifted placeholder (`?>`, `?x`, `<?`), second open
     range, summary line starting with a blank character, blank line inside a record, stray text as its own block.
   All rest on C01_reject_raw (errors are never dropped, parsing never crashes, one failing block fails the text).
   The common guard [raw_ok (inject..._raw ...) = true] says that the edited text still has the layout of a document
   (the new line is not blank, has no linefeed, line endings stay unambiguous); it is a boolean, checked by computation
   in the Examples. What the classes do NOT cover (hence the few remaining _partial names): malformed entries are
   characterised through the families listed, not as "every text that is no value of the grammar" (general form:
   C01_parse_rejects_malformed_entry, whose hypothesis mentions parse_entry_value); several faults at once are covered
   only through C01_reject_raw. The position of the first error of every class is C10_first_error_at_fault_*. *)
From Klog Require Import Base.Prelude Base.Utf8 Model.Calendar Model.Values Model.Record Model.Lines Model.Parser
  Spec.Spec Spec.SpecInject Proofs.SpecValues Proofs.SpecEntry Proofs.SpecRecord Proofs.SpecDoc Proofs.SpecReject
  Proofs.SpecFaults Proofs.SpecFaultLines.
Open Scope Z_scope.

(* ---------- L0: value literals ---------- *)

(* every time literal of the specification (optional leading zero, 24-hour / am / pm, 24:00 and <24:00, shifts) *)
Theorem C01_time_literal : forall t, wf_time t = true -> parse_time (render_time t) = Ok (denote_time t).
Proof. exact parse_render_time. Qed.
Print Assumptions C01_time_literal.

(* every date literal: all Gregorian dates 0000-9999, both separators *)
Theorem C01_date_literal : forall d, wf_date d = true -> parse_date (render_date d) = Ok (denote_date d).
Proof. exact parse_render_date. Qed.
Print Assumptions C01_date_literal.

(* every duration literal (sign x optional hours x optional minutes, any leading zeros, minutes < 60 when hours are
   present) whose amount fits int64 *)
Theorem C01_duration_literal : forall d, wf_dur d = true -> parse_duration (render_dur d) = Ok (denote_dur d).
Proof. exact parse_render_dur. Qed.
Print Assumptions C01_duration_literal.

(* the int64 guard of wf_dur is exact: beyond it the value constructor panics (finding K5) *)
Theorem C01_duration_literal_guard_exact : forall d, dur_shape d = true -> max_int64 < dur_amount d ->
  exists c, parse_duration (render_dur d) = Crash c.
Proof. exact parse_render_dur_overflow. Qed.
Print Assumptions C01_duration_literal_guard_exact.

(* ---------- L1: the value on an entry line ---------- *)

(* after any prefix (the indentation), followed by the end of the line or one space and arbitrary text *)
Theorem C01_entry_value : forall ln pre v tail, wf_value v = true -> tail_ok tail ->
  parse_entry_value ln (pre ++ render_value v ++ tail) (length pre)
  = ev_of (denote_value v) (length pre) (length pre + length (render_value v)).
Proof. exact parse_entry_value_spec. Qed.
Print Assumptions C01_entry_value.

(* ---------- L2: one record ---------- *)

(* a block whose significant lines are the lines of a specification record (headline with optional should-total and
   trailing blanks, summary lines, entries indented in one of the four styles, continuation lines), with any blank lines
   before and after and any line endings *)
Theorem C01_record : forall r b head sig tail, wf_record r = true ->
  b_lines b = head ++ sig ++ tail ->
  forallb is_blank head = true -> forallb is_blank tail = true ->
  map l_text sig = map utf8_encode (record_texts r) ->
  parse_record b = Ok (inl (denote_record r)).
Proof. exact parse_record_spec. Qed.
Print Assumptions C01_record.

(* ---------- L3: the document — acceptance and extraction in one statement ---------- *)

Theorem C01_parse_conforming : forall d, wf d ->
  parse_text (render d) = Ok (Parsed (denote d) (blocks_of (render d))).
Proof. exact parse_conforming. Qed.
Print Assumptions C01_parse_conforming.

(* ---------- L4: rejection ---------- *)

(* general form: any raw document (blank lines / groups of non-blank lines) one of whose groups makes parse_record
   report an error is rejected: at least one error, no records, no crash *)
Theorem C01_reject_raw : forall rd, raw_ok rd = true -> Exists (fun tg => sig_fails (fst tg)) (rd_groups rd) ->
  exists es, parse_text (render_raw rd) = Ok (Failed es) /\ es <> [].
Proof. exact reject_raw. Qed.
Print Assumptions C01_reject_raw.

(* malformed or non-Gregorian date: the date of record k's headline is replaced by a text without blanks that
   NewDateFromString does not accept (see C01_date_not_gregorian for the non-Gregorian case) *)
Theorem C01_parse_rejects_bad_date : forall d k rg dtxt,
  nth_error (do_records d) k = Some rg ->
  let t := dtxt ++ skipn 10 (headline_text (fst rg)) in
  raw_ok (inject_raw k 0 t d) = true ->
  match dtxt with c :: _ => is_space_or_tab c = false | [] => False end ->
  forallb (fun c => negb (is_space_or_tab c)) dtxt = true ->
  (forall x, parse_date (utf8_encode dtxt) <> Ok x) ->
  match skipn 10 (headline_text (fst rg)) with c :: _ => is_space_or_tab c = true | [] => True end ->
  exists es, parse_text (inject k 0 t d) = Ok (Failed es) /\ es <> [].
Proof. exact reject_bad_date. Qed.
Print Assumptions C01_parse_rejects_bad_date.

(* a date literal of the right shape that is not a date of the Gregorian calendar is not accepted *)
Theorem C01_date_not_gregorian : forall d, 0 <= sd_year d <= 9999 -> 0 <= sd_month d <= 99 -> 0 <= sd_day d <= 99 ->
  wf_date d = false -> parse_date (render_date d) = Err EUnrepresentableDate.
Proof. exact parse_render_date_invalid. Qed.
Print Assumptions C01_date_not_gregorian.

(* reversed range: the value line of an entry is replaced by a range whose end lies before its start *)
Theorem C01_parse_rejects_reversed_range : forall d k rg es1 e es2 a sp1 sp2 b tail,
  wf d -> nth_error (do_records d) k = Some rg -> sr_entries (fst rg) = es1 ++ e :: es2 ->
  wf_time a = true -> wf_time b = true -> timeline b < timeline a -> tail_ok tail -> text_ok tail = true ->
  let t := indent_text (sr_indent (fst rg)) ++ render_value (SRange a sp1 sp2 b) ++ tail in
  let j := entry_line_index (fst rg) es1 in
  raw_ok (inject_raw k j t d) = true ->
  exists es, parse_text (inject k j t d) = Ok (Failed es) /\ es <> [].
Proof. exact reject_reversed_range. Qed.
Print Assumptions C01_parse_rejects_reversed_range.

(* second open range: the value line of an entry that follows an open range is replaced by an open range *)
Theorem C01_parse_rejects_second_open : forall d k rg es1 e es2 a sp1 sp2 extra tail,
  wf d -> nth_error (do_records d) k = Some rg -> sr_entries (fst rg) = es1 ++ e :: es2 ->
  count_open es1 <> 0%nat ->
  wf_time a = true -> tail_ok tail -> text_ok tail = true ->
  let t := indent_text (sr_indent (fst rg)) ++ render_value (SOpen a sp1 sp2 extra) ++ tail in
  let j := entry_line_index (fst rg) es1 in
  raw_ok (inject_raw k j t d) = true ->
  exists es, parse_text (inject k j t d) = Ok (Failed es) /\ es <> [].
Proof. exact reject_second_open. Qed.
Print Assumptions C01_parse_rejects_second_open.

(* summary line starting with a blank character: a record summary line is replaced by a text that begins with a blank
   character (tab or Zs) and is not an indented line *)
Theorem C01_parse_rejects_blank_summary : forall d k rg s1 s s2 t,
  wf d -> nth_error (do_records d) k = Some rg -> sr_summary (fst rg) = s1 ++ s :: s2 ->
  match t with c :: _ => blank_char c = true | [] => False end ->
  find_indentation (utf8_encode t) = None ->
  raw_ok (inject_raw k (summary_line_index s1) t d) = true ->
  exists es, parse_text (inject k (summary_line_index s1) t d) = Ok (Failed es) /\ es <> [].
Proof. exact reject_blank_summary. Qed.
Print Assumptions C01_parse_rejects_blank_summary.

(* text after the headline: after the should-total anything that begins with a non-blank; after the date (no should-total)
   at least one blank and then anything that begins with a non-blank other than `(` (which opens the should-total) *)
Theorem C01_parse_rejects_headline_text : forall d k rg c x,
  wf d -> nth_error (do_records d) k = Some rg ->
  is_space_or_tab c = false ->
  match sr_should (fst rg) with Some _ => True | None => sr_trail (fst rg) <> [] /\ (c =? ch_lpar)%N = false end ->
  raw_ok (inject_raw k (0) (headline_text (fst rg) ++ c :: x) d) = true ->
  exists es, parse_text (inject k (0) (headline_text (fst rg) ++ c :: x) d) = Ok (Failed es) /\ es <> [].
Proof. exact reject_headline_text. Qed.
Print Assumptions C01_parse_rejects_headline_text.

(* wrong indentation of the record's first indented line: it begins with a blank character but with no indentation style
   (one space, a Zs character), or with a style followed by a further blank (five spaces, tab + space, two tabs) *)
Theorem C01_parse_rejects_indentation_first : forall d k rg e es2 t,
  wf d -> nth_error (do_records d) k = Some rg -> sr_entries (fst rg) = e :: es2 ->
  (match t with c :: _ => blank_char c = true | [] => False end /\ find_indentation (utf8_encode t) = None)
  \/ (exists st, find_indentation (utf8_encode t) = Some st /\ is_space_or_tab (peek t (length st)) = true) ->
  raw_ok (inject_raw k (entry_line_index (fst rg) []) (t) d) = true ->
  exists es, parse_text (inject k (entry_line_index (fst rg) []) (t) d) = Ok (Failed es) /\ es <> [].
Proof. exact reject_indentation_first. Qed.
Print Assumptions C01_parse_rejects_indentation_first.

(* wrong or mixed indentation of a later entry line: it does not begin with the record's style, or has a further blank
   after it. Guard: it does not begin with style+style — that is a legal continuation line of the entry before *)
Theorem C01_parse_rejects_indentation_later : forall d k rg es1 e es2 t,
  wf d -> nth_error (do_records d) k = Some rg -> sr_entries (fst rg) = es1 ++ e :: es2 -> es1 <> [] ->
  has_prefix (indent_text (sr_indent (fst rg)) ++ indent_text (sr_indent (fst rg))) (utf8_encode t) = false ->
  has_prefix (indent_text (sr_indent (fst rg))) (utf8_encode t) = false \/ is_space_or_tab (peek t (length (indent_text (sr_indent (fst rg))))) = true ->
  raw_ok (inject_raw k (entry_line_index (fst rg) es1) (t) d) = true ->
  exists es, parse_text (inject k (entry_line_index (fst rg) es1) (t) d) = Ok (Failed es) /\ es <> [].
Proof. exact reject_indentation_later. Qed.
Print Assumptions C01_parse_rejects_indentation_later.

(* malformed time / duration / range, general form: the value line of an entry is replaced by the indentation and a text
   on which parse_entry_value reports an error. The concrete families follow *)
Theorem C01_parse_rejects_malformed_entry_partial : forall d k rg es1 e es2 txt,
  wf d -> nth_error (do_records d) k = Some rg -> sr_entries (fst rg) = es1 ++ e :: es2 ->
  match txt with c :: _ => is_space_or_tab c = false /\ (c <? 128)%N = true | [] => False end ->
  (forall ln, exists e0, parse_entry_value ln (indent_text (sr_indent (fst rg)) ++ txt) (length (indent_text (sr_indent (fst rg)))) = EvErr e0) ->
  raw_ok (inject_raw k (entry_line_index (fst rg) es1) (indent_text (sr_indent (fst rg)) ++ txt) d) = true ->
  exists es, parse_text (inject k (entry_line_index (fst rg) es1) (indent_text (sr_indent (fst rg)) ++ txt) d) = Ok (Failed es) /\ es <> [].
Proof. exact reject_malformed_entry. Qed.
Print Assumptions C01_parse_rejects_malformed_entry_partial.

(* a time-shaped literal that is no time of the specification (hour > 24, minute > 59, 24:01, 24:00>, 13:00pm, 0:30am:
   all 180,000 - 27,000 literals `<?D{1,2}:DD(am|pm)?>?` outside wf_time) where the start time should be *)
Theorem C01_parse_rejects_bad_time : forall d k rg es1 e es2 st rest,
  wf d -> nth_error (do_records d) k = Some rg -> sr_entries (fst rg) = es1 ++ e :: es2 ->
  time_fields_in_shape st = true -> wf_time st = false ->
  match rest with c :: _ => is_dash_or_space c = true | [] => True end ->
  raw_ok (inject_raw k (entry_line_index (fst rg) es1) (indent_text (sr_indent (fst rg)) ++ render_time st ++ rest) d) = true ->
  exists es, parse_text (inject k (entry_line_index (fst rg) es1) (indent_text (sr_indent (fst rg)) ++ render_time st ++ rest) d) = Ok (Failed es) /\ es <> [].
Proof. exact reject_bad_time. Qed.
Print Assumptions C01_parse_rejects_bad_time.

(* missing dash: a time, then blanks and something that is not a dash (`8:00 9:00`), or nothing (`8:00`) *)
Theorem C01_parse_rejects_missing_dash : forall d k rg es1 e es2 a sp1 rest,
  wf d -> nth_error (do_records d) k = Some rg -> sr_entries (fst rg) = es1 ++ e :: es2 ->
  wf_time a = true ->
  match rest with c :: _ => is_space c = false /\ (c =? ch_minus)%N = false | [] => True end ->
  (sp1 = 0%nat -> rest = []) ->
  raw_ok (inject_raw k (entry_line_index (fst rg) es1) (indent_text (sr_indent (fst rg)) ++ render_time a ++ spaces sp1 ++ rest) d) = true ->
  exists es, parse_text (inject k (entry_line_index (fst rg) es1) (indent_text (sr_indent (fst rg)) ++ render_time a ++ spaces sp1 ++ rest) d) = Ok (Failed es) /\ es <> [].
Proof. exact reject_missing_dash. Qed.
Print Assumptions C01_parse_rejects_missing_dash.

(* missing end time (s' empty: `8:00 -`), an end that is no time (`8:00 - 9:60`, `8:00 - foo`), shifted placeholder `<?` *)
Theorem C01_parse_rejects_bad_end : forall d k rg es1 e es2 a sp1 sp2 s' tail,
  wf d -> nth_error (do_records d) k = Some rg -> sr_entries (fst rg) = es1 ++ e :: es2 ->
  wf_time a = true ->
  forallb (fun c => negb (is_space_or_tab c)) s' = true ->
  match tail with c :: _ => is_space_or_tab c = true | [] => True end ->
  match s' ++ tail with c :: _ => is_space c = false /\ (c =? ch_q)%N = false | [] => True end ->
  (forall t, parse_time (utf8_encode s') <> Ok t) ->
  raw_ok (inject_raw k (entry_line_index (fst rg) es1) (indent_text (sr_indent (fst rg)) ++ render_time a ++ spaces sp1 ++ [45%N] ++ spaces sp2 ++ s' ++ tail) d) = true ->
  exists es, parse_text (inject k (entry_line_index (fst rg) es1) (indent_text (sr_indent (fst rg)) ++ render_time a ++ spaces sp1 ++ [45%N] ++ spaces sp2 ++ s' ++ tail) d) = Ok (Failed es) /\ es <> [].
Proof. exact reject_bad_end. Qed.
Print Assumptions C01_parse_rejects_bad_end.

(* shifted or otherwise decorated placeholder: `?` followed, up to the next blank, by anything but further `?` (`?>`, `?x`, `??>`) *)
Theorem C01_parse_rejects_bad_placeholder : forall d k rg es1 e es2 a sp1 sp2 rep tail,
  wf d -> nth_error (do_records d) k = Some rg -> sr_entries (fst rg) = es1 ++ e :: es2 ->
  wf_time a = true ->
  forallb (fun c => negb (is_space_or_tab c)) rep = true ->
  match tail with c :: _ => is_space_or_tab c = true | [] => True end ->
  forallb (fun c => (c =? ch_q)%N) rep = false ->
  raw_ok (inject_raw k (entry_line_index (fst rg) es1) (indent_text (sr_indent (fst rg)) ++ render_time a ++ spaces sp1 ++ [45%N] ++ spaces sp2 ++ 63%N :: rep ++ tail) d) = true ->
  exists es, parse_text (inject k (entry_line_index (fst rg) es1) (indent_text (sr_indent (fst rg)) ++ render_time a ++ spaces sp1 ++ [45%N] ++ spaces sp2 ++ 63%N :: rep ++ tail) d) = Ok (Failed es) /\ es <> [].
Proof. exact reject_bad_placeholder. Qed.
Print Assumptions C01_parse_rejects_bad_placeholder.

(* `1h60m`: a duration literal with both parts whose minute part is 60 or more *)
Theorem C01_parse_rejects_minutes_overflow : forall d k rg es1 e es2 du tail,
  wf d -> nth_error (do_records d) k = Some rg -> sr_entries (fst rg) = es1 ++ e :: es2 ->
  dur_minutes_overflow du = true -> tail_ok tail ->
  raw_ok (inject_raw k (entry_line_index (fst rg) es1) (indent_text (sr_indent (fst rg)) ++ render_dur du ++ tail) d) = true ->
  exists es, parse_text (inject k (entry_line_index (fst rg) es1) (indent_text (sr_indent (fst rg)) ++ render_dur du ++ tail) d) = Ok (Failed es) /\ es <> [].
Proof. exact reject_minutes_overflow. Qed.
Print Assumptions C01_parse_rejects_minutes_overflow.

(* blank line inside a record: a blank (space / tab only) line bl is inserted before the value line of an entry; the
   indented line after it then begins a block of its own and is rejected *)
Theorem C01_parse_rejects_blank_inside : forall d k rg es1 e es2 bl, wf d -> nth_error (do_records d) k = Some rg ->
  sr_entries (fst rg) = es1 ++ e :: es2 ->
  raw_ok (inject_blank_raw k (entry_line_index (fst rg) es1) bl d) = true ->
  exists es, parse_text (inject_blank k (entry_line_index (fst rg) es1) bl d) = Ok (Failed es) /\ es <> [].
Proof. exact reject_blank_inside. Qed.
Print Assumptions C01_parse_rejects_blank_inside.

(* stray non-record text as a block of its own before record k (or after the last record): its first line is indented,
   or its first blank-delimited word is not a date *)
Theorem C01_parse_rejects_stray_text : forall d k t0 others gap, wf d -> (k <= length (do_records d))%nat ->
  raw_ok (inject_stray_raw k (t0 :: others) gap d) = true -> stray_first_line t0 ->
  exists es, parse_text (inject_stray k (t0 :: others) gap d) = Ok (Failed es) /\ es <> [].
Proof. exact reject_stray. Qed.
Print Assumptions C01_parse_rejects_stray_text.

(* known finding K3: a line holding only U+00A0 between two records is a blank line by the specification's glossary
   (blank character = tab or Zs), but the text is rejected. Bytes: "2020-01-01\n" C2 A0 "\n2020-01-02\n" *)
Theorem C01_zs_blank_line_refuted : exists s es,
  s = b!"2020-01-01" ++ [10; 194; 160; 10]%N ++ b!"2020-01-02" ++ [10%N] /\
  blank_char 160 = true /\ parse_text s = Ok (Failed es) /\ es <> [].
Proof. exact zs_blank_line_witness. Qed.
Print Assumptions C01_zs_blank_line_refuted.

(* ---------- non-vacuity ---------- *)

Example C01_time_nonvacuous :
  wf_time {| st_shift := -1; st_hh := 24; st_pad := false; st_mm := 0; st_clock := C24 |} = true
  /\ render_time {| st_shift := -1; st_hh := 24; st_pad := false; st_mm := 0; st_clock := C24 |} = b!"<24:00"
  /\ wf_time {| st_shift := 1; st_hh := 9; st_pad := true; st_mm := 5; st_clock := CPm |} = true
  /\ render_time {| st_shift := 1; st_hh := 9; st_pad := true; st_mm := 5; st_clock := CPm |} = b!"09:05pm>".
Proof. repeat split; reflexivity. Qed.

Example C01_duration_nonvacuous :
  wf_dur {| du_sign := SMinus; du_h := Some b!"007"; du_m := Some b!"05" |} = true
  /\ render_dur {| du_sign := SMinus; du_h := Some b!"007"; du_m := Some b!"05" |} = b!"-007h05m"
  /\ d_mins (denote_dur {| du_sign := SMinus; du_h := Some b!"007"; du_m := Some b!"05" |}) = -425.
Proof. repeat split; reflexivity. Qed.

Example C01_entry_value_nonvacuous :
  let v := SRange {| st_shift := -1; st_hh := 11; st_pad := false; st_mm := 30; st_clock := CPm |} 0 2
                  {| st_shift := 0; st_hh := 24; st_pad := false; st_mm := 0; st_clock := C24 |} in
  wf_value v = true /\ render_value v = b!"<11:30pm-  24:00" /\ tail_ok b!" 8:00-9:00 1h".
Proof. repeat split; reflexivity. Qed.

(* a three-record document: all entry kinds, two indentation styles, CRLF on some lines, no final newline *)
Definition t_ (s h m : Z) (c : clock) : s_time := {| st_shift := s; st_hh := h; st_pad := false; st_mm := m; st_clock := c |}.
Definition example_doc : s_doc :=
  {| do_lead := [b!" "];
     do_records :=
       [ ({| sr_date := {| sd_year := 2024; sd_month := 2; sd_day := 29; sd_dash := true |};
             sr_should := Some (1%nat, {| du_sign := SNone; du_h := Some b!"8"; du_m := None |});
             sr_trail := b!" ";
             sr_summary := [b!"Leap day #work"];
             sr_indent := I4;
             sr_entries := [ {| se_value := SRange (t_ (-1) 11 30 CPm) 1 1 (t_ 0 24 0 C24); se_first := Some b!"8:00-9:00 1h"; se_more := [b!"  more"] |};
                             {| se_value := SDur {| du_sign := SMinus; du_h := Some b!"01"; du_m := Some b!"05" |}; se_first := None; se_more := [] |};
                             {| se_value := SOpen (t_ 0 9 0 C24) 0 2 2; se_first := Some []; se_more := [] |} ] |}, [[]; b!"	"]);
         ({| sr_date := {| sd_year := 0; sd_month := 1; sd_day := 1; sd_dash := false |};
             sr_should := None; sr_trail := []; sr_summary := []; sr_indent := ITab;
             sr_entries := [ {| se_value := SDur {| du_sign := SPlus; du_h := None; du_m := Some b!"0" |}; se_first := None; se_more := [] |} ] |}, [[]]);
         ({| sr_date := {| sd_year := 9999; sd_month := 12; sd_day := 31; sd_dash := true |};
             sr_should := None; sr_trail := []; sr_summary := []; sr_indent := I2; sr_entries := [] |}, []) ];
     do_crlf := fun i => Nat.even i;
     do_final_newline := false |}.

Example C01_conforming_nonvacuous :
  wf example_doc
  /\ length (denote example_doc) = 3%nat
  /\ render example_doc =
     b!" " ++ [13; 10]%N ++ b!"2024-02-29  (8h!) " ++ [10%N] ++ b!"Leap day #work" ++ [13; 10]%N
     ++ b!"    <11:30pm - 24:00 8:00-9:00 1h" ++ [10%N] ++ b!"          more" ++ [13; 10]%N
     ++ b!"    -01h05m" ++ [10%N] ++ b!"    9:00-  ??? " ++ [13; 10]%N ++ [10%N] ++ [9; 13; 10]%N
     ++ b!"0000/01/01" ++ [10%N] ++ [9%N] ++ b!"+0m" ++ [13; 10]%N ++ [10%N] ++ b!"9999-12-31".
Proof. split; [vm_compute; reflexivity|]. split; vm_compute; reflexivity. Qed.

(* one injected fault per proved class, on the three-record document above: the guards hold and the theorems apply *)
Definition bad_date_text : text := b!"2023-02-29".
Example C01_bad_date_nonvacuous :
  raw_ok (inject_raw 0 0 (bad_date_text ++ skipn 10 (headline_text (fst (nth 0 (do_records example_doc) (fst (nth 0 (do_records example_doc) (Build_s_record (Build_s_date 0 0 0 true) None [] [] I4 [], [])), []))))) example_doc) = true
  /\ (forall x, parse_date (utf8_encode bad_date_text) <> Ok x).
Proof. split; [vm_compute; reflexivity|]. intros x H. vm_compute in H. discriminate. Qed.

Example C01_reversed_range_nonvacuous :
  let rg := nth 0 (do_records example_doc) (Build_s_record (Build_s_date 0 0 0 true) None [] [] I4 [], []) in
  exists es1 e es2, sr_entries (fst rg) = es1 ++ e :: es2 /\ length es1 = 1%nat /\
  let t := indent_text (sr_indent (fst rg)) ++ render_value (SRange (t_ 0 10 0 C24) 1 1 (t_ 0 9 0 C24)) ++ [] in
  raw_ok (inject_raw 0 (entry_line_index (fst rg) es1) t example_doc) = true /\ timeline (t_ 0 9 0 C24) < timeline (t_ 0 10 0 C24).
Proof. eexists [_], _, [_]. split; [reflexivity|]. split; [reflexivity|]. split; [vm_compute; reflexivity|reflexivity]. Qed.

Example C01_second_open_nonvacuous :
  let r := {| sr_date := {| sd_year := 2020; sd_month := 1; sd_day := 1; sd_dash := true |}; sr_should := None; sr_trail := [];
              sr_summary := []; sr_indent := I2;
              sr_entries := [ {| se_value := SOpen (t_ 0 8 0 C24) 1 1 0; se_first := None; se_more := [] |};
                              {| se_value := SDur {| du_sign := SNone; du_h := Some b!"1"; du_m := None |}; se_first := None; se_more := [] |} ] |} in
  let d := {| do_lead := []; do_records := [(r, [])]; do_crlf := fun _ => false; do_final_newline := true |} in
  wf d /\ count_open [ {| se_value := SOpen (t_ 0 8 0 C24) 1 1 0; se_first := None; se_more := [] |} ] <> 0%nat
  /\ raw_ok (inject_raw 0 (entry_line_index r [ {| se_value := SOpen (t_ 0 8 0 C24) 1 1 0; se_first := None; se_more := [] |} ])
              (indent_text I2 ++ render_value (SOpen (t_ 0 9 0 C24) 0 0 1) ++ b!" again") d) = true
  /\ inject 0 2 (indent_text I2 ++ render_value (SOpen (t_ 0 9 0 C24) 0 0 1) ++ b!" again") d
     = b!"2020-01-01" ++ [10%N] ++ b!"  8:00 - ?" ++ [10%N] ++ b!"  9:00-?? again" ++ [10%N].
Proof. split; [vm_compute; reflexivity|]. split; [vm_compute; discriminate|]. split; vm_compute; reflexivity. Qed.

Example C01_blank_summary_nonvacuous :
  let t := [12288%N] ++ b!"note" in      (* U+3000 IDEOGRAPHIC SPACE, then text *)
  blank_char 12288 = true /\ find_indentation (utf8_encode t) = None
  /\ raw_ok (inject_raw 0 (summary_line_index []) t example_doc) = true.
Proof. repeat split; vm_compute; reflexivity. Qed.

(* the new classes on the three-record document: the guards hold *)
Definition rg0 := nth 0 (do_records example_doc) (Build_s_record (Build_s_date 0 0 0 true) None [] [] I4 [], []).
Example C01_faults_nonvacuous :
  (* (a) 2024-02-29  (8h!) x *)
  raw_ok (inject_raw 0 0 (headline_text (fst rg0) ++ b!"x") example_doc) = true
  (* (b) first indented line with one space / with five spaces; a later line with two spaces in a four-space record *)
  /\ raw_ok (inject_raw 0 (entry_line_index (fst rg0) []) b!" 1h" example_doc) = true
  /\ find_indentation (utf8_encode b!" 1h") = None
  /\ raw_ok (inject_raw 0 (entry_line_index (fst rg0) []) b!"     1h" example_doc) = true
  /\ find_indentation (utf8_encode b!"     1h") = Some b!"    "
  /\ (exists es1 e es2, sr_entries (fst rg0) = es1 ++ e :: es2 /\ es1 <> [] /\
        raw_ok (inject_raw 0 (entry_line_index (fst rg0) es1) b!"  1h" example_doc) = true /\
        has_prefix (b!"    " ++ b!"    ") (utf8_encode b!"  1h") = false /\ has_prefix b!"    " (utf8_encode b!"  1h") = false)
  (* (c) 25:00 - 26:00 is time-shaped and no time; 1h60m *)
  /\ time_fields_in_shape (t_ 0 25 0 C24) = true /\ wf_time (t_ 0 25 0 C24) = false
  /\ raw_ok (inject_raw 0 (entry_line_index (fst rg0) []) (b!"    " ++ render_time (t_ 0 25 0 C24) ++ b!" - 26:00") example_doc) = true
  /\ dur_minutes_overflow {| du_sign := SNone; du_h := Some b!"1"; du_m := Some b!"60" |} = true
  (* (d) 8:00 - ?> *)
  /\ raw_ok (inject_raw 0 (entry_line_index (fst rg0) []) (b!"    " ++ render_time (t_ 0 8 0 C24) ++ spaces 1 ++ [45%N] ++ spaces 1 ++ 63%N :: b!">" ++ []) example_doc) = true
  (* (e) a blank line before the second entry; (f) stray text before the second record *)
  /\ (exists es1 e es2, sr_entries (fst rg0) = es1 ++ e :: es2 /\ length es1 = 1%nat /\
        raw_ok (inject_blank_raw 0 (entry_line_index (fst rg0) es1) b!" " example_doc) = true)
  /\ raw_ok (inject_stray_raw 1 [b!"TODO later"] [[]] example_doc) = true
  /\ stray_first_line b!"TODO later".
Proof.
  repeat split; try (vm_compute; reflexivity).
  - eexists [_], _, [_]. repeat split; try (vm_compute; reflexivity). discriminate.
  - eexists [_], _, [_]. repeat split; vm_compute; reflexivity.
  - right. exists b!"TODO", b!" later". repeat split; try reflexivity. intros x H. vm_compute in H. discriminate.
Qed.
