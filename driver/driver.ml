(* driver: reads one request per line on stdin, hands it to the extracted Gallina [dispatch] as a
   list of byte values (Coq's N), prints the resulting bytes. No logic lives here. *)

let rec pos_of_int (n : int) : Model.positive =
  if n = 1 then Model.XH
  else if n land 1 = 1 then Model.XI (pos_of_int (n lsr 1))
  else Model.XO (pos_of_int (n lsr 1))
let n_of_int (n : int) : Model.n = if n = 0 then Model.N0 else Model.Npos (pos_of_int n)
let rec int_of_pos (p : Model.positive) : int =
  match p with Model.XH -> 1 | Model.XO q -> 2 * int_of_pos q | Model.XI q -> 2 * int_of_pos q + 1
let int_of_n (x : Model.n) : int = match x with Model.N0 -> 0 | Model.Npos p -> int_of_pos p

let table = Array.init 256 n_of_int

let bytes_of_line (s : string) : Model.n list =
  let r = ref [] in
  for i = String.length s - 1 downto 0 do r := table.(Char.code s.[i]) :: !r done;
  !r

let () =
  let buf = Buffer.create 4096 in
  let out = Buffer.create 65536 in
  (try
    while true do
      let line = input_line stdin in
      let res = Model.dispatch (bytes_of_line line) in
      Buffer.clear buf;
      List.iter (fun c -> Buffer.add_char buf (Char.chr (int_of_n c land 255))) res;
      Buffer.add_buffer out buf; Buffer.add_char out '\n';
      if Buffer.length out > 60000 then (print_string (Buffer.contents out); Buffer.clear out)
    done
  with End_of_file -> ());
  print_string (Buffer.contents out)
