"""C03 — mutating commands touch only the lines they are defined to change."""
import sys, os
sys.path.insert(0, os.path.dirname(os.path.dirname(os.path.abspath(__file__))))
from check import Suite
from props.commands import *

def gen_histories(tier, rng):
    n = 2000 if tier == "quick" else 200000
    out = []
    for _ in range(n):
        doc, cfg, steps = make_history(rng)
        out.append(history_request(doc.render(), cfg, steps))
    for _ in range(400 if tier == "quick" else 40000):
        b, cfg, steps = pause_scenario(rng)
        out.append(history_request(b, cfg, steps))
    return out

def suites():
    return [
        Suite("minimal-edits", gen_histories, oracle=oracle_c03, decisive=False,
              nontrivial=lambda r, o: "ok:" in o,
              rule="histories of mutating commands on conforming documents of every formatting (mixed indentation between records, CRLF/LF/mixed, missing final newline, blank-line runs, whitespace-only lines, multi-line summaries, target first/middle/last/absent); each successful step is compared line by line with the file before it"),
    ]
