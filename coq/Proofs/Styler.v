(* Lemmas about Model/Styler.v (stub). *)
From Klog Require Import Base.Prelude Model.Styler.
