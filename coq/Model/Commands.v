(* Commands: the mutating commands of klog/app/cli (track, start, stop, switch, create, pause), their
   argument resolution (cli/util/args.go), rounding (service/rounding.go) and app.ReconcileFile.
   A command is a pure function from (environment, file bytes) to a new file or a failure.
   Models the code after fix F6 (a time that cannot be represented is an error, not a nil pointer; `stop`
   falls back to yesterday only without an explicit date selection). *)
From Klog Require Import Base.Prelude Base.Utf8 Model.Calendar Model.Values Model.Record Model.Lines Model.Parser
  Model.Tags Model.Reconcile.
Open Scope Z_scope.

Record config := { cfg_round : option Z; cfg_should : option Z; cfg_dashes : option bool; cfg_24h : option bool }.
Record clock := { now_date : cdate; now_h : Z; now_m : Z }.

Inductive datesel := DDefault | DToday | DYesterday | DTomorrow | DExplicit (d : date).

(* AtDateArgs.AtDate *)
Definition at_date (now : clock) (s : datesel) : outcome date :=
  match s with
  | DExplicit d => Ok d
  | DYesterday => let* c := plus_days (now_date now) (-1) in Ok {| dt := c; dt_dashes := true |}
  | DTomorrow => let* c := plus_days (now_date now) 1 in Ok {| dt := c; dt_dashes := true |}
  | _ => Ok {| dt := now_date now; dt_dashes := true |}
  end.

Definition date_format (cfg : config) (s : datesel) : reformat bool :=
  match s with
  | DExplicit _ => NoReformat
  | _ => match cfg_dashes cfg with Some x => ReformatExplicitly x | None => ReformatAuto end
  end.

(* service.RoundToNearest *)
Definition round_to_nearest (t : time) (v : Z) : outcome time :=
  let off := time_offset t in
  let rem := go_mod off v in
  let up := if rem >=? (go_div v 2 + go_mod v 2) then v else 0 in
  match time_plus {| t_hour := 0; t_min := 0; t_shift := 0; t_24h := true |} (off - rem + up) with
  | Ok r => Ok r
  | Err _ => Ok {| t_hour := 23; t_min := 59; t_shift := 1; t_24h := true |}
  | Crash c => Crash c
  end.

Record at_args := { a_date : datesel; a_time : option time; a_round : option Z }.

Inductive cmd_error :=
| CEParse | CENoSuchRecord | CEManipulation | CEMissingTime | CEImpossibleTime | CEFlags | CEInvalidResult.

Inductive cresult (A : Type) := COk (a : A) | CErr (e : cmd_error) | CCrash.
Arguments COk {A} a. Arguments CErr {A} e. Arguments CCrash {A}.

Definition of_outcome {A} (o : outcome A) : cresult A :=
  match o with Ok a => COk a | Err _ => CCrash | Crash _ => CCrash end.
Definition cbind {A B} (x : cresult A) (f : A -> cresult B) : cresult B :=
  match x with COk a => f a | CErr e => CErr e | CCrash => CCrash end.
Notation "'let+' x ':=' e 'in' k" := (cbind e (fun x => k))
  (at level 200, x pattern, e at level 100, k at level 200, right associativity).

(* AtDateAndTimeArgs.AtTime *)
Definition at_time (now : clock) (cfg : config) (a : at_args) : cresult time :=
  match a_time a with
  | Some t => COk t
  | None =>
    let+ d := of_outcome (at_date now (a_date a)) in
    let+ t0 := of_outcome (new_time (now_h now) (now_m now) 0 true) in
    let+ t := of_outcome (match a_round a with
                          | Some v => round_to_nearest t0 v
                          | None => match cfg_round cfg with Some v => round_to_nearest t0 v | None => Ok t0 end
                          end) in
    let today := now_date now in
    if cdate_eqb today (dt d) then COk t
    else
      let+ yest := of_outcome (plus_days today (-1)) in
      if cdate_eqb yest (dt d) then
        match time_plus t 1440 with Ok t' => COk t' | Err _ => CErr CEImpossibleTime | Crash _ => CCrash end
      else
        let+ tom := of_outcome (plus_days today 1) in
        if cdate_eqb tom (dt d) then
          match time_plus t (-1440) with Ok t' => COk t' | Err _ => CErr CEImpossibleTime | Crash _ => CCrash end
        else CErr CEMissingTime
  end.

Definition time_format (cfg : config) (a : at_args) : reformat bool :=
  match a_time a with
  | Some _ => NoReformat
  | None => match cfg_24h cfg with Some x => ReformatExplicitly x | None => ReformatAuto end
  end.

(* WasAutomatic, after F6: no date selection of any kind and no time *)
Definition was_automatic (a : at_args) : bool :=
  match a_date a, a_time a with
  | DDefault, None => true
  | DToday, None => true
  | _, _ => false
  end.

(* ---- SummaryArgs ---- *)
Record sum_args := { s_text : option (list bytes); s_resume : bool; s_nth : Z }.

Definition find_nth_entry (r : record) (nr : Z) : option entry :=
  let n := zlen (rec_entries r) in
  let i := if 0 <? nr then nr - 1 else n + nr in
  if (i <? 0) || (n - 1 <? i) then None else nth_error (rec_entries r) (Z.to_nat i).

Definition resolve_summary (a : sum_args) (current : record) (previous : option record) : cresult (list bytes) :=
  match s_text a with
  | Some _ => if s_resume a || negb (s_nth a =? 0) then CErr CEManipulation else
              match s_text a with Some t => COk t | None => COk [] end
  | None =>
    if s_resume a && negb (s_nth a =? 0) then CErr CEManipulation
    else if s_resume a then
      match find_nth_entry current (-1) with
      | Some e => COk (e_summary e)
      | None =>
        match previous with
        | Some p => match find_nth_entry p (-1) with Some e => COk (e_summary e) | None => COk [] end
        | None => COk []
        end
      end
    else if negb (s_nth a =? 0) then
      match find_nth_entry current (s_nth a) with Some e => COk (e_summary e) | None => CErr CEManipulation end
    else COk []
  end.

(* PreviousRecordSpy: the latest record dated strictly before [d] (first in file order among equals) *)
Definition previous_record (d : cdate) (rs : list record) : option record :=
  fold_left (fun best r =>
               if cdate_geb (dt (rec_date r)) d then best else
               match best with
               | None => Some r
               | Some b => if cdate_geb (dt (rec_date b)) (dt (rec_date r)) then best else Some r
               end) rs None.

(* ---- commands ---- *)
Inductive command :=
| Track (d : datesel) (entry : list bytes)
| Start (a : at_args) (s : sum_args)
| Stop (a : at_args) (summary : option (list bytes))
| Switch (a : at_args) (s : sum_args)
| Create (d : datesel) (should : option Z) (summary : list bytes)
| Pause (summary : option (list bytes)) (no_tags : bool) (extend : bool) (ticks : list Z).

Definition go_tags_of : tags_printer :=
  fun lines => ts_to_strings go_is_letter (summary_tags go_is_letter go_to_lower lines).

Definition lift_r (x : rresult) : cresult reconciler :=
  match x with ROk r => COk r | RErr _ => CErr CEManipulation | RCrash => CCrash end.

(* app.ReconcileFile without I/O: parse, pick a reconciler, run the steps, make the result *)
Definition reconcile_file (file : bytes)
  (mk : list record -> list block -> cresult reconciler)
  (steps : list (list record -> reconciler -> cresult reconciler)) : cresult bytes :=
  match parse_text file with
  | Ok (Parsed rs bs) =>
    let+ r0 := mk rs bs in
    let+ r := fold_left (fun acc step => let+ r := acc in step rs r) steps (COk r0) in
    match make_result r with
    | Some (text, _) => COk text
    | None => CErr CEInvalidResult
    end
  | Ok (Failed _) => CErr CEParse
  | _ => CCrash
  end.

Definition first_creator (cs : list (option (cresult reconciler))) : cresult reconciler :=
  match flat_map (fun o => match o with Some c => [c] | None => [] end) cs with
  | c :: _ => c
  | [] => CErr CENoSuchRecord
  end.

Definition at_record (d : cdate) rs bs : option (cresult reconciler) :=
  match reconciler_at_record d rs bs with Some r => Some (COk r) | None => None end.

Definition new_record (d : date) (fmt : reformat bool) (should : option Z) (summary : list bytes) rs bs
  : option (cresult reconciler) :=
  Some (of_outcome (reconciler_for_new_record d fmt should summary rs bs)).

Definition exec_simple (now : clock) (cfg : config) (c : command) (file : bytes) : cresult bytes :=
  match c with
  | Track ds entry =>
    let+ d := of_outcome (at_date now ds) in
    reconcile_file file
      (fun rs bs => first_creator [at_record (dt d) rs bs; new_record d (date_format cfg ds) (cfg_should cfg) [] rs bs])
      [fun _ r => lift_r (append_entry r entry)]
  | Start a s =>
    let+ d := of_outcome (at_date now (a_date a)) in
    let+ t := at_time now cfg a in
    reconcile_file file
      (fun rs bs => first_creator [at_record (dt d) rs bs; new_record d (date_format cfg (a_date a)) (cfg_should cfg) [] rs bs])
      [fun rs r => let+ summary := resolve_summary s (rc_record r) (previous_record (dt d) rs) in
                   lift_r (start_open_range r t (time_format cfg a) summary)]
  | Stop a summary =>
    let+ d := of_outcome (at_date now (a_date a)) in
    let+ t := at_time now cfg a in
    let try_y := was_automatic a in
    (* the day before is computed only when the fallback applies (fix F13: `stop --date 0000-01-01` used to panic) *)
    let+ y := (if try_y then of_outcome (plus_days (dt d) (-1)) else COk (dt d)) in
    reconcile_file file
      (fun rs bs => first_creator [at_record (dt d) rs bs; if try_y then at_record y rs bs else None])
      [fun _ r =>
         let+ t' := (if try_y && cdate_eqb (dt (rec_date (rc_record r))) y
                     then match time_plus t 1440 with Ok t' => COk t' | Err _ => CErr CEImpossibleTime | Crash _ => CCrash end
                     else COk t) in
         lift_r (close_open_range r t' (time_format cfg a) (match summary with Some s => s | None => [] end))]
  | Switch a s =>
    let+ d := of_outcome (at_date now (a_date a)) in
    let+ t := at_time now cfg a in
    reconcile_file file
      (fun rs bs => first_creator [at_record (dt d) rs bs])
      [fun _ r => lift_r (close_open_range r t (time_format cfg a) []);
       fun _ r => let+ summary := resolve_summary s (rc_record r) None in
                  lift_r (start_open_range r t (time_format cfg a) summary)]
  | Create ds should summary =>
    let+ d := of_outcome (at_date now ds) in
    reconcile_file file
      (fun rs bs => first_creator [new_record d (date_format cfg ds)
                                     (match should with Some m => Some m | None => cfg_should cfg end) summary rs bs])
      []
  | Pause _ _ _ _ => CCrash
  end.

(* klog pause: the initial step, then one ExtendPause per clock reading that completes further minutes.
   [ticks] are the readings of the clock in seconds relative to the start of the pause. *)
Definition pause_reconcile (now : clock) (file : bytes) (op : reconciler -> cresult reconciler) : cresult bytes :=
  let today := now_date now in
  match plus_days today (-1) with
  | Ok y =>
    reconcile_file file (fun rs bs => first_creator [at_record today rs bs; at_record y rs bs]) [fun _ r => op r]
  | _ => CCrash
  end.

Fixpoint pause_loop (now : clock) (ticks : list Z) (captured : Z) (file : bytes) : bytes * cresult unit :=
  match ticks with
  | [] => (file, COk tt)
  | t :: rest =>
    let uncaptured := go_div t 60 - captured in
    if 0 <? uncaptured then
      match pause_reconcile now file (fun r => lift_r (extend_pause r (- uncaptured))) with
      | COk file' => pause_loop now rest (captured + uncaptured) file'
      | CErr e => (file, CErr e)
      | CCrash => (file, CCrash)
      end
    else pause_loop now rest captured file
  end.

(* the file after the command and whether the command succeeded: every command but `pause` writes at most
   once, at the very end; `pause` writes once per step and keeps what earlier steps wrote *)
Definition exec (now : clock) (cfg : config) (c : command) (file : bytes) : bytes * cresult unit :=
  match c with
  | Pause summary no_tags extend ticks =>
    if extend && (match summary with Some _ => true | None => false end) then (file, CErr CEFlags) else
    match pause_reconcile now file
            (fun r => lift_r (if extend then extend_pause r 0
                              else append_pause go_tags_of r (match summary with Some s => s | None => [] end) (negb no_tags))) with
    | COk file1 => pause_loop now ticks 0 file1
    | CErr e => (file, CErr e)
    | CCrash => (file, CCrash)
    end
  | _ => match exec_simple now cfg c file with
         | COk f => (f, COk tt)
         | CErr e => (file, CErr e)
         | CCrash => (file, CCrash)
         end
  end.

(* a history threads the file through *)
Definition step_file (now : clock) (cfg : config) (file : bytes) (c : command) : bytes :=
  fst (exec now cfg c file).
