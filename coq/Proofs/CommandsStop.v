(* CommandsStop: C04 for the commands that rewrite an entry in place — stop (and with it switch) and pause. *)
From Klog Require Import Base.Prelude Base.Utf8 Model.Calendar Model.Values Model.Record Model.Lines Model.Parser
  Model.Tags Model.Serialiser Model.Reconcile Model.Commands Proofs.Lines Proofs.Parser Proofs.TagsUtf8 Proofs.Calendar
  Proofs.Values Spec.Spec Proofs.SpecValues Proofs.SpecEntry Proofs.SpecRecord Proofs.SpecDoc Proofs.Print
  Proofs.Style Proofs.Reconcile Proofs.Commands Proofs.Rounding Proofs.CommandsSpec Proofs.CommandsRefine.
From Coq Require Import ZifyBool.
Open Scope Z_scope.

(* ---------------------------------------------------------------- one line of record k rewritten *)

Lemma lines_ok_replace X l l' Y : lines_ok (X ++ l :: Y) = true ->
  (forall b, line_ok b l = true -> line_ok b l' = true) -> lines_ok (X ++ l' :: Y) = true.
Proof.
  intros H Hl. rewrite lines_ok_app_r in * by discriminate. apply andb_true_iff in H as [HX H]. rewrite HX. cbn [andb].
  destruct Y as [|y Y].
  - cbn [lines_ok] in *. apply Hl. exact H.
  - change (lines_ok (?a :: y :: Y)) with (line_ok false a && lines_ok (y :: Y)) in *.
    apply andb_true_iff in H as [H1 H2]. rewrite (Hl false H1), H2. reflexivity.
Qed.

(* a rewritten text keeps the line a line *)
Definition text_keeps_line (l : line) (t' : bytes) : Prop :=
  no_lf t' = true /\ (l_ending l = [10%N] -> ends_in_cr t' = false) /\ (l_ending l = [] -> t' <> [] /\ ends_in_cr t' = false).

Lemma text_keeps_line_ok l t' b : text_keeps_line l t' -> line_ok b l = true ->
  line_ok b {| l_text := t'; l_ending := l_ending l |} = true.
Proof.
  intros (Hn & Hlf & He) H. unfold line_ok in *. cbn [l_text l_ending]. rewrite Hn. apply andb_true_iff in H as [_ H]. cbn [andb].
  destruct (l_ending l) as [|e1 [|e2 [|e3 r]]] eqn:E; try discriminate.
  - apply andb_true_iff in H as [H _]. rewrite H. cbn [andb]. destruct (He eq_refl) as [Hne _]. destruct t'; [contradiction|reflexivity].
  - apply andb_true_iff in H as [H _]. rewrite H. cbn [andb]. apply N.eqb_eq in H. subst e1. rewrite (Hlf eq_refl). reflexivity.
  - exact H.
Qed.

Theorem update_in_group L lead gs recs k g rg GA l GB t' r' :
  conforms L lead gs recs -> last_line_safe L ->
  nth_error gs k = Some g -> nth_error recs k = Some rg ->
  fst g = GA ++ l :: GB -> text_keeps_line l t' ->
  wf_record r' = true ->
  let l' := {| l_text := t'; l_ending := l_ending l |} in
  map l_text (GA ++ l' :: GB) = map utf8_encode (record_texts r') ->
  let L' := (before_group lead gs k ++ GA) ++ l' :: (GB ++ snd g ++ flat_map group_lines (skipn (S k) gs)) in
  L = (before_group lead gs k ++ GA) ++ l :: (GB ++ snd g ++ flat_map group_lines (skipn (S k) gs)) /\
  conforms L' lead (set_nth k (GA ++ l' :: GB, snd g) gs) (set_nth k (r', snd rg) recs) /\ last_line_safe L'.
Proof.
  intros C Hs Hg Hrg Eg Hk W l' M L'.
  pose proof (cf_lines _ _ _ _ C) as EL. rewrite (split_at_group lead gs k g Hg), Eg in EL.
  assert (EL' : L = (before_group lead gs k ++ GA) ++ l :: (GB ++ snd g ++ flat_map group_lines (skipn (S k) gs))).
  { rewrite EL, <- !app_assoc. reflexivity. }
  split; [exact EL'|].
  destruct (Forall2_nth _ _ _ _ _ (cf_groups _ _ _ _ C) Hg) as (rg' & Hrg' & [Gs Gg]).
  rewrite Hrg in Hrg'. injection Hrg' as <-.
  split.
  - constructor.
    + unfold L'. rewrite (flat_map_set_nth lead gs k g _ Hg). cbn [fst snd]. rewrite <- !app_assoc. reflexivity.
    + exact (cf_lead _ _ _ _ C).
    + apply Forall2_set_nth; [exact (cf_groups _ _ _ _ C)|]. split; cbn [fst snd]; [exact M|exact Gg].
    + apply forallb_set_nth; [exact (cf_wf _ _ _ _ C)|exact W].
    + rewrite (gaps_ok_set_nth k r' rg recs Hrg). exact (cf_gaps _ _ _ _ C).
    + pose proof (cf_ok _ _ _ _ C) as Hok. rewrite EL' in Hok.
      apply (lines_ok_replace _ l l' _ Hok). intros b. apply text_keeps_line_ok. exact Hk.
  - intros pre x E Ex. unfold L' in E. rewrite EL' in Hs.
    destruct (list_snoc_cases (GB ++ snd g ++ flat_map group_lines (skipn (S k) gs))) as [E0|(p & y & E0)]; rewrite E0 in *.
    + apply app_inj_tail in E as [_ <-]. cbn [l_ending l_text] in *. destruct Hk as (_ & _ & He). exact (proj2 (He Ex)).
    + change ((before_group lead gs k ++ GA) ++ l' :: p ++ [y]) with ((before_group lead gs k ++ GA) ++ (l' :: p) ++ [y]) in E.
      rewrite app_assoc in E. apply app_inj_tail in E as [_ <-].
      apply (Hs ((before_group lead gs k ++ GA) ++ l :: p) y); [exact (app_assoc _ (l :: p) [y])|exact Ex].
Qed.

(* ---------------------------------------------------------------- lines inserted inside record k *)

Theorem insert_in_group L lead gs recs k g rg GA GB new eol r' :
  conforms L lead gs recs -> last_line_safe L ->
  nth_error gs k = Some g -> nth_error recs k = Some rg ->
  fst g = GA ++ GB -> GA <> [] ->
  eol_ok eol -> forallb (line_ok false) new = true -> new <> [] ->
  wf_record r' = true ->
  map l_text (GA ++ new ++ GB) = map utf8_encode (record_texts r') ->
  let L' := give_ending_to_last eol (before_group lead gs k ++ GA) ++ new ++ (GB ++ snd g ++ flat_map group_lines (skipn (S k) gs)) in
  let g' := (give_ending_to_last eol GA ++ new ++ GB, snd g) in
  L = (before_group lead gs k ++ GA) ++ (GB ++ snd g ++ flat_map group_lines (skipn (S k) gs)) /\
  conforms L' lead (set_nth k g' gs) (set_nth k (r', snd rg) recs) /\ last_line_safe L'.
Proof.
  intros C Hs Hg Hrg Eg Gne He Hn Hne W M L' g'.
  pose proof (cf_lines _ _ _ _ C) as EL. rewrite (split_at_group lead gs k g Hg), Eg in EL.
  assert (EL' : L = (before_group lead gs k ++ GA) ++ (GB ++ snd g ++ flat_map group_lines (skipn (S k) gs))).
  { rewrite EL, <- !app_assoc. reflexivity. }
  split; [exact EL'|].
  pose proof (cf_ok _ _ _ _ C) as Hok. rewrite EL' in Hok. rewrite EL' in Hs.
  destruct (lines_ok_insert eol _ new _ Hok Hs He Hn Hne) as [Hok' _].
  destruct (Forall2_nth _ _ _ _ _ (cf_groups _ _ _ _ C) Hg) as (rg' & Hrg' & [Gs Gg]).
  rewrite Hrg in Hrg'. injection Hrg' as <-.
  split.
  - constructor.
    + unfold L', g'. rewrite (flat_map_set_nth lead gs k g _ Hg). cbn [fst snd].
      rewrite (give_ending_app eol (before_group lead gs k) GA Gne), <- !app_assoc. reflexivity.
    + exact (cf_lead _ _ _ _ C).
    + apply Forall2_set_nth; [exact (cf_groups _ _ _ _ C)|]. split; cbn [fst snd]; [|exact Gg].
      unfold g'. cbn [fst]. rewrite map_app, map_l_text_give_ending, <- map_app. exact M.
    + apply forallb_set_nth; [exact (cf_wf _ _ _ _ C)|exact W].
    + rewrite (gaps_ok_set_nth k r' rg recs Hrg). exact (cf_gaps _ _ _ _ C).
    + exact Hok'.
  - apply last_line_safe_insert; try assumption. right. exact I.
Qed.

(* ---------------------------------------------------------------- where the lines of an entry are *)

Definition vtext (ind : text) (se : s_entry) : text := ind ++ render_value (se_value se) ++ first_tail se.

Lemma entry_texts_eq ind se : entry_texts ind se = vtext ind se :: map (fun t => ind ++ ind ++ t) (se_more se).
Proof. reflexivity. Qed.

Lemma record_texts_split3 r es1 se es2 : sr_entries r = es1 ++ se :: es2 ->
  let ind := indent_text (sr_indent r) in
  record_texts r = (headline_text r :: sr_summary r ++ flat_map (entry_texts ind) es1)
                   ++ vtext ind se :: map (fun t => ind ++ ind ++ t) (se_more se) ++ flat_map (entry_texts ind) es2.
Proof.
  intros E ind. unfold record_texts. rewrite E, flat_map_app. cbn [flat_map]. rewrite entry_texts_eq. fold ind.
  cbn [app]. rewrite <- !app_assoc. reflexivity.
Qed.

Lemma group_entry_split (sig : list line) r es1 se es2 : sr_entries r = es1 ++ se :: es2 ->
  map l_text sig = map utf8_encode (record_texts r) ->
  let ind := indent_text (sr_indent r) in
  exists GP vl GM GQ, sig = GP ++ vl :: GM ++ GQ /\
    map l_text GP = map utf8_encode (headline_text r :: sr_summary r ++ flat_map (entry_texts ind) es1) /\
    l_text vl = utf8_encode (vtext ind se) /\
    map l_text GM = map utf8_encode (map (fun t => ind ++ ind ++ t) (se_more se)) /\
    map l_text GQ = map utf8_encode (flat_map (entry_texts ind) es2).
Proof.
  intros E M ind. rewrite (record_texts_split3 r es1 se es2 E) in M. fold ind in M.
  rewrite map_app in M. apply map_eq_app in M as (GP & R & -> & MP & M).
  cbn [map] in M. apply map_eq_cons in M as (vl & R2 & -> & Mv & M).
  rewrite map_app in M. apply map_eq_app in M as (GM & GQ & -> & MM & MQ).
  exists GP, vl, GM, GQ. repeat split; assumption.
Qed.

(* countLines over denoted entries = the number of their lines *)
Lemma count_lines_acc es : forall a, fold_left (fun a e => a + zlen (e_summary e)) es a = a + count_lines es.
Proof.
  unfold count_lines. induction es as [|e es IH]; intros a; cbn [fold_left]; [lia|]. rewrite IH, (IH (0 + _)). lia.
Qed.

Lemma count_lines_cons e es : count_lines (e :: es) = zlen (e_summary e) + count_lines es.
Proof. unfold count_lines at 1. cbn [fold_left]. rewrite count_lines_acc. lia. Qed.

Lemma count_lines_denote ind es : count_lines (map denote_entry es) = Z.of_nat (length (flat_map (entry_texts ind) es)).
Proof.
  induction es as [|e es IH]; [reflexivity|]. cbn [map flat_map]. rewrite count_lines_cons, IH, app_length.
  unfold denote_entry, zlen. cbn [e_summary entry_texts List.length]. rewrite !map_length. lia.
Qed.

(* ---------------------------------------------------------------- the open range of a record *)

Lemma no_open_existsb es : count_open es = O -> existsb is_open (map denote_entry es) = false.
Proof.
  induction es as [|e es IH]; [reflexivity|]. rewrite count_open_cons. intros H. cbn [map existsb]. rewrite is_open_denote.
  destruct (is_open_value (se_value e)); [lia|]. apply IH. lia.
Qed.

Lemma find_last_idx_app p a e b : p e = true -> existsb p b = false -> forall i c,
  find_last_idx p (a ++ e :: b) i c = i + zlen a.
Proof.
  intros He Hb. induction a as [|x a IH]; intros i c.
  - cbn [app find_last_idx]. rewrite He, (find_last_idx_none p b (i + 1) i Hb). unfold zlen. cbn. lia.
  - cbn [app find_last_idx]. rewrite IH. unfold zlen. cbn [List.length]. lia.
Qed.

Lemma end_first_open_split es1 e es2 end_ o : existsb is_open es1 = false -> e_value e = VOpen o ->
  time_geb end_ (o_start o) = true ->
  end_first_open (es1 ++ e :: es2) end_ =
  Some (Some (es1 ++ {| e_value := VRange {| r_start := o_start o; r_end := end_; r_spaces := true |}; e_summary := e_summary e |} :: es2)).
Proof.
  intros H1 He Hg. induction es1 as [|x es1 IH].
  - cbn [app end_first_open]. rewrite He. unfold new_range. rewrite Hg. reflexivity.
  - cbn [existsb] in H1. apply orb_false_iff in H1 as [Hx H1]. cbn [app end_first_open].
    unfold is_open in Hx. destruct (e_value x) eqn:Ex; try discriminate; rewrite (IH H1); reflexivity.
Qed.

(* ---------------------------------------------------------------- the placeholder on a specification entry line *)

Lemma render_time_no_q a : wf_time a = true -> forallb (fun c => negb (is_q c)) (render_time a) = true.
Proof.
  intros W. pose proof (render_time_plain a W) as P. unfold wf_time in W.
  assert (Hm : 0 <= st_mm a <= 59) by lia.
  assert (Hh : 0 <= st_hh a <= 24) by (destruct (st_clock a); lia).
  unfold render_time, two_digits, dchar. rewrite !forallb_app.
  assert (D : forall z, 0 <= z <= 9 -> negb (is_q (Z.to_N (48 + z))) = true) by (intros z Hz; unfold is_q, ch_q; lia).
  assert (Q1 : 0 <= st_hh a / 10 <= 9) by (clear - Hh; Z.div_mod_to_equations; lia).
  assert (Q2 : 0 <= st_hh a mod 10 <= 9) by (clear; Z.div_mod_to_equations; lia).
  assert (Q3 : 0 <= st_mm a / 10 <= 9) by (clear - Hm; Z.div_mod_to_equations; lia).
  assert (Q4 : 0 <= st_mm a mod 10 <= 9) by (clear; Z.div_mod_to_equations; lia).
  repeat (apply andb_true_iff; split).
  all: try (destruct (st_shift a <? 0); reflexivity).
  all: try (destruct (0 <? st_shift a); reflexivity).
  all: try (destruct (st_clock a); reflexivity).
  all: try (cbn [forallb]; rewrite ?D by assumption; reflexivity).
  destruct (st_pad a || (10 <=? st_hh a)) eqn:E; cbn [forallb]; rewrite ?D by assumption; try reflexivity.
  rewrite D; [reflexivity|]. destruct (st_pad a); cbn [orb] in E; lia.
Qed.

Lemma spaces_no_q n : forallb (fun c => negb (is_q c)) (spaces n) = true.
Proof. unfold spaces. induction n; [reflexivity|]. cbn [repeat forallb]. rewrite IHn. reflexivity. Qed.

Lemma indent_no_q i : forallb (fun c => negb (is_q c)) (indent_text i) = true.
Proof. destruct i; reflexivity. Qed.

Lemma repeat_q n : forallb is_q (repeat 63%N n) = true.
Proof. induction n; [reflexivity|]. cbn [repeat forallb]. rewrite IHn. reflexivity. Qed.

Lemma placeholder_replaced i a sp1 sp2 extra b tail : wf_time a = true -> wf_time b = true -> tail_ok tail ->
  replace_placeholder (utf8_encode (indent_text i ++ render_value (SOpen a sp1 sp2 extra) ++ tail)) (render_time b)
  = utf8_encode (indent_text i ++ render_value (SRange a sp1 sp2 b) ++ tail).
Proof.
  intros Wa Wb Ht. cbn [render_value].
  set (pre := indent_text i ++ render_time a ++ spaces sp1 ++ [45%N] ++ spaces sp2).
  assert (Apre : ascii pre = true).
  { unfold pre. rewrite !ascii_app, (indent_ascii i), (render_time_ascii a Wa). unfold spaces. rewrite !ascii_repeat by reflexivity. reflexivity. }
  assert (Npre : forallb (fun c => negb (is_q c)) pre = true).
  { unfold pre. rewrite !forallb_app, (indent_no_q i), (render_time_no_q a Wa), !spaces_no_q. reflexivity. }
  replace (indent_text i ++ (render_time a ++ spaces sp1 ++ [45%N] ++ spaces sp2 ++ repeat 63%N (S extra)) ++ tail)
    with (pre ++ repeat 63%N (S extra) ++ tail) by (unfold pre; rewrite <- !app_assoc; reflexivity).
  replace (indent_text i ++ (render_time a ++ spaces sp1 ++ [45%N] ++ spaces sp2 ++ render_time b) ++ tail)
    with (pre ++ render_time b ++ tail) by (unfold pre; rewrite <- !app_assoc; reflexivity).
  rewrite !utf8_encode_app, (utf8_encode_ascii _ Apre), (utf8_encode_ascii _ (render_time_ascii b Wb)).
  rewrite (utf8_encode_ascii (repeat 63%N (S extra))) by (apply ascii_repeat; reflexivity).
  apply replace_placeholder_app; [exact Npre|discriminate|apply repeat_q|].
  destruct tail as [|c t]; [exact I|]. cbn in Ht. subst c. rewrite encode_cons_ascii by reflexivity. reflexivity.
Qed.

(* ---------------------------------------------------------------- a record with one entry replaced *)

Definition with_entries (r : s_record) (es : list s_entry) : s_record :=
  {| sr_date := sr_date r; sr_should := sr_should r; sr_trail := sr_trail r; sr_summary := sr_summary r;
     sr_indent := sr_indent r; sr_entries := es |}.

Lemma wf_with_entries r es1 se se' es2 : wf_record r = true -> sr_entries r = es1 ++ se :: es2 ->
  wf_entry se' = true -> (is_open_value (se_value se') = true -> is_open_value (se_value se) = true) ->
  wf_record (with_entries r (es1 ++ se' :: es2)) = true.
Proof.
  intros W E We Ho. destruct (wf_record_inv r W) as (Wd & H3 & H2 & H1 & H0 & H).
  unfold wf_record, with_entries. cbn [sr_date sr_should sr_trail sr_summary sr_entries].
  rewrite Wd, H2, H1. rewrite E in H0, H. rewrite forallb_app in *. cbn [forallb] in *.
  apply andb_true_iff in H0 as [A B]. apply andb_true_iff in B as [_ B]. rewrite A, We, B. cbn [andb].
  assert (Hc : (count_open (es1 ++ se' :: es2) <=? 1)%nat = true).
  { apply Nat.leb_le. rewrite count_open_app, count_open_cons in *.
    destruct (is_open_value (se_value se')); [rewrite (Ho eq_refl) in H|]; clear - H; try destruct (is_open_value (se_value se)); lia. }
  rewrite Hc. destruct (sr_should r) as [[n dd]|]; [rewrite H3|]; reflexivity.
Qed.

Lemma record_texts_with_entries r es1 se' es2 :
  let ind := indent_text (sr_indent r) in
  record_texts (with_entries r (es1 ++ se' :: es2)) =
  (headline_text r :: sr_summary r ++ flat_map (entry_texts ind) es1)
  ++ vtext ind se' :: map (fun t => ind ++ ind ++ t) (se_more se') ++ flat_map (entry_texts ind) es2.
Proof. intros ind. exact (record_texts_split3 (with_entries r (es1 ++ se' :: es2)) es1 se' es2 eq_refl). Qed.

Lemma denote_with_entries r es : denote_record (with_entries r es) = set_entries (denote_record r) (map denote_entry es).
Proof. reflexivity. Qed.

Lemma update_line_at X l Y f : update_line (X ++ l :: Y) (Z.of_nat (length X)) f = Ok (X ++ {| l_text := f (l_text l); l_ending := l_ending l |} :: Y).
Proof.
  unfold update_line. destruct ((Z.of_nat (length X) <? 0) || (zlen (X ++ l :: Y) <=? Z.of_nat (length X))) eqn:E.
  - unfold zlen in E. rewrite app_length in E. cbn [List.length] in E. lia.
  - rewrite Nat2Z.id. destruct (firstn_skipn_exact X (l :: Y)) as [-> ->]. reflexivity.
Qed.

(* ---------------------------------------------------------------- appended summary text, on specification entries *)

Definition tail_for (a0r : text) : text := match a0r with [] => [] | _ => 32%N :: a0r end.

Definition join_first (first : option text) (a0r : text) : option text :=
  match first with
  | None => match a0r with [] => None | _ => Some a0r end
  | Some t => Some (t ++ tail_for a0r)
  end.

Lemma sep_for_encode a0r : text_ok a0r = true -> sep_for (utf8_encode a0r) ++ utf8_encode a0r = utf8_encode (tail_for a0r).
Proof.
  intros _. destruct a0r as [|c r]; [reflexivity|]. cbn [tail_for].
  pose proof (utf8_encode_nonempty (c :: r) ltac:(discriminate)) as H.
  unfold sep_for. destruct (utf8_encode (c :: r)) eqn:E; [contradiction|].
  change (32%N :: c :: r) with ([32%N] ++ c :: r). rewrite utf8_encode_app, E. reflexivity.
Qed.

Lemma first_tail_join v first a0r more :
  first_tail {| se_value := v; se_first := join_first first a0r; se_more := more |} =
  first_tail {| se_value := v; se_first := first; se_more := more |} ++ tail_for a0r.
Proof.
  unfold first_tail, join_first. cbn [se_first]. destruct first as [t|]; [rewrite app_comm_cons; reflexivity|].
  destruct a0r; reflexivity.
Qed.

(* the abstract counterpart on summaries: the first added line joins the last line, the others follow *)
Definition join_bytes (f a0 : bytes) : bytes := match f with [] => a0 | _ => f ++ sep_for a0 ++ a0 end.

Definition append_summary (s : list bytes) (add : list bytes) : list bytes :=
  match add with
  | [] => s
  | a0 :: more_add =>
    match s with
    | [] => a0 :: more_add
    | [f] => join_bytes f a0 :: more_add
    | _ => removelast s ++ [last s [] ++ sep_for a0 ++ a0] ++ more_add
    end
  end.

(* ---------------------------------------------------------------- rewritten texts keep lines lines *)

Lemma lines_ok_open_is_last X l Y : lines_ok (X ++ l :: Y) = true -> l_ending l = [] -> Y = [].
Proof.
  intros H E. rewrite lines_ok_app_r in H by discriminate. apply andb_true_iff in H as [_ H].
  destruct Y as [|y Y]; [reflexivity|].
  change (lines_ok (l :: y :: Y)) with (line_ok false l && lines_ok (y :: Y)) in H. apply andb_true_iff in H as [H _].
  exfalso. exact (line_ok_false_ending _ H E).
Qed.

Lemma line_in_ok X l Y : lines_ok (X ++ l :: Y) = true -> line_ok true l = true.
Proof. intros H. apply (lines_ok_forall _ H). apply in_or_app. right. left. reflexivity. Qed.

(* the end of the old text is safe where it matters *)
Lemma old_text_safe X l Y : lines_ok (X ++ l :: Y) = true -> last_line_safe (X ++ l :: Y) ->
  (l_ending l = [10%N] \/ l_ending l = []) -> ends_in_cr (l_text l) = false.
Proof.
  intros H Hs [E|E].
  - pose proof (line_in_ok _ _ _ H) as Hl. unfold line_ok in Hl. rewrite E in Hl. apply andb_true_iff in Hl as [_ Hl].
    apply andb_true_iff in Hl as [_ Hl]. apply negb_true_iff in Hl. exact Hl.
  - pose proof (lines_ok_open_is_last _ _ _ H E) as ->. exact (Hs X l eq_refl E).
Qed.

Lemma keeps_line_no_cr l t' : no_lf t' = true -> t' <> [] -> ends_in_cr t' = false -> text_keeps_line l t'.
Proof. intros A B C. split; [exact A|]. split; [intros _; exact C|intros _; split; [exact B|exact C]]. Qed.

Lemma keeps_line_same_end X l Y t' P P' T : lines_ok (X ++ l :: Y) = true -> last_line_safe (X ++ l :: Y) ->
  T <> [] -> l_text l = P ++ T -> t' = P' ++ T -> no_lf t' = true -> text_keeps_line l t'.
Proof.
  intros H Hs HT El -> Hn.
  assert (Hsafe : (l_ending l = [10%N] \/ l_ending l = []) -> ends_in_cr (P' ++ T) = false).
  { intros Hc. rewrite ends_in_cr_app by exact HT. rewrite <- (ends_in_cr_app P T HT), <- El. exact (old_text_safe _ _ _ H Hs Hc). }
  split; [exact Hn|]. split; [intros E; apply Hsafe; left; exact E|].
  intros E. split; [destruct P'; destruct T; try discriminate; contradiction|apply Hsafe; right; exact E].
Qed.

(* ---------------------------------------------------------------- the lines of one entry of record k *)

Record entry_at (L lead : list line) (gs : list group) (recs : srecs) (k : nat) (g : group) (rg : s_record * list text)
  (es1 : list s_entry) (se : s_entry) (es2 : list s_entry) (GP : list line) (vl : line) (GM GQ : list line) : Prop := {
  ea_conf : conforms L lead gs recs;
  ea_safe : last_line_safe L;
  ea_g : nth_error gs k = Some g;
  ea_rg : nth_error recs k = Some rg;
  ea_entries : sr_entries (fst rg) = es1 ++ se :: es2;
  ea_sig : fst g = GP ++ vl :: GM ++ GQ;
  ea_P : map l_text GP = map utf8_encode (headline_text (fst rg) :: sr_summary (fst rg)
                                           ++ flat_map (entry_texts (indent_text (sr_indent (fst rg)))) es1);
  ea_v : l_text vl = utf8_encode (vtext (indent_text (sr_indent (fst rg))) se);
  ea_M : map l_text GM = map utf8_encode (map (fun t => indent_text (sr_indent (fst rg)) ++ indent_text (sr_indent (fst rg)) ++ t) (se_more se));
  ea_Q : map l_text GQ = map utf8_encode (flat_map (entry_texts (indent_text (sr_indent (fst rg)))) es2) }.

Lemma entry_at_intro L lead gs recs k g rg es1 se es2 :
  conforms L lead gs recs -> last_line_safe L -> nth_error gs k = Some g -> nth_error recs k = Some rg ->
  sr_entries (fst rg) = es1 ++ se :: es2 ->
  exists GP vl GM GQ, entry_at L lead gs recs k g rg es1 se es2 GP vl GM GQ.
Proof.
  intros C Hs Hg Hrg E.
  destruct (Forall2_nth _ _ _ _ _ (cf_groups _ _ _ _ C) Hg) as (rg' & Hrg' & [Gs Gg]).
  rewrite Hrg in Hrg'. injection Hrg' as <-.
  destruct (group_entry_split (fst g) (fst rg) es1 se es2 E Gs) as (GP & vl & GM & GQ & A & B & D & F & G).
  exists GP, vl, GM, GQ. constructor; assumption.
Qed.

Lemma entry_at_wf L lead gs recs k g rg es1 se es2 GP vl GM GQ :
  entry_at L lead gs recs k g rg es1 se es2 GP vl GM GQ -> wf_record (fst rg) = true /\ wf_entry se = true.
Proof.
  intros EA. pose proof (cf_wf _ _ _ _ (ea_conf _ _ _ _ _ _ _ _ _ _ _ _ _ _ EA)) as W. rewrite forallb_forall in W.
  pose proof (W rg (nth_error_In _ _ (ea_rg _ _ _ _ _ _ _ _ _ _ _ _ _ _ EA))) as Wr. split; [exact Wr|].
  destruct (wf_record_inv _ Wr) as (_ & _ & _ & _ & H0 & _). rewrite (ea_entries _ _ _ _ _ _ _ _ _ _ _ _ _ _ EA), forallb_app in H0.
  apply andb_true_iff in H0 as [_ H0]. cbn [forallb] in H0. apply andb_true_iff in H0 as [H0 _]. exact H0.
Qed.

(* stage 1: the value line gets a new text; the continuation lines stay *)
Theorem replace_value_line L lead gs recs k g rg es1 se es2 GP vl GM GQ se' :
  entry_at L lead gs recs k g rg es1 se es2 GP vl GM GQ ->
  se_more se' = se_more se -> wf_entry se' = true ->
  (is_open_value (se_value se') = true -> is_open_value (se_value se) = true) ->
  let ind := indent_text (sr_indent (fst rg)) in
  text_keeps_line vl (utf8_encode (vtext ind se')) ->
  let vl' := {| l_text := utf8_encode (vtext ind se'); l_ending := l_ending vl |} in
  let X := before_group lead gs k ++ GP in
  let Y := GM ++ GQ ++ snd g ++ flat_map group_lines (skipn (S k) gs) in
  let g' := (GP ++ vl' :: GM ++ GQ, snd g) in
  let rg' := (with_entries (fst rg) (es1 ++ se' :: es2), snd rg) in
  L = X ++ vl :: Y /\
  entry_at (X ++ vl' :: Y) lead (set_nth k g' gs) (set_nth k rg' recs) k g' rg' es1 se' es2 GP vl' GM GQ.
Proof.
  intros EA Hm We Ho ind Hk vl' X Y g' rg'.
  destruct EA as [C Hs Hg Hrg E Esig MP Mv MM MQ].
  pose proof (cf_wf _ _ _ _ C) as W. rewrite forallb_forall in W. pose proof (W rg (nth_error_In _ _ Hrg)) as Wr.
  pose proof (wf_with_entries (fst rg) es1 se se' es2 Wr E We Ho) as W'.
  assert (M' : map l_text (GP ++ vl' :: GM ++ GQ) = map utf8_encode (record_texts (with_entries (fst rg) (es1 ++ se' :: es2)))).
  { rewrite record_texts_with_entries. cbn [sr_indent with_entries headline_text sr_date sr_should sr_trail sr_summary]. fold ind.
    rewrite !map_app. cbn [map l_text]. rewrite !map_app. fold ind in MP, MM, MQ.
    change (headline_text (with_entries (fst rg) (es1 ++ se' :: es2))) with (headline_text (fst rg)).
    cbn [map] in MP. rewrite map_app in MP.
    rewrite MP, MM, MQ, Hm. reflexivity. }
  destruct (update_in_group L lead gs recs k g rg GP vl (GM ++ GQ) _ _ C Hs Hg Hrg Esig Hk W' M') as (EL & C' & S').
  cbv zeta in EL, C', S'. rewrite <- !app_assoc in EL, C', S'.
  unfold X, Y. rewrite <- !app_assoc.
  split; [exact EL|].
  assert (Hlen : (k < length gs)%nat) by (apply nth_error_Some; congruence).
  assert (Hlenr : (k < length recs)%nat) by (apply nth_error_Some; congruence).
  constructor; try assumption.
  - rewrite nth_error_set_nth by exact Hlen. rewrite Nat.eqb_refl. reflexivity.
  - rewrite nth_error_set_nth by exact Hlenr. rewrite Nat.eqb_refl. reflexivity.
  - reflexivity.
  - reflexivity.
  - reflexivity.
  - cbn [fst rg' sr_indent with_entries]. rewrite Hm. exact MM.
Qed.

(* stage 2: the last continuation line gets a new text *)
Theorem replace_last_more L lead gs recs k g rg es1 se es2 GP vl GM GQ m0 lt lt' :
  entry_at L lead gs recs k g rg es1 se es2 GP vl GM GQ ->
  se_more se = m0 ++ [lt] ->
  let se' := {| se_value := se_value se; se_first := se_first se; se_more := m0 ++ [lt'] |} in
  wf_entry se' = true ->
  let ind := indent_text (sr_indent (fst rg)) in
  exists GM0 ll, GM = GM0 ++ [ll] /\ l_text ll = utf8_encode (ind ++ ind ++ lt) /\
  (text_keeps_line ll (utf8_encode (ind ++ ind ++ lt')) ->
   let ll' := {| l_text := utf8_encode (ind ++ ind ++ lt'); l_ending := l_ending ll |} in
   let X := before_group lead gs k ++ GP ++ vl :: GM0 in
   let Y := GQ ++ snd g ++ flat_map group_lines (skipn (S k) gs) in
   let g' := (GP ++ vl :: (GM0 ++ [ll']) ++ GQ, snd g) in
   let rg' := (with_entries (fst rg) (es1 ++ se' :: es2), snd rg) in
   L = X ++ ll :: Y /\
   entry_at (X ++ ll' :: Y) lead (set_nth k g' gs) (set_nth k rg' recs) k g' rg' es1 se' es2 GP vl (GM0 ++ [ll']) GQ).
Proof.
  intros EA Hm se' We ind.
  destruct EA as [C Hs Hg Hrg E Esig MP Mv MM MQ]. fold ind in MP, Mv, MM, MQ.
  rewrite Hm, !map_app in MM. apply map_eq_app in MM as (GM0 & R & -> & MM0 & Ml).
  cbn [map] in Ml. destruct R as [|ll R]; [discriminate|]. destruct R; [|discriminate]. injection Ml as Ml.
  exists GM0, ll. split; [reflexivity|]. split; [exact Ml|]. intros Hk ll' X Y g' rg'.
  pose proof (cf_wf _ _ _ _ C) as W. rewrite forallb_forall in W. pose proof (W rg (nth_error_In _ _ Hrg)) as Wr.
  pose proof (wf_with_entries (fst rg) es1 se se' es2 Wr E We (fun H => H)) as W'.
  assert (Esig' : fst g = (GP ++ vl :: GM0) ++ ll :: GQ) by (rewrite Esig, <- !app_assoc; reflexivity).
  assert (M' : map l_text ((GP ++ vl :: GM0) ++ ll' :: GQ) = map utf8_encode (record_texts (with_entries (fst rg) (es1 ++ se' :: es2)))).
  { rewrite record_texts_with_entries. cbn [sr_indent with_entries]. fold ind.
    change (headline_text (with_entries (fst rg) (es1 ++ se' :: es2))) with (headline_text (fst rg)).
    change (sr_summary (with_entries (fst rg) (es1 ++ se' :: es2))) with (sr_summary (fst rg)).
    rewrite !map_app. cbn [map l_text se_more se']. rewrite !map_app. cbn [map].
    cbn [map] in MP. rewrite map_app in MP. rewrite MP, Mv, MM0, MQ. unfold vtext, first_tail. cbn [se_value se_first se'].
    rewrite <- !app_assoc. reflexivity. }
  destruct (update_in_group L lead gs recs k g rg (GP ++ vl :: GM0) ll GQ _ _ C Hs Hg Hrg Esig' Hk W' M') as (EL & C' & S').
  cbv zeta in EL, C', S'. fold ll' in C', S'.
  assert (Eg' : ((GP ++ vl :: GM0) ++ ll' :: GQ, snd g) = g') by (unfold g'; rewrite <- !app_assoc; reflexivity).
  rewrite Eg' in C'. unfold X, Y. rewrite <- !app_assoc in EL, C', S'. rewrite <- !app_assoc.
  split; [exact EL|].
  assert (Hlen : (k < length gs)%nat) by (apply nth_error_Some; congruence).
  assert (Hlenr : (k < length recs)%nat) by (apply nth_error_Some; congruence).
  constructor; try assumption.
  - rewrite nth_error_set_nth by exact Hlen. rewrite Nat.eqb_refl. reflexivity.
  - rewrite nth_error_set_nth by exact Hlenr. rewrite Nat.eqb_refl. reflexivity.
  - reflexivity.
  - reflexivity.
  - cbn [fst rg' sr_indent with_entries se_more se']. fold ind. rewrite !map_app. cbn [map]. rewrite MM0. reflexivity.
Qed.

(* stage 3: further continuation lines after the entry's last line *)
Theorem insert_more_lines L lead gs recs k g rg es1 se es2 GP vl GM GQ mr new eol :
  entry_at L lead gs recs k g rg es1 se es2 GP vl GM GQ ->
  let se' := {| se_value := se_value se; se_first := se_first se; se_more := se_more se ++ mr |} in
  wf_entry se' = true ->
  let ind := indent_text (sr_indent (fst rg)) in
  eol_ok eol -> forallb (line_ok false) new = true -> new <> [] ->
  map l_text new = map utf8_encode (map (fun t => ind ++ ind ++ t) mr) ->
  let X := before_group lead gs k ++ GP ++ vl :: GM in
  let Y := GQ ++ snd g ++ flat_map group_lines (skipn (S k) gs) in
  let L' := give_ending_to_last eol X ++ new ++ Y in
  let g' := (give_ending_to_last eol (GP ++ vl :: GM) ++ new ++ GQ, snd g) in
  let rg' := (with_entries (fst rg) (es1 ++ se' :: es2), snd rg) in
  L = X ++ Y /\ conforms L' lead (set_nth k g' gs) (set_nth k rg' recs) /\ last_line_safe L'.
Proof.
  intros EA se' We ind He Hn Hne Mnew X Y L' g' rg'.
  destruct EA as [C Hs Hg Hrg E Esig MP Mv MM MQ]. fold ind in MP, Mv, MM, MQ.
  pose proof (cf_wf _ _ _ _ C) as W. rewrite forallb_forall in W. pose proof (W rg (nth_error_In _ _ Hrg)) as Wr.
  pose proof (wf_with_entries (fst rg) es1 se se' es2 Wr E We (fun H => H)) as W'.
  assert (Esig' : fst g = (GP ++ vl :: GM) ++ GQ) by (rewrite Esig, <- !app_assoc; reflexivity).
  assert (M' : map l_text ((GP ++ vl :: GM) ++ new ++ GQ) = map utf8_encode (record_texts (with_entries (fst rg) (es1 ++ se' :: es2)))).
  { rewrite record_texts_with_entries. cbn [sr_indent with_entries]. fold ind.
    change (headline_text (with_entries (fst rg) (es1 ++ se' :: es2))) with (headline_text (fst rg)).
    change (sr_summary (with_entries (fst rg) (es1 ++ se' :: es2))) with (sr_summary (fst rg)).
    rewrite !map_app. cbn [map l_text se_more se']. rewrite !map_app.
    cbn [map] in MP. rewrite map_app in MP. rewrite MP, Mv, MM, MQ, Mnew. unfold vtext, first_tail. cbn [se_value se_first se'].
    rewrite <- !app_assoc. reflexivity. }
  destruct (insert_in_group L lead gs recs k g rg (GP ++ vl :: GM) GQ new eol _ C Hs Hg Hrg Esig' ltac:(destruct GP; discriminate) He Hn Hne W' M')
    as (EL & C' & S').
  cbv zeta in EL, C', S'. unfold L', X, Y, g', rg'.
  split; [exact EL|]. split; [exact C'|exact S'].
Qed.

(* ---------------------------------------------------------------- closing the open range: the specification entry *)

Definition close_entry (se : s_entry) (b : s_time) (add_r : list text) : s_entry :=
  match se_value se with
  | SOpen a sp1 sp2 extra =>
    let v' := SRange a sp1 sp2 b in
    match add_r with
    | [] => {| se_value := v'; se_first := se_first se; se_more := se_more se |}
    | a0r :: mr =>
      match se_more se with
      | [] => {| se_value := v'; se_first := join_first (se_first se) a0r; se_more := mr |}
      | _ => {| se_value := v'; se_first := se_first se;
                se_more := (removelast (se_more se) ++ [last (se_more se) [] ++ tail_for a0r]) ++ mr |}
      end
    end
  | _ => se
  end.

(* summary text to append, as a command argument *)
Definition add_ok (add_r : list text) : Prop :=
  match add_r with
  | [] => True
  | a0r :: mr => text_ok a0r = true /\ forallb (fun t => text_ok t && negb (all_blank t)) mr = true
  end /\ no_cr_lines (map utf8_encode add_r).

Lemma inserted_more_lines st j mr : eol_ok (sp_val (st_eol st)) -> sp_val (st_indent st) = indent_text j ->
  forallb (fun t => text_ok t && negb (all_blank t)) mr = true -> no_cr_lines (map utf8_encode mr) ->
  let new := map (mk_inserted st) (map (fun s => (s, 2%nat)) (map utf8_encode mr)) in
  map l_text new = map utf8_encode (map (fun t => indent_text j ++ indent_text j ++ t) mr) /\
  forallb (line_ok false) new = true.
Proof.
  intros He Hi Wm Hcrm new.
  assert (Lm : forall t, In t mr ->
            mk_inserted st (utf8_encode t, 2%nat) = {| l_text := utf8_encode (indent_text j ++ indent_text j ++ t); l_ending := sp_val (st_eol st) |}
            /\ line_ok false {| l_text := utf8_encode (indent_text j ++ indent_text j ++ t); l_ending := sp_val (st_eol st) |} = true).
  { intros t Ht. rewrite forallb_forall in Wm. specialize (Wm t Ht). apply andb_true_iff in Wm as [Tt Nb].
    assert (Hne : utf8_encode t <> []).
    { apply utf8_encode_nonempty. intros ->. discriminate Nb. }
    unfold no_cr_lines in Hcrm. rewrite forallb_forall in Hcrm. specialize (Hcrm (utf8_encode t) (in_map _ _ _ Ht)). unfold no_cr in Hcrm. apply negb_true_iff in Hcrm.
    assert (E2 : utf8_encode (indent_text j ++ indent_text j ++ t) = (indent_text j ++ indent_text j) ++ utf8_encode t).
    { rewrite !encode_indent, app_assoc. reflexivity. }
    split.
    - rewrite mk_inserted_line; [rewrite Hi, repeat_bytes_2, E2; reflexivity|exact He|].
      intros _. rewrite Hi, repeat_bytes_2, ends_in_cr_app by exact Hne. exact Hcrm.
    - apply inserted_line_ok; [exact He| |].
      + apply no_lf_encode. rewrite !text_ok_app, Tt.
        replace (text_ok (indent_text j)) with true by (destruct j; reflexivity). reflexivity.
      + intros _. rewrite E2, ends_in_cr_app by exact Hne. exact Hcrm. }
  unfold new. rewrite !map_map. split.
  - apply map_ext_in. intros t Ht. rewrite (proj1 (Lm t Ht)). reflexivity.
  - rewrite forallb_forall. intros l Hl. apply in_map_iff in Hl as (t & <- & Ht). destruct (Lm t Ht) as [-> Hok]. exact Hok.
Qed.

Lemma vtext_no_lf ind_j se : wf_entry se = true -> no_lf (utf8_encode (vtext (indent_text ind_j) se)) = true.
Proof. intros We. apply no_lf_encode. exact (entry_line_text_ok ind_j se We). Qed.

Lemma wf_entry_parts se : wf_entry se = true ->
  wf_value (se_value se) = true /\ match se_first se with Some t => text_ok t = true | None => True end /\
  forallb (fun t => text_ok t && negb (all_blank t)) (se_more se) = true.
Proof.
  unfold wf_entry. intros H. apply andb_true_iff in H as [H Hm]. apply andb_true_iff in H as [Hv Hf].
  split; [exact Hv|]. split; [destruct (se_first se); [exact Hf|exact I]|exact Hm].
Qed.

Lemma wf_entry_make v first more : wf_value v = true -> match first with Some t => text_ok t = true | None => True end ->
  forallb (fun t => text_ok t && negb (all_blank t)) more = true ->
  wf_entry {| se_value := v; se_first := first; se_more := more |} = true.
Proof. intros Hv Hf Hm. unfold wf_entry. cbn [se_value se_first se_more]. rewrite Hv, Hm. destruct first; [rewrite Hf|]; reflexivity. Qed.

Lemma all_blank_app a b : all_blank (a ++ b) = all_blank a && all_blank b.
Proof. unfold all_blank. apply forallb_app. Qed.

Lemma tail_for_ok a0r : text_ok a0r = true -> text_ok (tail_for a0r) = true.
Proof. destruct a0r; [reflexivity|]. intros H. cbn [tail_for]. change (32%N :: n :: a0r) with ([32%N] ++ n :: a0r). rewrite text_ok_app, H. reflexivity. Qed.

Lemma removelast_last {A} (l : list A) d : l <> [] -> l = removelast l ++ [last l d].
Proof. intros H. apply app_removelast_last. exact H. Qed.

(* ---------------------------------------------------------------- CloseOpenRange on a conforming file *)

Record closes_at (rc : reconciler) (L lead : list line) (gs : list group) (recs : srecs) (k : nat) (g : group)
  (rg : s_record * list text) (es1 : list s_entry) (se : s_entry) (es2 : list s_entry) (GP : list line) (vl : line)
  (GM GQ : list line) (a : s_time) (sp1 sp2 extra : nat) : Prop := {
  ca_entry : entry_at L lead gs recs k g rg es1 se es2 GP vl GM GQ;
  ca_lines : rc_lines rc = L;
  ca_last : rc_last rc = Z.of_nat (length (before_group lead gs k ++ fst g));
  ca_record : rec_entries (rc_record rc) = map denote_entry (sr_entries (fst rg));
  ca_eol : eol_ok (sp_val (st_eol (rc_style rc)));
  ca_indent : sp_val (st_indent (rc_style rc)) = indent_text (sr_indent (fst rg));
  ca_open : se_value se = SOpen a sp1 sp2 extra;
  ca_no1 : count_open es1 = O;
  ca_no2 : count_open es2 = O }.

Definition closed_entries (es1 : list s_entry) (se : s_entry) (es2 : list s_entry) (a : s_time) (end_ : time) : list entry :=
  map denote_entry es1 ++
  {| e_value := VRange {| r_start := denote_time a; r_end := end_; r_spaces := true |}; e_summary := e_summary (denote_entry se) |}
  :: map denote_entry es2.

Lemma close_prelude rc L lead gs recs k g rg es1 se es2 GP vl GM GQ a sp1 sp2 extra end_ fmt add :
  closes_at rc L lead gs recs k g rg es1 se es2 GP vl GM GQ a sp1 sp2 extra ->
  wf_time a = true -> valid_time end_ -> time_offset (denote_time a) <= time_offset end_ ->
  let b := canon_time (reformat_time end_ fmt (time_format_of (rc_style rc))) in
  let ind := indent_text (sr_indent (fst rg)) in
  let se1 := {| se_value := SRange a sp1 sp2 b; se_first := se_first se; se_more := se_more se |} in
  let X := before_group lead gs k ++ GP in
  let Y := GM ++ GQ ++ snd g ++ flat_map group_lines (skipn (S k) gs) in
  let vl1 := {| l_text := utf8_encode (vtext ind se1); l_ending := l_ending vl |} in
  let rc1 := with_lines (with_record rc (set_entries (rc_record rc) (closed_entries es1 se es2 a end_))) (X ++ vl1 :: Y) in
  wf_time b = true /\ denote_time b = reformat_time end_ fmt (time_format_of (rc_style rc)) /\ timeline a <= timeline b /\
  close_open_range rc end_ fmt add = concatenate_summary rc1 (Z.of_nat (length es1)) (Z.of_nat (length X)) add.
Proof.
  intros [EA Hl Hlast Hrec Heol Hind Hopen N1 N2] Wa Hv Hoff b ind se1 X Y vl1 rc1.
  pose proof EA as [C Hs Hg Hrg E Esig MP Mv MM MQ]. fold ind in MP, Mv, MM, MQ.
  set (end' := reformat_time end_ fmt (time_format_of (rc_style rc))).
  assert (Hv' : valid_time end') by (unfold end', reformat_time; destruct (apply_reformat _ _); [apply set_time_format_valid|]; exact Hv).
  pose proof (valid_time_ok _ Hv') as Tok'.
  assert (Wb : wf_time b = true) by exact (wf_canon_time _ Tok').
  assert (Db : denote_time b = end') by exact (denote_canon_time _ Tok').
  assert (Hoff' : time_offset end' = time_offset end_).
  { unfold end', reformat_time. destruct (apply_reformat _ _); [|reflexivity]. rewrite !offset_spec. reflexivity. }
  assert (Tl : timeline a <= timeline b).
  { rewrite <- (timeline_offset a Wa), <- (timeline_offset b Wb), Db, Hoff'. exact Hoff. }
  split; [exact Wb|]. split; [exact Db|]. split; [exact Tl|].
  (* the open range of the record *)
  assert (Eden : map denote_entry (sr_entries (fst rg)) = map denote_entry es1 ++ denote_entry se :: map denote_entry es2).
  { rewrite E, map_app. reflexivity. }
  assert (Hval : e_value (denote_entry se) = VOpen {| o_start := denote_time a; o_spaces := negb (Nat.eqb sp1 0); o_extra := extra |}).
  { unfold denote_entry. cbn [e_value]. rewrite Hopen. reflexivity. }
  assert (Hoi : find_open_index (rc_record rc) = Z.of_nat (length es1)).
  { unfold find_open_index. rewrite Hrec, Eden. rewrite find_last_idx_app.
    - unfold zlen. rewrite map_length. lia.
    - unfold is_open. rewrite Hval. reflexivity.
    - exact (no_open_existsb _ N2). }
  assert (Hend : end_first_open (rec_entries (rc_record rc)) end_ = Some (Some (closed_entries es1 se es2 a end_))).
  { rewrite Hrec, Eden. apply (end_first_open_split _ _ _ _ _ (no_open_existsb _ N1) Hval).
    unfold time_geb. cbn [o_start]. lia. }
  unfold close_open_range. cbv zeta. rewrite Hoi.
  replace (Z.of_nat (length es1) =? -1) with false by lia. rewrite Hend. rewrite Nat2Z.id.
  (* the value line *)
  assert (Hskip : skipn (length es1) (closed_entries es1 se es2 a end_) =
                  {| e_value := VRange {| r_start := denote_time a; r_end := end_; r_spaces := true |}; e_summary := e_summary (denote_entry se) |}
                  :: map denote_entry es2).
  { unfold closed_entries. rewrite <- (map_length denote_entry es1). apply skipn_pre. }
  rewrite Hskip, count_lines_cons, (count_lines_denote ind es2).
  assert (LM : length GM = length (se_more se)) by (rewrite <- (map_length l_text GM), MM, !map_length; reflexivity).
  assert (LQ : length GQ = length (flat_map (entry_texts ind) es2)) by (rewrite <- (map_length l_text GQ), MQ, map_length; reflexivity).
  assert (Hvl : rc_last rc - (zlen (e_summary (denote_entry se)) + Z.of_nat (length (flat_map (entry_texts ind) es2))) = Z.of_nat (length X)).
  { rewrite Hlast, Esig. unfold X, zlen, denote_entry. cbn [e_summary List.length]. rewrite !app_length, map_length. cbn [List.length].
    rewrite !app_length. pose proof (LM : length GM = @List.length (list N) (se_more se)) as LM'. clear - LM' LQ. lia. }
  cbn [e_summary]. rewrite Hvl.
  (* the placeholder *)
  assert (Etext : end_text_of rc end_ fmt = render_time b).
  { unfold end_text_of. fold (reformat_time end_ fmt (time_format_of (rc_style rc))).
    assert (Hp : match apply_reformat fmt (time_format_of (rc_style rc)) with None => print_time end_ | Some f => print_time (set_time_format end_ f) end
                 = print_time end').
    { unfold end', reformat_time. destruct (apply_reformat _ _); reflexivity. }
    rewrite Hp. exact (print_time_render _ Tok'). }
  fold (end_text_of rc end_ fmt). rewrite Etext.
  cbn [with_record rc_lines]. rewrite Hl.
  destruct (entry_at_wf _ _ _ _ _ _ _ _ _ _ _ _ _ _ EA) as [Wr We].
  destruct (wf_entry_parts se We) as (Wv & Wf & Wm).
  assert (EL : L = X ++ vl :: Y).
  { rewrite (cf_lines _ _ _ _ C), (split_at_group lead gs k g Hg), Esig. unfold X, Y. rewrite <- !app_assoc. cbn [app]. rewrite <- !app_assoc. reflexivity. }
  rewrite EL, update_line_at.
  assert (Ev : replace_placeholder (l_text vl) (render_time b) = utf8_encode (vtext ind se1)).
  { rewrite Mv. unfold vtext. cbn [se_value se1]. rewrite Hopen.
    change (first_tail se1) with (first_tail se). apply placeholder_replaced; [exact Wa|exact Wb|apply first_tail_ok]. }
  rewrite Ev. reflexivity.
Qed.

(* ---------------------------------------------------------------- concatenateSummary on a conforming file *)

Lemma before_group_set_nth lead gs k x : before_group lead (set_nth k x gs) k = before_group lead gs k.
Proof.
  unfold before_group. f_equal. f_equal. revert k. induction gs as [|y gs IH]; intros [|k]; try reflexivity.
  cbn [set_nth firstn]. rewrite IH. reflexivity.
Qed.

Lemma skipn_set_nth {A} k (x : A) l : skipn (S k) (set_nth k x l) = skipn (S k) l.
Proof. revert k. induction l as [|y l IH]; intros [|k]; try reflexivity. cbn [set_nth skipn]. apply IH. Qed.

Lemma set_nth_same {A} k (x : A) l : nth_error l k = Some x -> set_nth k x l = l.
Proof. revert k. induction l as [|y l IH]; intros [|k] H; try discriminate; cbn [set_nth]; [injection H as ->; reflexivity|]. f_equal. exact (IH k H). Qed.

Lemma set_nth_set_nth {A} k (x y : A) l : set_nth k y (set_nth k x l) = set_nth k y l.
Proof. revert k. induction l as [|z l IH]; intros [|k]; try reflexivity. cbn [set_nth]. f_equal. apply IH. Qed.

Lemma with_entries_same r : with_entries r (sr_entries r) = r.
Proof. destruct r; reflexivity. Qed.

Definition appended (se1 : s_entry) (add_r : list text) : s_entry :=
  match add_r with
  | [] => se1
  | a0r :: mr =>
    match se_more se1 with
    | [] => {| se_value := se_value se1; se_first := join_first (se_first se1) a0r; se_more := mr |}
    | _ => {| se_value := se_value se1; se_first := se_first se1;
              se_more := (removelast (se_more se1) ++ [last (se_more se1) [] ++ tail_for a0r]) ++ mr |}
    end
  end.

(* the tail of concatenateSummary: further summary lines after the entry's last line *)
Lemma concat_more rc L lead gs recs k g rg es1 se es2 GP vl GM GQ mr :
  entry_at L lead gs recs k g rg es1 se es2 GP vl GM GQ ->
  eol_ok (sp_val (st_eol (rc_style rc))) -> sp_val (st_indent (rc_style rc)) = indent_text (sr_indent (fst rg)) ->
  forallb (fun t => text_ok t && negb (all_blank t)) mr = true -> no_cr_lines (map utf8_encode mr) ->
  let se' := {| se_value := se_value se; se_first := se_first se; se_more := se_more se ++ mr |} in
  let more := map utf8_encode mr in
  exists rc' g',
    match more with
    | [] => ROk (with_lines rc L)
    | _ => lift_lines rc (insert (rc_style rc) (Z.of_nat (length (before_group lead gs k ++ GP ++ vl :: GM)))
                                 (map (fun s => (s, 2%nat)) more) L)
    end = ROk rc' /\
    conforms (rc_lines rc') lead (set_nth k g' gs) (set_nth k (with_entries (fst rg) (es1 ++ se' :: es2), snd rg) recs) /\
    last_line_safe (rc_lines rc') /\ rc_style rc' = rc_style rc /\ rc_last rc' = rc_last rc /\ rc_record rc' = rc_record rc /\
    (mr = [] -> length (fst g') = length (fst g)).
Proof.
  intros EA Heol Hind Wm Hcr se' more.
  destruct (entry_at_wf _ _ _ _ _ _ _ _ _ _ _ _ _ _ EA) as [Wr We].
  destruct (wf_entry_parts se We) as (Wv & Wf & Wm0).
  destruct mr as [|m1 mr'].
  - (* nothing to insert *)
    exists (with_lines rc L), g. cbn [more map]. split; [reflexivity|]. cbn [with_lines rc_lines rc_style rc_last rc_record].
    assert (Ese : se' = se) by (unfold se'; rewrite app_nil_r; destruct se; reflexivity).
    rewrite Ese, <- (ea_entries _ _ _ _ _ _ _ _ _ _ _ _ _ _ EA), with_entries_same.
    replace (fst rg, snd rg) with rg by (destruct rg; reflexivity).
    rewrite (set_nth_same k g gs (ea_g _ _ _ _ _ _ _ _ _ _ _ _ _ _ EA)), (set_nth_same k rg recs (ea_rg _ _ _ _ _ _ _ _ _ _ _ _ _ _ EA)).
    split; [exact (ea_conf _ _ _ _ _ _ _ _ _ _ _ _ _ _ EA)|]. split; [exact (ea_safe _ _ _ _ _ _ _ _ _ _ _ _ _ _ EA)|]. repeat split.
  - set (mr := m1 :: mr') in *.
    destruct (inserted_more_lines (rc_style rc) (sr_indent (fst rg)) mr Heol Hind Wm Hcr) as (Mnew & Oknew). cbv zeta in Mnew, Oknew.
    set (new := map (mk_inserted (rc_style rc)) (map (fun s => (s, 2%nat)) (map utf8_encode mr))) in *.
    assert (We' : wf_entry se' = true).
    { apply wf_entry_make; [exact Wv|exact Wf|]. cbn [se_more se']. rewrite forallb_app, Wm0, Wm. reflexivity. }
    destruct (insert_more_lines L lead gs recs k g rg es1 se es2 GP vl GM GQ mr new (sp_val (st_eol (rc_style rc))) EA We' Heol Oknew
                ltac:(unfold new, mr; discriminate) Mnew) as (EL & C' & S').
    cbv zeta in EL, C', S'.
    exists (with_lines rc (give_ending_to_last (sp_val (st_eol (rc_style rc))) (before_group lead gs k ++ GP ++ vl :: GM) ++
                           new ++ GQ ++ snd g ++ flat_map group_lines (skipn (S k) gs))),
           (give_ending_to_last (sp_val (st_eol (rc_style rc))) (GP ++ vl :: GM) ++ new ++ GQ, snd g).
    cbn [with_lines rc_lines rc_style rc_last rc_record].
    split; [|split; [exact C'|split; [exact S'|]]].
    + unfold more, mr. cbn [map]. rewrite EL. rewrite insert_at_split. cbn [lift_lines with_lines]. reflexivity.
    + repeat split. intros N. discriminate N.
Qed.

Lemma with_entries_twice r x y : with_entries (with_entries r x) y = with_entries r y.
Proof. reflexivity. Qed.

Lemma vtext_nonempty i se : utf8_encode (vtext (indent_text i) se) <> [].
Proof. apply utf8_encode_nonempty. unfold vtext. destruct i; discriminate. Qed.

Lemma map_eq_nil_inv {A B} (f : A -> B) l : map f l = [] -> l = [].
Proof. destruct l; [reflexivity|discriminate]. Qed.

Theorem concat_conforming rc L lead gs recs k g rg es1 se es2 GP vl GM GQ e add_r :
  entry_at L lead gs recs k g rg es1 se es2 GP vl GM GQ ->
  nth_error (rec_entries (rc_record rc)) (length es1) = Some e -> zlen (e_summary e) = Z.of_nat (S (length (se_more se))) ->
  eol_ok (sp_val (st_eol (rc_style rc))) -> sp_val (st_indent (rc_style rc)) = indent_text (sr_indent (fst rg)) ->
  add_ok add_r ->
  exists rc' g',
    concatenate_summary (with_lines rc L) (Z.of_nat (length es1)) (Z.of_nat (length (before_group lead gs k ++ GP))) (map utf8_encode add_r) = ROk rc' /\
    conforms (rc_lines rc') lead (set_nth k g' gs) (set_nth k (with_entries (fst rg) (es1 ++ appended se add_r :: es2), snd rg) recs) /\
    last_line_safe (rc_lines rc') /\ rc_style rc' = rc_style rc /\ rc_last rc' = rc_last rc /\ rc_record rc' = rc_record rc /\
    (add_r = [] -> length (fst g') = length (fst g)).
Proof.
  intros EA Hnth Hz Heol Hind [Hadd Hcr].
  pose proof EA as [C Hs Hg Hrg E Esig MP Mv MM MQ].
  set (ind := indent_text (sr_indent (fst rg))) in *.
  destruct (entry_at_wf _ _ _ _ _ _ _ _ _ _ _ _ _ _ EA) as [Wr We].
  destruct (wf_entry_parts se We) as (Wv & Wf & Wm0).
  unfold concatenate_summary. cbn [with_lines rc_record rc_lines rc_style]. rewrite Nat2Z.id, Hnth.
  destruct add_r as [|a0r mr].
  - exists (with_lines rc L), g. cbn [map appended with_lines rc_lines rc_style rc_last rc_record]. split; [reflexivity|].
    rewrite <- E, with_entries_same. replace (fst rg, snd rg) with rg by (destruct rg; reflexivity).
    rewrite (set_nth_same k g gs Hg), (set_nth_same k rg recs Hrg). split; [exact C|]. split; [exact Hs|]. repeat split.
  - destruct Hadd as [Ta0 Wmr]. unfold no_cr_lines in Hcr. cbn [map forallb] in Hcr. apply andb_true_iff in Hcr as [Hcr0 Hcrm].
    cbn [map]. set (a0 := utf8_encode a0r).
    assert (LM : length GM = @List.length (list N) (se_more se)) by (rewrite <- (map_length l_text GM), MM, !map_length; reflexivity).
    set (X := before_group lead gs k ++ GP) in *.
    assert (Hlast : Z.of_nat (length X) + zlen (e_summary e) - 1 = Z.of_nat (length X + length GM)) by (rewrite Hz; change (@List.length text (se_more se)) with (@List.length (list N) (se_more se)); rewrite <- LM; lia).
    rewrite Hlast.
    assert (Happ : forall P : text, utf8_encode P ++ sep_for a0 ++ a0 = utf8_encode (P ++ tail_for a0r)).
    { intros P. rewrite utf8_encode_app. f_equal. apply sep_for_encode. exact Ta0. }
    destruct (se_more se) as [|m ms] eqn:Em.
    + (* the value line is the entry's last line *)
      assert (GM = []) by (destruct GM; [reflexivity|discriminate LM]). subst GM.
      set (se2 := {| se_value := se_value se; se_first := join_first (se_first se) a0r; se_more := [] |}).
      assert (Ev2 : l_text vl ++ sep_for a0 ++ a0 = utf8_encode (vtext ind se2)).
      { rewrite Mv, Happ. f_equal. unfold vtext. cbn [se_value se2]. unfold se2. rewrite first_tail_join.
        change (first_tail {| se_value := se_value se; se_first := se_first se; se_more := [] |}) with (first_tail se).
        rewrite <- !app_assoc. reflexivity. }
      assert (We2 : wf_entry se2 = true).
      { apply wf_entry_make; [exact Wv| |reflexivity]. unfold join_first. destruct (se_first se) as [t|].
        - rewrite text_ok_app, Wf, (tail_for_ok _ Ta0). reflexivity.
        - destruct a0r; [exact I|exact Ta0]. }
      assert (EL : L = X ++ vl :: (GQ ++ snd g ++ flat_map group_lines (skipn (S k) gs))).
      { rewrite (cf_lines _ _ _ _ C), (split_at_group lead gs k g Hg), Esig. unfold X. rewrite <- !app_assoc. reflexivity. }
      assert (Hk : text_keeps_line vl (utf8_encode (vtext ind se2))).
      { pose proof (cf_ok _ _ _ _ C) as Hok. rewrite EL in Hok. pose proof Hs as Hs'. rewrite EL in Hs'.
        destruct a0r as [|c a0r'].
        - rewrite <- Ev2. cbn [a0 utf8_encode flat_map sep_for app]. rewrite app_nil_r.
          apply (keeps_line_same_end X vl _ (l_text vl) [] [] (l_text vl) Hok Hs'); [rewrite Mv; apply vtext_nonempty|reflexivity|reflexivity|].
          rewrite Mv. apply vtext_no_lf. exact We.
        - apply keeps_line_no_cr; [apply vtext_no_lf; exact We2|apply vtext_nonempty|].
          rewrite <- Ev2, app_assoc. rewrite ends_in_cr_app by (unfold a0; apply utf8_encode_nonempty; discriminate).
          unfold no_cr in Hcr0. apply negb_true_iff in Hcr0. exact Hcr0. }
      destruct (replace_value_line L lead gs recs k g rg es1 se es2 GP vl [] GQ se2 EA (eq_sym Em) We2 (fun H => H) Hk) as (_ & EA2).
      cbv zeta in EA2. cbn [app] in EA2. fold ind in EA2. fold X in EA2.
      rewrite Nat.add_0_r.
      match goal with |- context [update_line L ?i ?f] =>
        assert (HU : update_line L i f = Ok (X ++ {| l_text := utf8_encode (vtext ind se2); l_ending := l_ending vl |}
                                                 :: GQ ++ snd g ++ flat_map group_lines (skipn (S k) gs))) end.
      { rewrite EL, update_line_at. cbv beta. rewrite <- Ev2. reflexivity. }
      rewrite HU.
      set (vl2 := {| l_text := utf8_encode (vtext ind se2); l_ending := l_ending vl |}) in *.
      set (L2 := X ++ vl2 :: GQ ++ snd g ++ flat_map group_lines (skipn (S k) gs)) in *.
      set (g2 := (GP ++ vl2 :: GQ, snd g)) in *. set (rg2 := (with_entries (fst rg) (es1 ++ se2 :: es2), snd rg)) in *.
      destruct (concat_more rc L2 lead (set_nth k g2 gs) (set_nth k rg2 recs) k g2 rg2 es1 se2 es2 GP vl2 [] GQ mr EA2 Heol Hind Wmr Hcrm)
        as (rc' & g' & Hrun & C' & S' & A1 & A2 & A3 & A4).
      exists rc', g'. cbv zeta in Hrun. rewrite before_group_set_nth in Hrun. fold X in Hrun.
      split.
      { assert (Hidx : Z.of_nat (length (before_group lead gs k ++ GP ++ [vl2])) = Z.of_nat (length X) + 1).
        { unfold X. rewrite !app_length. cbn [List.length]. clear. lia. }
        rewrite <- Hidx. exact Hrun. }
      rewrite !set_nth_set_nth in C'. cbn [fst snd rg2] in C'. rewrite with_entries_twice in C'.
      split; [|split; [exact S'|split; [exact A1|split; [exact A2|split; [exact A3|intros N; discriminate N]]]]].
      unfold appended. rewrite Em. exact C'.
    + (* the last continuation line *)
      assert (Hne : m :: ms <> []) by discriminate.
      pose proof (removelast_last (m :: ms) [] Hne) as Esplit.
      set (m0 := removelast (m :: ms)) in *. set (lt := last (m :: ms) []) in *.
      set (lt' := lt ++ tail_for a0r).
      assert (Wlt : text_ok lt && negb (all_blank lt) = true).
      { rewrite forallb_forall in Wm0. apply Wm0. rewrite Esplit. apply in_or_app. right. left. reflexivity. }
      apply andb_true_iff in Wlt as [Tlt Nlt].
      assert (We2 : wf_entry {| se_value := se_value se; se_first := se_first se; se_more := m0 ++ [lt'] |} = true).
      { apply wf_entry_make; [exact Wv|exact Wf|]. rewrite forallb_app. apply andb_true_iff. split.
        - rewrite Esplit, forallb_app in Wm0. apply andb_true_iff in Wm0 as [Wm0 _]. exact Wm0.
        - cbn [forallb]. unfold lt'. rewrite text_ok_app, Tlt, (tail_for_ok _ Ta0), all_blank_app. apply negb_true_iff in Nlt. rewrite Nlt. reflexivity. }
      assert (Em' : se_more se = m0 ++ [lt]) by (rewrite Em; exact Esplit).
      destruct (replace_last_more L lead gs recs k g rg es1 se es2 GP vl GM GQ m0 lt lt' EA Em' We2) as (GM0 & ll & EGM & Ell0 & Hstage).
      fold ind in Hstage, Ell0. subst GM.
      assert (Ev2 : l_text ll ++ sep_for a0 ++ a0 = utf8_encode (ind ++ ind ++ lt')).
      { rewrite Ell0, Happ. unfold lt'. rewrite <- !app_assoc. reflexivity. }
      set (X2 := before_group lead gs k ++ GP ++ vl :: GM0).
      assert (EL : L = X2 ++ ll :: (GQ ++ snd g ++ flat_map group_lines (skipn (S k) gs))).
      { rewrite (cf_lines _ _ _ _ C), (split_at_group lead gs k g Hg), Esig. unfold X2. rewrite <- !app_assoc. cbn [app]. rewrite <- !app_assoc. reflexivity. }
      assert (Tl' : text_ok (ind ++ ind ++ lt') = true).
      { unfold lt'. rewrite !text_ok_app, Tlt, (tail_for_ok _ Ta0). unfold ind. destruct (sr_indent (fst rg)); reflexivity. }
      assert (Hk : text_keeps_line ll (utf8_encode (ind ++ ind ++ lt'))).
      { pose proof (cf_ok _ _ _ _ C) as Hok. rewrite EL in Hok. pose proof Hs as Hs'. rewrite EL in Hs'.
        destruct a0r as [|c a0r'].
        - rewrite <- Ev2. cbn [a0 utf8_encode flat_map sep_for app]. rewrite app_nil_r.
          apply (keeps_line_same_end X2 ll _ (l_text ll) [] [] (l_text ll) Hok Hs'); [|reflexivity|reflexivity|].
          + rewrite Ell0. apply utf8_encode_nonempty. unfold ind. destruct (sr_indent (fst rg)); discriminate.
          + rewrite Ell0. apply no_lf_encode. rewrite !text_ok_app, Tlt. unfold ind. destruct (sr_indent (fst rg)); reflexivity.
        - apply keeps_line_no_cr; [apply no_lf_encode; exact Tl'| |].
          + apply utf8_encode_nonempty. unfold ind. destruct (sr_indent (fst rg)); discriminate.
          + rewrite <- Ev2, app_assoc. rewrite ends_in_cr_app by (unfold a0; apply utf8_encode_nonempty; discriminate).
            unfold no_cr in Hcr0. apply negb_true_iff in Hcr0. exact Hcr0. }
      destruct (Hstage Hk) as (_ & EA2). cbv zeta in EA2. fold X2 in EA2.
      assert (Hidx1 : Z.of_nat (length X + length (GM0 ++ [ll])) = Z.of_nat (length X2)).
      { unfold X, X2. rewrite !app_length. cbn [List.length]. rewrite ?app_length. cbn [List.length]. clear. lia. }
      rewrite Hidx1.
      match goal with |- context [update_line L ?i ?f] =>
        assert (HU : update_line L i f = Ok (X2 ++ {| l_text := utf8_encode (ind ++ ind ++ lt'); l_ending := l_ending ll |}
                                                 :: GQ ++ snd g ++ flat_map group_lines (skipn (S k) gs))) end.
      { rewrite EL, update_line_at. cbv beta. rewrite <- Ev2. reflexivity. }
      rewrite HU.
      set (ll2 := {| l_text := utf8_encode (ind ++ ind ++ lt'); l_ending := l_ending ll |}) in *.
      set (L2 := X2 ++ ll2 :: GQ ++ snd g ++ flat_map group_lines (skipn (S k) gs)) in *.
      set (se2 := {| se_value := se_value se; se_first := se_first se; se_more := m0 ++ [lt'] |}) in *.
      set (g2 := (GP ++ vl :: (GM0 ++ [ll2]) ++ GQ, snd g)) in *. set (rg2 := (with_entries (fst rg) (es1 ++ se2 :: es2), snd rg)) in *.
      destruct (concat_more rc L2 lead (set_nth k g2 gs) (set_nth k rg2 recs) k g2 rg2 es1 se2 es2 GP vl (GM0 ++ [ll2]) GQ mr EA2 Heol Hind Wmr Hcrm)
        as (rc' & g' & Hrun & C' & S' & A1 & A2 & A3 & A4).
      exists rc', g'. cbv zeta in Hrun. rewrite before_group_set_nth in Hrun.
      split.
      { assert (Hidx : Z.of_nat (length (before_group lead gs k ++ GP ++ vl :: GM0 ++ [ll2])) = Z.of_nat (length X2) + 1).
        { unfold X2. rewrite !app_length. cbn [List.length]. rewrite !app_length. cbn [List.length]. clear. lia. }
        rewrite <- Hidx. exact Hrun. }
      rewrite !set_nth_set_nth in C'. cbn [fst snd rg2] in C'. rewrite with_entries_twice in C'.
      split; [|split; [exact S'|split; [exact A1|split; [exact A2|split; [exact A3|intros N; discriminate N]]]]].
      unfold appended. rewrite Em. fold m0 lt. exact C'.
Qed.

Lemma close_entry_appended se a sp1 sp2 extra b add_r : se_value se = SOpen a sp1 sp2 extra ->
  close_entry se b add_r = appended {| se_value := SRange a sp1 sp2 b; se_first := se_first se; se_more := se_more se |} add_r.
Proof. intros H. unfold close_entry, appended. rewrite H. cbn [se_value se_first se_more]. destruct add_r; reflexivity. Qed.

Theorem close_conforming rc L lead gs recs k g rg es1 se es2 GP vl GM GQ a sp1 sp2 extra end_ fmt add_r :
  closes_at rc L lead gs recs k g rg es1 se es2 GP vl GM GQ a sp1 sp2 extra ->
  valid_time end_ -> time_offset (denote_time a) <= time_offset end_ -> add_ok add_r ->
  let b := canon_time (reformat_time end_ fmt (time_format_of (rc_style rc))) in
  exists rc' g',
    close_open_range rc end_ fmt (map utf8_encode add_r) = ROk rc' /\
    conforms (rc_lines rc') lead (set_nth k g' gs) (set_nth k (with_entries (fst rg) (es1 ++ close_entry se b add_r :: es2), snd rg) recs) /\
    last_line_safe (rc_lines rc') /\ rc_style rc' = rc_style rc /\ rc_last rc' = rc_last rc /\
    rec_entries (rc_record rc') = closed_entries es1 se es2 a end_ /\
    (add_r = [] -> length (fst g') = length (fst g)) /\
    wf_time b = true /\ denote_time b = reformat_time end_ fmt (time_format_of (rc_style rc)).
Proof.
  intros CA Hv Hoff Hadd b.
  pose proof CA as [EA Hl Hlast Hrec Heol Hind Hopen N1 N2].
  destruct (entry_at_wf _ _ _ _ _ _ _ _ _ _ _ _ _ _ EA) as [Wr We].
  destruct (wf_entry_parts se We) as (Wv & Wf & Wm0).
  assert (Wa : wf_time a = true) by (rewrite Hopen in Wv; exact Wv).
  destruct (close_prelude rc L lead gs recs k g rg es1 se es2 GP vl GM GQ a sp1 sp2 extra end_ fmt (map utf8_encode add_r) CA Wa Hv Hoff)
    as (Wb & Db & Tl & Hclose).
  fold b in Wb, Db, Tl, Hclose. cbv zeta in Hclose.
  set (ind := indent_text (sr_indent (fst rg))) in *.
  set (se1 := {| se_value := SRange a sp1 sp2 b; se_first := se_first se; se_more := se_more se |}) in *.
  assert (We1 : wf_entry se1 = true).
  { apply wf_entry_make; [|exact Wf|exact Wm0]. cbn [wf_value]. rewrite Wa, Wb. cbn [andb]. apply Z.leb_le. exact Tl. }
  pose proof EA as [C Hs Hg Hrg E Esig MP Mv MM MQ]. fold ind in Mv.
  set (X := before_group lead gs k ++ GP) in *.
  set (Y := GM ++ GQ ++ snd g ++ flat_map group_lines (skipn (S k) gs)) in *.
  assert (EL : L = X ++ vl :: Y).
  { rewrite (cf_lines _ _ _ _ C), (split_at_group lead gs k g Hg), Esig. unfold X, Y. rewrite <- !app_assoc. cbn [app]. rewrite <- !app_assoc. reflexivity. }
  assert (Hk : text_keeps_line vl (utf8_encode (vtext ind se1))).
  { pose proof (cf_ok _ _ _ _ C) as Hok. rewrite EL in Hok. pose proof Hs as Hs'. rewrite EL in Hs'.
    unfold vtext. cbn [se_value se1]. change (first_tail se1) with (first_tail se).
    destruct (first_tail se) as [|c t] eqn:Et.
    - rewrite app_nil_r. apply keeps_line_no_cr.
      + apply no_lf_encode. pose proof (entry_line_text_ok (sr_indent (fst rg)) se1 We1) as T. unfold first_tail in T. cbn [se_value se_first se1] in T.
        fold (first_tail se) in T. rewrite Et, app_nil_r in T. exact T.
      + apply utf8_encode_nonempty. unfold ind. destruct (sr_indent (fst rg)); discriminate.
      + assert (As : ascii (ind ++ render_value (SRange a sp1 sp2 b)) = true).
        { rewrite ascii_app. unfold ind. rewrite (indent_ascii _). apply (render_value_text_ok (SRange a sp1 sp2 b)). cbn [wf_value]. rewrite Wa, Wb. cbn [andb]. apply Z.leb_le. exact Tl. }
        rewrite (utf8_encode_ascii _ As). cbn [render_value]. rewrite !app_assoc.
        pose proof (render_time_shape b Wb) as Sb. pose proof (time_shape_nonempty _ Sb) as Nb.
        rewrite ends_in_cr_app by exact Nb. apply ends_in_cr_none.
        assert (Wvb : wf_value (SRange b 0 0 b) = true) by (cbn [wf_value]; rewrite Wb; cbn [andb]; apply Z.leb_le; apply Z.le_refl).
        pose proof (render_value_no_cr _ Wvb) as Ncr. cbn [render_value] in Ncr. rewrite forallb_app in Ncr. apply andb_true_iff in Ncr as [Ncr _]. exact Ncr.
    - assert (HT : utf8_encode (c :: t) <> []) by (apply utf8_encode_nonempty; discriminate).
      apply (keeps_line_same_end X vl Y _ (utf8_encode (ind ++ render_value (se_value se))) (utf8_encode (ind ++ render_value (SRange a sp1 sp2 b))) (utf8_encode (c :: t)) Hok Hs' HT).
      + rewrite Mv. unfold vtext. rewrite Et, app_assoc, utf8_encode_app. reflexivity.
      + rewrite app_assoc, utf8_encode_app. reflexivity.
      + apply no_lf_encode. pose proof (entry_line_text_ok (sr_indent (fst rg)) se1 We1) as T. unfold first_tail in T. cbn [se_value se_first se1] in T.
        fold (first_tail se) in T. rewrite Et in T. exact T. }
  destruct (replace_value_line L lead gs recs k g rg es1 se es2 GP vl GM GQ se1 EA eq_refl We1 ltac:(intros H; discriminate H) Hk) as (_ & EA1).
  cbv zeta in EA1. fold ind X Y in EA1.
  set (vl1 := {| l_text := utf8_encode (vtext ind se1); l_ending := l_ending vl |}) in *.
  set (g1 := (GP ++ vl1 :: GM ++ GQ, snd g)) in *. set (rg1 := (with_entries (fst rg) (es1 ++ se1 :: es2), snd rg)) in *.
  set (rcw := with_record rc (set_entries (rc_record rc) (closed_entries es1 se es2 a end_))).
  destruct (concat_conforming rcw (X ++ vl1 :: Y) lead (set_nth k g1 gs) (set_nth k rg1 recs) k g1 rg1 es1 se1 es2 GP vl1 GM GQ
              {| e_value := VRange {| r_start := denote_time a; r_end := end_; r_spaces := true |}; e_summary := e_summary (denote_entry se) |}
              add_r EA1) as (rc' & g' & Hrun & C' & S' & A1 & A2 & A3 & A4).
  - unfold rcw. cbn [with_record rc_record set_entries rec_entries]. unfold closed_entries.
    rewrite nth_error_app2 by (rewrite map_length; lia). rewrite map_length, Nat.sub_diag. reflexivity.
  - unfold denote_entry, zlen. cbn [e_summary List.length se_more se1]. rewrite map_length. reflexivity.
  - exact Heol.
  - cbn [fst rg1 sr_indent with_entries]. exact Hind.
  - exact Hadd.
  - exists rc', g'. rewrite before_group_set_nth in Hrun. fold X in Hrun.
    split; [rewrite Hclose; exact Hrun|].
    rewrite !set_nth_set_nth in C'. cbn [fst snd rg1] in C'. rewrite with_entries_twice in C'.
    rewrite (close_entry_appended se a sp1 sp2 extra b add_r Hopen).
    split; [exact C'|]. split; [exact S'|]. split; [exact A1|]. split; [exact A2|].
    split; [rewrite A3; reflexivity|]. split; [|split; [exact Wb|exact Db]].
    intros N. rewrite (A4 N). unfold g1. cbn [fst]. rewrite Esig, !app_length. cbn [List.length]. reflexivity.
Qed.

(* ---------------------------------------------------------------- the abstract model of closing the open range *)

Fixpoint a_close_entries (es : list entry) (end' : time) (add : list bytes) : option (list entry) :=
  match es with
  | [] => None
  | e :: r =>
    match e_value e with
    | VOpen o =>
      if time_geb end' (o_start o)
      then Some ({| e_value := VRange {| r_start := o_start o; r_end := end'; r_spaces := o_spaces o |};
                    e_summary := append_summary (e_summary e) add |} :: r)
      else None
    | _ => match a_close_entries r end' add with Some r' => Some (e :: r') | None => None end
    end
  end.

Lemma map_removelast {A B} (f : A -> B) l : removelast (map f l) = map f (removelast l).
Proof. induction l as [|x l IH]; [reflexivity|]. destruct l as [|y l]; [reflexivity|]. cbn [map removelast] in *. rewrite IH. reflexivity. Qed.

Lemma last_map {A B} (f : A -> B) l d : l <> [] -> last (map f l) (f d) = f (last l d).
Proof. induction l as [|x l IH]; [contradiction|]. intros _. destruct l as [|y l]; [reflexivity|]. cbn [map last] in *. apply IH. discriminate. Qed.

(* an open range whose line ends in a blank after the value ("8:00 - ? ") reads back with an empty summary like one
   without the blank, but text appended to it would start with that blank: no model on the parsed data can tell *)
Definition no_trailing_blank (se : s_entry) : Prop := se_first se <> Some [].

Lemma denote_close_entry se a sp1 sp2 extra b add_r : se_value se = SOpen a sp1 sp2 extra ->
  no_trailing_blank se -> match add_r with [] => True | a0r :: _ => text_ok a0r = true end ->
  denote_entry (close_entry se b add_r) =
  {| e_value := VRange {| r_start := denote_time a; r_end := denote_time b; r_spaces := negb (Nat.eqb sp1 0) |};
     e_summary := append_summary (e_summary (denote_entry se)) (map utf8_encode add_r) |}.
Proof.
  intros Hopen Hnb Ha0. unfold close_entry. rewrite Hopen.
  destruct add_r as [|a0r mr].
  - unfold denote_entry. cbn [se_value se_first se_more denote_value map append_summary e_summary]. reflexivity.
  - destruct (se_more se) as [|m ms] eqn:Em.
    + unfold denote_entry. cbn [se_value se_first se_more denote_value map append_summary e_summary]. rewrite Em. cbn [map]. f_equal. f_equal.
      unfold join_first, join_bytes. destruct (se_first se) as [t|] eqn:Ef.
      * assert (Hne : utf8_encode t <> []) by (apply utf8_encode_nonempty; intros ->; apply Hnb; exact Ef).
        destruct (utf8_encode t) eqn:Et; [contradiction|]. rewrite <- Et, utf8_encode_app. f_equal. symmetry. apply sep_for_encode. exact Ha0.
      * destruct a0r; reflexivity.
    + unfold denote_entry. cbn [se_value se_first se_more denote_value e_summary]. rewrite Em. f_equal.
      set (more := m :: ms) in *. assert (Hne : more <> []) by discriminate.
      cbn [map]. change (utf8_encode m :: map utf8_encode ms) with (map utf8_encode more).
      unfold append_summary. destruct (map utf8_encode more) as [|x xs] eqn:Emap; [discriminate|].
      rewrite <- Emap. rewrite map_app. cbn [removelast].
      replace (match map utf8_encode more with [] => [] | _ :: _ => _ end)
        with ((match se_first se with Some t => utf8_encode t | None => [] end) :: removelast (map utf8_encode more))
        by (rewrite Emap; reflexivity).
      cbn [app]. f_equal. rewrite map_app. cbn [map]. rewrite map_removelast, <- !app_assoc. f_equal. cbn [app]. f_equal.
      rewrite utf8_encode_app. f_equal.
      * change (last ((match se_first se with Some t => utf8_encode t | None => [] end) :: map utf8_encode more) []) with (last (map utf8_encode more) (utf8_encode [])).
        { rewrite (last_map utf8_encode more [] Hne). reflexivity. }
      * symmetry. apply sep_for_encode. exact Ha0.
Qed.

Lemma open_split es : existsb is_open (map denote_entry es) = true -> (count_open es <= 1)%nat ->
  exists es1 se es2 a sp1 sp2 extra, es = es1 ++ se :: es2 /\ se_value se = SOpen a sp1 sp2 extra /\
    count_open es1 = O /\ count_open es2 = O.
Proof.
  induction es as [|e es IH]; intros H Hc; [discriminate|]. cbn [map existsb] in H. rewrite is_open_denote in H.
  rewrite count_open_cons in Hc. destruct (is_open_value (se_value e)) eqn:E.
  - destruct (se_value e) as [| |a sp1 sp2 extra] eqn:Ev; try discriminate.
    exists [], e, es, a, sp1, sp2, extra. split; [reflexivity|]. split; [exact Ev|]. split; [reflexivity|lia].
  - cbn [orb] in H. destruct (IH H ltac:(lia)) as (es1 & se & es2 & a & sp1 & sp2 & extra & -> & Hv & N1 & N2).
    exists (e :: es1), se, es2, a, sp1, sp2, extra. split; [reflexivity|]. split; [exact Hv|]. split; [|exact N2].
    rewrite count_open_cons, E, N1. reflexivity.
Qed.

Lemma a_close_entries_split es1 e es2 o end' add : existsb is_open es1 = false -> e_value e = VOpen o ->
  a_close_entries (es1 ++ e :: es2) end' add =
  if time_geb end' (o_start o)
  then Some (es1 ++ {| e_value := VRange {| r_start := o_start o; r_end := end'; r_spaces := o_spaces o |};
                        e_summary := append_summary (e_summary e) add |} :: es2)
  else None.
Proof.
  intros H1 He. induction es1 as [|x es1 IH].
  - cbn [app a_close_entries]. rewrite He. reflexivity.
  - cbn [existsb] in H1. apply orb_false_iff in H1 as [Hx H1]. cbn [app a_close_entries].
    unfold is_open in Hx. destruct (e_value x) eqn:Ex; try discriminate; rewrite (IH H1); destruct (time_geb end' (o_start o)); reflexivity.
Qed.

(* ---------------------------------------------------------------- closing the open range of the record of group i *)

Definition a_close_in (i : nat) (t' : time) (fmt : reformat bool) (add : list bytes) (rs : list record) : option (list record) :=
  match nth_error rs i with
  | Some r =>
    let end' := reformat_time t' fmt (a_elect Bool.eqb f24 (fst (fst (entry_style3 r))) rs) in
    match a_close_entries (rec_entries r) end' add with
    | Some es' => Some (set_nth i (set_entries r es') rs)
    | None => None
    end
  | None => None
  end.

Definition open_entry_ok (r : s_record) : Prop :=
  forall se, In se (sr_entries r) -> is_open_value (se_value se) = true -> no_trailing_blank se.

Theorem close_at_record_state file lead gs recs dd i rg t' fmt add_r rs' :
  conforms (lines_of file) lead gs recs -> last_line_safe (lines_of file) ->
  find_record_idx dd (denote_recs recs) 0 = Some i -> nth_error recs i = Some rg ->
  valid_time t' -> add_ok add_r -> open_entry_ok (fst rg) ->
  a_close_in i t' fmt (map utf8_encode add_r) (denote_recs recs) = Some rs' ->
  exists rc rc' g g' r1,
    reconciler_at_record dd (denote_recs recs) (expect_blocks 0 lead gs) = Some rc /\
    nth_error gs i = Some g /\ at_record_facts (lines_of file) lead gs recs i rg g rc /\
    close_open_range rc t' fmt (map utf8_encode add_r) = ROk rc' /\
    conforms (rc_lines rc') lead (set_nth i g' gs) (set_nth i (r1, snd rg) recs) /\ last_line_safe (rc_lines rc') /\
    denote_recs (set_nth i (r1, snd rg) recs) = rs' /\
    rc_style rc' = rc_style rc /\ rc_last rc' = rc_last rc /\
    sr_indent r1 = sr_indent (fst rg) /\ sr_entries r1 <> [] /\ sr_entries (fst rg) <> [] /\
    (add_r = [] -> length (fst g') = length (fst g) /\ count_open (sr_entries r1) = O /\
                   existsb is_open (rec_entries (rc_record rc')) = false /\
                   map e_summary (rec_entries (rc_record rc')) = map e_summary (rec_entries (denote_record r1)) /\
                   map e_summary (rec_entries (denote_record r1)) = map e_summary (rec_entries (denote_record (fst rg)))).
Proof.
  intros C Hsafe Hf Hrg Hv Hadd Hnb Ha.
  set (rs := denote_recs recs) in *.
  destruct (Forall2_nth_r _ _ _ _ _ (cf_groups _ _ _ _ C) Hrg) as (g & Hg & _).
  destruct (at_record_conforming _ lead gs recs dd i rg g C Hf Hrg Hg) as (rc & Hrc & F).
  assert (Wr : wf_record (fst rg) = true).
  { pose proof (cf_wf _ _ _ _ C) as W. rewrite forallb_forall in W. exact (W rg (nth_error_In _ _ Hrg)). }
  destruct (wf_record_inv _ Wr) as (_ & _ & _ & _ & Wes & Hcount).
  unfold a_close_in in Ha. unfold rs in Ha at 1. rewrite (nth_error_denote_recs _ _ _ Hrg) in Ha. cbv zeta in Ha. fold rs in Ha.
  set (r := denote_record (fst rg)) in *.
  set (end' := reformat_time t' fmt (a_elect Bool.eqb f24 (fst (fst (entry_style3 r))) rs)) in *.
  destruct (a_close_entries (rec_entries r) end' (map utf8_encode add_r)) as [es'|] eqn:Ecl; [|discriminate]. injection Ha as <-.
  (* the record has an open range *)
  assert (Hex : existsb is_open (map denote_entry (sr_entries (fst rg))) = true).
  { destruct (existsb is_open (map denote_entry (sr_entries (fst rg)))) eqn:Ex; [reflexivity|].
    exfalso. clear - Ecl Ex. unfold r, denote_record in Ecl. cbn [rec_entries] in Ecl.
    induction (map denote_entry (sr_entries (fst rg))) as [|e es IH] in es', Ecl, Ex |- *; [discriminate|].
    cbn [existsb] in Ex. apply orb_false_iff in Ex as [E1 E2]. cbn [a_close_entries] in Ecl. unfold is_open in E1.
    destruct (e_value e); try discriminate; destruct (a_close_entries es end' (map utf8_encode add_r)) eqn:E; try discriminate; exact (IH _ eq_refl E2). }
  destruct (open_split _ Hex Hcount) as (es1 & se & es2 & a & sp1 & sp2 & extra & E & Hopen & N1 & N2).
  destruct (entry_at_intro _ lead gs recs i g rg es1 se es2 C Hsafe Hg Hrg E) as (GP & vl & GM & GQ & EA).
  destruct (arf_indent _ _ _ _ _ _ _ _ F) as (j & Hj & Hown).
  assert (Hne : sr_entries (fst rg) <> []) by (rewrite E; destruct es1; discriminate).
  rewrite (Hown Hne) in Hj.
  assert (CA : closes_at rc (lines_of file) lead gs recs i g rg es1 se es2 GP vl GM GQ a sp1 sp2 extra).
  { constructor; try assumption.
    - exact (arf_lines _ _ _ _ _ _ _ _ F).
    - exact (arf_last _ _ _ _ _ _ _ _ F).
    - rewrite (arf_record _ _ _ _ _ _ _ _ F). reflexivity.
    - exact (arf_eol _ _ _ _ _ _ _ _ F). }
  (* the abstract close *)
  assert (Hval : e_value (denote_entry se) = VOpen {| o_start := denote_time a; o_spaces := negb (Nat.eqb sp1 0); o_extra := extra |}).
  { unfold denote_entry. cbn [e_value]. rewrite Hopen. reflexivity. }
  unfold r, denote_record in Ecl. cbn [rec_entries] in Ecl. rewrite E, map_app in Ecl. cbn [map] in Ecl.
  rewrite (a_close_entries_split _ _ _ _ _ _ (no_open_existsb _ N1) Hval) in Ecl. cbn [o_start o_spaces] in Ecl.
  destruct (time_geb end' (denote_time a)) eqn:Egeb; [|discriminate]. injection Ecl as <-.
  (* the style *)
  destruct (arf_style _ _ _ _ _ _ _ _ F) as (b0 & _ & Hst).
  assert (Hlen : length rs = length (expect_blocks 0 lead gs)).
  { rewrite expect_blocks_length. unfold rs, denote_recs. rewrite map_length. symmetry. exact (Forall2_len _ _ _ (cf_groups _ _ _ _ C)). }
  destruct (elect_values_abstract (determine r b0) rs _ Hlen) as (E24 & _ & _).
  destruct (determine_entry_style r b0) as (D24 & _ & _). rewrite D24 in E24.
  assert (Eend : reformat_time t' fmt (time_format_of (rc_style rc)) = end').
  { unfold end', time_format_of. rewrite Hst. fold rs r. rewrite E24. reflexivity. }
  assert (Hoffs : time_offset end' = time_offset t').
  { unfold end', reformat_time. destruct (apply_reformat _ _); [|reflexivity]. rewrite !offset_spec. reflexivity. }
  assert (Hoff : time_offset (denote_time a) <= time_offset t').
  { unfold time_geb in Egeb. rewrite <- Hoffs. lia. }
  destruct (close_conforming rc _ lead gs recs i g rg es1 se es2 GP vl GM GQ a sp1 sp2 extra t' fmt add_r CA Hv Hoff Hadd)
    as (rc' & g' & Hclose & C' & S' & A1 & A2 & A3 & A4 & Wb & Db).
  rewrite Eend in Db, C'.
  exists rc, rc', g, g', (with_entries (fst rg) (es1 ++ close_entry se (canon_time end') add_r :: es2)).
  split; [exact Hrc|]. split; [exact Hg|]. split; [exact F|]. split; [exact Hclose|]. split; [exact C'|]. split; [exact S'|].
  split; [|split; [exact A1|split; [exact A2|split; [reflexivity|split; [cbn [with_entries sr_entries]; destruct es1; discriminate|split; [exact Hne|]]]]]].
  - rewrite denote_recs_set_nth, denote_with_entries. fold r. f_equal. f_equal. rewrite map_app. cbn [map]. f_equal. f_equal.
    assert (Hin : In se (sr_entries (fst rg))) by (rewrite E; apply in_or_app; right; left; reflexivity).
    rewrite (denote_close_entry se a sp1 sp2 extra _ add_r Hopen (Hnb se Hin ltac:(rewrite Hopen; reflexivity))).
    + rewrite Db. reflexivity.
    + destruct Hadd as [Hadd _]. destruct add_r; [exact I|exact (proj1 Hadd)].
  - intros ->. split; [exact (A4 eq_refl)|]. cbn [with_entries sr_entries close_entry]. unfold close_entry. rewrite Hopen.
    split; [rewrite count_open_app, count_open_cons, N1, N2; reflexivity|].
    rewrite A3. unfold closed_entries. split.
    + rewrite existsb_app. cbn [existsb]. rewrite (no_open_existsb _ N1), (no_open_existsb _ N2). reflexivity.
    + split.
      * unfold denote_record. cbn [rec_entries with_entries sr_entries]. rewrite (map_app denote_entry), !(map_app e_summary). cbn [map]. reflexivity.
      * unfold r, denote_record. cbn [rec_entries with_entries sr_entries]. rewrite E, !(map_app denote_entry), !(map_app e_summary). cbn [map]. reflexivity.
Qed.

Theorem close_at_record file lead gs recs dd i rg t' fmt add_r rs' :
  conforms (lines_of file) lead gs recs -> last_line_safe (lines_of file) ->
  find_record_idx dd (denote_recs recs) 0 = Some i -> nth_error recs i = Some rg ->
  valid_time t' -> add_ok add_r -> open_entry_ok (fst rg) ->
  a_close_in i t' fmt (map utf8_encode add_r) (denote_recs recs) = Some rs' ->
  exists rc file' recs',
    reconciler_at_record dd (denote_recs recs) (expect_blocks 0 lead gs) = Some rc /\
    finish (lift_r (close_open_range rc t' fmt (map utf8_encode add_r))) = COk file' /\
    spec_state file' recs' /\ denote_recs recs' = rs' /\
    exists bs', parse_text file' = Ok (Parsed (denote_recs recs') bs').
Proof.
  intros C Hsafe Hf Hrg Hv Hadd Hnb Ha.
  destruct (close_at_record_state file lead gs recs dd i rg t' fmt add_r rs' C Hsafe Hf Hrg Hv Hadd Hnb Ha)
    as (rc & rc' & g & g' & r1 & Hrc & _ & _ & Hclose & C' & S' & Hden & _).
  pose proof (conforms_parse _ _ _ _ C') as P'.
  exists rc, (text_of_lines (rc_lines rc')), (set_nth i (r1, snd rg) recs).
  split; [exact Hrc|]. split; [|split; [exact (spec_state_of_conforms _ _ _ _ C' S')|split; [exact Hden|eexists; exact P']]].
  unfold finish. rewrite Hclose. cbn [lift_r cbind]. unfold make_result. rewrite P'. reflexivity.
Qed.


(* ---------------------------------------------------------------- stop *)

Definition a_close_or_fail (i : nat) (t' : time) (fmt : reformat bool) (add : list bytes) (rs : list record) : cresult (list record) :=
  match a_close_in i t' fmt add rs with Some rs' => COk rs' | None => CErr CEManipulation end.

(* stop: close the open range of the first record dated [d]; when there is no such record and neither date nor time were
   selected, that of yesterday's record, 24 hours later *)
Definition a_stop (auto : bool) (d : date) (y : cdate) (t : time) (fmt : reformat bool) (add : list bytes) (rs : list record)
  : cresult (list record) :=
  match find_record_idx (dt d) rs 0 with
  | Some i => a_close_or_fail i t fmt add rs
  | None =>
    if auto then
      match find_record_idx y rs 0 with
      | Some i => let+ t' := stop_time (time_plus t 1440) in a_close_or_fail i t' fmt add rs
      | None => CErr CENoSuchRecord
      end
    else CErr CENoSuchRecord
  end.

Lemma stop_time_valid t t' : valid_time t -> stop_time (time_plus t 1440) = COk t' -> valid_time t'.
Proof.
  intros Hv H. destruct (stop_time_spec t Hv) as (A & B & _).
  destruct (Z_lt_le_dec (time_offset t) 1440) as [Hlt|Hge].
  - destruct (A Hlt) as (t'' & E & Hv'' & _). rewrite E in H. injection H as <-. exact Hv''.
  - rewrite (B Hge) in H. discriminate.
Qed.

Theorem stop_refines now cfg a summary add_r file recs d t y rs' :
  spec_state file recs -> at_date now (a_date a) = Ok d -> at_time now cfg a = COk t -> valid_time t ->
  plus_days (dt d) (-1) = Ok y -> valid_cdate (dt d) = true ->
  match summary with Some s => s | None => [] end = map utf8_encode add_r -> add_ok add_r ->
  (forall rg, In rg recs -> open_entry_ok (fst rg)) ->
  a_stop (was_automatic a) d y t (time_format cfg a) (map utf8_encode add_r) (denote_recs recs) = COk rs' ->
  exists file' recs',
    exec_simple now cfg (Stop a summary) file = COk file' /\
    spec_state file' recs' /\ denote_recs recs' = rs' /\
    exists bs', parse_text file' = Ok (Parsed (denote_recs recs') bs').
Proof.
  intros (lead & gs & C & Hsafe) Hd Ht Hvt Hy Hvd Hsum Hadd Hnb Ha. unfold spec_file in C.
  rewrite (stop_unfold now cfg a summary file d t y _ _ Hd Ht Hy Hvd (spec_file_parse file lead gs recs C)). cbv zeta. rewrite Hsum.
  unfold a_stop, a_close_or_fail in Ha.
  destruct (find_record_idx (dt d) (denote_recs recs) 0) as [i|] eqn:Hf.
  - destruct (a_close_in i t (time_format cfg a) (map utf8_encode add_r) (denote_recs recs)) as [rs1|] eqn:Hc; [|discriminate]. injection Ha as <-.
    destruct (find_record_idx_nth _ _ _ _ Hf) as (k & r & -> & Hn & _). cbn [Nat.add] in *.
    unfold denote_recs in Hn. rewrite nth_error_map in Hn. destruct (nth_error recs k) as [rg|] eqn:Hrg; [|discriminate].
    destruct (close_at_record file lead gs recs (dt d) k rg t (time_format cfg a) add_r rs1 C Hsafe Hf Hrg Hvt Hadd (Hnb rg (nth_error_In _ _ Hrg)) Hc)
      as (rc & file' & recs' & Hrc & Hfin & S' & Hden & P').
    rewrite Hrc. exists file', recs'. auto.
  - rewrite (find_record_idx_none_at _ _ _ Hf).
    destruct (was_automatic a); [|discriminate].
    destruct (find_record_idx y (denote_recs recs) 0) as [i|] eqn:Hfy; [|discriminate].
    apply cbind_ok in Ha as (t' & Ht' & Ha).
    destruct (a_close_in i t' (time_format cfg a) (map utf8_encode add_r) (denote_recs recs)) as [rs1|] eqn:Hc; [|discriminate]. injection Ha as <-.
    destruct (find_record_idx_nth _ _ _ _ Hfy) as (k & r & -> & Hn & _). cbn [Nat.add] in *.
    unfold denote_recs in Hn. rewrite nth_error_map in Hn. destruct (nth_error recs k) as [rg|] eqn:Hrg; [|discriminate].
    destruct (close_at_record file lead gs recs y k rg t' (time_format cfg a) add_r rs1 C Hsafe Hfy Hrg (stop_time_valid _ _ Hvt Ht') Hadd (Hnb rg (nth_error_In _ _ Hrg)) Hc)
      as (rc & file' & recs' & Hrc & Hfin & S' & Hden & P').
    rewrite Hrc, Ht'. cbn [cbind]. exists file', recs'. auto.
Qed.

(* ---------------------------------------------------------------- switch = stop, then start in the same record *)

Lemma find_nth_entry_ext r1 r2 n : map e_summary (rec_entries r1) = map e_summary (rec_entries r2) ->
  option_map e_summary (find_nth_entry r1 n) = option_map e_summary (find_nth_entry r2 n).
Proof.
  intros H. unfold find_nth_entry.
  assert (Hl : zlen (rec_entries r1) = zlen (rec_entries r2)).
  { unfold zlen. rewrite <- (map_length e_summary (rec_entries r1)), H, map_length. reflexivity. }
  rewrite Hl. set (i := if 0 <? n then n - 1 else zlen (rec_entries r2) + n).
  destruct ((i <? 0) || (zlen (rec_entries r2) - 1 <? i)); [reflexivity|].
  rewrite <- !nth_error_map, H. reflexivity.
Qed.

Lemma resolve_summary_ext s r1 r2 p : map e_summary (rec_entries r1) = map e_summary (rec_entries r2) ->
  resolve_summary s r1 p = resolve_summary s r2 p.
Proof.
  intros H. unfold resolve_summary.
  pose proof (find_nth_entry_ext r1 r2 (-1) H) as H1. pose proof (find_nth_entry_ext r1 r2 (s_nth s) H) as H2.
  destruct (s_text s); [reflexivity|].
  destruct (s_resume s && negb (s_nth s =? 0)); [reflexivity|].
  destruct (s_resume s).
  - destruct (find_nth_entry r1 (-1)), (find_nth_entry r2 (-1)); cbn [option_map] in H1; try discriminate; [injection H1 as ->|]; reflexivity.
  - destruct (negb (s_nth s =? 0)); [|reflexivity].
    destruct (find_nth_entry r1 (s_nth s)), (find_nth_entry r2 (s_nth s)); cbn [option_map] in H2; try discriminate; [injection H2 as ->|]; reflexivity.
Qed.

Definition a_switch (d : date) (t : time) (fmt : reformat bool) (s : sum_args) (rs : list record) : cresult (list record) :=
  match find_record_idx (dt d) rs 0 with
  | Some i =>
    match nth_error rs i, a_close_in i t fmt [] rs with
    | Some r, Some rs1 =>
      match nth_error rs1 i with
      | Some r1 =>
        let+ summary := resolve_summary s r1 None in
        COk (set_nth i (add_entry {| e_value := VOpen (a_open_range t fmt (entry_style3 r) rs); e_summary := summary_or_empty summary |} r1) rs1)
      | None => CCrash
      end
    | _, _ => CErr CEManipulation
    end
  | None => CErr CENoSuchRecord
  end.

Theorem switch_refines now cfg a s file recs d t rs' :
  spec_state file recs -> at_date now (a_date a) = Ok d -> at_time now cfg a = COk t -> valid_time t ->
  (forall rg, In rg recs -> open_entry_ok (fst rg)) ->
  summaries_ok s (denote_recs recs) ->
  a_switch d t (time_format cfg a) s (denote_recs recs) = COk rs' ->
  exists file' recs',
    exec_simple now cfg (Switch a s) file = COk file' /\
    spec_state file' recs' /\ denote_recs recs' = rs' /\
    exists bs', parse_text file' = Ok (Parsed (denote_recs recs') bs').
Proof.
  intros (lead & gs & C & Hsafe) Hd Ht Hvt Hnb Hsum Ha. unfold spec_file in C.
  unfold a_switch in Ha. set (rs := denote_recs recs) in *. set (fmt := time_format cfg a) in *.
  destruct (find_record_idx (dt d) rs 0) as [i|] eqn:Hf; [|discriminate].
  destruct (find_record_idx_nth _ _ _ _ Hf) as (k & r & -> & Hn & _). cbn [Nat.add] in *. rewrite Hn in Ha.
  pose proof Hn as Hn'. unfold rs, denote_recs in Hn'. rewrite nth_error_map in Hn'. destruct (nth_error recs k) as [rg|] eqn:Hrg; [|discriminate].
  injection Hn' as <-.
  destruct (a_close_in k t fmt [] rs) as [rs1|] eqn:Hc; [|discriminate].
  destruct (close_at_record_state file lead gs recs (dt d) k rg t fmt [] rs1 C Hsafe Hf Hrg Hvt ltac:(split; [exact I|reflexivity]) (Hnb rg (nth_error_In _ _ Hrg)) Hc)
    as (rc & rc' & g & g' & r1 & Hrc & Hg & F & Hclose & C' & S' & Hden & Hst' & Hlast' & Hind1 & Hne1 & Hne & Hadd0).
  destruct (Hadd0 eq_refl) as (Hlen & Hcount & Hnoopen & Hsums & Hsums0). cbn [map] in Hclose.
  assert (Hk : (k < length recs)%nat) by (apply nth_error_Some; congruence).
  assert (Hkg : (k < length gs)%nat) by (apply nth_error_Some; congruence).
  assert (Hn1 : nth_error rs1 k = Some (denote_record r1)).
  { rewrite <- Hden, denote_recs_set_nth, nth_error_set_nth by (unfold denote_recs; rewrite map_length; exact Hk). rewrite Nat.eqb_refl. reflexivity. }
  rewrite Hn1 in Ha. apply cbind_ok in Ha as (summary & Hres & Ha). injection Ha as <-.
  (* the reconciler after the stop half points at the end of the same record *)
  destruct (arf_indent _ _ _ _ _ _ _ _ F) as (j & Hj & Hown). rewrite (Hown Hne) in Hj.
  assert (P : points_at rc' (rc_lines rc') lead (set_nth k g' gs) (set_nth k (r1, snd rg) recs) k (r1, snd rg) g' (sr_indent (fst rg))).
  { constructor.
    - exact C'.
    - exact S'.
    - rewrite nth_error_set_nth by exact Hkg. rewrite Nat.eqb_refl. reflexivity.
    - rewrite nth_error_set_nth by exact Hk. rewrite Nat.eqb_refl. reflexivity.
    - reflexivity.
    - rewrite Hlast', (arf_last _ _ _ _ _ _ _ _ F), before_group_set_nth, !app_length, Hlen. reflexivity.
    - rewrite Hst'. exact (arf_eol _ _ _ _ _ _ _ _ F).
    - rewrite Hst'. exact Hj.
    - intros _. cbn [fst]. symmetry. exact Hind1. }
  (* the open range *)
  destruct (arf_style _ _ _ _ _ _ _ _ F) as (b0 & _ & Hst).
  assert (Hlenr : length rs = length (expect_blocks 0 lead gs)).
  { rewrite expect_blocks_length. unfold rs, denote_recs. rewrite map_length. symmetry. exact (Forall2_len _ _ _ (cf_groups _ _ _ _ C)). }
  destruct (elect_values_abstract (determine (denote_record (fst rg)) b0) rs _ Hlenr) as (E24 & Esp & Eex).
  destruct (determine_entry_style (denote_record (fst rg)) b0) as (D24 & Dsp & Dex). rewrite D24 in E24. rewrite Dsp in Esp. rewrite Dex in Eex.
  set (o := a_open_range t fmt (entry_style3 (denote_record (fst rg))) rs).
  assert (Hto : time_ok (o_start o) = true).
  { apply valid_time_ok. unfold o, a_open_range, reformat_time. cbn [o_start]. destruct (apply_reformat _ _); [apply set_time_format_valid|]; exact Hvt. }
  assert (Hsok : summary_ok summary).
  { rewrite (resolve_summary_ext s (denote_record r1) (denote_record (fst rg)) None Hsums0) in Hres.
    apply (Hsum _ _ _ Hres); [right; exact (nth_error_In _ _ Hn)|exact I]. }
  destruct (open_entry_se o summary Hto Hsok) as (se & We & Hcr & Hdense & Hmul).
  destruct (insert_entry_conforming _ _ _ _ _ _ _ _ _ se P We Hcr) as (L'' & g'' & HI & C'' & S'').
  { cbn [fst]. rewrite count_open_app, Hcount. unfold count_open. cbn [filter]. destruct (is_open_value (se_value se)); cbn; lia. }
  pose proof (conforms_parse _ _ _ _ C'') as P''.
  exists (text_of_lines L''), (set_nth k (s_add_entry (sr_indent (fst rg)) se (fst (r1, snd rg)), snd (r1, snd rg)) (set_nth k (r1, snd rg) recs)).
  split; [|split; [exact (spec_state_of_conforms _ _ _ _ C'' S'')|split; [|eexists; exact P'']]].
  - unfold exec_simple. rewrite Hd. cbn [of_outcome cbind]. rewrite Ht. cbn [cbind].
    rewrite reconcile_file_unfold, (spec_file_parse file lead gs recs C). cbn [cbind].
    unfold first_creator, at_record. rewrite Hrc. cbn [flat_map app cbind run_steps fold_left].
    fold fmt. rewrite Hclose. cbn [lift_r cbind].
    rewrite (resolve_summary_ext s (rc_record rc') (denote_record r1) None Hsums), Hres. cbn [cbind].
    rewrite start_open_range_eq; [|apply find_open_index_none; exact Hnoopen|exact Hvt].
    replace (to_multiline _ summary) with (entry_itexts se).
    2: { rewrite <- Hmul. unfold o, a_open_range, time_format_of. rewrite Hst', Hst. fold rs. rewrite E24, Esp, Eex. reflexivity. }
    rewrite HI. cbn [lift_lines lift_r cbind]. unfold make_result. cbn [with_lines rc_lines]. rewrite P''. reflexivity.
  - cbn [fst snd]. rewrite set_nth_set_nth, denote_recs_set_nth, denote_s_add_entry, Hdense.
    rewrite <- Hden, denote_recs_set_nth, set_nth_set_nth. reflexivity.
Qed.
