(* Period: klog/service/period/{period,day,week,month,quarter,year}.go. Definitions only.
   A Week/Month/Quarter/Year value of the Go code is the date it was built from (a [cdate]).
   Every loop of the Go code is a fuel-bounded recursion here (the bound is never reached on valid
   dates: Proofs/Period.v); every Go panic is a [Crash]. *)
From Klog Require Import Base.Prelude Model.Calendar.
Open Scope Z_scope.

Definition mk_date (y m d : Z) : cdate := {| c_year := y; c_month := m; c_day := d |}.

(* klog.NewDate: civil.Date.IsValid and the 0000..9999 restriction of civil2Date *)
Definition new_date (y m d : Z) : option cdate :=
  if valid_ymd y m d then Some (mk_date y m d) else None.

Definition period := (cdate * cdate)%type.   (* NewPeriod(since, until) *)

Inductive kind := KWeek | KMonth | KQuarter | KYear.

(* ---------------- bitMask ---------------- *)

Record bitmask := { bm_value : Z; bm_consumed : Z }.
Definition bm_new : bitmask := {| bm_value := 0; bm_consumed := 0 |}.

Definition two32 : Z := 4294967296.
(* uint32(x) for a Go int x *)
Definition to_uint32 (x : Z) : Z := x mod two32.

(* uint(math.Ceil(math.Log2(float64(maxValue)))) + 1 *)
Definition max_bits (max_value : Z) : Z := Z.log2_up max_value + 1.

(* bitMask.populate: value<<bitsConsumed is a uint32 shift (bits beyond 32 are dropped); panics
   once more than 32 bits are consumed *)
Definition bm_populate (b : bitmask) (value max_value : Z) : outcome bitmask :=
  let v := Z.lor (bm_value b) ((Z.shiftl (to_uint32 value) (bm_consumed b)) mod two32) in
  let c := bm_consumed b + max_bits max_value in
  if 32 <? c then Crash CExplicitPanic else Ok {| bm_value := v; bm_consumed := c |}.

Definition bm_result (b : outcome bitmask) : outcome Z :=
  let* m := b in Ok (bm_value m).

(* ---------------- Day ---------------- *)

Definition day_hash (c : cdate) : outcome Z :=
  bm_result (let* b := bm_populate bm_new (c_day c) 31 in
             let* b := bm_populate b (c_month c) 12 in
             bm_populate b (c_year c) 10000).

(* ---------------- Week ---------------- *)

(* for { if since.Weekday() == 1 { break }; since = since.PlusDays(-1) } *)
Fixpoint week_since (fuel : nat) (c : cdate) : outcome cdate :=
  if weekday c =? 1 then Ok c else
  match fuel with
  | O => Crash COutOfFuel
  | S k => let* p := plus_days c (-1) in week_since k p
  end.

Fixpoint week_until (fuel : nat) (c : cdate) : outcome cdate :=
  if weekday c =? 7 then Ok c else
  match fuel with
  | O => Crash COutOfFuel
  | S k => let* p := plus_days c 1 in week_until k p
  end.

Definition week_period (c : cdate) : outcome period :=
  let* s := week_since 7 c in
  let* u := week_until 7 c in
  Ok (s, u).

Definition week_previous (c : cdate) : outcome cdate := plus_days c (-7).

Definition week_hash (c : cdate) : outcome Z :=
  let '(year, week) := iso_week c in
  bm_result (let* b := bm_populate bm_new week 53 in bm_populate b year 10000).

(* ---------------- Month ---------------- *)

Definition is_last_date (c : cdate) : bool :=
  (c_year c =? 9999) && (c_month c =? 12) && (c_day c =? 31).

Fixpoint month_until (fuel : nat) (u : cdate) : outcome cdate :=
  if is_last_date u then Ok u else
  match fuel with
  | O => Crash COutOfFuel
  | S k =>
    let* next := plus_days u 1 in
    if negb (c_month next =? c_month u) then Ok u else month_until k next
  end.

(* NewDate errors are ignored by Month.Period; on a nil date the next method call panics.
   Not reachable from a valid date. *)
Definition month_period (c : cdate) : outcome period :=
  match new_date (c_year c) (c_month c) 1, new_date (c_year c) (c_month c) 28 with
  | Some since, Some u28 => let* u := month_until 4 u28 in Ok (since, u)
  | _, _ => Crash CNilDeref
  end.

(* for { result = result.PlusDays(-25); if result.Month() != m.date.Month() { return } } *)
Fixpoint month_prev_loop (fuel : nat) (m0 : Z) (r : cdate) : outcome cdate :=
  match fuel with
  | O => Crash COutOfFuel
  | S k =>
    let* r' := plus_days r (-25) in
    if negb (c_month r' =? m0) then Ok r' else month_prev_loop k m0 r'
  end.

Definition month_previous (c : cdate) : outcome cdate := month_prev_loop 3 (c_month c) c.

Definition month_hash (c : cdate) : outcome Z :=
  bm_result (let* b := bm_populate bm_new (c_month c) 12 in bm_populate b (c_year c) 10000).

(* ---------------- Quarter ---------------- *)

Definition opt_period (a b : option cdate) : outcome period :=
  match a, b with
  | Some s, Some u => Ok (s, u)
  | _, _ => Crash CNilDeref
  end.

Definition quarter_period (c : cdate) : outcome period :=
  let y := c_year c in
  let q := quarter c in
  if q =? 1 then opt_period (new_date y 1 1) (new_date y 3 31)
  else if q =? 2 then opt_period (new_date y 4 1) (new_date y 6 30)
  else if q =? 3 then opt_period (new_date y 7 1) (new_date y 9 30)
  else if q =? 4 then opt_period (new_date y 10 1) (new_date y 12 31)
  else Crash CExplicitPanic.

Fixpoint quarter_prev_loop (fuel : nat) (q0 : Z) (r : cdate) : outcome cdate :=
  match fuel with
  | O => Crash COutOfFuel
  | S k =>
    let* r' := plus_days r (-80) in
    if negb (quarter r' =? q0) then Ok r' else quarter_prev_loop k q0 r'
  end.

Definition quarter_previous (c : cdate) : outcome cdate := quarter_prev_loop 3 (quarter c) c.

Definition quarter_hash (c : cdate) : outcome Z :=
  bm_result (let* b := bm_populate bm_new (quarter c) 4 in bm_populate b (c_year c) 10000).

(* ---------------- Year ---------------- *)

Definition year_period (c : cdate) : outcome period :=
  opt_period (new_date (c_year c) 1 1) (new_date (c_year c) 12 31).

Definition year_previous (c : cdate) : outcome cdate :=
  match new_date (c_year c - 1) 1 1 with
  | Some d => Ok d
  | None => Crash CExplicitPanic
  end.

Definition year_hash (c : cdate) : outcome Z :=
  bm_result (bm_populate bm_new (c_year c) 10000).

(* ---------------- by kind ---------------- *)

Definition period_of (k : kind) (c : cdate) : outcome period :=
  match k with
  | KWeek => week_period c | KMonth => month_period c
  | KQuarter => quarter_period c | KYear => year_period c
  end.

Definition previous_of (k : kind) (c : cdate) : outcome cdate :=
  match k with
  | KWeek => week_previous c | KMonth => month_previous c
  | KQuarter => quarter_previous c | KYear => year_previous c
  end.

Definition hash_of (k : kind) (c : cdate) : outcome Z :=
  match k with
  | KWeek => week_hash c | KMonth => month_hash c
  | KQuarter => quarter_hash c | KYear => year_hash c
  end.

(* X.Previous().Period() *)
Definition previous_period (k : kind) (c : cdate) : outcome period :=
  let* p := previous_of k c in period_of k p.

(* ---------------- period patterns ---------------- *)

Definition ch_dash : N := 45.  Definition ch_Q : N := 81.  Definition ch_W : N := 87.

(* the error values of the four constructors are all discarded by NewPeriodFromPatternString *)
Definition EInvalidPeriod : error := EOther 15.

(* ^\d{4}$ ; \d is ASCII-only in Go's regexp, $ is end of text *)
Definition year_from_string (s : bytes) : outcome cdate :=
  match s with
  | [a; b; c; d] =>
    if is_digit a && is_digit b && is_digit c && is_digit d then
      match new_date (digits_val [a; b; c; d]) 1 1 with
      | Some dt => Ok dt
      | None => Err EInvalidPeriod
      end
    else Err EInvalidPeriod
  | _ => Err EInvalidPeriod
  end.

(* ^\d{4}-\d{2}$ *)
Definition month_from_string (s : bytes) : outcome cdate :=
  match s with
  | [a; b; c; d; h; m1; m2] =>
    if is_digit a && is_digit b && is_digit c && is_digit d && (h =? ch_dash)%N
       && is_digit m1 && is_digit m2 then
      match new_date (digits_val [a; b; c; d]) (digits_val [m1; m2]) 1 with
      | Some dt => Ok dt
      | None => Err EInvalidPeriod
      end
    else Err EInvalidPeriod
  | _ => Err EInvalidPeriod
  end.

(* ^\d{4}-Q\d$ *)
Definition quarter_from_string (s : bytes) : outcome cdate :=
  match s with
  | [a; b; c; d; h; q; q1] =>
    if is_digit a && is_digit b && is_digit c && is_digit d && (h =? ch_dash)%N
       && (q =? ch_Q)%N && is_digit q1 then
      let qu := digits_val [q1] in
      if (qu <? 1) || (4 <? qu) then Err EInvalidPeriod else
      match new_date (digits_val [a; b; c; d]) (qu * 3) 1 with
      | Some dt => Ok dt
      | None => Err EInvalidPeriod
      end
    else Err EInvalidPeriod
  | _ => Err EInvalidPeriod
  end.

(* recover() in the closure of NewWeekFromString (fix 9e99f6b): a panic of the date arithmetic becomes the
   error INVALID_WEEK_PERIOD *)
Definition recover_week (x : outcome cdate) : outcome cdate :=
  match x with
  | Crash _ => Err EInvalidPeriod
  | o => o
  end.

(* the closure: the Monday on or before July 1st, moved to the requested week number; the Sunday of that
   week must be representable as well (ref.PlusDays(6), result discarded) *)
Definition week_reference (year week : Z) : outcome cdate :=
  match new_date year 7 1 with
  | None => Err EInvalidPeriod
  | Some ref0 =>
    let* ref := week_since 7 ref0 in
    let w := snd (iso_week ref) in
    let* ref := plus_days ref ((week - w) * 7) in
    let* _ := plus_days ref 6 in
    Ok ref
  end.

(* the body of NewWeekFromString once the regexp ^\d{4}-W\d{1,2}$ has matched *)
Definition week_from_numbers (year week : Z) : outcome cdate :=
  if week <? 1 then Err EInvalidPeriod else
  match recover_week (week_reference year week) with
  | Ok ref =>
    if negb (snd (iso_week ref) =? week) then Err EInvalidPeriod   (* "prevent implicit roll over" *)
    else Ok ref
  | Err e => Err e
  | Crash c => Crash c
  end.

Definition week_from_string (s : bytes) : outcome cdate :=
  match s with
  | [a; b; c; d; h; w; w1] =>
    if is_digit a && is_digit b && is_digit c && is_digit d && (h =? ch_dash)%N
       && (w =? ch_W)%N && is_digit w1
    then week_from_numbers (digits_val [a; b; c; d]) (digits_val [w1])
    else Err EInvalidPeriod
  | [a; b; c; d; h; w; w1; w2] =>
    if is_digit a && is_digit b && is_digit c && is_digit d && (h =? ch_dash)%N
       && (w =? ch_W)%N && is_digit w1 && is_digit w2
    then week_from_numbers (digits_val [a; b; c; d]) (digits_val [w1; w2])
    else Err EInvalidPeriod
  | _ => Err EInvalidPeriod
  end.

(* NewPeriodFromPatternString: the first constructor that returns no error decides; a panic inside a
   constructor or inside Period() would propagate (since 9e99f6b none occurs: Proofs/PeriodPattern.v) *)
Definition try_pattern (k : kind) (parse : bytes -> outcome cdate) (s : bytes)
    (next : outcome period) : outcome period :=
  match parse s with
  | Ok d => period_of k d
  | Err _ => next
  | Crash c => Crash c
  end.

Definition period_from_pattern (s : bytes) : outcome period :=
  try_pattern KYear year_from_string s
  (try_pattern KMonth month_from_string s
  (try_pattern KQuarter quarter_from_string s
  (try_pattern KWeek week_from_string s
  (Err EInvalidPeriod)))).
