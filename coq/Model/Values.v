(* Values: klog's Date, Time, Duration, Range, OpenRange with their text round trips
   (klog/date.go, time.go, duration.go, range.go). Definitions only.
   The four regular expressions are re-implemented as hand-written recognisers. *)
From Klog Require Import Base.Prelude Model.Calendar.
Open Scope Z_scope.

(* ================= Time ================= *)

Record time := { t_hour : Z; t_min : Z; t_shift : Z; t_24h : bool }.

(* newTime *)
Definition new_time (hour minute shift : Z) (is24 : bool) : outcome time :=
  let '(hour, shift) :=
    if (hour =? 24) && (minute =? 0) && (shift <=? 0) then (0, shift + 1) else (hour, shift) in
  if (0 <=? hour) && (hour <=? 23) && (0 <=? minute) && (minute <=? 59)
  then Ok {| t_hour := hour; t_min := minute; t_shift := shift; t_24h := is24 |}
  else Err EInvalidTime.

Definition ch_lt : N := 60.  Definition ch_gt : N := 62.  Definition ch_colon : N := 58.
Definition ch_a : N := 97.   Definition ch_p : N := 112.  Definition ch_m : N := 109.
Definition ch_h : N := 104.  Definition ch_minus : N := 45. Definition ch_plus : N := 43.
Definition ch_slash : N := 47. Definition ch_space : N := 32. Definition ch_tab : N := 9.
Definition ch_q : N := 63.   Definition ch_excl : N := 33.
Definition ch_lpar : N := 40. Definition ch_rpar : N := 41.
Definition ch_lf : N := 10.  Definition ch_cr : N := 13.

Inductive ampm := NoAmPm | Am | Pm.

(* the five capture groups of ^(<)?(\d{1,2}):(\d{2})(am|pm)?(>)?$ *)
Record time_match := { tm_lt : bool; tm_hour : bytes; tm_min : bytes; tm_ampm : ampm; tm_gt : bool }.

Definition match_time_tail (lt : bool) (hd : bytes) (r : bytes) : option time_match :=
  match r with
  | m1 :: m2 :: r2 =>
    if is_digit m1 && is_digit m2 then
      let '(ap, r3) :=
        match r2 with
        | x :: y :: r' =>
          if (x =? ch_a)%N && (y =? ch_m)%N then (Am, r')
          else if (x =? ch_p)%N && (y =? ch_m)%N then (Pm, r')
          else (NoAmPm, r2)
        | _ => (NoAmPm, r2)
        end in
      let '(gt, r4) :=
        match r3 with
        | x :: r' => if (x =? ch_gt)%N then (true, r') else (false, r3)
        | [] => (false, r3)
        end in
      match r4 with
      | [] => Some {| tm_lt := lt; tm_hour := hd; tm_min := [m1; m2]; tm_ampm := ap; tm_gt := gt |}
      | _ => None
      end
    else None
  | _ => None
  end.

Definition match_time (s : bytes) : option time_match :=
  let '(lt, s1) :=
    match s with
    | x :: r => if (x =? ch_lt)%N then (true, r) else (false, s)
    | [] => (false, s)
    end in
  match s1 with
  | h1 :: c :: r =>
    if is_digit h1 then
      if (c =? ch_colon)%N then match_time_tail lt [h1] r
      else if is_digit c then
        match r with
        | c2 :: r' => if (c2 =? ch_colon)%N then match_time_tail lt [h1; c] r' else None
        | [] => None
        end
      else None
    else None
  | _ => None
  end.

(* NewTimeFromString *)
Definition parse_time (s : bytes) : outcome time :=
  match match_time s with
  | None => Err EMalformedTime
  | Some m =>
    if tm_lt m && tm_gt m then Err EMalformedTime else
    let hour := digits_val (tm_hour m) in
    let minute := digits_val (tm_min m) in
    let shift := if tm_lt m then -1 else if tm_gt m then 1 else 0 in
    match tm_ampm m with
    | NoAmPm => new_time hour minute shift true
    | Am => if (hour <? 1) || (12 <? hour) then Err EInvalidTime
            else new_time (if hour =? 12 then 0 else hour) minute shift false
    | Pm => if (hour <? 1) || (12 <? hour) then Err EInvalidTime
            else new_time (if hour <? 12 then hour + 12 else hour) minute shift false
    end
  end.

(* Time.ToString *)
Definition print_time (t : time) : bytes :=
  let pre := if t_shift t <? 0 then [ch_lt] else [] in
  let suf := if 0 <? t_shift t then [ch_gt] else [] in
  let '(hour, ap) :=
    if t_24h t then (t_hour t, [])
    else if t_hour t =? 12 then (12, [ch_p; ch_m])
    else if 12 <? t_hour t then (t_hour t - 12, [ch_p; ch_m])
    else if t_hour t =? 0 then (12, [ch_a; ch_m])
    else (t_hour t, [ch_a; ch_m]) in
  pre ++ dec hour ++ [ch_colon] ++ pad_left 2 (dec (t_min t)) ++ ap ++ suf.

(* Time.MidnightOffset().InMinutes(): the Go code builds it as NewDuration(h', m') *)
Definition time_offset (t : time) : Z :=
  if t_shift t <? 0 then (-23 + t_hour t) * 60 + (-60 + t_min t)
  else if 0 <? t_shift t then (24 + t_hour t) * 60 + t_min t
  else t_hour t * 60 + t_min t.

Definition time_geb (a b : time) : bool := time_offset a >=? time_offset b.
Definition time_eqb (a b : time) : bool := time_offset a =? time_offset b.

(* Time.Plus(d), d given in minutes. The addition goes through safemath; since fix K6 an overflow is the
   ordinary error IMPOSSIBLE_OPERATION, not a panic. *)
Definition time_plus (t : time) (d : Z) : outcome time :=
  match add64 (time_offset t) d with
  | None => Err EImpossibleOperation
  | Some mins =>
    if (2 * 1440 <=? mins) || (mins <? -1440) then Err EImpossibleOperation
    else
      let '(shift, mins) :=
        if mins <? 0 then (-1, 1440 + mins)
        else if 1440 <? mins then (1, mins - 1440)
        else (0, mins) in
      new_time (go_div mins 60) (go_mod mins 60) shift (t_24h t)
  end.

(* ================= Duration ================= *)

Record duration := { d_mins : Z; d_plus : bool; d_zsign : Z }.

Definition mk_dur (m : Z) : duration := {| d_mins := m; d_plus := false; d_zsign := 0 |}.

(* NewDurationWithFormat(h, m, fmt): panics on overflow *)
Definition new_duration_fmt (h m : Z) (plus : bool) (zs : Z) : outcome duration :=
  match mul64 h 60 with
  | None => Crash CIntegerOverflow
  | Some hm =>
    match add64 hm m with
    | None => Crash CIntegerOverflow
    | Some t => Ok {| d_mins := t; d_plus := plus; d_zsign := zs |}
    end
  end.

(* Duration.Plus: panics on overflow; the result has the default format *)
Definition dur_plus (a b : Z) : outcome Z :=
  match add64 a b with None => Crash CIntegerOverflow | Some v => Ok v end.

(* Duration.ToString *)
Definition print_duration (d : duration) : bytes :=
  if d_mins d =? 0 then
    (if d_zsign d <? 0 then [ch_minus] else if 0 <? d_zsign d then [ch_plus] else []) ++ [48%N; ch_m]
  else
    let hours := Z.abs (go_div (d_mins d) 60) in
    let minutes := Z.abs (go_mod (d_mins d) 60) in
    (if d_mins d <? 0 then [ch_minus] else if d_plus d then [ch_plus] else [])
    ++ (if 0 <? hours then dec hours ++ [ch_h] else [])
    ++ (if 0 <? minutes then dec minutes ++ [ch_m] else []).

Definition print_duration_signed (d : duration) : bytes :=
  if 0 <? d_mins d then ch_plus :: print_duration d
  else print_duration d.

(* capture groups of ^([-+])?((\d+)h)?((\d+)m)?$ : sign char (0 = none), hour digits, minute digits *)
Record dur_match := { dm_sign : N; dm_h : bytes; dm_m : bytes }.

Definition match_duration (s : bytes) : option dur_match :=
  let '(sg, s1) :=
    match s with
    | x :: r => if (x =? ch_minus)%N || (x =? ch_plus)%N then (x, r) else (0%N, s)
    | [] => (0%N, s)
    end in
  let '(ds1, r1) := span is_digit s1 in
  match ds1, r1 with
  | [], [] => Some {| dm_sign := sg; dm_h := []; dm_m := [] |}
  | [], _ => None
  | _, c :: r2 =>
    if (c =? ch_h)%N then
      let '(ds2, r3) := span is_digit r2 in
      match ds2, r3 with
      | [], [] => Some {| dm_sign := sg; dm_h := ds1; dm_m := [] |}
      | [], _ => None
      | _, [c2] => if (c2 =? ch_m)%N then Some {| dm_sign := sg; dm_h := ds1; dm_m := ds2 |} else None
      | _, _ => None
      end
    else if (c =? ch_m)%N then
      match r2 with
      | [] => Some {| dm_sign := sg; dm_h := []; dm_m := ds1 |}
      | _ => None
      end
    else None
  | _, [] => None
  end.

(* NewDurationFromString *)
Definition parse_duration (s : bytes) : outcome duration :=
  match match_duration s with
  | None => Err EMalformedDuration
  | Some m =>
    let sign := if (dm_sign m =? ch_minus)%N then -1 else 1 in
    let plus := (dm_sign m =? ch_plus)%N in
    match dm_h m, dm_m m with
    | [], [] => Err EMalformedDuration
    | hs, ms =>
      match (match hs with [] => Some 0 | _ => atoi_digits hs end) with
      | None => Crash CAtoiRange
      | Some h =>
        match (match ms with [] => Some 0 | _ => atoi_digits ms end) with
        | None => Crash CAtoiRange
        | Some mi =>
          if (match hs with [] => false | _ => true end) && (60 <=? mi) then Err EUnrepresentableDuration
          else
            let zs := if (h =? 0) && (mi =? 0) && negb (dm_sign m =? 0)%N then sign else 0 in
            new_duration_fmt (sign * h) (sign * mi) plus zs
        end
      end
    end
  end.

(* ================= Date ================= *)

Record date := { dt : cdate; dt_dashes : bool }.

Definition is_sep (c : N) : bool := (c =? ch_minus)%N || (c =? ch_slash)%N.

(* NewDateFromString *)
Definition parse_date (s : bytes) : outcome date :=
  match s with
  | [y1; y2; y3; y4; s1; m1; m2; s2; d1; d2] =>
    if is_digit y1 && is_digit y2 && is_digit y3 && is_digit y4 && is_sep s1
       && is_digit m1 && is_digit m2 && is_sep s2 && is_digit d1 && is_digit d2 then
      let dashes := ((if (s1 =? ch_minus)%N then 1 else 0) + (if (s2 =? ch_minus)%N then 1 else 0))%nat in
      if Nat.eqb dashes 1 then Err EMalformedDate else
      let y := digits_val [y1; y2; y3; y4] in
      let m := digits_val [m1; m2] in
      let d := digits_val [d1; d2] in
      if valid_ymd y m d
      then Ok {| dt := {| c_year := y; c_month := m; c_day := d |}; dt_dashes := Nat.eqb dashes 2 |}
      else Err EUnrepresentableDate
    else Err EMalformedDate
  | _ => Err EMalformedDate
  end.

(* Date.ToString *)
Definition print_date (d : date) : bytes :=
  let sep := if dt_dashes d then ch_minus else ch_slash in
  pad_left 4 (dec (c_year (dt d))) ++ [sep] ++ pad_left 2 (dec (c_month (dt d))) ++ [sep]
  ++ pad_left 2 (dec (c_day (dt d))).

(* ================= Range / OpenRange ================= *)

Record range := { r_start : time; r_end : time; r_spaces : bool }.
Record open_range := { o_start : time; o_spaces : bool; o_extra : nat }.

(* NewRangeWithFormat *)
Definition new_range (a b : time) (spaces : bool) : outcome range :=
  if time_geb b a then Ok {| r_start := a; r_end := b; r_spaces := spaces |} else Err EIllegalRange.

Definition range_minutes (r : range) : Z := time_offset (r_end r) - time_offset (r_start r).

Definition print_range (r : range) : bytes :=
  let sp := if r_spaces r then [ch_space] else [] in
  print_time (r_start r) ++ sp ++ [ch_minus] ++ sp ++ print_time (r_end r).

Definition print_open_range (o : open_range) : bytes :=
  let sp := if o_spaces o then [ch_space] else [] in
  print_time (o_start o) ++ sp ++ [ch_minus] ++ sp ++ repeat ch_q (1 + o_extra o).
