(* C04 — mutating commands have exactly their intended effect over any command history.
   Property theorems only; each is closed by [exact <lemma>] and followed by Print Assumptions.
   Model: Model/Commands.v ([exec], [exec_simple]) over Model/Reconcile.v and Model/Parser.v.

   THE ABSTRACT MODEL works on parsed records (Proofs/CommandsRefine.v, CommandsStop.v, CommandsPause.v, CommandsHistory.v):
     add_entry e r            the record r with the entry e added at its end
     insert_record r rs       rs with r put where klog puts a new record: before the first record when it is dated
                              earlier, otherwise after the record [new_record_position] selects (the last record not
                              dated later, for a file in date order)
     a_add_entry / a_track    add the entry to the FIRST record dated d; without one, insert a new record holding it,
                              with the configured should-total and the date written with the separator most records use;
                              a second open range in a record is rejected
     a_start                  resolve the summary (--summary / --resume / --resume-nth: [resolve_summary], a function of
                              the records), refuse a second open range, add the open range - written in the clock
                              convention, dash spacing and placeholder length the target record / the file uses
     a_stop                   the first record dated d - or, when there is none and neither date nor time was selected,
                              the first record of the day before with the time 24h later - gets its open range closed
                              (a_close_in): a range from the open range's start to the given time, keeping the dash
                              spacing, rejected when it would end before it starts; summary text is appended: the first
                              line joins the entry's last line, the others follow (append_summary)
     a_switch                 a_close_in, then an open range starting at the same time, in the same record
     a_pause                  today's record, else yesterday's: a pause entry `-0m` with the given summary and the open
                              range's tags (or, with --extend, nothing yet); then per clock reading the last non-positive
                              duration entry of that record is decreased by the newly completed whole minutes
     a_exec / a_exec_history  the above behind one command type [scommand]; a history threads the records through
   Dates, times and roundings are resolved by [at_date] / [at_time], whose meaning is C17.

   THE FILES quantified over are the specification-conforming ones: [spec_state file recs] says that the lines of
   [file] are the lines of the specification records [recs] (Spec/Spec.v: any blank lines before / between / after the
   records, any of the four indentations per record, LF or CRLF per line, last line with or without newline), and that
   an unterminated last line does not end in a carriage return. Every rendered well-formed specification document is
   one (C04_spec_files_exist); by C01 these are the files the parser is specified to accept. Every theorem returns such
   a file again, which is what makes the statements chain (C04_history_refines).

   THE ARGUMENTS are specification objects too ([scommand], [step_pre]). What [step_pre] asks, command by command:
     track    the entry is a well-formed specification entry ([wf_entry]); no line of it ends in a carriage return
     start    --summary text made of specification summary lines ([sum_arg_ok])
     stop     the summary to append is well-formed text without trailing carriage return ([add_ok])
     switch   as start
     create   specification summary lines without trailing carriage return
     pause    summary lines that are well-formed text, the further ones not blank, none ending in a carriage return
   A carriage return at the end of an inserted line, before a bare LF, would be read back as part of a CRLF ending
   (finding K2).  For every command: a valid date of the clock and of an explicit date argument ([datesel_ok]; a date
   that comes out of [parse_date] is valid: C04_parse_date_valid), a valid explicit time ([time_arg_ok]; one that comes
   out of [parse_time] is valid: C04_parse_time_valid; the dates and times the commands compute from these are then
   valid: C04_at_date_valid, C04_at_time_valid), a configured should-total within int64 (one that comes out of
   [parse_duration] is: C04_parse_duration_should_fits).
   Two requirements concern the file, and each is needed:
     [open_entry_ok] (stop, switch) no open-range line ends in a blank directly after the placeholder: such a line reads
       back like one without the blank, but text appended by `stop` would start with it - no model on the parsed data
       can tell the two apart (C04_same_records_different_effect_refuted);
     [file_no_cr] (start, switch) no summary line of an entry ends in a carriage return (`--resume` copies it before a
       bare LF; K2 again).
   No longer asked (proved instead): that the tags `pause` copies are well-formed text (C04_tags_ok, for every
   conforming file), that computed dates / times are valid, that the resolved `--resume` summary is well-formed.

   WHAT IS PROVED.  For all six commands and for histories, on conforming files and with arguments as above: whatever
   the model says - success, or a rejection with its error - the command reports the same and leaves a conforming file
   whose records are exactly the model's (C04_exec_total_partial, C04_history_total_partial; the older
   C04_exec_refines_partial / C04_history_refines_partial / C04_exec_rejects_partial are its accepting and rejecting
   halves).  A rejected track / start / stop / switch leaves the file as it was; a `pause` rejected at its first step
   too (C04_pause_rejects), one rejected at a later clock reading leaves what the earlier readings wrote (C04_pause_full).
   The rejections, as the model has them:
     track    a second open range in the record (C04_track_rejects_second_open)
     start    a second open range; an entry to resume that does not exist; an impossible time
     stop     no record; no open range; an end before the start; an impossible time
     switch   as stop and start
     create   none
     pause    --extend with --summary (C04_pause_flags_rejects: for every file); no record of today or yesterday
              (C04_pause_no_record_rejects); no open range in it (C04_pause_no_open_rejects); --extend without a pause
              entry (C04_pause_extend_no_pause_rejects)
   Beyond the model, `track` is given a TEXT, which need not be an entry of the grammar: any first line that
   [parse_entry_value] refuses at every indentation ([malformed_value]) is rejected with "invalid result" and the file
   left unchanged (C04_track_rejects_malformed), in particular the fault families of C01: a time out of range, a
   missing dash, a bad end, a bad placeholder, a minutes part of 60 or more, a reversed range (the C04_malformed_ theorems).

   WHAT IS NOT PROVED (hence _partial):
   - rejections of `track` for a text whose first line starts with a blank or a non-ASCII character (finding K15: such a
     text is not rejected at all but silently becomes a summary line), or whose further lines are blank;
     and nothing is said of texts the parser accepts but the grammar does not generate (a tab after the value);
   - the outcomes the model marks as a crash: an int64 overflow when a pause duration is extended, a date shifted
     beyond the calendar (`--tomorrow` on 9999-12-31);
   - files that the parser accepts but that are not conforming.  What separates the two classes is layout only:
     C04_accepted_records_wf shows that the records of EVERY accepted file satisfy the specification's record rules
     (valid date, should-total and durations in range, times valid, ranges in order, at most one open range, summary
     lines proper text not starting with a blank, further entry lines not blank), and C04_accepted_equivalent that its
     canonical print is a conforming file with the same records (up to a should-total of 0, printed as absent; and
     provided no summary line ends in a carriage return, which print would turn into part of a CRLF ending).  Accepted
     but outside the grammar's image are texts the specification does not mention (Spec/Spec.v header), such as a tab
     after an entry value or blanks inside the should-total parentheses.  The commands' effect on such files is covered
     by the differential tests of C04, not by these theorems. *)
From Klog Require Import Base.Prelude Base.Utf8 Model.Calendar Model.Values Model.Record Model.Lines Model.Parser
  Model.Reconcile Model.Commands Proofs.Values Spec.Spec Proofs.SpecEntry Proofs.SpecRecord Proofs.SpecDoc
  Proofs.Reconcile Proofs.Commands Proofs.Rounding Proofs.CommandsSpec Proofs.CommandsRefine Proofs.CommandsStop
  Proofs.CommandsPause Proofs.CommandsArgs Proofs.CommandsHistory Proofs.CommandsReject Proofs.CommandsTrackReject
  Proofs.CommandsPauseReject Proofs.CommandsTags Proofs.CommandsAccepted Proofs.CommandsTotal Spec.SpecInject Model.Serialiser Proofs.Print.
Open Scope Z_scope.

(* the files: every rendered well-formed specification document whose last line is terminated or does not end in CR *)
Theorem C04_spec_files_exist : forall d, wf d -> last_line_safe (doc_lines d) -> spec_state (render d) (do_records d).
Proof.
  intros d W Hs. destruct (conforms_doc d W) as (lead & gs & C). exact (spec_state_of_conforms _ _ _ _ C Hs).
Qed.
Print Assumptions C04_spec_files_exist.

(* what such a file parses to *)
Theorem C04_spec_state_parse : forall file recs, spec_state file recs ->
  exists bs, parse_text file = Ok (Parsed (denote_recs recs) bs).
Proof. intros file recs (lead & gs & C & _). eexists. exact (spec_file_parse _ _ _ _ C). Qed.
Print Assumptions C04_spec_state_parse.

(* ---------- the property, one command: whenever the model accepts, the command succeeds, the file it writes is again
   a conforming one, and re-reading it yields exactly the model's records ---------- *)
Theorem C04_exec_refines_partial : forall now cfg sc file recs rs',
  spec_state file recs -> step_pre now cfg sc recs ->
  a_exec now cfg sc (denote_recs recs) = COk rs' ->
  exists file' recs',
    exec now cfg (to_command sc) file = (file', COk tt) /\
    spec_state file' recs' /\ denote_recs recs' = rs' /\
    exists bs', parse_text file' = Ok (Parsed (denote_recs recs') bs').
Proof. exact exec_refines. Qed.
Print Assumptions C04_exec_refines_partial.

(* ---------- the property, any history: the file produced by one command is the input of the next ---------- *)
Theorem C04_history_refines_partial : forall cfg h file recs rs',
  spec_state file recs -> history_pre cfg h file ->
  a_exec_history cfg h (denote_recs recs) = COk rs' ->
  exists recs', spec_state (exec_history cfg h file) recs' /\ denote_recs recs' = rs' /\
    exists bs', parse_text (exec_history cfg h file) = Ok (Parsed rs' bs').
Proof. exact history_refines. Qed.
Print Assumptions C04_history_refines_partial.

(* ---------- a command the model rejects fails, with the model's error, and changes nothing (all but pause, which
   writes several times: C04_pause_rejects, C04_pause_full) ---------- *)
Theorem C04_exec_rejects_partial : forall now cfg sc file recs e, rejecting sc = true ->
  spec_state file recs -> step_pre now cfg sc recs ->
  a_exec now cfg sc (denote_recs recs) = CErr e ->
  exec now cfg (to_command sc) file = (file, CErr e).
Proof. exact exec_rejects. Qed.
Print Assumptions C04_exec_rejects_partial.

(* ---------- both directions at once: whatever the model says, the command says, and the file holds the model's records ---------- *)
Theorem C04_exec_total_partial : forall now cfg sc file recs rs' res,
  spec_state file recs -> step_pre now cfg sc recs ->
  a_exec_full now cfg sc (denote_recs recs) = (rs', res) -> res <> CCrash ->
  exists file' recs',
    exec now cfg (to_command sc) file = (file', res) /\
    spec_state file' recs' /\ denote_recs recs' = rs' /\
    (forall e, res = CErr e -> rejecting sc = true -> file' = file).
Proof. exact exec_total. Qed.
Print Assumptions C04_exec_total_partial.

(* ... over histories in which any step may be rejected *)
Theorem C04_history_total_partial : forall cfg h file recs rs' results,
  spec_state file recs -> history_full_pre cfg h file ->
  a_history_full cfg h (denote_recs recs) = (rs', results) -> ~ In CCrash results ->
  exists file' recs', exec_history_full cfg h file = (file', results) /\ spec_state file' recs' /\ denote_recs recs' = rs'.
Proof. exact history_total. Qed.
Print Assumptions C04_history_total_partial.

(* ---------- the commands one by one ---------- *)

Theorem C04_create_refines : forall now cfg ds should srunes file recs d,
  spec_state file recs -> at_date now ds = Ok d -> valid_cdate (dt d) = true ->
  let should' := match should with Some m => Some m | None => cfg_should cfg end in
  should_fits should' -> forallb summary_line_ok srunes = true -> no_cr_lines (map utf8_encode srunes) ->
  exists file' recs',
    exec_simple now cfg (Create ds should (map utf8_encode srunes)) file = COk file' /\
    spec_state file' recs' /\
    denote_recs recs' =
      insert_record {| rec_date := a_new_date d (date_format cfg ds) (denote_recs recs); rec_should := should';
                       rec_summary := map utf8_encode srunes; rec_entries := [] |} (denote_recs recs) /\
    exists bs', parse_text file' = Ok (Parsed (denote_recs recs') bs').
Proof. exact create_refines. Qed.
Print Assumptions C04_create_refines.

Theorem C04_track_refines : forall now cfg ds file recs d se,
  spec_state file recs -> at_date now ds = Ok d -> valid_cdate (dt d) = true -> should_fits (cfg_should cfg) ->
  wf_entry se = true -> no_cr_lines (entry_arg se) ->
  a_add_entry_ok d (denote_entry se) (denote_recs recs) ->
  exists file' recs',
    exec_simple now cfg (Track ds (entry_arg se)) file = COk file' /\
    spec_state file' recs' /\
    denote_recs recs' = a_add_entry cfg d (date_format cfg ds) (denote_entry se) (denote_recs recs) /\
    exists bs', parse_text file' = Ok (Parsed (denote_recs recs') bs').
Proof. exact track_refines. Qed.
Print Assumptions C04_track_refines.

Theorem C04_start_refines : forall now cfg a s file recs d t rs',
  spec_state file recs -> at_date now (a_date a) = Ok d -> at_time now cfg a = COk t -> valid_time t ->
  valid_cdate (dt d) = true -> should_fits (cfg_should cfg) ->
  summaries_ok s (denote_recs recs) ->
  a_start cfg d (date_format cfg (a_date a)) t (time_format cfg a) s (denote_recs recs) = COk rs' ->
  exists file' recs',
    exec_simple now cfg (Start a s) file = COk file' /\
    spec_state file' recs' /\ denote_recs recs' = rs' /\
    exists bs', parse_text file' = Ok (Parsed (denote_recs recs') bs').
Proof. exact start_refines. Qed.
Print Assumptions C04_start_refines.

Theorem C04_stop_refines : forall now cfg a summary add_r file recs d t y rs',
  spec_state file recs -> at_date now (a_date a) = Ok d -> at_time now cfg a = COk t -> valid_time t ->
  plus_days (dt d) (-1) = Ok y -> valid_cdate (dt d) = true ->
  match summary with Some s => s | None => [] end = map utf8_encode add_r -> add_ok add_r ->
  (forall rg, In rg recs -> open_entry_ok (fst rg)) ->
  a_stop (was_automatic a) d y t (time_format cfg a) (map utf8_encode add_r) (denote_recs recs) = COk rs' ->
  exists file' recs',
    exec_simple now cfg (Stop a summary) file = COk file' /\
    spec_state file' recs' /\ denote_recs recs' = rs' /\
    exists bs', parse_text file' = Ok (Parsed (denote_recs recs') bs').
Proof. exact stop_refines. Qed.
Print Assumptions C04_stop_refines.

Theorem C04_switch_refines : forall now cfg a s file recs d t rs',
  spec_state file recs -> at_date now (a_date a) = Ok d -> at_time now cfg a = COk t -> valid_time t ->
  (forall rg, In rg recs -> open_entry_ok (fst rg)) ->
  summaries_ok s (denote_recs recs) ->
  a_switch d t (time_format cfg a) s (denote_recs recs) = COk rs' ->
  exists file' recs',
    exec_simple now cfg (Switch a s) file = COk file' /\
    spec_state file' recs' /\ denote_recs recs' = rs' /\
    exists bs', parse_text file' = Ok (Parsed (denote_recs recs') bs').
Proof. exact switch_refines. Qed.
Print Assumptions C04_switch_refines.

(* pause, with all its clock readings: the entry after the ticks holds minus the whole minutes completed (the
   accumulation is [a_pause_loop]: an increment is written only when floor(t/60) exceeds what was captured so far, so a
   clock that jumps backwards writes nothing) *)
Theorem C04_pause_refines : forall now cfg summary sr no_tags extend ticks file recs y rs',
  spec_state file recs -> plus_days (now_date now) (-1) = Ok y ->
  match summary with Some s => s | None => [] end = map utf8_encode sr ->
  match sr with [] => True | s0r :: mr => text_ok s0r = true /\ forallb (fun t => text_ok t && negb (all_blank t)) mr = true end ->
  no_cr_lines (map utf8_encode sr) ->
  a_pause (now_date now) y summary no_tags extend ticks (denote_recs recs) = COk rs' ->
  exists file' recs',
    exec now cfg (Pause summary no_tags extend ticks) file = (file', COk tt) /\
    spec_state file' recs' /\ denote_recs recs' = rs' /\
    exists bs', parse_text file' = Ok (Parsed (denote_recs recs') bs').
Proof. exact pause_refines_conforming. Qed.
Print Assumptions C04_pause_refines.

(* pause, success or rejection: the report is the model's, the file holds the model's records *)
Theorem C04_pause_full : forall now cfg summary sr no_tags extend ticks file recs y rs' res,
  spec_state file recs -> plus_days (now_date now) (-1) = Ok y ->
  match summary with Some s => s | None => [] end = map utf8_encode sr ->
  match sr with [] => True | s0r :: mr => text_ok s0r = true /\ forallb (fun t => text_ok t && negb (all_blank t)) mr = true end ->
  no_cr_lines (map utf8_encode sr) ->
  a_pause_full (now_date now) y summary no_tags extend ticks (denote_recs recs) = (rs', res) -> res <> CCrash ->
  exists file' recs',
    exec now cfg (Pause summary no_tags extend ticks) file = (file', res) /\
    spec_state file' recs' /\ denote_recs recs' = rs'.
Proof. exact pause_full_conforming. Qed.
Print Assumptions C04_pause_full.

(* ---------- the rejections of pause: the model's error, the file untouched (no requirement on the arguments) ---------- *)
Theorem C04_pause_rejects : forall now cfg summary no_tags extend ticks file recs y e,
  spec_state file recs -> plus_days (now_date now) (-1) = Ok y ->
  a_pause_init (now_date now) y summary no_tags extend (denote_recs recs) = CErr e ->
  exec now cfg (Pause summary no_tags extend ticks) file = (file, CErr e).
Proof. exact pause_init_rejects. Qed.
Print Assumptions C04_pause_rejects.

(* --extend together with --summary: for every file whatsoever *)
Theorem C04_pause_flags_rejects : forall now cfg s no_tags ticks file,
  exec now cfg (Pause (Some s) no_tags true ticks) file = (file, CErr CEFlags).
Proof. exact pause_flags_rejects. Qed.
Print Assumptions C04_pause_flags_rejects.

(* no record dated today or yesterday *)
Theorem C04_pause_no_record_rejects : forall now cfg summary no_tags extend ticks file recs y,
  spec_state file recs -> plus_days (now_date now) (-1) = Ok y ->
  extend && (match summary with Some _ => true | None => false end) = false ->
  pause_target (now_date now) y (denote_recs recs) = None ->
  exec now cfg (Pause summary no_tags extend ticks) file = (file, CErr CENoSuchRecord).
Proof. exact pause_no_record_rejects. Qed.
Print Assumptions C04_pause_no_record_rejects.

(* the record (the first of today, else the first of yesterday) has no open range *)
Theorem C04_pause_no_open_rejects : forall now cfg summary no_tags extend ticks file recs y i r,
  spec_state file recs -> plus_days (now_date now) (-1) = Ok y ->
  extend && (match summary with Some _ => true | None => false end) = false ->
  pause_target (now_date now) y (denote_recs recs) = Some i -> nth_error (denote_recs recs) i = Some r ->
  existsb is_open (rec_entries r) = false ->
  exec now cfg (Pause summary no_tags extend ticks) file = (file, CErr CEManipulation).
Proof. exact pause_no_open_rejects. Qed.
Print Assumptions C04_pause_no_open_rejects.

(* --extend on a record without a pause entry *)
Theorem C04_pause_extend_no_pause_rejects : forall now cfg no_tags ticks file recs y i r,
  spec_state file recs -> plus_days (now_date now) (-1) = Ok y ->
  pause_target (now_date now) y (denote_recs recs) = Some i -> nth_error (denote_recs recs) i = Some r ->
  existsb is_pause (rec_entries r) = false ->
  exec now cfg (Pause None no_tags true ticks) file = (file, CErr CEManipulation).
Proof. exact pause_extend_no_pause_rejects. Qed.
Print Assumptions C04_pause_extend_no_pause_rejects.

(* ---------- the rejections of track. The text given to `track` is the first line x and the further lines mr
   ([raw_entry_arg]); [raw_entry_ok]: well-formed text, x starting with a non-blank ASCII character, the further lines
   not blank, no trailing carriage return. [entries_before]: the entries of the record the line would be added to.
   [entry_rejected_after acc x mr]: at every indentation, the parser refuses the lines after the entries acc. ---------- *)
Theorem C04_track_rejects : forall now cfg ds file recs d x mr,
  spec_state file recs -> at_date now ds = Ok d -> valid_cdate (dt d) = true -> should_fits (cfg_should cfg) ->
  raw_entry_ok x mr ->
  entry_rejected_after (entries_before (dt d) (denote_recs recs)) x mr ->
  exec now cfg (Track ds (raw_entry_arg x mr)) file = (file, CErr CEInvalidResult).
Proof. exact track_rejects. Qed.
Print Assumptions C04_track_rejects.

(* a first line that is no entry of the grammar *)
Theorem C04_track_rejects_malformed : forall now cfg ds file recs d x mr,
  spec_state file recs -> at_date now ds = Ok d -> valid_cdate (dt d) = true -> should_fits (cfg_should cfg) ->
  raw_entry_ok x mr -> malformed_value x ->
  exec now cfg (Track ds (raw_entry_arg x mr)) file = (file, CErr CEInvalidResult).
Proof. exact track_malformed_rejects. Qed.
Print Assumptions C04_track_rejects_malformed.

(* a second open range: as a specification entry ... *)
Theorem C04_track_rejects_second_open : forall now cfg ds file recs d se,
  spec_state file recs -> at_date now ds = Ok d -> valid_cdate (dt d) = true -> should_fits (cfg_should cfg) ->
  wf_entry se = true -> no_cr_lines (entry_arg se) ->
  is_open (denote_entry se) = true -> existsb is_open (entries_before (dt d) (denote_recs recs)) = true ->
  exec now cfg (Track ds (entry_arg se)) file = (file, CErr CEInvalidResult).
Proof. exact track_second_open_rejects. Qed.
Print Assumptions C04_track_rejects_second_open.

(* ... and as a text: an open range followed by anything *)
Theorem C04_second_open_rejected : forall acc a sp1 sp2 extra tail mr, wf_time a = true -> tail_ok tail -> text_ok tail = true ->
  has_open_entry acc = true -> forallb (fun t => text_ok t && negb (all_blank t)) mr = true ->
  entry_rejected_after acc (render_value (SOpen a sp1 sp2 extra) ++ tail) mr.
Proof. exact second_open_rejected. Qed.
Print Assumptions C04_second_open_rejected.

(* the fault families of C01 are malformed values *)
Theorem C04_malformed_bad_time : forall st rest, time_fields_in_shape st = true -> wf_time st = false ->
  match rest with c :: _ => is_dash_or_space c = true | [] => True end -> malformed_value (render_time st ++ rest).
Proof. exact malformed_bad_time. Qed.
Print Assumptions C04_malformed_bad_time.

Theorem C04_malformed_missing_dash : forall a sp1 rest, wf_time a = true ->
  match rest with c :: _ => is_space c = false /\ (c =? ch_minus)%N = false | [] => True end -> (sp1 = 0%nat -> rest = []) ->
  malformed_value (render_time a ++ spaces sp1 ++ rest).
Proof. exact malformed_missing_dash. Qed.
Print Assumptions C04_malformed_missing_dash.

Theorem C04_malformed_bad_end : forall a sp1 sp2 s' tail, wf_time a = true ->
  forallb (fun c => negb (is_space_or_tab c)) s' = true ->
  match tail with c :: _ => is_space_or_tab c = true | [] => True end ->
  match s' ++ tail with c :: _ => is_space c = false /\ (c =? ch_q)%N = false | [] => True end ->
  (forall t, parse_time (utf8_encode s') <> Ok t) ->
  malformed_value (render_time a ++ spaces sp1 ++ [45%N] ++ spaces sp2 ++ s' ++ tail).
Proof. exact malformed_bad_end. Qed.
Print Assumptions C04_malformed_bad_end.

Theorem C04_malformed_bad_placeholder : forall a sp1 sp2 rep tail, wf_time a = true ->
  forallb (fun c => negb (is_space_or_tab c)) rep = true ->
  match tail with c :: _ => is_space_or_tab c = true | [] => True end ->
  forallb (fun c => (c =? ch_q)%N) rep = false ->
  malformed_value (render_time a ++ spaces sp1 ++ [45%N] ++ spaces sp2 ++ 63%N :: rep ++ tail).
Proof. exact malformed_bad_placeholder. Qed.
Print Assumptions C04_malformed_bad_placeholder.

Theorem C04_malformed_minutes_overflow : forall du tail, dur_minutes_overflow du = true -> tail_ok tail ->
  malformed_value (render_dur du ++ tail).
Proof. exact malformed_minutes_overflow. Qed.
Print Assumptions C04_malformed_minutes_overflow.

Theorem C04_malformed_reversed_range : forall a sp1 sp2 b tail, wf_time a = true -> wf_time b = true ->
  timeline b < timeline a -> tail_ok tail -> malformed_value (render_value (SRange a sp1 sp2 b) ++ tail).
Proof. exact malformed_reversed_range. Qed.
Print Assumptions C04_malformed_reversed_range.

(* ---------- requirements that are proved rather than asked ---------- *)

(* the tags `pause` copies from an open range are well-formed text, in every conforming file *)
Theorem C04_tags_ok : forall file recs, spec_state file recs -> tags_ok recs.
Proof. exact spec_state_tags_ok. Qed.
Print Assumptions C04_tags_ok.

(* dates and times: what the CLI parses is valid, and what the commands compute from valid arguments is valid *)
Theorem C04_parse_time_valid : forall s t, parse_time s = Ok t -> valid_time t.
Proof. exact CommandsArgs.parse_time_valid. Qed.
Print Assumptions C04_parse_time_valid.

Theorem C04_parse_date_valid : forall s d, parse_date s = Ok d -> valid_cdate (dt d) = true.
Proof. exact parse_date_valid. Qed.
Print Assumptions C04_parse_date_valid.

Theorem C04_at_time_valid : forall now cfg a t, time_arg_ok a -> at_time now cfg a = COk t -> valid_time t.
Proof. exact at_time_valid. Qed.
Print Assumptions C04_at_time_valid.

Theorem C04_at_date_valid : forall now ds d, datesel_ok now ds -> at_date now ds = Ok d -> valid_cdate (dt d) = true.
Proof. exact at_date_valid. Qed.
Print Assumptions C04_at_date_valid.

(* a should-total the CLI parses lies within int64 *)
Theorem C04_parse_duration_should_fits : forall s d, parse_duration s = Ok d -> should_fits (Some (d_mins d)).
Proof. exact parse_duration_should_fits. Qed.
Print Assumptions C04_parse_duration_should_fits.

(* ---------- accepted files and conforming files ---------- *)

(* the records of every file the parser accepts satisfy the specification's rules for records *)
Theorem C04_accepted_records_wf : forall f rs bs, parse_text f = Ok (Parsed rs bs) -> wf_records rs.
Proof. exact parsed_records_wf_records. Qed.
Print Assumptions C04_accepted_records_wf.

(* every accepted file is equivalent to a conforming one: its canonical print conforms and has the same records
   (up to [normalise]: a should-total of 0 is printed as absent) *)
Theorem C04_accepted_equivalent : forall f rs bs, parse_text f = Ok (Parsed rs bs) -> no_trailing_cr rs = true ->
  spec_state (print_records rs) (canon_records rs) /\
  denote_recs (canon_records rs) = normalise rs /\
  exists bs', parse_text (print_records rs) = Ok (Parsed (normalise rs) bs').
Proof. exact accepted_equivalent. Qed.
Print Assumptions C04_accepted_equivalent.

(* a record inserted by the model sits where [insert_record] says, and changing it there is changing the insertion *)
Theorem C04_insert_record_place : forall x rs, nth_error (insert_record x rs) (insert_index (dt (rec_date x)) rs) = Some x.
Proof. exact insert_record_nth. Qed.
Print Assumptions C04_insert_record_place.

(* a new record is placed chronologically: a file in date order stays in date order *)
Theorem C04_create_keeps_sorted : forall x rs, Proofs.Calendar.wf_date (dt (rec_date x)) -> dates_wf rs -> date_sorted rs ->
  date_sorted (insert_record x rs).
Proof. exact insert_record_sorted. Qed.
Print Assumptions C04_create_keeps_sorted.

(* [summaries_ok] follows from: the --summary text is conforming, and no summary line of the file ends in a carriage return *)
Theorem C04_summaries_ok_of : forall s recs,
  forallb (fun rg => wf_record (fst rg)) recs = true ->
  match s_text s with Some text => summary_ok text | None => True end ->
  (forall rg se, In rg recs -> In se (sr_entries (fst rg)) -> no_cr_lines (e_summary (denote_entry se))) ->
  summaries_ok s (denote_recs recs).
Proof. exact summaries_ok_of. Qed.
Print Assumptions C04_summaries_ok_of.

(* ---------- the two guards on the file are needed ---------- *)

(* without [last_line_safe]: `track` on a valid file whose unterminated last line ends in a carriage return changes
   the summary of an EXISTING entry (the CR and the added LF read back as a CRLF ending) - the unguarded property
   "changes no other record, entry, summary" is false of the code *)
Theorem C04_unterminated_cr_refuted :
  exists file', exec_simple w_now w_cfg (Track DDefault [b!"2h"]) w_file_cr = COk file' /\
    option_map (map (fun r => map e_summary (rec_entries r))) (records_of (parse_text w_file_cr)) = Some [[[b!"foo" ++ [13%N]]]] /\
    option_map (map (fun r => map e_summary (rec_entries r))) (records_of (parse_text file')) = Some [[[b!"foo"]; [[]]]].
Proof. exact last_line_cr_witness. Qed.
Print Assumptions C04_unterminated_cr_refuted.

(* without [open_entry_ok]: two files with the SAME records on which the same `stop --summary x` yields DIFFERENT
   records - a model on parsed records cannot be exact there *)
Theorem C04_same_records_different_effect_refuted :
  records_of (parse_text w_file_blank) = records_of (parse_text w_file_noblank) /\
  records_of (parse_text w_file_blank) <> None /\
  exists f1 f2, exec_simple w_now w_cfg (Stop w_args (Some [b!"x"])) w_file_blank = COk f1 /\
                exec_simple w_now w_cfg (Stop w_args (Some [b!"x"])) w_file_noblank = COk f2 /\
                option_map (map (fun r => map e_summary (rec_entries r))) (records_of (parse_text f1)) = Some [[[b!" x"]]] /\
                option_map (map (fun r => map e_summary (rec_entries r))) (records_of (parse_text f2)) = Some [[[b!"x"]]].
Proof. exact trailing_blank_witness. Qed.
Print Assumptions C04_same_records_different_effect_refuted.

(* ---------- non-vacuity: a file, a history with all kinds of effects, the model's prediction, and the real run ---------- *)
Definition ex_t (h m : Z) : s_time := {| st_shift := 0; st_hh := h; st_pad := false; st_mm := m; st_clock := C24 |}.
Definition ex_doc : s_doc :=
  {| do_lead := [];
     do_records :=
       [ ({| sr_date := {| sd_year := 2020; sd_month := 1; sd_day := 1; sd_dash := true |};
             sr_should := None; sr_trail := []; sr_summary := []; sr_indent := I2;
             sr_entries := [ {| se_value := SDur {| du_sign := SNone; du_h := Some b!"1"; du_m := None |}; se_first := Some b!"read"; se_more := [] |};
                             {| se_value := SOpen (ex_t 8 0) 1 1 0; se_first := Some b!"work #klog"; se_more := [] |} ] |}, []) ];
     do_crlf := fun _ => false;
     do_final_newline := true |}.

Definition ex_cfg : config := {| cfg_round := None; cfg_should := Some 480; cfg_dashes := None; cfg_24h := None |}.
Definition ex_clock (day h m : Z) : Commands.clock := {| now_date := {| c_year := 2020; c_month := 1; c_day := day |}; now_h := h; now_m := m |}.
Definition ex_args : at_args := {| a_date := DDefault; a_time := None; a_round := None |}.

Definition ex_history : history :=
  [ (ex_clock 1 9 30, SPause None false false [30; 70; 10; 130]);                     (* a pause of 2 whole minutes, with a backwards jump *)
    (ex_clock 1 12 0, SStop ex_args (Some [b!"done"; b!"more"]));                     (* closed at 12:00, two summary lines added *)
    (ex_clock 2 8 15, SStart ex_args {| s_text := None; s_resume := true; s_nth := 0 |});   (* a new record, the summary resumed *)
    (ex_clock 2 9 0, STrack (DExplicit {| dt := {| c_year := 2019; c_month := 12; c_day := 31 |}; dt_dashes := false |})
                            {| se_value := SDur {| du_sign := SNone; du_h := None; du_m := Some b!"45" |}; se_first := None; se_more := [] |}) ].

Example ex_file_is_conforming : spec_state (render ex_doc) (do_records ex_doc).
Proof.
  apply C04_spec_files_exist; [vm_compute; reflexivity|].
  apply last_line_safe_terminated. intros pre l E. vm_compute in E.
  repeat (destruct pre as [|? pre]; [injection E as <-; discriminate|injection E as _ E]). destruct pre; discriminate E.
Qed.

Example ex_file : render ex_doc = b!"2020-01-01
  1h read
  8:00 - ? work #klog
".
Proof. vm_compute. reflexivity. Qed.

(* the model accepts the history ... *)
Example ex_model_accepts : exists rs', a_exec_history ex_cfg ex_history (denote_recs (do_records ex_doc)) = COk rs' /\ length rs' = 3%nat.
Proof. eexists. split; [vm_compute; reflexivity|reflexivity]. Qed.

(* ... and this is what the real commands make of the file *)
Example ex_run : exec_history ex_cfg ex_history (render ex_doc) = b!"2019/12/31 (8h!)
  45m

2020-01-01
  1h read
  8:00 - 12:00 work #klog done
    more
  -2m #klog

2020-01-02 (8h!)
  8:15 - ? #klog
".
Proof. vm_cast_no_check (@eq_refl bytes (exec_history ex_cfg ex_history (render ex_doc))). Qed.

(* the hypotheses of the one-step theorem are satisfiable: `stop -s ...` on the example file *)
Example ex_step_pre : step_pre (ex_clock 1 12 0) ex_cfg (SStop ex_args (Some [b!"done"; b!"more"])) (do_records ex_doc)
  /\ exists rs', a_exec (ex_clock 1 12 0) ex_cfg (SStop ex_args (Some [b!"done"; b!"more"])) (denote_recs (do_records ex_doc)) = COk rs'.
Proof.
  split; [|eexists; vm_compute; reflexivity].
  cbn [step_pre]. split; [|split; [|split]].
  - split; [reflexivity|exact I].
  - intros t H. discriminate H.
  - split; [split; reflexivity|reflexivity].
  - intros rg [<-|[]] se Hin Ho. cbn in Hin. destruct Hin as [<-|[<-|[]]]; [discriminate Ho|]. intros E. discriminate E.
Qed.

(* ... and those of the history theorem: a history of track and create (whose requirements do not depend on the file) *)
Definition ex_history2 : history :=
  [ (ex_clock 2 9 0, STrack DDefault {| se_value := SDur {| du_sign := SNone; du_h := None; du_m := Some b!"45" |}; se_first := Some b!"walk"; se_more := [b!"in the park"] |});
    (ex_clock 2 9 5, SCreate DTomorrow (Some 0) [b!"Public holiday"]);
    (ex_clock 2 9 9, STrack DYesterday {| se_value := SRange (ex_t 13 0) 0 0 (ex_t 14 30); se_first := None; se_more := [] |}) ].

Example ex_history2_pre : history_pre ex_cfg ex_history2 (render ex_doc).
Proof.
  assert (Hsh : should_fits (cfg_should ex_cfg)) by (unfold should_fits, ex_cfg, max_int64; cbn [cfg_should]; lia).
  unfold ex_history2. cbn [history_pre]. split; [|split; [|split; [|exact I]]]; intros recs _; cbn [step_pre].
  - split; [split; [reflexivity|exact I]|]. split; [exact Hsh|]. split; reflexivity.
  - split; [split; [reflexivity|exact I]|]. split; [unfold should_fits, max_int64; lia|]. split; reflexivity.
  - split; [split; [reflexivity|exact I]|]. split; [exact Hsh|]. split; reflexivity.
Qed.

Example ex_history2_model : exists rs', a_exec_history ex_cfg ex_history2 (denote_recs (do_records ex_doc)) = COk rs' /\ length rs' = 3%nat.
Proof. eexists. split; [vm_compute; reflexivity|reflexivity]. Qed.

(* a rejection: `start` on the example file, whose record has an open range *)
Example ex_start_rejected :
  a_exec (ex_clock 1 9 0) ex_cfg (SStart ex_args {| s_text := None; s_resume := false; s_nth := 0 |}) (denote_recs (do_records ex_doc)) = CErr CEManipulation
  /\ exec (ex_clock 1 9 0) ex_cfg (Start ex_args {| s_text := None; s_resume := false; s_nth := 0 |}) (render ex_doc) = (render ex_doc, CErr CEManipulation).
Proof. split; [vm_compute; reflexivity|]. vm_cast_no_check (@eq_refl (bytes * cresult unit) (render ex_doc, CErr CEManipulation)). Qed.

(* ---------- non-vacuity of the rejecting statements ---------- *)

(* track: a second open range on the example file (hypotheses of C04_track_rejects_second_open, and the real run) *)
Definition ex_open2 : s_entry := {| se_value := SOpen (ex_t 9 0) 1 1 0; se_first := Some b!"more work"; se_more := [] |}.

Example ex_track_second_open_pre :
  wf_entry ex_open2 = true /\ no_cr_lines (entry_arg ex_open2) /\ is_open (denote_entry ex_open2) = true /\
  existsb is_open (entries_before (now_date (ex_clock 1 9 0)) (denote_recs (do_records ex_doc))) = true /\
  entry_arg ex_open2 = [b!"9:00 - ? more work"].
Proof. repeat split; vm_compute; reflexivity. Qed.

Example ex_track_second_open_run :
  exec (ex_clock 1 9 0) ex_cfg (Track DDefault [b!"9:00 - ? more work"]) (render ex_doc) = (render ex_doc, CErr CEInvalidResult).
Proof. vm_cast_no_check (@eq_refl (bytes * cresult unit) (render ex_doc, CErr CEInvalidResult)). Qed.

(* track: `25:00 - 26:00` is a malformed value (C04_malformed_bad_time), a text `track` can be given, and rejected *)
Example ex_malformed : malformed_value b!"25:00 - 26:00 x" /\ raw_entry_ok b!"25:00 - 26:00 x" [b!"second line"].
Proof.
  split.
  - exact (C04_malformed_bad_time {| st_shift := 0; st_hh := 25; st_pad := false; st_mm := 0; st_clock := C24 |} b!" - 26:00 x"
             eq_refl eq_refl eq_refl).
  - repeat split; vm_compute; reflexivity.
Qed.

Example ex_track_malformed_run :
  exec (ex_clock 1 9 0) ex_cfg (Track DDefault (raw_entry_arg b!"25:00 - 26:00 x" [b!"second line"])) (render ex_doc)
  = (render ex_doc, CErr CEInvalidResult).
Proof. vm_cast_no_check (@eq_refl (bytes * cresult unit) (render ex_doc, CErr CEInvalidResult)). Qed.

(* the other families have members too *)
Example ex_malformed_families :
  malformed_value b!"8:00 9:00" /\ malformed_value b!"8:00 - 9:60" /\ malformed_value b!"8:00 - ?x" /\
  malformed_value b!"1h60m" /\ malformed_value b!"9:00 - 8:00".
Proof.
  split; [|split; [|split; [|split]]].
  - exact (C04_malformed_missing_dash (ex_t 8 0) 1 b!"9:00" eq_refl (conj eq_refl eq_refl) (fun H => ltac:(discriminate H))).
  - apply (C04_malformed_bad_end (ex_t 8 0) 1 1 b!"9:60" [] eq_refl eq_refl I (conj eq_refl eq_refl)).
    intros t H. vm_compute in H. discriminate H.
  - exact (C04_malformed_bad_placeholder (ex_t 8 0) 1 1 b!"x" [] eq_refl eq_refl I eq_refl).
  - exact (C04_malformed_minutes_overflow {| du_sign := SNone; du_h := Some b!"1"; du_m := Some b!"60" |} [] eq_refl I).
  - apply (C04_malformed_reversed_range (ex_t 9 0) 1 1 (ex_t 8 0) [] eq_refl eq_refl); [vm_compute; reflexivity|exact I].
Qed.

(* pause: no record of today or yesterday; a record without open range; --extend without a pause entry *)
Definition ex_doc_closed : s_doc :=
  {| do_lead := [];
     do_records :=
       [ ({| sr_date := {| sd_year := 2020; sd_month := 1; sd_day := 1; sd_dash := true |};
             sr_should := None; sr_trail := []; sr_summary := []; sr_indent := I2;
             sr_entries := [ {| se_value := SDur {| du_sign := SNone; du_h := Some b!"1"; du_m := None |}; se_first := Some b!"read"; se_more := [] |} ] |}, []) ];
     do_crlf := fun _ => false;
     do_final_newline := true |}.

Example ex_closed_is_conforming : spec_state (render ex_doc_closed) (do_records ex_doc_closed).
Proof.
  apply C04_spec_files_exist; [vm_compute; reflexivity|].
  apply last_line_safe_terminated. intros pre l E. vm_compute in E.
  repeat (destruct pre as [|? pre]; [injection E as <-; discriminate|injection E as _ E]). destruct pre; discriminate E.
Qed.

Example ex_pause_no_record :
  pause_target (now_date (ex_clock 5 9 0)) {| c_year := 2020; c_month := 1; c_day := 4 |} (denote_recs (do_records ex_doc)) = None /\
  exec (ex_clock 5 9 0) ex_cfg (Pause None false false [60]) (render ex_doc) = (render ex_doc, CErr CENoSuchRecord).
Proof. split; [vm_compute; reflexivity|]. vm_cast_no_check (@eq_refl (bytes * cresult unit) (render ex_doc, CErr CENoSuchRecord)). Qed.

Example ex_pause_no_open :
  (exists r, pause_target (now_date (ex_clock 1 9 0)) {| c_year := 2019; c_month := 12; c_day := 31 |} (denote_recs (do_records ex_doc_closed)) = Some 0%nat /\
             nth_error (denote_recs (do_records ex_doc_closed)) 0 = Some r /\ existsb is_open (rec_entries r) = false) /\
  exec (ex_clock 1 9 0) ex_cfg (Pause None false false [60]) (render ex_doc_closed) = (render ex_doc_closed, CErr CEManipulation).
Proof.
  split; [eexists; repeat split; vm_compute; reflexivity|].
  vm_cast_no_check (@eq_refl (bytes * cresult unit) (render ex_doc_closed, CErr CEManipulation)).
Qed.

Example ex_pause_extend_no_pause :
  (exists r, nth_error (denote_recs (do_records ex_doc)) 0 = Some r /\ existsb is_pause (rec_entries r) = false) /\
  exec (ex_clock 1 9 0) ex_cfg (Pause None false true [60]) (render ex_doc) = (render ex_doc, CErr CEManipulation).
Proof.
  split; [eexists; split; vm_compute; reflexivity|].
  vm_cast_no_check (@eq_refl (bytes * cresult unit) (render ex_doc, CErr CEManipulation)).
Qed.

Example ex_pause_flags :
  exec (ex_clock 1 9 0) ex_cfg (Pause (Some [b!"x"]) false true [60]) (render ex_doc) = (render ex_doc, CErr CEFlags).
Proof. exact (C04_pause_flags_rejects _ _ _ _ _ _). Qed.

(* a history with a rejected step: the hypotheses of C04_history_total_partial, the model's verdict, the real run *)
Definition ex_history3 : history :=
  [ (ex_clock 1 9 0, STrack DDefault ex_open2);                                           (* rejected: second open range *)
    (ex_clock 1 9 5, SCreate DTomorrow (Some 0) [b!"Public holiday"]);
    (ex_clock 1 9 9, STrack DYesterday {| se_value := SRange (ex_t 13 0) 0 0 (ex_t 14 30); se_first := None; se_more := [] |}) ].

Example ex_history3_pre : history_full_pre ex_cfg ex_history3 (render ex_doc).
Proof.
  assert (Hsh : should_fits (cfg_should ex_cfg)) by (unfold should_fits, ex_cfg, max_int64; cbn [cfg_should]; lia).
  unfold ex_history3. cbn [history_full_pre]. split; [|split; [|split; [|exact I]]]; intros recs _; cbn [step_pre].
  - split; [split; [reflexivity|exact I]|]. split; [exact Hsh|]. split; reflexivity.
  - split; [split; [reflexivity|exact I]|]. split; [unfold should_fits, max_int64; lia|]. split; reflexivity.
  - split; [split; [reflexivity|exact I]|]. split; [exact Hsh|]. split; reflexivity.
Qed.

Example ex_history3_model :
  snd (a_history_full ex_cfg ex_history3 (denote_recs (do_records ex_doc))) = [CErr CEInvalidResult; COk tt; COk tt] /\
  length (fst (a_history_full ex_cfg ex_history3 (denote_recs (do_records ex_doc)))) = 3%nat.
Proof. split; vm_compute; reflexivity. Qed.

Example ex_history3_run : snd (exec_history_full ex_cfg ex_history3 (render ex_doc)) = [CErr CEInvalidResult; COk tt; COk tt].
Proof. vm_cast_no_check (@eq_refl (list (cresult unit)) [CErr CEInvalidResult; COk tt; COk tt]). Qed.

(* an accepted file that is no rendering of a specification document (a tab after the value), and its conforming equivalent *)
Example ex_accepted :
  exists rs bs, parse_text (b!"2020-01-01
  1h" ++ [9%N] ++ b!"read
") = Ok (Parsed rs bs) /\ no_trailing_cr rs = true /\ print_records rs = b!"2020-01-01
    1h read
".
Proof. eexists. eexists. split; [vm_compute; reflexivity|]. split; vm_compute; reflexivity. Qed.
