"""C07 — the parallel parser is indistinguishable from the serial parser."""
import sys, os
sys.path.insert(0, os.path.dirname(os.path.dirname(os.path.abspath(__file__))))
from check import Suite
import specgen
from props.parsing import *

def texts(tier, rng, n):
    out = []
    for d in docs(rng, n, max_records=4, max_entries=3):
        b = d.render()
        out.append(b)
        if rng.random() < 0.5:
            f = specgen.inject_fault(d, rng)
            if f: out.append(f[0])
        if rng.random() < 0.3:
            out.append(mutate(rng, b))
        if rng.random() < 0.25:
            # a byte order mark / zero-width character in front of some line (e.g. files concatenated with `cat`)
            lines = b.split(b"\n")
            i = rng.randrange(len(lines))
            lines[i] = rng.choice([b"\xef\xbb\xbf", b"\xe2\x80\x8b", b"\xef\xbb\xbf\xef\xbb\xbf"]) + lines[i]
            out.append(b"\n".join(lines))
    # many records, many of them malformed (limits, budgets and per-worker state show only beyond a handful of errors/blocks)
    for _ in range(max(6, n // 25)):
        recs = []
        for i in range(rng.choice([12, 16, 25, 40])):
            k = rng.random()
            day = "2020-%02d-%02d" % (rng.randint(1, 12), rng.randint(1, 28))
            if k < 0.45: recs.append(day.replace("-", "-1", 1)[:3] + day[3:].replace("-", "-13-", 1)[:8] + "\n    1h\n")       # month 13x: invalid date
            elif k < 0.6: recs.append(day + "\n    8:00 - 7:00\n")
            elif k < 0.7: recs.append(day + " oops\n")
            elif k < 0.76: recs.append(day + "\n   1h\n      x\n     2h\n")
            elif k < 0.84: recs.append(day + "\n    8:00 - ?\n    1h\n    9:00-? again\n")        # a second open range (its message names lines)
            else: recs.append(day + "\n    %dm text\n" % rng.randint(1, 300))
        out.append(rng.choice(["\n", "\n\n", "\r\n"]).join(recs).encode())
    out += [b"", b"\n", b"\n\n\n", b"a", b"2020-01-01", b"2020-01-01\n\n2020-01-02\r\n\r\n\r\n2020-01-03\n    1h \xe8\xaa\xad\n\n", b"2020-01-01\nfoo\xc3bar baz qux\n\n2020-01-02\n    1h\n",
            "2020-01-01\n    1h 読む読む読む読む\n  \n \t\n2020-01-02\n".encode(), b"\xff\xfe\n\n\x80\x80\x80\n"]
    return out

def gen_par(tier, rng):
    out = []
    n = 400 if tier == "quick" else 30000
    for b in texts(tier, rng, n):
        L = len(b)
        if tier == "quick":
            ws = sorted(set([1, 2, 3, 4, 5, 7, 8, 16, max(1, L // 3), L, L + 1, L + 2] + [rng.randint(1, L + 2) for _ in range(6)]))
        else:
            ws = range(1, L + 3) if L <= 200 else sorted(set([1, 2, 3, 5, 8, 13, 64, L, L + 2] + [rng.randint(1, L + 2) for _ in range(30)]))
        for w in ws:
            if w < 1: continue
            for _ in range(3 if w in (2, 3, 4, 5) else 1):
                out.append("par %d %d %s" % (w, rng.randrange(1 << 30), b.hex() if b else "-"))
    return out

def oracle_par(req, out):
    if out.startswith("same "):
        return None
    if out.startswith("?") or out.startswith("crash"):
        return "the parallel parser crashed (a worker panic kills the process)"
    return "parallel and serial parser disagree: " + out[:160]

def gen_chunks(tier, rng):
    out = []
    for b in texts(tier, rng, 60 if tier == "quick" else 2000):
        for w in sorted(set([1, 2, 3, 4, 7, len(b), len(b) + 1] + [rng.randint(1, len(b) + 2) for _ in range(4)])):
            if w >= 1: out.append("chunks %d %s" % (w, b.hex() if b else "-"))
    return out

def oracle_chunks(req, out):
    _, n, h = req.split(" ")
    b = unhx(h)
    cs = [unhx(c) for c in out.split(" ")]
    if len(cs) != int(n): return "wrong number of chunks"
    if b"".join(cs) != b: return "chunks do not concatenate to the text"
    return None

def gen_cpus(tier, rng):
    out = []
    for b in texts(tier, rng, 60 if tier == "quick" else 3000):
        if len(b) < 4000:
            out.append("cpus-all " + (b.hex() if b else "-"))
    return out

def oracle_cpus(req, out):
    return None if out.startswith("same ") else "a command behaves differently depending on the number of CPUs: " + out[:120]

def suites():
    return [
        Suite("equivalence", gen_par, oracle=oracle_par,
              rule="conforming, faulted and mutated documents x worker counts (1..len+2: all for short texts in thorough) x forced arrival orders (hook) ; non-trivial = text with >= 1 block",
              nontrivial=lambda r, o: " R " in o or o.startswith("same errors")),
        Suite("commands-cpus", gen_cpus, oracle=oracle_cpus, model=False,
              rule="every read-only command (and `track`) run through the CLI with 1, 2, 3, 7, 64 CPUs on conforming, faulted and mutated documents: exit code, stdout, error text and written file must be identical",
              nontrivial=lambda r, o: o.startswith("same")),
        Suite("chunks", gen_chunks, oracle=oracle_chunks,
              rule="splitIntoChunks: n chunks that concatenate to the text, cut only at rune starts",
              nontrivial=lambda r, o: len(o) > 4),
    ]
