(* C12 - all evaluation views partition the same total.
   Statements only; the proofs are in Proofs/Report.v. Model: Model/Report.v (klog report / total / today /
   print --with-totals), on top of Model/Eval.v (totals with safemath overflow as Crash) and Model/Period.v (hashes).

   Vocabulary (Proofs/Report.v):
     rdate r            the record's date;  vrec r: it is a valid date 0000-01-01..9999-12-31 (true of every parsed
                        record: C12_parsed_records_valid)
     pk a d             the calendar period of kind a containing d, as a number growing with time: day number / day number
                        of the Monday of the ISO week / 12*year+month / 4*year+quarter / year.  C12_period_key_is_klog_period
                        ties it to Period() of klog/service/period: same key <-> between since and until
     spec_total, spec_should   plain integer sums (Proofs/Eval.v); cells_spec df l = (total, should, total - should) of l
     views_guard rs     the int64 guard, stated exactly: sum of |minutes| of all entries + sum of |should-totals| <= 2^63-1
                        (beyond it klog panics: known finding K1)
     apply_now          --now: closing open ranges at the instant (Model/Eval.v close_open_ranges); rs' are the records after it
     period_cells a df rs d    what a row must show: None if no record of rs lies in the period of d, otherwise the cells of
                        exactly the records of rs whose date lies in that period

   All theorems hold for every aggregation a in {day, week, month, quarter, year}, fill, diff and now flag. *)
From Klog Require Import Base.Prelude Model.Calendar Model.Values Model.Record Model.Lines Model.Parser Model.Eval Model.Period
  Model.Tags Model.Query Model.Report Proofs.Calendar Proofs.Period Proofs.Eval Proofs.Report.
From Coq Require Import Permutation Sorted.
Open Scope Z_scope.

(* ---- 1. groupByDate: the groups are a partition of the records by calendar period ---- *)
Theorem C12_groups_partition : forall a s, Forall vrec s ->
  exists hs, map_outcome (fun r => agg_hash a (rdate r)) s = Ok hs /\
  let gs := group_by_date (combine hs s) in
  Permutation (List.concat (map g_recs gs)) s /\
  (forall g r, In g gs -> (In r (g_recs g) <-> In r s /\ pk a (rdate r) = pk a (g_date g))) /\
  (forall g g', In g gs -> In g' gs -> pk a (g_date g) = pk a (g_date g') -> g = g') /\
  (forall g, In g gs -> g_recs g <> [] /\ valid (g_date g) /\ agg_hash a (g_date g) = Ok (g_hash g)).
Proof. exact groups_partition. Qed.
Print Assumptions C12_groups_partition.

(* the period key is klog's own notion of period (week/month/quarter/year .Period()): two valid dates have the same
   key exactly when the second lies between since and until of the first's period. For days the key is the date. *)
Theorem C12_period_key_is_klog_period : forall a k x y, kind_of a = Some k -> valid x -> valid y -> ~ period_edge k x ->
  (pk a x = pk a y <-> exists s u, period_of k x = Ok (s, u) /\ days_of s <= days_of y <= days_of u).
Proof. exact pk_period_range. Qed.
Print Assumptions C12_period_key_is_klog_period.

Theorem C12_period_key_day : forall x y, valid x -> valid y -> (pk ADay x = pk ADay y <-> x = y).
Proof. exact pk_day. Qed.
Print Assumptions C12_period_key_day.

(* ---- 2. rows sum to the grand total = klog total; filled gaps contribute nothing ---- *)
Theorem C12_rows_sum : forall a fill df now_flag today h m rs rs',
  rs <> [] -> Forall vrec rs -> apply_now now_flag today h m rs = Ok rs' -> views_guard rs' ->
  exists rep, report_cmd a fill df now_flag today h m rs = Ok (Some rep) /\
    zsum (map row_total (rep_rows rep)) = c_total (rep_grand rep) /\
    rep_grand rep = cells_spec df rs' /\
    total_cmd now_flag today h m rs
      = Ok (spec_total rs', spec_should rs', spec_total rs' - spec_should rs', Z.of_nat (length rs')) /\
    (df = true -> zsum (map row_should (rep_rows rep)) = spec_should rs' /\
                  zsum (map row_diff (rep_rows rep)) = spec_total rs' - spec_should rs') /\
    Forall (fun row => row_cells row = None ->
              row_total row = 0 /\ forall r, In r rs' -> pk a (rdate r) <> pk a (row_date row)) (rep_rows rep) /\
    (fill = false -> Forall (fun row => row_cells row <> None) (rep_rows rep)).
Proof. exact rows_sum. Qed.
Print Assumptions C12_rows_sum.

(* every record contributes to exactly one row, the one whose calendar period contains its date; and a row shows
   exactly the records of its period *)
Theorem C12_rows_partition : forall a fill df now_flag today h m rs rs',
  rs <> [] -> Forall vrec rs -> apply_now now_flag today h m rs = Ok rs' -> views_guard rs' ->
  exists rep, report_cmd a fill df now_flag today h m rs = Ok (Some rep) /\
    (forall r, In r rs' -> exists row, In row (rep_rows rep) /\ pk a (row_date row) = pk a (rdate r) /\
       forall row', In row' (rep_rows rep) -> pk a (row_date row') = pk a (rdate r) -> row' = row) /\
    Forall (fun row => valid (row_date row) /\ row_cells row = period_cells a df rs' (row_date row)) (rep_rows rep).
Proof. exact rows_partition. Qed.
Print Assumptions C12_rows_partition.

(* ---- 3. rows are in strictly chronological order of their periods; with --fill there is a row for every period
        between two records, and never a row outside the first and last record's dates ---- *)
Theorem C12_rows_chronological : forall a fill df now_flag today h m rs rs',
  rs <> [] -> Forall vrec rs -> apply_now now_flag today h m rs = Ok rs' -> views_guard rs' ->
  exists rep, report_cmd a fill df now_flag today h m rs = Ok (Some rep) /\
    StronglySorted Z.lt (map (fun row => pk a (row_date row)) (rep_rows rep)) /\
    Forall (fun row => exists r1 r2, In r1 rs' /\ In r2 rs' /\
              days_of (rdate r1) <= days_of (row_date row) <= days_of (rdate r2)) (rep_rows rep) /\
    (fill = true -> forall r1 r2 d, In r1 rs' -> In r2 rs' -> valid d ->
       days_of (rdate r1) <= days_of d <= days_of (rdate r2) ->
       exists row, In row (rep_rows rep) /\ pk a (row_date row) = pk a d).
Proof. exact rows_chronological. Qed.
Print Assumptions C12_rows_chronological.

(* the later dates lie in the same or a later period, so "chronological" above is the order of the dates *)
Theorem C12_period_key_monotone : forall a x y, valid x -> valid y -> days_of x <= days_of y -> pk a x <= pk a y.
Proof. exact pk_mono. Qed.
Print Assumptions C12_period_key_monotone.

(* sorting. The model sorts by stable insertion; Go's sort.Slice is not stable and klog's comparator is not strict.
   Whatever order a sorting algorithm leaves among records of equal date - any sorted permutation s of the records -
   the report is the same. (That pdqsort returns a sorted permutation is checked by the correspondence, DESIGN 6.) *)
Theorem C12_sort_spec : forall rs, Forall vrec rs -> Permutation (sort_by_date rs) rs /\ sorted (sort_by_date rs).
Proof. exact sort_spec. Qed.
Print Assumptions C12_sort_spec.

Theorem C12_sort_order_irrelevant : forall a fill df rs s,
  Forall vrec rs -> views_guard rs -> Permutation rs s -> sorted s ->
  report_sorted a fill df s = report_sorted a fill df (sort_by_date rs).
Proof. exact report_sort_invariant. Qed.
Print Assumptions C12_sort_order_irrelevant.

(* ---- 4. klog today splits the same total into current-day and other records ---- *)
Theorem C12_today_partition : forall today yesterday rs cur other isy,
  split_today today yesterday rs = (cur, other, isy) ->
  Permutation (cur ++ other) rs /\
  (forall r, In r cur <-> In r rs /\ rdate r = (if isy then yesterday else today)) /\
  (isy = true -> forall r, In r rs -> rdate r <> today) /\
  (cur = [] -> forall r, In r rs -> rdate r <> today /\ rdate r <> yesterday).
Proof. exact today_split_spec. Qed.
Print Assumptions C12_today_partition.

(* guard: as views_guard with room for the clock reading that the end-time adds (at most 23:59 = 1439 minutes) *)
Theorem C12_today_totals : forall now_flag today yesterday h m rs rs',
  valid_clock h m -> plus_days today (-1) = Ok yesterday ->
  apply_now now_flag today h m rs = Ok rs' -> gsize rs' + 1439 <= max64 ->
  exists v cur other,
    today_cmd now_flag today h m rs = Ok v /\
    split_today today yesterday rs' = (cur, other, tv_yesterday v) /\
    Permutation (cur ++ other) rs' /\
    tv_has_current v = negb (match cur with [] => true | _ => false end) /\
    tv_current v = triple cur /\ tv_other v = triple other /\
    tv_all v = add3 (tv_current v) (tv_other v) /\
    tv_all v = triple rs'.
Proof. exact today_cmd_spec. Qed.
Print Assumptions C12_today_totals.

(* ---- print --with-totals: per entry entry_minutes, per record their sum = total [r]; the records add up to klog total ---- *)
Theorem C12_with_totals_sum : forall rs, abs_fit rs ->
  exists l, with_totals rs = Ok l /\
    l = map (fun r => (rec_total r, map entry_minutes (rec_entries r))) rs /\
    Forall2 (fun r p => total [r] = Ok (fst p) /\ snd p = map entry_minutes (rec_entries r) /\ fst p = zsum (snd p)) rs l /\
    zsum (map fst l) = spec_total rs /\
    total rs = Ok (zsum (map fst l)).
Proof. exact with_totals_spec. Qed.
Print Assumptions C12_with_totals_sum.

(* ---- the hypothesis "Forall vrec" holds of everything the parser returns ---- *)
Theorem C12_parsed_records_valid : forall s rs bs, parse_text s = Ok (Parsed rs bs) -> Forall vrec rs.
Proof. exact parsed_records_valid. Qed.
Print Assumptions C12_parsed_records_valid.

(* ---- "for every valid input and filter": klog report / total / print apply FilterArgs.ApplyFilter (Model/Query.v
        filter_records, property C13) before anything else; what it returns again carries valid dates, so every
        theorem above holds verbatim with `filter_records q rs` in place of rs ---- *)
Theorem C12_filtered_input : forall q rs, Forall vrec rs -> Forall vrec (filter_records q rs).
Proof. exact filter_records_vrec. Qed.
Print Assumptions C12_filtered_input.

(* ================= non-vacuity: concrete records satisfy the hypotheses, and the model computes ================= *)

Definition ex_date (y m d : Z) : date := {| dt := {| c_year := y; c_month := m; c_day := d |}; dt_dashes := true |}.
Definition ex_dur (m : Z) : entry := {| e_value := VDuration (mk_dur m); e_summary := [] |}.
Definition ex_time (h m : Z) : time := {| t_hour := h; t_min := m; t_shift := 0; t_24h := true |}.
Definition ex_open (h m : Z) : entry :=
  {| e_value := VOpen {| o_start := ex_time h m; o_spaces := true; o_extra := 0 |}; e_summary := [] |}.
Definition ex_rec (d : date) (sh : option Z) (es : list entry) : record :=
  {| rec_date := d; rec_should := sh; rec_summary := []; rec_entries := es |}.

(* unsorted, a duplicate date, a negative total, around New Year 2020/21: Thu 2020-12-31 and Fri 2021-01-01 lie in ISO week
   2020-W53, Mon 2021-01-04 in 2021-W1; 2021-01-04 carries an open range *)
Definition ex_rs : list record :=
  [ ex_rec (ex_date 2021 1 4) (Some 480) [ex_dur 60; ex_open 9 0];
    ex_rec (ex_date 2020 12 31) None [ex_dur (-30)];
    ex_rec (ex_date 2021 1 1) (Some 60) [ex_dur 45; ex_dur 15];
    ex_rec (ex_date 2020 12 31) None [ex_dur 100];
    ex_rec (ex_date 2020 12 20) None [ex_dur 5] ].
Definition ex_today : cdate := {| c_year := 2021; c_month := 1; c_day := 4 |}.

Example C12_ex_hypotheses :
  ex_rs <> [] /\ Forall vrec ex_rs /\ views_guard ex_rs /\ abs_fit ex_rs /\ valid_clock 10 30 /\
  plus_days ex_today (-1) = Ok {| c_year := 2021; c_month := 1; c_day := 3 |} /\
  exists rs', apply_now true ex_today 10 30 ex_rs = Ok rs' /\ views_guard rs' /\ gsize rs' + 1439 <= max64 /\ spec_total rs' = 285.
Proof.
  split; [discriminate|]. split; [repeat constructor|]. split; [vm_compute; discriminate|]. split; [vm_compute; discriminate|].
  split; [unfold valid_clock; lia|]. split; [reflexivity|].
  eexists. split; [vm_compute; reflexivity|]. split; [vm_compute; discriminate|]. split; [vm_compute; discriminate|]. reflexivity.
Qed.

(* klog report --aggregate week --fill --diff --now at 2021-01-04 10:30: rows 2020-W51 (5), W52 (empty), W53 (130), 2021-W1 (150) *)
Example C12_ex_report :
  report_cmd AWeek true true true ex_today 10 30 ex_rs
  = Ok (Some {| rep_rows :=
                  [ {| row_date := {| c_year := 2020; c_month := 12; c_day := 20 |}; row_cells := Some {| c_total := 5; c_sd := Some (0, 5) |} |};
                    {| row_date := {| c_year := 2020; c_month := 12; c_day := 21 |}; row_cells := None |};
                    {| row_date := {| c_year := 2020; c_month := 12; c_day := 28 |}; row_cells := Some {| c_total := 130; c_sd := Some (60, 70) |} |};
                    {| row_date := {| c_year := 2021; c_month := 1; c_day := 4 |}; row_cells := Some {| c_total := 150; c_sd := Some (480, -330) |} |} ];
                rep_grand := {| c_total := 285; c_sd := Some (540, -255) |} |}).
Proof. vm_compute. reflexivity. Qed.

Example C12_ex_today :
  exists v, today_cmd true ex_today 10 30 ex_rs = Ok v /\ tv_yesterday v = false /\
            tv_current v = (150, 480, -330) /\ tv_other v = (135, 60, 75) /\ tv_all v = (285, 540, -255).
Proof. eexists. split; [vm_compute; reflexivity|]. repeat split. Qed.

Example C12_ex_with_totals :
  with_totals ex_rs = Ok [(60, [60; 0]); (-30, [-30]); (60, [45; 15]); (100, [100]); (5, [5])].
Proof. vm_compute. reflexivity. Qed.

(* the guard is needed: beyond it klog total panics and no view partitions anything (K1) *)
Example C12_ex_overflow :
  let big := ex_rec (ex_date 2020 1 1) None [ex_dur 9223372036854775807; ex_dur 1] in
  ~ views_guard [big] /\ report_cmd ADay false false false ex_today 10 30 [big] = Crash CIntegerOverflow.
Proof. split; [vm_compute; intros H; apply H; reflexivity|vm_compute; reflexivity]. Qed.
