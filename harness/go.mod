module verifharness

go 1.24

require github.com/jotaen/klog v0.0.0

require (
	cloud.google.com/go v0.118.2 // indirect
	github.com/jotaen/safemath v0.0.1 // indirect
)

replace github.com/jotaen/klog => /repo
