(* C16 — dates, times, durations and ranges: exact text round trip and exact arithmetic.
   Property theorems only; each is closed by [exact <lemma>] and followed by Print Assumptions. *)
From Klog Require Import Base.Prelude Model.Calendar Model.Values Proofs.Values.
Open Scope Z_scope.

(* the offset of a time is 1440*shift + 60*hour + minute (the Go code builds the yesterday case from -23/-60) *)
Theorem C16_offset_spec : forall t, time_offset t = 1440 * shift_of t + 60 * t_hour t + t_min t.
Proof. exact offset_spec. Qed.
Print Assumptions C16_offset_spec.

(* writing a time out and reading it back yields the same value and notation — all 8,640 times *)
Theorem C16_time_roundtrip : forall t, valid_time t -> parse_time (print_time t) = Ok t.
Proof. exact time_roundtrip. Qed.
Print Assumptions C16_time_roundtrip.

(* adding a duration: the time that many minutes later when within [-1440, 2880), an error otherwise *)
Theorem C16_plus_spec : forall t d, valid_time t -> sm_ok d = true -> sm_ok (time_offset t + d) = true ->
  let m := time_offset t + d in
  (-1440 <= m < 2880 -> exists t', time_plus t d = Ok t' /\ valid_time t' /\ time_offset t' = m /\ t_24h t' = t_24h t) /\
  (~ (-1440 <= m < 2880) -> time_plus t d = Err EImpossibleOperation).
Proof. exact plus_spec. Qed.
Print Assumptions C16_plus_spec.

(* the int64 guard of C16_plus_spec is exact: beyond it Time.Plus panics instead of returning an error (K6) *)
Theorem C16_plus_overflow_refuted : exists t d, valid_time t /\ sm_ok d = true /\ time_plus t d = Crash CIntegerOverflow.
Proof. exists {| t_hour := 0; t_min := 1; t_shift := 0; t_24h := true |}, max_int64.
  split; [unfold valid_time; simpl; lia | split; [reflexivity | exact plus_overflow_crash]]. Qed.
Print Assumptions C16_plus_overflow_refuted.

(* a range is valid exactly when its end is not before its start, and lasts end minus start minutes *)
Theorem C16_range_spec : forall a b sp,
  (exists r, new_range a b sp = Ok r /\ range_minutes r = time_offset b - time_offset a /\ r_start r = a /\ r_end r = b)
  <-> time_offset a <= time_offset b.
Proof. exact range_spec. Qed.
Print Assumptions C16_range_spec.

(* non-vacuity: a concrete shifted 12-hour time meets the hypotheses *)
Example C16_nonvacuous :
  valid_time {| t_hour := 23; t_min := 30; t_shift := -1; t_24h := false |} /\ sm_ok 90 = true.
Proof. unfold valid_time; simpl; split; [lia | reflexivity]. Qed.
