(* Suite "parallel" (C07). *)
From Klog Require Import Base.Prelude Base.Utf8 Model.Values Model.Record Model.Lines Model.Parser Model.Parallel
  Model.Show Model.ShowRecord.
Open Scope Z_scope.

Definition show_full (r : outcome parse_result) : bytes :=
  words [show_parse_result r; b!"|";
         match r with Ok (Parsed _ bs) => show_blocks bs | _ => b!"-" end].

Definition suite_parallel (cmd : bytes) (args : list bytes) : option bytes :=
  if bytes_eqb cmd b!"par" then
    match args with
    | [n; _seed; s] =>
      let text := arg_bytes s in
      let nw := Z.to_nat (parse_int n) in
      let p := show_full (par_parse text nw (rev (seq 0 nw))) in
      let q := show_full (parse_text text) in
      Some (words [if bytes_eqb p q then b!"same" else b!"differs"; p])
    | _ => None
    end
  else if bytes_eqb cmd b!"chunks" then
    match args with
    | [n; s] => Some (words (map hex_of_bytes (split_into_chunks (arg_bytes s) (Z.to_nat (parse_int n)))))
    | _ => None
    end
  else None.
