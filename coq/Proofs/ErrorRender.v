(* Lemmas about Model/ErrorRender.v (C10, C06): the exact guard under which the terminal rendering of a parsing
   error does not panic, what it shows, that the JSON view shows the same positions, and that every error the
   parser reports satisfies the guard. *)
From Klog Require Import Base.Prelude Base.Utf8 Model.Lines Model.Parser Model.ErrorRender.
From Klog Require Import Proofs.Lines Proofs.Parser.
From Coq Require Import ZifyBool.
Open Scope Z_scope.

(* ================= the guard, exactly ================= *)

Definition triple_ok (b : block) (line pos len : Z) : Prop :=
  0 <= line < Z.of_nat (length (b_lines b)) /\ 0 <= pos /\ 0 <= len.

Lemma line_text_ok b line : 0 <= line < Z.of_nat (length (b_lines b)) ->
  exists l, nth_error (b_lines b) (Z.to_nat line) = Some l /\ line_text b line = Ok (l_text l).
Proof.
  intros H. unfold line_text. destruct (line <? 0) eqn:E; [lia|].
  destruct (nth_error (b_lines b) (Z.to_nat line)) as [l|] eqn:En.
  - exists l. split; reflexivity.
  - apply nth_error_None in En. lia.
Qed.

Lemma line_text_crash b line : ~ (0 <= line < Z.of_nat (length (b_lines b))) ->
  line_text b line = Crash CIndexOutOfRange.
Proof.
  intros H. unfold line_text. destruct (line <? 0) eqn:E; [reflexivity|].
  destruct (nth_error (b_lines b) (Z.to_nat line)) as [l|] eqn:En; [|reflexivity].
  assert (Z.to_nat line < length (b_lines b))%nat by (apply nth_error_Some; congruence). lia.
Qed.

(* what the terminal shows when nothing panics *)
Definition shown (b : block) (l : line) (line pos len : Z) : term_view :=
  {| tv_line_number := line_number b line;
     tv_quoted := render_indent ++ replace_tabs (l_text l);
     tv_caret_row := render_indent ++ repeat 32%N (Z.to_nat pos) ++ repeat 94%N (Z.to_nat len) |}.

Lemma render_terminal_ok b line pos len : triple_ok b line pos len ->
  exists l, nth_error (b_lines b) (Z.to_nat line) = Some l /\
            render_terminal b line pos len = Ok (shown b l line pos len).
Proof.
  intros (Hl & Hp & Hn). destruct (line_text_ok b line Hl) as (l & Hnth & Ht).
  exists l. split; [exact Hnth|]. unfold render_terminal, go_repeat. rewrite Ht. cbn [bind].
  destruct (pos <? 0) eqn:E1; [lia|]. cbn [bind]. destruct (len <? 0) eqn:E2; [lia|]. reflexivity.
Qed.

(* the three ways it panics, in the order Go evaluates the arguments *)
Lemma render_terminal_crash b line pos len :
  (~ (0 <= line < Z.of_nat (length (b_lines b))) -> render_terminal b line pos len = Crash CIndexOutOfRange) /\
  (0 <= line < Z.of_nat (length (b_lines b)) -> pos < 0 -> render_terminal b line pos len = Crash CNegativeRepeat) /\
  (0 <= line < Z.of_nat (length (b_lines b)) -> len < 0 -> render_terminal b line pos len = Crash CNegativeRepeat).
Proof.
  unfold render_terminal, go_repeat. split; [|split].
  - intros H. rewrite (line_text_crash b line H). reflexivity.
  - intros H Hp. destruct (line_text_ok b line H) as (l & _ & ->). cbn [bind].
    destruct (pos <? 0) eqn:E; [reflexivity|lia].
  - intros H Hn. destruct (line_text_ok b line H) as (l & _ & ->). cbn [bind].
    destruct (pos <? 0) eqn:E; [reflexivity|]. cbn [bind]. destruct (len <? 0) eqn:E2; [reflexivity|lia].
Qed.

Theorem render_terminal_ok_iff b line pos len :
  (exists tv, render_terminal b line pos len = Ok tv) <-> triple_ok b line pos len.
Proof.
  split.
  - intros [tv H]. destruct (render_terminal_crash b line pos len) as (C1 & C2 & C3).
    unfold triple_ok.
    assert (Hl : 0 <= line < Z.of_nat (length (b_lines b))).
    { destruct (Z_lt_le_dec line 0) as [Hneg|Hnn];
        [rewrite C1 in H by lia; discriminate|].
      destruct (Z_lt_le_dec line (Z.of_nat (length (b_lines b)))) as [Hlt|Hge]; [lia|].
      rewrite C1 in H by lia. discriminate. }
    split; [exact Hl|]. split.
    + destruct (Z_lt_le_dec pos 0) as [Hneg|Hnn]; [rewrite (C2 Hl Hneg) in H; discriminate|lia].
    + destruct (Z_lt_le_dec len 0) as [Hneg|Hnn]; [rewrite (C3 Hl Hneg) in H; discriminate|lia].
  - intros H. destruct (render_terminal_ok b line pos len H) as (l & _ & E). eexists; exact E.
Qed.

Theorem render_terminal_never_err b line pos len e : render_terminal b line pos len <> Err e.
Proof.
  destruct (render_terminal_crash b line pos len) as (C1 & C2 & C3).
  destruct (Z_lt_le_dec line 0) as [Hneg|Hnn]; [rewrite C1 by lia; discriminate|].
  destruct (Z_lt_le_dec line (Z.of_nat (length (b_lines b)))) as [Hlt|Hge]; [|rewrite C1 by lia; discriminate].
  destruct (Z_lt_le_dec pos 0) as [Hp|Hp]; [rewrite C2 by lia; discriminate|].
  destruct (Z_lt_le_dec len 0) as [Hn|Hn]; [rewrite C3 by lia; discriminate|].
  destruct (render_terminal_ok b line pos len) as (l & _ & E); [unfold triple_ok; lia|]. rewrite E. discriminate.
Qed.

(* ================= reading the caret row ================= *)

Lemma count_while_spaces_carets n m :
  count_while (fun c => (c =? 32)%N) (repeat 32%N n ++ repeat 94%N m) = n.
Proof.
  induction n as [|n IH]; cbn [repeat app count_while].
  - destruct m; reflexivity.
  - cbn. rewrite IH. reflexivity.
Qed.

Lemma filter_repeat_same (p : N -> bool) c n : p c = true -> filter p (repeat c n) = repeat c n.
Proof. intros H. induction n as [|n IH]; cbn [repeat filter]; [reflexivity|]. rewrite H, IH. reflexivity. Qed.

Lemma filter_repeat_other (p : N -> bool) c n : p c = false -> filter p (repeat c n) = [].
Proof. intros H. induction n as [|n IH]; cbn [repeat filter]; [reflexivity|]. rewrite H, IH. reflexivity. Qed.

Lemma caret_row_read n m :
  caret_offset (render_indent ++ repeat 32%N n ++ repeat 94%N m) = Z.of_nat n /\
  caret_count (render_indent ++ repeat 32%N n ++ repeat 94%N m) = Z.of_nat m.
Proof.
  split.
  - unfold caret_offset. rewrite skipn_app, skipn_all, Nat.sub_diag. cbn [skipn app].
    rewrite count_while_spaces_carets. reflexivity.
  - unfold caret_count. rewrite !filter_app.
    rewrite (filter_repeat_other _ 32%N n eq_refl), (filter_repeat_same _ 94%N m eq_refl).
    cbn [render_indent filter N.eqb Pos.eqb app]. rewrite repeat_length. reflexivity.
Qed.

(* ================= the two renderings show the same positions ================= *)

(* for ANY triple: when the terminal rendering does not panic, its line number, caret offset and caret count are
   the JSON view's line, column - 1 and length — and they are the triple itself *)
Theorem renderings_agree b line pos len tv : render_terminal b line pos len = Ok tv ->
  let jv := json_error_view b line pos len in
  tv_line_number tv = ev_line jv /\
  caret_offset (tv_caret_row tv) = ev_column jv - 1 /\
  caret_count (tv_caret_row tv) = ev_length jv /\
  ev_line jv = Z.of_nat (overall_line_index b (Z.to_nat line)) + 1 /\ ev_column jv = pos + 1 /\ ev_length jv = len.
Proof.
  intros H jv.
  assert (Hok : triple_ok b line pos len) by (apply render_terminal_ok_iff; eexists; exact H).
  destruct (render_terminal_ok b line pos len Hok) as (l & _ & E). rewrite E in H. injection H as <-.
  destruct Hok as (Hl & Hp & Hn).
  destruct (caret_row_read (Z.to_nat pos) (Z.to_nat len)) as [R1 R2].
  unfold shown, jv, json_error_view; cbn [tv_line_number tv_caret_row ev_line ev_column ev_length].
  rewrite R1, R2. unfold line_number, overall_line_index. repeat split; lia.
Qed.

(* ================= the errors the parser reports ================= *)

Lemma map_flat_map {A B C} (f : B -> C) (g : A -> list B) l :
  map f (flat_map g l) = flat_map (fun x => map f (g x)) l.
Proof. induction l as [|x l IH]; cbn [flat_map map]; [reflexivity|]. rewrite map_app, IH. reflexivity. Qed.

Lemma block_error_ctxs_report b : map ctx_report (block_error_ctxs b) = block_errors b.
Proof.
  unfold block_error_ctxs, block_errors. destruct (parse_record b) as [[r|errs]| |]; try reflexivity.
  rewrite map_map. reflexivity.
Qed.

(* the reported errors are the projections of the errors with context, in the same order *)
Lemma failed_errors_ctx s es : parse_text s = Ok (Failed es) -> es = map ctx_report (text_errors s).
Proof.
  intros H. rewrite (failed_errors s es H). unfold text_errors. rewrite map_flat_map.
  apply flat_map_ext. intros b. symmetry. apply block_error_ctxs_report.
Qed.

(* every error with context satisfies the guard (this is errors_located before the projection) *)
Lemma text_errors_ok s c : In c (text_errors s) ->
  exists l, nth_error (b_lines (fst c)) (pe_line (snd c)) = Some l /\ is_blank l = false /\
            re_text (ctx_report c) = l_text l /\
            span_ok (length (utf8_decode (l_text l))) (snd c).
Proof.
  unfold text_errors. intros H. apply in_flat_map in H as (b & Hb & Hc).
  unfold blocks_of in Hb. apply blocks_fuel_shape in Hb as (head & sig & tail & Hsh).
  destruct (parse_record_ok b head sig tail Hsh) as (r & Hr & Hok).
  unfold block_error_ctxs in Hc. rewrite Hr in Hc. destruct r as [r|errs]; [destruct Hc|].
  apply in_map_iff in Hc as (e & <- & He). cbn [fst snd].
  destruct Hok as (_ & Hall & _). rewrite Forall_forall in Hall.
  destruct (Hall e He) as (l & Hl & Hsig & Hspan). exists l.
  split; [exact Hl|]. split; [exact Hsig|]. split; [|exact Hspan].
  unfold ctx_report, report; cbn [fst snd re_text]. rewrite Hl. reflexivity.
Qed.

Lemma text_errors_triple_ok s c : In c (text_errors s) ->
  triple_ok (fst c) (Z.of_nat (pe_line (snd c))) (pe_pos (snd c)) (pe_len (snd c)).
Proof.
  intros H. destruct (text_errors_ok s c H) as (l & Hl & _ & _ & (H1 & H2 & _)).
  assert (pe_line (snd c) < length (b_lines (fst c)))%nat by (apply nth_error_Some; congruence).
  unfold triple_ok. lia.
Qed.

(* one error: what both renderings show, in terms of the reported error *)
Lemma rendering_of_error s c : In c (text_errors s) ->
  let e := ctx_report c in
  exists tv, terminal_of c = Ok tv /\
    tv_line_number tv = Z.of_nat (re_line e) + 1 /\
    tv_quoted tv = render_indent ++ replace_tabs (re_text e) /\
    caret_offset (tv_caret_row tv) = re_pos e /\
    caret_count (tv_caret_row tv) = re_len e /\
    ev_line (json_of c) = Z.of_nat (re_line e) + 1 /\
    ev_column (json_of c) = re_pos e + 1 /\
    ev_length (json_of c) = re_len e.
Proof.
  intros H e. pose proof (text_errors_triple_ok s c H) as Hok.
  destruct (text_errors_ok s c H) as (l & Hl & _ & Htext & _).
  unfold terminal_of. destruct (render_terminal_ok _ _ _ _ Hok) as (l' & Hl' & E).
  rewrite Nat2Z.id in Hl'. rewrite Hl in Hl'. injection Hl' as <-.
  eexists. split; [exact E|].
  destruct (renderings_agree _ _ _ _ _ E) as (A1 & A2 & A3 & A4 & A5 & A6).
  fold (json_of c) in A1, A2, A3, A4, A5, A6. rewrite Nat2Z.id in A4.
  unfold e. rewrite Htext.
  assert (Hline : re_line (ctx_report c) = overall_line_index (fst c) (pe_line (snd c))) by reflexivity.
  assert (Hpos : re_pos (ctx_report c) = pe_pos (snd c)) by reflexivity.
  assert (Hlen : re_len (ctx_report c) = pe_len (snd c)) by reflexivity.
  rewrite Hline, Hpos, Hlen. repeat split; try lia.
Qed.

Lemma prettify_all_ok cs : Forall (fun c => exists tv, terminal_of c = Ok tv) cs ->
  exists tvs, prettify_all cs = Ok tvs /\ Forall2 (fun c tv => terminal_of c = Ok tv) cs tvs /\
              length tvs = length cs.
Proof.
  intros H. induction H as [|c cs [tv Hc] H (tvs & IH1 & IH2 & IH3)]; cbn [prettify_all].
  - exists []. split; [reflexivity|]. split; [constructor|reflexivity].
  - exists (tv :: tvs). rewrite Hc, IH1. split; [reflexivity|]. split; [constructor; assumption|].
    cbn [length]. rewrite IH3. reflexivity.
Qed.

(* C10/C06: rendering the errors of ANY text does not panic, on the terminal or as JSON (the JSON view is a
   total function); the reported errors are the projections of what is rendered *)
Theorem renderings_total s es : parse_text s = Ok (Failed es) ->
  es = map ctx_report (text_errors s) /\
  Forall (fun c => exists tv, terminal_of c = Ok tv) (text_errors s) /\
  exists tvs, prettify_all (text_errors s) = Ok tvs /\ length tvs = length es /\
              length (error_views (text_errors s)) = length es.
Proof.
  intros H. pose proof (failed_errors_ctx s es H) as Hes. split; [exact Hes|].
  assert (Hall : Forall (fun c => exists tv, terminal_of c = Ok tv) (text_errors s)).
  { apply Forall_forall. intros c Hc. destruct (rendering_of_error s c Hc) as (tv & Htv & _). eexists; exact Htv. }
  split; [exact Hall|]. destruct (prettify_all_ok _ Hall) as (tvs & E & _ & Hlen). exists tvs. split; [exact E|].
  rewrite Hes, map_length. split; [exact Hlen|]. unfold error_views. apply map_length.
Qed.

(* C10: for every reported error, the terminal's line number / caret offset / caret count, the JSON view's
   line / column - 1 / length, and the reported line + 1 / position / length coincide; the quoted line is the
   reported line text with tabs replaced *)
Theorem renderings_agree_text s es : parse_text s = Ok (Failed es) ->
  Forall (fun c =>
    let e := ctx_report c in
    In e es /\
    exists tv, terminal_of c = Ok tv /\
      tv_line_number tv = Z.of_nat (re_line e) + 1 /\
      tv_quoted tv = render_indent ++ replace_tabs (re_text e) /\
      caret_offset (tv_caret_row tv) = re_pos e /\
      caret_count (tv_caret_row tv) = re_len e /\
      ev_line (json_of c) = Z.of_nat (re_line e) + 1 /\
      ev_column (json_of c) = re_pos e + 1 /\
      ev_length (json_of c) = re_len e) (text_errors s).
Proof.
  intros H. pose proof (failed_errors_ctx s es H) as Hes. apply Forall_forall. intros c Hc.
  split; [rewrite Hes; apply in_map; exact Hc|]. exact (rendering_of_error s c Hc).
Qed.

(* sensitivity: the guard is not vacuous — a negative length, a negative position or a line outside the block
   make the terminal rendering panic *)
Definition example_block : block :=
  {| b_preceding := 3; b_lines := [{| l_text := b!"2020-01-01 x"; l_ending := [10%N] |}] |}.

Lemma render_negative_length_crashes : render_terminal example_block 0 11 (-1) = Crash CNegativeRepeat.
Proof. reflexivity. Qed.
Lemma render_negative_position_crashes : render_terminal example_block 0 (-1) 1 = Crash CNegativeRepeat.
Proof. reflexivity. Qed.
Lemma render_line_out_of_range_crashes : render_terminal example_block 1 0 1 = Crash CIndexOutOfRange.
Proof. reflexivity. Qed.
Lemma render_example_ok :
  render_terminal example_block 0 11 1 =
    Ok {| tv_line_number := 4; tv_quoted := b!"    2020-01-01 x"; tv_caret_row := b!"               ^" |}.
Proof. reflexivity. Qed.
