(* Suite "commands" (C03 C04 C05 C11 C17): histories of mutating commands on a file. *)
From Klog Require Import Base.Prelude Base.Utf8 Model.Calendar Model.Values Model.Record Model.Lines Model.Parser
  Model.Reconcile Model.Commands Model.Show Model.ShowRecord.
Open Scope Z_scope.

Definition is_underscore (s : bytes) : bool := bytes_eqb s b!"_".

Definition opt_int (s : bytes) : option Z := if is_underscore s then None else Some (parse_int s).
Definition opt_bool (s : bytes) : option bool := if is_underscore s then None else Some (bytes_eqb s b!"1").

(* hex lines separated by commas; "_" = absent *)
Definition dec_lines (s : bytes) : list bytes := map arg_bytes (split_on 44%N s []).
Definition opt_lines (s : bytes) : option (list bytes) := if is_underscore s then None else Some (dec_lines s).

Definition dec_datesel (s : bytes) : datesel :=
  if bytes_eqb s b!"d" then DDefault else if bytes_eqb s b!"t" then DToday
  else if bytes_eqb s b!"y" then DYesterday else if bytes_eqb s b!"m" then DTomorrow
  else match parse_date (arg_bytes s) with Ok d => DExplicit d | _ => DDefault end.

Definition dec_time (s : bytes) : option time :=
  if is_underscore s then None else match parse_time (arg_bytes s) with Ok t => Some t | _ => None end.

Definition dec_command (kind a1 a2 a3 a4 a5 a6 : bytes) : option command :=
  if bytes_eqb kind b!"track" then Some (Track (dec_datesel a1) (dec_lines a2))
  else if bytes_eqb kind b!"start" then
    Some (Start {| a_date := dec_datesel a1; a_time := dec_time a2; a_round := opt_int a3 |}
                {| s_text := opt_lines a4; s_resume := bytes_eqb a5 b!"1"; s_nth := parse_int a6 |})
  else if bytes_eqb kind b!"switch" then
    Some (Switch {| a_date := dec_datesel a1; a_time := dec_time a2; a_round := opt_int a3 |}
                 {| s_text := opt_lines a4; s_resume := bytes_eqb a5 b!"1"; s_nth := parse_int a6 |})
  else if bytes_eqb kind b!"stop" then
    Some (Stop {| a_date := dec_datesel a1; a_time := dec_time a2; a_round := opt_int a3 |} (opt_lines a4))
  else if bytes_eqb kind b!"create" then
    Some (Create (dec_datesel a1) (opt_int a2) (match opt_lines a3 with Some l => l | None => [] end))
  else if bytes_eqb kind b!"pause" then
    Some (Pause (opt_lines a1) (bytes_eqb a2 b!"1") (bytes_eqb a3 b!"1")
                (if is_underscore a4 then [] else map parse_int (split_on 44%N a4 [])))
  else None.

(* status : file after the step : does it parse : the records it parses to (hex of the canonical line) *)
Definition show_step (before : bytes) (res : bytes * cresult unit) : bytes :=
  let '(file, st) := res in
  let p := parse_text file in
  (match st with COk _ => b!"ok:" | CErr _ => b!"fail:" | CCrash => b!"crash:" end) ++ hex_of_bytes file
  ++ (match p with Ok (Parsed _ _) => b!":v:" | _ => b!":i:" end) ++ hex_of_bytes (show_parse_result p).

Definition tok (toks : list bytes) (i : nat) : bytes := nth i toks [].

(* the step tokens in groups of twelve *)
Fixpoint chunk12 (fuel : nat) (toks : list bytes) : list (list bytes) :=
  match fuel with
  | O => []
  | S k => match toks with [] => [] | _ => firstn 12 toks :: chunk12 k (skipn 12 toks) end
  end.

Definition one_step (cfg : config) (st : bytes * list bytes) (toks : list bytes) : bytes * list bytes :=
  let '(file, outs) := st in
  if Nat.ltb (length toks) 12 then (file, outs ++ [b!"?bad-step"]) else
  let now := {| now_date := {| c_year := parse_int (tok toks 0); c_month := parse_int (tok toks 1); c_day := parse_int (tok toks 2) |};
                now_h := parse_int (tok toks 3); now_m := parse_int (tok toks 4) |} in
  match dec_command (tok toks 5) (tok toks 6) (tok toks 7) (tok toks 8) (tok toks 9) (tok toks 10) (tok toks 11) with
  | Some c => let res := exec now cfg c file in (fst res, outs ++ [show_step file res])
  | None => (file, outs ++ [b!"?bad-command"])
  end.

Definition run_steps (cfg : config) (file : bytes) (toks : list bytes) : list bytes :=
  snd (fold_left (one_step cfg) (chunk12 (length toks) toks) (file, [])).

Definition suite_commands (cmd : bytes) (args : list bytes) : option bytes :=
  if bytes_eqb cmd b!"cmd-hist" then
    match args with
    | rnd :: sh :: da :: c24 :: file :: steps =>
      let cfg := {| cfg_round := opt_int rnd; cfg_should := opt_int sh; cfg_dashes := opt_bool da; cfg_24h := opt_bool c24 |} in
      Some (words (run_steps cfg (arg_bytes file) steps))
    | _ => None
    end
  else None.
