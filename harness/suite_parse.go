package main

import (
	"os"
	"path/filepath"
	"strconv"
	"strings"
	"unicode"

	"github.com/jotaen/klog/klog"
	"github.com/jotaen/klog/klog/parser"
	"github.com/jotaen/klog/klog/parser/txt"
)

func showHexLines(ls []string) string {
	if len(ls) == 0 {
		return "_"
	}
	out := make([]string, len(ls))
	for i, l := range ls {
		out[i] = hx(l)
	}
	return strings.Join(out, ",")
}

func showT(t klog.Time) string {
	shift := 0
	if t.IsYesterday() {
		shift = -1
	} else if t.IsTomorrow() {
		shift = 1
	}
	return strconv.Itoa(t.Hour()) + "." + strconv.Itoa(t.Minute()) + "." + strconv.Itoa(shift) + "." + b01(t.Format().Use24HourClock)
}

func showEntry(e klog.Entry) string {
	sum := showHexLines(e.Summary().Lines())
	return klog.Unbox[string](&e,
		func(r klog.Range) string {
			return strings.Join([]string{"G", showT(r.Start()), showT(r.End()), b01(r.Format().UseSpacesAroundDash), sum}, ":")
		},
		func(d klog.Duration) string {
			return strings.Join([]string{"D", strconv.Itoa(d.InMinutes()), hx(d.ToString()), sum}, ":")
		},
		func(o klog.OpenRange) string {
			return strings.Join([]string{"O", showT(o.Start()), b01(o.Format().UseSpacesAroundDash), strconv.Itoa(o.Format().AdditionalPlaceholderChars), sum}, ":")
		})
}

// hasShouldTotal distinguishes "no should-total" from "(0m!)": the accessor returns 0 for both, the
// type of the returned value differs (a plain Duration for the default).
func showShould(r klog.Record) string {
	st := r.ShouldTotal()
	if _, isSet := st.(interface{ ToString() string }); isSet {
		if strings.HasSuffix(st.ToString(), "!") {
			return strconv.Itoa(st.InMinutes())
		}
	}
	return "_"
}

func showRecord(r klog.Record) string {
	parts := []string{"R", hx(r.Date().ToString()), showShould(r), showHexLines(r.Summary().Lines()), strconv.Itoa(len(r.Entries()))}
	for _, e := range r.Entries() {
		parts = append(parts, showEntry(e))
	}
	return strings.Join(parts, " ")
}

func showErr(e txt.Error) string {
	return strings.Join([]string{strconv.Itoa(e.LineNumber()), strconv.Itoa(e.Position()), strconv.Itoa(e.Length()), e.Code(), hx(e.LineText())}, ":")
}

func showEnding(s string) string {
	switch s {
	case "":
		return "n"
	case "\n":
		return "l"
	case "\r\n":
		return "c"
	}
	return "?" + hx(s)
}

func showBlocks(bs []txt.Block) string {
	parts := []string{strconv.Itoa(len(bs))}
	for _, b := range bs {
		ls := make([]string, len(b.Lines()))
		for i, l := range b.Lines() {
			ls[i] = hx(l.Text) + "/" + showEnding(l.LineEnding)
		}
		parts = append(parts, strconv.Itoa(b.OverallLineIndex(0))+":"+strings.Join(ls, ","))
	}
	return strings.Join(parts, " ")
}

func showParse(rs []klog.Record, errs []txt.Error) string {
	if errs != nil {
		parts := []string{"errors", strconv.Itoa(len(errs))}
		for _, e := range errs {
			parts = append(parts, showErr(e))
		}
		return strings.Join(parts, " ")
	}
	parts := []string{"ok", strconv.Itoa(len(rs))}
	for _, r := range rs {
		parts = append(parts, showRecord(r))
	}
	return strings.Join(parts, " ")
}

// printViaCLI runs `klog print --no-style <file>` and returns the printed file text.
func printViaCLI(text string) (string, bool) {
	dir := scratchDir()
	defer os.RemoveAll(dir)
	f := filepath.Join(dir, "in.klg")
	writeFile(f, text)
	code, out, _ := runKlog(&cliEnv{Home: dir, Sticky: true}, "print", "--no-style", "--no-warn", f)
	if code != 0 {
		return "", false
	}
	// the command frames the serialised records with one newline before and after
	if out == "" {
		return "", true
	}
	return strings.TrimSuffix(strings.TrimPrefix(out, "\n"), "\n"), true
}

func init() {
	register("parse", func(a []string) string {
		rs, bs, errs := parser.NewSerialParser().Parse(argBytes(a[0]))
		if errs == nil && len(rs) != len(bs) {
			return "records-blocks-mismatch"
		}
		return showParse(rs, errs)
	})
	register("blocks", func(a []string) string {
		// blocks are observable for any text through a parser whose per-block step accepts everything
		text := argBytes(a[0])
		var bs []txt.Block
		consumed, lines := 0, 0
		for {
			b, n := txt.ParseBlock(text[consumed:], lines)
			if n == 0 || b == nil {
				break
			}
			consumed += n
			lines += len(b.Lines())
			bs = append(bs, b)
		}
		return showBlocks(bs)
	})
	register("print", func(a []string) string {
		text := argBytes(a[0])
		_, _, errs := parser.NewSerialParser().Parse(text)
		if errs != nil {
			return "errors"
		}
		p1, ok := printViaCLI(text)
		if !ok {
			return "print-failed"
		}
		rs2, _, errs2 := parser.NewSerialParser().Parse(p1)
		if errs2 != nil {
			return "ok " + hx(p1) + " reparse-failed"
		}
		p2, _ := printViaCLI(p1)
		parts := []string{"ok", hx(p1), "reparsed", hx(p2), strconv.Itoa(len(rs2))}
		for _, r := range rs2 {
			parts = append(parts, showRecord(r))
		}
		return strings.Join(parts, " ")
	})
	register("zs-table", func(a []string) string {
		var out []string
		for r := rune(0); r < 12400; r++ {
			if unicode.Is(unicode.Zs, r) {
				out = append(out, strconv.Itoa(int(r)))
			}
		}
		return strings.Join(out, " ")
	})
}
