"""C06 — no file content can crash klog: parsing and evaluation are total."""
import sys, os
sys.path.insert(0, os.path.dirname(os.path.dirname(os.path.abspath(__file__))))
from check import Suite
from props.parsing import *

def gen_bytes(tier, rng):
    if tier == "quick":
        return [req_parse(b) for b in byte_stream(tier, rng, 6000, 3000, 3)]
    return [req_parse(b) for b in byte_stream(tier, rng, 400000, 200000, 4)]

def oracle_parse(req, out):
    return parse_shape(out)

def gen_eval(tier, rng):
    n = 250 if tier == "quick" else 20000
    out = []
    for b in byte_stream(tier, rng, n, n // 4, 2):
        if len(b) < 5000:
            out.append("eval-all " + (b.hex() if b else "-"))
    return out

def oracle_eval(req, out):
    if out.startswith("ok"):
        return None
    return "a read-only command crashed or failed unexpectedly: " + out[:200]

def k1_total_overflow(req, out):
    """known finding K1: the sum of entry durations leaves int64 -> 'Integer overflow' panic (Duration.Plus) in evaluation.
    Narrow: the recorded panic message must be that one, and the durations of the file must really add up beyond int64."""
    if not req.startswith("eval-all ") or not out.startswith("crash "):
        return False
    import re
    f = out.split(" ")
    try:
        msg = bytes.fromhex(f[2]).decode("utf-8", "replace") if len(f) > 2 else ""
    except ValueError:
        msg = ""
    if "Integer overflow" not in msg:
        return False
    b = unhx(req.split(" ")[1])
    total = 0
    for m in re.finditer(rb"(?:(\d+)h)?(?:(\d+)m)?", b):
        h, mi = m.group(1), m.group(2)
        if h or mi:
            total += int(h or 0) * 60 + int(mi or 0)
    return total > 2**63 - 1

def suites():
    return [
        Suite("bytes", gen_bytes, oracle=oracle_parse,
              rule="all strings of <= k tokens over a 32-token alphabet of klog fragments (k=3 quick) + mutated conforming/faulted documents (byte flips, truncation at every offset, splices) + raw random bytes + very long inputs; non-trivial = distinct input that yields errors or records",
              nontrivial=lambda r, o: o.startswith("ok") or o.startswith("errors"), exhaustive=lambda t: False),
        Suite("evaluate", gen_eval, oracle=oracle_eval, model=False,
              rule="every read-only command (print, print --with-totals, total, report x5, tags, today, json) and both error renderings run on whatever the parser returned; non-trivial = all commands completed",
              nontrivial=lambda r, o: o.startswith("ok")),
    ]
