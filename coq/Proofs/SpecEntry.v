(* SpecEntry — layer L1 of C01: the value at the start of an entry line.
   For every entry value of the specification (duration / range / open range, any spacing around the dash, any number
   of `?`), written after an arbitrary prefix (the indentation) and followed by the end of the line or by ONE space and
   arbitrary runes, [parse_entry_value] returns the denoted value and the position just after the value. *)
From Klog Require Import Base.Prelude Base.Utf8 Model.Calendar Model.Values Model.Record Model.Lines Model.Parser
  Proofs.Sweep Proofs.Values Spec.Spec Proofs.SpecValues.
From Coq Require Import ZifyBool.
Open Scope Z_scope.

(* ================= ASCII text is its own UTF-8 encoding ================= *)

Definition ascii (t : text) : bool := forallb (fun c => (c <? 128)%N) t.

Lemma utf8_encode_app a b : utf8_encode (a ++ b) = utf8_encode a ++ utf8_encode b.
Proof. unfold utf8_encode. apply flat_map_app. Qed.

Lemma utf8_encode_ascii t : ascii t = true -> utf8_encode t = t.
Proof.
  induction t as [|c t IH]; [reflexivity|]. cbn [ascii forallb]. intros H. apply andb_true_iff in H as [Hc Ht].
  unfold utf8_encode. cbn [flat_map]. fold (utf8_encode t). rewrite (IH Ht). unfold encode_rune. rewrite Hc. reflexivity.
Qed.

Lemma ascii_app a b : ascii (a ++ b) = ascii a && ascii b.
Proof. apply forallb_app. Qed.

Lemma plain_ascii t : forallb plain_char t = true -> ascii t = true.
Proof.
  unfold ascii. rewrite !forallb_forall. intros H c Hc. specialize (H c Hc). unfold plain_char in H.
  apply andb_true_iff in H as [_ H]. exact H.
Qed.

Lemma ascii_repeat c n : (c <? 128)%N = true -> ascii (repeat c n) = true.
Proof. intros H. induction n; cbn [repeat ascii forallb]; [reflexivity|]. rewrite H. exact IHn. Qed.

(* ================= the cursor primitives at a known position ================= *)

Lemma skipn_pre {A} (pre rest : list A) : skipn (length pre) (pre ++ rest) = rest.
Proof. induction pre; [reflexivity|exact IHpre]. Qed.

Lemma until_stop p a rest : forallb (fun c => negb (p c)) a = true ->
  match rest with c :: _ => p c = true | [] => True end ->
  until p (a ++ rest) = (a, match rest with [] => false | _ => true end).
Proof.
  intros Ha Hr. induction a as [|c a IH]; cbn [app forallb] in *.
  - destruct rest as [|c r]; [reflexivity|]. cbn [until]. rewrite Hr. reflexivity.
  - apply andb_true_iff in Ha as [Hc Ha]. cbn [until]. apply negb_true_iff in Hc. rewrite Hc, (IH Ha). reflexivity.
Qed.

Lemma until_pass p a b : forallb (fun c => negb (p c)) a = true ->
  until p (a ++ b) = (a ++ fst (until p b), snd (until p b)).
Proof.
  intros Ha. induction a as [|c a IH]; cbn [app forallb] in *.
  - destruct (until p b); reflexivity.
  - apply andb_true_iff in Ha as [Hc Ha]. cbn [until]. apply negb_true_iff in Hc. rewrite Hc, (IH Ha). reflexivity.
Qed.

Lemma peek_until_at p cs pos pre a rest : cs = pre ++ a ++ rest -> pos = length pre ->
  forallb (fun c => negb (p c)) a = true ->
  match rest with c :: _ => p c = true | [] => True end ->
  peek_until p cs pos = (a, match rest with [] => false | _ => true end).
Proof. intros -> -> Ha Hr. unfold peek_until. rewrite skipn_pre. apply until_stop; assumption. Qed.

Lemma count_while_repeat p x n rest : p x = true ->
  match rest with c :: _ => p c = false | [] => True end ->
  count_while p (repeat x n ++ rest) = n.
Proof.
  intros Hx Hr. induction n as [|n IH]; cbn [repeat app].
  - destruct rest as [|c r]; [reflexivity|]. cbn [count_while]. rewrite Hr. reflexivity.
  - cbn [count_while]. rewrite Hx, IH. reflexivity.
Qed.

Lemma skip_while_at p cs pos pre x n rest : cs = pre ++ repeat x n ++ rest -> pos = length pre ->
  p x = true -> match rest with c :: _ => p c = false | [] => True end ->
  skip_while p cs pos = (pos + n)%nat.
Proof. intros -> -> Hx Hr. unfold skip_while. rewrite skipn_pre, count_while_repeat by assumption. reflexivity. Qed.

Lemma peek_at cs pos pre rest : cs = pre ++ rest -> pos = length pre ->
  peek cs pos = match rest with c :: _ => c | [] => rune_error end.
Proof.
  intros -> ->. unfold peek. rewrite <- (Nat.add_0_r (length pre)). rewrite app_nth2_plus.
  destruct rest; reflexivity.
Qed.

(* ================= a time literal is not the beginning of a duration literal ================= *)

Lemma time_shape_not_duration s y : time_shape s = true -> match_duration (s ++ y) = None.
Proof.
  destruct s as [|c r]; [discriminate|]. cbn [time_shape app].
  destruct (c =? 60)%N eqn:E60.
  - intros _. apply N.eqb_eq in E60. subst c.
    rewrite match_duration_unsigned by reflexivity. unfold md_body. cbn [span].
    change (is_digit 60) with false. cbv iota. reflexivity.
  - intros H. apply andb_true_iff in H as [Dc H].
    rewrite match_duration_unsigned by (apply digit_not_sign; exact Dc).
    destruct r as [|c2 r2]; [discriminate|].
    apply orb_true_iff in H as [H|H].
    + apply N.eqb_eq in H. subst c2. unfold md_body. cbn [span app]. rewrite Dc.
      change (is_digit 58) with false. cbv iota. reflexivity.
    + apply andb_true_iff in H as [Dc2 H]. destruct r2 as [|c3 r3]; [discriminate|].
      apply N.eqb_eq in H. subst c3. unfold md_body. cbn [span app]. rewrite Dc, Dc2.
      change (is_digit 58) with false. cbv iota. reflexivity.
Qed.

Lemma time_shape_nonempty s : time_shape s = true -> s <> [].
Proof. destruct s; [discriminate|discriminate]. Qed.

Lemma time_shape_head s : time_shape s = true ->
  match s with c :: _ => is_space_or_tab c = false /\ (c =? ch_q)%N = false /\ is_space c = false | [] => False end.
Proof.
  destruct s as [|c r]; [discriminate|]. cbn [time_shape].
  destruct (c =? 60)%N eqn:E60.
  - apply N.eqb_eq in E60. subst c. intros _. repeat split; reflexivity.
  - intros H. apply andb_true_iff in H as [Dc _]. unfold is_digit in Dc. unfold is_space_or_tab, is_space, ch_q.
    repeat split; lia.
Qed.

(* ================= plain characters ================= *)

Lemma plain_not_space_or_tab t : forallb plain_char t = true -> forallb (fun c => negb (is_space_or_tab c)) t = true.
Proof.
  rewrite !forallb_forall. intros H c Hc. specialize (H c Hc). unfold plain_char in H. unfold is_space_or_tab.
  repeat (apply andb_true_iff in H as [H ?]). lia.
Qed.

Lemma plain_not_dash_or_space t : forallb plain_char t = true -> forallb (fun c => negb (is_dash_or_space c)) t = true.
Proof.
  rewrite !forallb_forall. intros H c Hc. specialize (H c Hc). unfold plain_char in H. unfold is_dash_or_space, ch_minus.
  repeat (apply andb_true_iff in H as [H ?]). lia.
Qed.

Lemma digits_not_blank ds : forallb is_digit ds = true -> forallb (fun c => negb (is_space_or_tab c) && (c <? 128)%N) ds = true.
Proof.
  rewrite !forallb_forall. intros H c Hc. specialize (H c Hc). unfold is_digit in H. unfold is_space_or_tab. lia.
Qed.

(* a duration literal has no space or tab and is ASCII *)
Lemma render_dur_chars d : dur_shape d = true ->
  forallb (fun c => negb (is_space_or_tab c) && (c <? 128)%N) (render_dur d) = true.
Proof.
  unfold dur_shape, render_dur. intros W. repeat (apply andb_true_iff in W as [W ?]).
  rewrite !forallb_app.
  apply andb_true_iff; split; [destruct (du_sign d); reflexivity|].
  apply andb_true_iff; split.
  - destruct (du_h d) as [hs|]; [|reflexivity]. cbn [opt_ok] in H1. apply integer_ok_inv in H1 as [_ D].
    rewrite forallb_app, (digits_not_blank _ D). reflexivity.
  - destruct (du_m d) as [ms|]; [|reflexivity]. cbn [opt_ok] in H0. apply integer_ok_inv in H0 as [_ D].
    rewrite forallb_app, (digits_not_blank _ D). reflexivity.
Qed.

Lemma forallb_and {A} (p q : A -> bool) l : forallb (fun c => p c && q c) l = forallb p l && forallb q l.
Proof.
  induction l as [|x l IH]; [reflexivity|]. cbn [forallb]. rewrite IH.
  destruct (p x), (q x), (forallb p l), (forallb q l); reflexivity.
Qed.

Lemma render_dur_no_blank d : dur_shape d = true -> forallb (fun c => negb (is_space_or_tab c)) (render_dur d) = true.
Proof. intros W. pose proof (render_dur_chars d W) as H. rewrite forallb_and in H. apply andb_true_iff in H as [H _]. exact H. Qed.

Lemma render_dur_ascii d : dur_shape d = true -> ascii (render_dur d) = true.
Proof. intros W. pose proof (render_dur_chars d W) as H. rewrite forallb_and in H. apply andb_true_iff in H as [_ H]. exact H. Qed.

Lemma render_time_ascii t : wf_time t = true -> ascii (render_time t) = true.
Proof. intros W. apply plain_ascii, render_time_plain, W. Qed.

(* ================= L1 ================= *)

Ltac app_eq := repeat rewrite <- app_assoc; cbn [app]; reflexivity.
Ltac len_eq := unfold spaces; repeat first [rewrite app_length | rewrite repeat_length | progress cbn [length]]; lia.

(* what follows an entry value on its line: nothing, or one space and then anything *)
Definition tail_ok (tail : text) : Prop := match tail with [] => True | c :: _ => c = 32%N end.

Lemma tail_stops tail : tail_ok tail -> match tail with c :: _ => is_space_or_tab c = true | [] => True end.
Proof. destruct tail as [|c r]; [trivial|]. cbn. intros ->. reflexivity. Qed.

Lemma parser_duration_time_prefix ra x : time_shape ra = true -> ascii ra = true -> parser_duration (str (ra ++ x)) = None.
Proof.
  intros Sh As. unfold parser_duration, parse_duration, str. rewrite utf8_encode_app, (utf8_encode_ascii ra As).
  rewrite time_shape_not_duration by exact Sh. reflexivity.
Qed.

Lemma dash_head n r : match spaces n ++ 45%N :: r with c :: _ => is_dash_or_space c = true | [] => True end.
Proof. destruct n; reflexivity. Qed.

Lemma parse_entry_value_dur ln pre d tail : wf_dur d = true -> tail_ok tail ->
  parse_entry_value ln (pre ++ render_dur d ++ tail) (length pre)
  = EvDur (denote_dur d) (length pre + length (render_dur d)).
Proof.
  intros W T. pose proof W as W'. unfold wf_dur in W'. apply andb_true_iff in W' as [Sh _].
  unfold parse_entry_value.
  rewrite (peek_until_at is_space_or_tab _ _ pre (render_dur d) tail eq_refl eq_refl (render_dur_no_blank d Sh) (tail_stops tail T)).
  cbv iota beta. unfold parser_duration, str. rewrite (utf8_encode_ascii _ (render_dur_ascii d Sh)), (parse_render_dur d W).
  reflexivity.
Qed.

Lemma eqb_add_zero p n : Nat.eqb p (p + n) = Nat.eqb n 0.
Proof. destruct n; [rewrite Nat.add_0_r; apply Nat.eqb_refl|]. cbn [Nat.eqb]. apply Nat.eqb_neq. lia. Qed.

Section RangeStart.
  (* the common beginning of ranges and open ranges: start time, spaces, dash, spaces *)
  Variables (ln : nat) (pre : text) (a : s_time) (sp1 sp2 : nat) (rest : text).
  Hypothesis Wa : wf_time a = true.
  (* what follows the dash and its spaces does not begin with a space *)
  Hypothesis Hrest : match rest with c :: _ => is_space c = false | [] => True end.

  Let cs := pre ++ render_time a ++ spaces sp1 ++ [45%N] ++ spaces sp2 ++ rest.
  Let p3 := (length pre + length (render_time a) + sp1 + 1 + sp2)%nat.

  Lemma entry_value_range_start :
    parse_entry_value ln cs (length pre) =
    let start := denote_time a in
    let spaces := negb (Nat.eqb sp1 0) in
    if (peek cs p3 =? ch_q)%N then
      let p4 := S p3 in
      let '(rep, _) := peek_until is_space_or_tab cs p4 in
      if forallb (fun c => (c =? ch_q)%N) rep
      then EvOpen {| o_start := start; o_spaces := spaces; o_extra := length rep |} (length pre) (p4 + length rep)
      else EvErr (mk_err ln (Z.of_nat p4) (zlen rep) ErrorMalformedEntry)
    else
      let '(end_cand, _) := peek_until is_space_or_tab cs p3 in
      if Nat.eqb (length end_cand) 0 then EvErr (mk_err ln (Z.of_nat p3) 1 ErrorMalformedEntry) else
      match parse_time (str end_cand) with
      | Ok e =>
        let p5 := (p3 + length end_cand)%nat in
        match new_range start e spaces with
        | Ok r => EvRange r p5
        | _ => EvErr (mk_err ln (Z.of_nat (length pre)) (Z.of_nat p5 - Z.of_nat (length pre)) ErrorIllegalRange)
        end
      | _ => EvErr (mk_err ln (Z.of_nat p3) (zlen end_cand) ErrorMalformedEntry)
      end.
  Proof.
    pose proof (render_time_plain a Wa) as Pl. pose proof (render_time_shape a Wa) as Sh.
    pose proof (render_time_ascii a Wa) as As.
    unfold parse_entry_value.
    (* the duration-first attempt fails *)
    assert (D : exists x b, peek_until is_space_or_tab cs (length pre) = (render_time a ++ x, b)).
    { unfold peek_until, cs. rewrite skipn_pre. rewrite until_pass by (apply plain_not_space_or_tab; exact Pl).
      eexists; eexists; reflexivity. }
    destruct D as (x & b & D). rewrite D. cbv iota beta.
    rewrite (parser_duration_time_prefix _ x Sh As).
    (* the start time *)
    rewrite (peek_until_at is_dash_or_space cs (length pre) pre (render_time a) (spaces sp1 ++ [45%N] ++ spaces sp2 ++ rest)
               eq_refl eq_refl (plain_not_dash_or_space _ Pl) (dash_head sp1 _)).
    cbv iota beta.
    assert (Ne : Nat.eqb (length (render_time a)) 0 = false).
    { destruct (render_time a); [exfalso; exact (time_shape_nonempty _ Sh eq_refl)|reflexivity]. }
    rewrite Ne. cbv iota.
    unfold str at 1. rewrite (utf8_encode_ascii _ As), (parse_render_time a Wa).
    (* spaces, dash, spaces *)
    rewrite (skip_while_at is_space cs (length pre + length (render_time a))%nat (pre ++ render_time a) 32%N sp1 ([45%N] ++ spaces sp2 ++ rest)
               ltac:(unfold cs, spaces; app_eq) ltac:(len_eq) eq_refl eq_refl).
    replace (Nat.eqb (length pre + length (render_time a)) (length pre + length (render_time a) + sp1)) with (Nat.eqb sp1 0)
      by (symmetry; apply eqb_add_zero).
    rewrite (peek_at cs (length pre + length (render_time a) + sp1)%nat (pre ++ render_time a ++ spaces sp1) ([45%N] ++ spaces sp2 ++ rest)
               ltac:(unfold cs; app_eq) ltac:(unfold spaces; len_eq)).
    cbn [app]. change (45 =? ch_minus)%N with true. cbn [negb]. cbv iota.
    rewrite (skip_while_at is_space cs (S (length pre + length (render_time a) + sp1)) (pre ++ render_time a ++ spaces sp1 ++ [45%N]) 32%N sp2 rest
               ltac:(unfold cs, spaces; app_eq) ltac:(unfold spaces; len_eq) eq_refl Hrest).
    replace (S (length pre + length (render_time a) + sp1) + sp2)%nat with p3 by (unfold p3; lia).
    reflexivity.
  Qed.
End RangeStart.

Lemma parse_entry_value_range ln pre a sp1 sp2 b tail :
  wf_time a = true -> wf_time b = true -> timeline a <= timeline b -> tail_ok tail ->
  let v := SRange a sp1 sp2 b in
  parse_entry_value ln (pre ++ render_value v ++ tail) (length pre)
  = EvRange {| r_start := denote_time a; r_end := denote_time b; r_spaces := negb (Nat.eqb sp1 0) |}
            (length pre + length (render_value v)).
Proof.
  intros Wa Wb Hab T v. unfold v. cbn [render_value].
  pose proof (render_time_plain b Wb) as Pl. pose proof (render_time_shape b Wb) as Sh.
  pose proof (render_time_ascii b Wb) as As. pose proof (time_shape_head _ Sh) as Hd.
  replace (pre ++ (render_time a ++ spaces sp1 ++ [45%N] ++ spaces sp2 ++ render_time b) ++ tail)
    with (pre ++ render_time a ++ spaces sp1 ++ [45%N] ++ spaces sp2 ++ (render_time b ++ tail)) by app_eq.
  rewrite entry_value_range_start; [|exact Wa|destruct (render_time b); [contradiction|apply Hd]].
  cbv zeta.
  set (cs := pre ++ render_time a ++ spaces sp1 ++ [45%N] ++ spaces sp2 ++ render_time b ++ tail).
  set (p3 := (length pre + length (render_time a) + sp1 + 1 + sp2)%nat).
  rewrite (peek_at cs p3 (pre ++ render_time a ++ spaces sp1 ++ [45%N] ++ spaces sp2) (render_time b ++ tail)
             ltac:(unfold cs; app_eq) ltac:(unfold p3, spaces; len_eq)).
  destruct (render_time b) as [|c0 r0] eqn:Erb; [contradiction|]. destruct Hd as (_ & Hq & _).
  cbn [app]. rewrite Hq. rewrite <- Erb in *.
  rewrite (peek_until_at is_space_or_tab cs p3 (pre ++ render_time a ++ spaces sp1 ++ [45%N] ++ spaces sp2) (render_time b) tail
             ltac:(unfold cs; rewrite Erb; app_eq) ltac:(unfold p3, spaces; len_eq)
             (plain_not_space_or_tab _ Pl) (tail_stops tail T)).
  cbv iota beta. rewrite Erb at 1. change (Nat.eqb (length (c0 :: r0)) 0) with false. cbv iota.
  unfold str. rewrite (utf8_encode_ascii _ As), (parse_render_time b Wb).
  unfold new_range, time_geb. rewrite !timeline_offset by assumption.
  destruct (timeline b >=? timeline a) eqn:E; [|lia].
  f_equal. unfold p3, spaces. len_eq.
Qed.

Lemma parse_entry_value_open ln pre a sp1 sp2 extra tail :
  wf_time a = true -> tail_ok tail ->
  let v := SOpen a sp1 sp2 extra in
  parse_entry_value ln (pre ++ render_value v ++ tail) (length pre)
  = EvOpen {| o_start := denote_time a; o_spaces := negb (Nat.eqb sp1 0); o_extra := extra |}
           (length pre) (length pre + length (render_value v)).
Proof.
  intros Wa T v. unfold v. cbn [render_value repeat].
  replace (pre ++ (render_time a ++ spaces sp1 ++ [45%N] ++ spaces sp2 ++ 63%N :: repeat 63%N extra) ++ tail)
    with (pre ++ render_time a ++ spaces sp1 ++ [45%N] ++ spaces sp2 ++ (63%N :: repeat 63%N extra ++ tail)) by app_eq.
  rewrite entry_value_range_start; [|exact Wa|reflexivity].
  cbv zeta.
  set (cs := pre ++ render_time a ++ spaces sp1 ++ [45%N] ++ spaces sp2 ++ 63%N :: repeat 63%N extra ++ tail).
  set (p3 := (length pre + length (render_time a) + sp1 + 1 + sp2)%nat).
  rewrite (peek_at cs p3 (pre ++ render_time a ++ spaces sp1 ++ [45%N] ++ spaces sp2) (63%N :: repeat 63%N extra ++ tail)
             ltac:(unfold cs; app_eq) ltac:(unfold p3, spaces; len_eq)).
  change (63 =? ch_q)%N with true. cbv iota.
  assert (Q : forallb (fun c => negb (is_space_or_tab c)) (repeat 63%N extra) = true).
  { clear. induction extra; [reflexivity|exact IHextra]. }
  rewrite (peek_until_at is_space_or_tab cs (S p3) (pre ++ render_time a ++ spaces sp1 ++ [45%N] ++ spaces sp2 ++ [63%N]) (repeat 63%N extra) tail
             ltac:(unfold cs; app_eq) ltac:(unfold p3, spaces; len_eq) Q (tail_stops tail T)).
  cbv iota beta.
  assert (Q2 : forallb (fun c => (c =? ch_q)%N) (repeat 63%N extra) = true).
  { clear. induction extra; [reflexivity|exact IHextra]. }
  rewrite Q2, repeat_length. f_equal. unfold p3, spaces. len_eq.
Qed.

(* the parser's result for a denoted value found at [p0 .. pos) *)
Definition ev_of (v : evalue) (p0 pos : nat) : entry_value_result :=
  match v with
  | VDuration d => EvDur d pos
  | VRange r => EvRange r pos
  | VOpen o => EvOpen o p0 pos
  end.

(* L1: the entry value line *)
Theorem parse_entry_value_spec ln pre v tail : wf_value v = true -> tail_ok tail ->
  parse_entry_value ln (pre ++ render_value v ++ tail) (length pre)
  = ev_of (denote_value v) (length pre) (length pre + length (render_value v)).
Proof.
  intros W T. destruct v as [d | a sp1 sp2 b | a sp1 sp2 extra]; cbn [wf_value] in W.
  - apply parse_entry_value_dur; assumption.
  - apply andb_true_iff in W as [W Hab]. apply andb_true_iff in W as [Wa Wb].
    apply parse_entry_value_range; try assumption. lia.
  - apply parse_entry_value_open; assumption.
Qed.

(* the first character of a value is not a blank: an entry line is indented exactly once *)
Lemma render_value_head v : wf_value v = true ->
  match render_value v with c :: _ => is_space_or_tab c = false | [] => False end.
Proof.
  intros W. destruct v as [d | a sp1 sp2 b | a sp1 sp2 extra]; cbn [wf_value render_value] in *.
  - unfold wf_dur in W. apply andb_true_iff in W as [Sh _].
    pose proof (render_dur_no_blank d Sh) as Nb. destruct (match_render_dur d Sh) as [_ Hne].
    destruct (render_dur d) as [|c r] eqn:E.
    + exfalso. unfold render_dur in E. apply app_eq_nil in E as [_ E]. apply app_eq_nil in E as [E1 E2].
      destruct (du_h d) as [hs|]; [destruct hs; discriminate|]. destruct (du_m d) as [ms|]; [destruct ms; discriminate|].
      cbn in Hne. destruct Hne; congruence.
    + cbn [forallb] in Nb. apply andb_true_iff in Nb as [Nb _]. apply negb_true_iff in Nb. exact Nb.
  - apply andb_true_iff in W as [W _]. apply andb_true_iff in W as [Wa _].
    pose proof (time_shape_head _ (render_time_shape a Wa)) as H.
    destruct (render_time a); [contradiction|]. apply H.
  - pose proof (time_shape_head _ (render_time_shape a W)) as H.
    destruct (render_time a); [contradiction|]. apply H.
Qed.
