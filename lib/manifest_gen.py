#!/usr/bin/env python3
"""Regenerates /verif/MANIFEST.json from the table below (kept in one place so it stays valid)."""
import json, os
ROOT = os.path.dirname(os.path.dirname(os.path.abspath(__file__)))

TB = ("Trusted: Coq 8.16.1 kernel + vm_compute (no native_compute); extraction with ExtrOcamlBasic only; OCaml 4.13.1; "
      "driver.ml, the Go harness and check.py; Go 1.24 toolchain/stdlib as modelled. The model is hand-written; the "
      "correspondence suites (run on every check against /repo's working tree) are what tie it to the code. ")

CLAIMED = {
 "C16": dict(
   text="Theorems in coq/Properties/C16.v over the executable model of klog's value types (time round trip over all 8,640 values by a lifted sweep, "
        "Plus and range arithmetic for all integers by lia, offset formula); the model is tied to the code by exhaustive correspondence "
        "(all 132,000 time-shaped strings, duration/date/plus/range grids) plus a property oracle written from the specification.",
   design="§4 C16", technique="Coq proof (lia + lifted finite sweep) over hand model; extracted-model-vs-Go differential correspondence",
   note=TB + "Axioms: none (Closed under the global context). Known findings K5, K6 (int64 overflow panics) are printed, not suppressed beyond their exact inputs."),
 "C14": dict(
   text="Theorems in coq/Properties/C14.v over the executable model of klog's tag handling (coq/Model/Tags.v): the hand-written matcher equal to Go's "
        "leftmost-first FindAll of HashTagPattern finds, on every rune list without a line feed, exactly and uniquely the tags of a declarative definition "
        "transcribed from Specification.md (proved for any notion of letter under which the quotes are not letters, instantiated at the Go toolchain's "
        "generated unicode.L / unicode.ToLower tables); Summary.Tags() on bytes (UTF-8 decoding with invalid bytes, second regexp run, strings.Trim, "
        "NewTagOrPanic) never panics and denotes those tags; tag equality = lower-cased names + literal values; Contains = name match with bare-name rule; "
        "Merge is iteration-order independent; AggregateTotalsByTags reports for every key the sum and count of the entries carrying it, each once, sorted, "
        "and returns whenever the durations fit int64. Tied to the code by an exhaustive correspondence (all strings of <= 4 / <= 6 symbols over a 14-symbol "
        "alphabet through Summary.Tags()) plus random summaries, queries and record sets, with an independent Python oracle written from the specification.",
   design="§4 C14", technique="Coq proof (structural induction; UTF-8 decode/encode lemmas; table facts by vm_compute over the generated tables) over hand model; "
                             "extracted-model-vs-Go differential correspondence, exhaustive over a small alphabet",
   note=TB + "Axioms: none (Closed under the global context, 16 theorems incl. C14_find_tags_all_texts_refuted, the witness that the single-line hypothesis is needed; also: NewTagFromString never panics, reported keys are pairwise distinct so the output order is determined whatever the Go map iteration order). The Unicode tables are regenerated from the Go toolchain on every build "
             "(harness/gentables, self-checked against unicode.Is/unicode.ToLower/regexp/strings.ToLower). Theorem 1 is stated for single lines (no LF): Go's "
             "[^\"]* would let a quoted value span a line feed, which no summary line can contain. Known finding K14 (int64 overflow of a tag total panics) "
             "is printed, not suppressed beyond its exact inputs."),
 "C19": dict(
   text="Theorems in coq/Properties/C19.v over the executable model of klog's bookmark database (coq/Model/Bookmarks.v on top of the model of Go's "
        "encoding/json in coq/Model/Json.v): every valid-UTF-8 string survives encoder (HTML escaping off) + decoder (unbounded, induction over the rune "
        "list, with decode/encode of UTF-8 proved both ways); every JSON value with valid-UTF-8 strings printed compact, indented or as json.Encoder writes "
        "it parses back to itself; a well-formed map written by ToJson is read back by NewBookmarksCollectionFromJson to exactly that map (empty map = empty "
        "file); for EVERY finite history of set/unset/clear/list/info/resolve commands the file-level run (read file, act, write file, per command) and the "
        "specification on a plain sorted map give step by step the same exit code and output, a well-formed map and a file that reads back to that map; set "
        "changes exactly one name, unset of an unknown name fails and leaves the file untouched, the listing is strictly ascending by name, nothing panics. "
        "filepath.Abs, the file system and filepath.Dir/Base are parameters of the theorems (hypotheses: Abs is absolute, idempotent, keeps valid UTF-8). Tied "
        "to the code by correspondence suites: 1-40 real klog command lines per history through klog.Run on a scratch config folder (fresh Run per command), "
        "the JSON string codec / parser / printer against encoding/json, ToJson/FromJson against app.*, the path functions against path/filepath; independent "
        "Python oracles (plain dict simulation of the property text, Python's json module reading the database file, posixpath).",
   design="§4 C19", technique="Coq proof (induction over rune lists, JSON values and command histories; lia for the UTF-8 bit arithmetic) over hand model; "
                             "extracted-model-vs-Go differential correspondence through klog.Run; oracle-only suite on the raw database file",
   note=TB + "Axioms: none (Closed under the global context, 19 theorems). Operating-system behaviour (filepath.Abs/Clean, file existence) is NOT modelled "
             "inside the theorems: it is a universally quantified parameter with three stated hypotheses, which the suite 'paths' checks on the real "
             "filepath functions; the executable model instantiates it with a lexical Unix Clean/Join/Abs that the same suite compares with Go's. "
             "The scanner's 10,000-level nesting limit of encoding/json is not modelled. Argument strings pass through kong's JSON transcoding (modelled: "
             "invalid UTF-8 becomes U+FFFD before klog sees it); histories with malformed UTF-8 are compared with the model but lie outside the property's "
             "quantifier and the oracle."),
 "C18": dict(
   text="Theorems in coq/Properties/C18.v over the executable model of klog's terminal formatting (coq/Model/Styler.v: StyleProps, seqs, Format, "
        "FormatAndRestore over an arbitrary theme record with the four themes of colour_theme.go as instances, StripAllAnsiSequences as a hand-written "
        "leftmost non-overlapping matcher of \\x1b\\[[\\d;]+m, document trees; coq/Model/Table.v: NewTable/Cell/Skip/Fill/Collect; coq/Model/TextSer.v: the "
        "whole output of `klog print` as a document tree): for EVERY theme whose emitted units are concatenations of complete SGR sequences, everything "
        "seqs emits is stripped to nothing; strip(render theme doc) = strip(render no_colour doc) for every document tree in which no SGR-shaped byte "
        "sequence straddles a style boundary of the unstyled text -- and that hypothesis is proved to be exactly the weakest (iff, decided by a boolean "
        "checker; refuted without it); the outputs of `klog print` and `print --with-totals` satisfy it for every list of records with ARBITRARY summary "
        "bytes (tags start with '#', values are ESC-free); a table whose cells are documents prints under every theme the rendering of ONE document "
        "and is content-neutral for a guard separator, ESC-free fills and klog's cell shapes incl. a styled text of arbitrary content (tag values); "
        "strip distributes over concatenation unless a sequence straddles the seam; strip is not idempotent (witness) but is "
        "on ESC-free residues; a table built from tidy cells (any theme's styling, valid UTF-8, one-character fills) with a full last row never panics "
        "and every printed row shows sum of column widths + (columns-1)*|separator| runes after stripping, the widths being identical under any two "
        "themes; ragged tables and wide fills are the stated counter-examples. Tied to the code by correspondence suites (all schemes x all 484 prop "
        "combinations, exhaustive strip over a 6-symbol alphabet up to length 5/7, random document trees and tables, `klog print` run end to end against "
        "the document-tree model) and an oracle-only end-to-end suite: generated valid klog files x {print, print --with-totals, total, report, tags, "
        "today} with flags x {dark, light, basic, no_colour, --no-style, NO_COLOR}, stripped stdout identical and table rows of equal visible width.",
   design="§4 C18", technique="Coq proof (structural / length induction over byte lists, token lists and document trees; boolean reflection for the decidable "
                             "side conditions) over hand model; extracted-model-vs-Go differential correspondence; end-to-end metamorphic oracle over "
                             "colour-scheme variants",
   note=TB + "Axioms: none (Closed under the global context, 22 theorems; 5 are stated *_refuted witnesses, 2 are *_partial: idempotence of strip only "
             "on ESC-free residues; that the outputs of total/report/tags/today are documents of the proved shapes is read off the Go code and "
             "exercised end to end, a model-level correspondence exists for `print` and for tables in general only). Visible width = rune count after stripping, as the property says; terminal cell width of wide characters is out of "
             "scope. Known finding K18 (StripAllAnsiSequences does not recognise the parameterless SGR sequence ESC[m, so `klog tags --values` misaligns "
             "a row whose quoted tag value contains it) is printed, not suppressed beyond inputs whose only discrepancy is that sequence."),
 "C15": dict(
   text="Theorems in coq/Properties/C15.v over the executable model of klog's calendar code (coq/Model/Calendar.v, coq/Model/Period.v). "
        "Reference = the Gregorian rule itself (next_day from month lengths and the 4/100/400 leap rule): the day-number functions are mutually inverse "
        "on every date of every year (closed form by lia; one 400-year era swept by the kernel VM and lifted by the 146,097-day period) and advance by one "
        "per next_day; from that, for ALL dates 0000-01-01..9999-12-31 and without further enumeration: Date.IsAfterOrEqual = day order, PlusDays = n days "
        "later or a panic exactly outside 0000..9999, weekday (Monday=1, 1970-01-01 Thursday, +1 per day), ISO week (the 7 days Monday..Sunday and only they "
        "share (year, week); week 1 contains January 4th; numbers consecutive, last week 52/53 by the Thursday/leap-Wednesday rule), quarter; "
        "Week/Month/Quarter/Year Period() returns (s,u) with s <= d <= u, s/u the first/last day, every date in [s,u] has the same period; "
        "Previous().Period() is the period of the same kind that ends the day before s; Hash() never panics and is equal exactly for dates of the same period "
        "(all valid dates, ISO year -1 included); NewPeriodFromPatternString returns Ok (since, until) iff the string is YYYY / YYYY-MM / YYYY-Qq / YYYY-Ww[w] "
        "naming an existing representable period, with exactly its bounds, and Err otherwise. Where the Go code panics (first/last week, Previous() in year 0000, "
        "patterns 9999-W52..W99) the model says Crash, the guards exclude exactly those dates/strings, the panic itself is proved (C15_period_edge_crash, "
        "C15_previous_edge_crash, C15_pattern_crash_iff) and the unguarded statements are refuted by witnesses. Tied to the code by a complete correspondence: "
        "thorough tier = all 3,652,425 dates (weekday, ISO week, quarter, PlusDays x6, 4 Period(), 4 Previous().Period(), 5 Hash()) and every string matching "
        "one of the four pattern regexps for all 10,000 years (2.21 M strings) plus malformed/mutated strings and 1 M random PlusDays; quick tier = 60 years. "
        "An independent Python oracle (datetime / isocalendar / fromisocalendar, Gregorian rule for year 0, stateful bucket check for the hashes) is evaluated "
        "on the implementation's output.",
   design="§4 C15", technique="Coq proof (lia over div/mod closed forms; one kernel-VM era sweep lifted by a 400-year shift lemma; fuel-bounded loop models) over hand model; "
                             "extracted-model-vs-Go differential correspondence, exhaustive over the whole finite domain in the thorough tier",
   note=TB + "Axioms: none (Closed under the global context, 22 theorems; 3 of them are *_refuted witnesses of the panics). Known findings printed, not suppressed beyond their exact inputs: "
             "K4 (Week.Period() panics for 0000-01-01/02 and 9999-12-27..31; Previous() panics where the previous week/month/quarter/year would lie before 0000-01-01) and "
             "F8 (NewPeriodFromPatternString panics on 9999-W52 .. 9999-W99, reachable via --period). Quarter() uses float64 ceil in Go and integer division in the model: covered by the "
             "exhaustive correspondence, not by proof."),
}

NOT_YET = {}

def main():
    props = [json.loads(l)["id"] for l in open(os.path.join(ROOT, "properties.jsonl"))]
    checks = []
    for pid in props:
        if pid in CLAIMED:
            c = CLAIMED[pid]
            checks.append({
                "property_id": pid,
                "quick_cmd": "python3 check.py %s --tier quick" % pid,
                "thorough_cmd": "python3 check.py %s --tier thorough" % pid,
                "evidence_file": "/verif/evidence/%s.json" % pid,
                "replay_cmd_template": "python3 check.py %s --replay {path}" % pid,
                "engine": "coq-model+correspondence",
                "level_claimed": {"category": "proof", "text": c["text"], "design_ref": c["design"]},
                "level_note": c["note"],
                "technique": c["technique"],
            })
    na = [{"property_id": p, "reason": NOT_YET.get(p, "check not built yet in this session (claimed at level proof in DESIGN.md; will be added as its model and theorems land)")}
          for p in props if p not in CLAIMED]
    m = {
        "version": 1,
        "setup_cmd": "python3 check.py --setup",
        "hooks": {
            "guard": "verif",
            "enable": "go build -tags verif (the harness module /verif/harness replaces github.com/jotaen/klog with /repo)",
            "baseline_off_cmd": "cd /repo && go test -mod=mod -vet=off -count=1 -timeout 25m ./...",
            "source_commits": [],
            "add_only": True,
        },
        "engines": [{"name": "coq-model+correspondence", "path": "/verif/check.py",
                     "serves_properties": sorted(CLAIMED), "kind_free_text":
                     "Coq 8.16.1 development (coq/) with property theorems; model extracted to OCaml (build/driver) and compared with the Go implementation (build/harness) on generated and exhaustive request streams"}],
        "checks": checks,
        "notes": "See DESIGN.md. known_findings.json lists genuine defects (known/fixed).",
        "not_applicable": na,
    }
    json.dump(m, open(os.path.join(ROOT, "MANIFEST.json"), "w"), indent=1)

if __name__ == "__main__":
    main()
