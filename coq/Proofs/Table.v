(* Lemmas about Model/Table.v (C18): rune counting, visible length, table invariants, row alignment. *)
From Klog Require Import Base.Prelude Base.Utf8 Model.Styler Model.Table Proofs.Styler.
From Coq Require Import Arith.
Open Scope nat_scope.

(* ---------- rune counting ---------- *)

Lemma decode_rune_width s : s <> [] -> 1 <= snd (decode_rune s) <= 4.
Proof.
  destruct s as [|b0 r]; [congruence|]. intros _. unfold decode_rune.
  repeat match goal with
         | |- context [if ?c then _ else _] => destruct c
         | |- context [match ?l with [] => _ | _ :: _ => _ end] => destruct l
         end; cbn [snd]; lia.
Qed.

Lemma decode_fuel_cons k s : s <> [] ->
  decode_fuel (S k) s = decode_rune s :: decode_fuel k (skipn (snd (decode_rune s)) s).
Proof. destruct s; [congruence|]. intros _. cbn [decode_fuel]. now destruct (decode_rune (n :: s)). Qed.

Lemma decode_fuel_any : forall f1 f2 s, length s <= f1 -> length s <= f2 -> decode_fuel f1 s = decode_fuel f2 s.
Proof.
  induction f1 as [|k IH]; intros f2 s H1 H2.
  - destruct s; [|simpl in H1; lia]. destruct f2; reflexivity.
  - destruct s as [|b r]; [destruct f2; reflexivity|].
    destruct f2 as [|k2]; [simpl in H2; lia|].
    rewrite !decode_fuel_cons by discriminate. f_equal.
    pose proof (decode_rune_width (b :: r) ltac:(discriminate)) as Hw.
    apply IH; rewrite skipn_length; cbn [length] in *; lia.
Qed.

(* c is a complete encoded character: Go decodes exactly c from any string that starts with c
   (an invalid byte whose decoding does not depend on what follows counts as one) *)
Definition is_char (c : bytes) : Prop :=
  c <> [] /\ forall x, decode_rune (c ++ x) = (fst (decode_rune c), length c).

(* the string is a sequence of complete characters: it does not end in a truncated UTF-8 sequence *)
Inductive utf8_complete : bytes -> Prop :=
| uc_nil : utf8_complete []
| uc_cons c s : is_char c -> utf8_complete s -> utf8_complete (c ++ s).

Lemma rune_count_char c s : is_char c -> rune_count (c ++ s) = S (rune_count s).
Proof.
  intros [Hne Hc]. unfold rune_count, utf8_decode, decode_widths. rewrite !map_length.
  destruct c as [|b c']; [congruence|]. cbn [app length].
  rewrite decode_fuel_cons by discriminate. cbn [length]. f_equal.
  change (b :: c' ++ s) with ((b :: c') ++ s). rewrite Hc. cbn [snd].
  rewrite skipn_app, skipn_all, Nat.sub_diag. cbn [app skipn].
  f_equal. apply decode_fuel_any; rewrite ?app_length; lia.
Qed.

Lemma rune_count_nil : rune_count [] = 0.
Proof. reflexivity. Qed.

Lemma rune_count_app a b : utf8_complete a -> rune_count (a ++ b) = rune_count a + rune_count b.
Proof.
  induction 1 as [|c s Hc _ IH]; [reflexivity|].
  rewrite <- app_assoc, (rune_count_char c (s ++ b) Hc), (rune_count_char c s Hc). now rewrite IH.
Qed.

Lemma utf8_complete_app a b : utf8_complete a -> utf8_complete b -> utf8_complete (a ++ b).
Proof. induction 1; intros Hb; [exact Hb|]. rewrite <- app_assoc. constructor; auto. Qed.

Lemma ascii_char c : (c < 128)%N -> is_char [c].
Proof.
  intros H. split; [discriminate|]. intros x. cbn [app decode_rune length fst].
  apply N.ltb_lt in H. now rewrite H.
Qed.

Lemma utf8_complete_ascii s : Forall (fun c => (c < 128)%N) s -> utf8_complete s.
Proof.
  induction 1 as [|c s Hc _ IH]; [constructor|]. change (c :: s) with ([c] ++ s).
  constructor; [now apply ascii_char|exact IH].
Qed.

Lemma rune_count_ascii s : Forall (fun c => (c < 128)%N) s -> rune_count s = length s.
Proof.
  induction 1 as [|c s Hc _ IH]; [reflexivity|]. change (c :: s) with ([c] ++ s).
  rewrite rune_count_char by now apply ascii_char. cbn [app length]. now rewrite IH.
Qed.

(* ---------- visible length is additive over tidy strings ---------- *)

(* a string that can be followed by anything without changing what either part shows:
   it does not end inside an incomplete escape sequence, and its visible text does not end in a
   truncated UTF-8 sequence *)
Definition tidy (s : bytes) : Prop := closed s /\ utf8_complete (strip s).

Lemma vis_len_app a b : tidy a -> vis_len (a ++ b) = vis_len a + vis_len b.
Proof. intros [Hc Hu]. unfold vis_len. rewrite (strip_app_closed a b Hc). now apply rune_count_app. Qed.

Lemma partialb_prefix p b : p <> [] -> partialb (p ++ b) = true -> partialb p = true.
Proof.
  destruct p as [|e q0]; [congruence|]. intros _. cbn [app partialb].
  intros [He H]%andb_true_iff. rewrite He. cbn [andb].
  destruct q0 as [|b0 ds]; [reflexivity|]. cbn [app] in H.
  apply andb_true_iff in H as [Hb H]. rewrite Hb. cbn [andb]. now apply forallb_app_l in H.
Qed.

Lemma closed_app a b : closed a -> closed b -> closed (a ++ b).
Proof.
  unfold closed. intros Ha Hb. induction a as [|x a IH]; [exact Hb|].
  cbn [app danglingb] in *. apply orb_false_iff in Ha as [Hp Ha]. apply orb_false_iff. split; [|auto].
  destruct (partialb (x :: a ++ b)) eqn:E; [|reflexivity].
  change (x :: a ++ b) with ((x :: a) ++ b) in E. apply partialb_prefix in E; [congruence|discriminate].
Qed.

Lemma tidy_nil : tidy [].
Proof. split; [reflexivity|constructor]. Qed.

Lemma tidy_app a b : tidy a -> tidy b -> tidy (a ++ b).
Proof.
  intros [Ha Hua] [Hb Hub]. split; [now apply closed_app|].
  rewrite (strip_app_closed a b Ha). now apply utf8_complete_app.
Qed.

(* text without ESC whose bytes are all ASCII, e.g. padding *)
Lemma tidy_ascii s : Forall (fun c => (c < 128)%N /\ c <> c_esc) s -> tidy s /\ vis_len s = length s.
Proof.
  intros H.
  assert (Hf : esc_free s).
  { intros Hin. rewrite Forall_forall in H. now apply H in Hin. }
  assert (Ha : Forall (fun c => (c < 128)%N) s) by (eapply Forall_impl; [|exact H]; intros c [Hc _]; exact Hc).
  unfold tidy, vis_len. rewrite (strip_esc_free s Hf). repeat split.
  - unfold closed. clear Ha Hf. induction H as [|c s [_ Hc] _ IH]; [reflexivity|].
    cbn [danglingb partialb]. apply N.eqb_neq in Hc. now rewrite Hc.
  - now apply utf8_complete_ascii.
  - now apply rune_count_ascii.
Qed.

Lemma spaces_ok n : Forall (fun c => (c < 128)%N /\ c <> c_esc) (repeat 32%N n).
Proof. induction n; constructor; auto. split; [reflexivity|discriminate]. Qed.

Lemma tidy_spaces n : tidy (repeat 32%N n).
Proof. apply tidy_ascii, spaces_ok. Qed.

Lemma vis_len_spaces n : vis_len (repeat 32%N n) = n.
Proof. destruct (tidy_ascii _ (spaces_ok n)) as [_ H]. now rewrite H, repeat_length. Qed.

Lemma tidy_repeat v n : tidy v -> tidy (repeat_bytes v n).
Proof. intros H. induction n; [apply tidy_nil|]. cbn [repeat_bytes]. now apply tidy_app. Qed.

Lemma vis_len_repeat v n : tidy v -> vis_len (repeat_bytes v n) = n * vis_len v.
Proof.
  intros H. induction n; [reflexivity|]. cbn [repeat_bytes]. rewrite vis_len_app by exact H. rewrite IHn. lia.
Qed.

(* ---------- styled cells ---------- *)

Lemma esc_free_closed s : esc_free s -> closed s.
Proof.
  unfold closed. induction s as [|c r IH]; intros H; [reflexivity|].
  cbn [danglingb partialb]. assert (Hc : c <> c_esc) by (intros ->; apply H; now left).
  apply N.eqb_neq in Hc. rewrite Hc. cbn [andb orb]. apply IH. intros Hin. apply H. now right.
Qed.

Lemma sgr_seq_closed m : sgr_seq m -> closed m.
Proof.
  intros (ds & Hds & ->). unfold closed. cbn [danglingb partialb].
  rewrite !N.eqb_refl. cbn [andb]. rewrite forallb_app. cbn [forallb]. rewrite is_param_m, !andb_false_r.
  change (c_lbr =? c_esc)%N with false. cbn [andb orb]. apply esc_free_closed. intros H.
  apply in_app_or in H as [H|[H|[]]]; [|discriminate].
  rewrite forallb_forall in Hds. apply Hds in H. discriminate.
Qed.

Lemma sgrs_closed s : sgrs s -> closed s.
Proof. induction 1; [reflexivity|]. apply closed_app; [now apply sgr_seq_closed|assumption]. Qed.

Lemma sgrs_tidy s : sgrs s -> tidy s /\ vis_len s = 0.
Proof.
  intros H. unfold tidy, vis_len. rewrite (strip_sgrs_nil s H). repeat split; [now apply sgrs_closed|constructor].
Qed.

(* Format wraps a tidy text in sequences only: the result is tidy and shows the same number of characters *)
Lemma format_tidy th p text : theme_ok th -> tidy text ->
  tidy (format th p text) /\ vis_len (format th p text) = vis_len text.
Proof.
  intros Hth Ht. unfold format.
  destruct (sgrs_tidy _ (seqs_sgrs th p Hth)) as [Hs Hs0].
  assert (Hr : sgrs (th_reset th)) by apply Hth.
  destruct (sgrs_tidy _ Hr) as [Hrt Hr0].
  split; [apply tidy_app; [exact Hs|apply tidy_app; [exact Ht|exact Hrt]]|].
  rewrite vis_len_app by exact Hs. rewrite vis_len_app by exact Ht. lia.
Qed.

(* ---------- invariants of a table under construction ---------- *)

Lemma bump_length i v l : length (bump i v l) = length l.
Proof. revert i; induction l as [|x r IH]; intros [|i]; cbn [bump length]; auto. Qed.

Lemma bump_mono i v l j : nth j l 0 <= nth j (bump i v l) 0.
Proof.
  revert i j; induction l as [|x r IH]; intros [|i] [|j]; cbn [bump nth]; auto.
  destruct (Nat.ltb x v) eqn:E; [apply Nat.ltb_lt in E; lia|lia].
Qed.

Lemma bump_at i v l : i < length l -> v <= nth i (bump i v l) 0.
Proof.
  revert i; induction l as [|x r IH]; intros [|i] H; cbn [bump nth length] in *; try lia.
  - destruct (Nat.ltb x v) eqn:E; [lia|apply Nat.ltb_ge in E; lia].
  - apply IH. lia.
Qed.

Lemma succ_mod n L : 0 < n -> (if Nat.leb n (S (L mod n)) then 0 else S (L mod n)) = (S L) mod n.
Proof.
  intros Hn. pose proof (Nat.div_mod_eq L n) as Hd. pose proof (Nat.mod_upper_bound L n ltac:(lia)) as Hu.
  destruct (Nat.leb n (S (L mod n))) eqn:E.
  - apply Nat.leb_le in E. apply Nat.mod_unique with (q := S (L / n)); [lia|]. nia.
  - apply Nat.leb_gt in E. apply Nat.mod_unique with (q := L / n); lia.
Qed.

Lemma mod_succ n i j : 0 < n -> i mod n = j -> S j < n -> (S i) mod n = S j.
Proof.
  intros Hn Hi Hj. symmetry. apply Nat.mod_unique with (q := i / n); [lia|].
  pose proof (Nat.div_mod_eq i n). lia.
Qed.

Lemma mod_add_small n off k : 0 < n -> off mod n = 0 -> k < n -> (off + k) mod n = k.
Proof.
  intros Hn Ho Hk. symmetry. apply Nat.mod_unique with (q := off / n); [lia|].
  pose proof (Nat.div_mod_eq off n). lia.
Qed.

Lemma mod_add_self n off : 0 < n -> off mod n = 0 -> (off + n) mod n = 0.
Proof.
  intros Hn Ho. symmetry. apply Nat.mod_unique with (q := S (off / n)); [lia|].
  pose proof (Nat.div_mod_eq off n). nia.
Qed.

Record inv (n : nat) (sep : bytes) (t : table) : Prop := mk_inv {
  inv_cols : t_cols t = n;
  inv_sep : t_sep t = sep;
  inv_long : length (t_longest t) = n;
  inv_cur : t_cur t = length (t_cells t) mod n;
  inv_len : Forall (fun c => c_len c = vis_len (c_value c)) (t_cells t);
  inv_fit : forall i c, nth_error (t_cells t) i = Some c -> c_len c <= nth (i mod n) (t_longest t) 0
}.

Lemma inv_new cols sep t : new_table cols sep = Ok t -> 1 < t_cols t /\ inv (t_cols t) sep t /\ t_cells t = [].
Proof.
  unfold new_table. destruct (cols <=? 1)%Z eqn:E; [discriminate|]. intros [= <-]. cbn.
  apply Z.leb_gt in E. split; [lia|]. split; [|reflexivity].
  constructor; cbn; auto.
  - apply repeat_length.
  - rewrite Nat.mod_0_l; [reflexivity|lia].
  - intros i c H. destruct i; discriminate.
Qed.

Lemma inv_add n sep t text fill right : 0 < n -> inv n sep t -> inv n sep (add_cell t text fill right).
Proof.
  intros Hn [Hc Hs Hl Hcur Hlen Hfit]. unfold add_cell. constructor; cbn [t_cols t_sep t_longest t_cur t_cells c_len].
  - exact Hc.
  - exact Hs.
  - now rewrite bump_length.
  - rewrite app_length. cbn [length]. rewrite Nat.add_1_r, Hc, Hcur. now apply succ_mod.
  - apply Forall_app. split; [exact Hlen|]. constructor; [reflexivity|constructor].
  - intros i c Hi.
    destruct (Nat.lt_ge_cases i (length (t_cells t))) as [Hlt|Hge].
    + rewrite nth_error_app1 in Hi by exact Hlt. specialize (Hfit i c Hi).
      pose proof (bump_mono (t_cur t) (vis_len text) (t_longest t) (i mod n)). lia.
    + rewrite nth_error_app2 in Hi by exact Hge.
      destruct (i - length (t_cells t)) as [|k] eqn:Ek; [|destruct k; discriminate].
      cbn in Hi. injection Hi as <-. cbn [c_len].
      assert (i = length (t_cells t)) by lia. subst i. rewrite <- Hcur.
      apply bump_at. rewrite Hl, Hcur. apply Nat.mod_upper_bound. lia.
Qed.

(* what the alignment theorem asks of the cells: tidy text, and fill patterns one character wide *)
Definition cell_tidy (c : cell) : Prop :=
  tidy (c_value c) /\ (c_fill c = true -> vis_len (c_value c) = 1).

Definition op_ok (o : op) : Prop :=
  match o with
  | OCellL x | OCellR x => tidy x
  | OFill x => tidy x /\ vis_len x = 1
  | OSkip _ => True
  end.

Lemma inv_skip n sep k : 0 < n -> forall t, inv n sep t -> inv n sep (skip_cells k t).
Proof. intros Hn. induction k; intros t H; cbn [skip_cells]; [exact H|]. apply IHk. now apply inv_add. Qed.

Lemma tidy_skip k : forall t, Forall cell_tidy (t_cells t) -> Forall cell_tidy (t_cells (skip_cells k t)).
Proof.
  induction k; intros t H; cbn [skip_cells]; [exact H|]. apply IHk. cbn [add_cell t_cells].
  apply Forall_app. split; [exact H|]. constructor; [|constructor]. split; [apply tidy_nil|discriminate].
Qed.

Lemma inv_op n sep t o : 0 < n -> inv n sep t -> inv n sep (apply_op t o).
Proof. intros Hn H. destruct o; cbn [apply_op]; try now apply inv_add. now apply inv_skip. Qed.

Lemma tidy_op t o : op_ok o -> Forall cell_tidy (t_cells t) -> Forall cell_tidy (t_cells (apply_op t o)).
Proof.
  intros Ho H. destruct o; cbn [apply_op op_ok] in *; try (now apply tidy_skip);
    cbn [add_cell t_cells]; apply Forall_app; (split; [exact H|]); (constructor; [|constructor]);
    split; cbn [c_value c_fill]; try tauto; discriminate.
Qed.

Lemma inv_fold n sep ops : 0 < n -> forall t, inv n sep t -> inv n sep (fold_left apply_op ops t).
Proof. intros Hn. induction ops as [|o r IH]; intros t H; cbn [fold_left]; [exact H|]. apply IH. now apply inv_op. Qed.

Lemma tidy_fold ops : Forall op_ok ops -> forall t, Forall cell_tidy (t_cells t) ->
  Forall cell_tidy (t_cells (fold_left apply_op ops t)).
Proof. induction 1 as [|o r Ho _ IH]; intros t H; cbn [fold_left]; [exact H|]. apply IH. now apply tidy_op. Qed.

(* ---------- one cell, one row ---------- *)

Lemma cell_text_ok w c : c_len c = vis_len (c_value c) -> c_len c <= w -> cell_tidy c ->
  exists x, cell_text w c = Ok x /\ tidy x /\ vis_len x = w.
Proof.
  intros Hl Hw [Ht Hf]. unfold cell_text. destruct (c_fill c) eqn:Ef.
  - eexists. split; [reflexivity|]. split; [now apply tidy_repeat|].
    rewrite vis_len_repeat by exact Ht. rewrite Hf by reflexivity. lia.
  - destruct (Nat.ltb w (c_len c)) eqn:E; [apply Nat.ltb_lt in E; lia|].
    eexists. split; [reflexivity|]. destruct (c_right c).
    + split; [apply tidy_app; [apply tidy_spaces|exact Ht]|].
      rewrite vis_len_app by apply tidy_spaces. rewrite vis_len_spaces. lia.
    + split; [apply tidy_app; [exact Ht|apply tidy_spaces]|].
      rewrite vis_len_app by exact Ht. rewrite vis_len_spaces. lia.
Qed.

(* visible width of n cells starting at column col: column widths plus one separator before every
   cell that is not in column 0 *)
Fixpoint row_width (L : list nat) (s : nat) (col n : nat) : nat :=
  match n with
  | O => 0
  | S k => (if Nat.ltb 0 col then s else 0) + nth col L 0 + row_width L s (S col) k
  end.

Lemma row_text_ok L sep : tidy sep -> forall cs col,
  (forall k c, nth_error cs k = Some c ->
     c_len c = vis_len (c_value c) /\ c_len c <= nth (col + k) L 0 /\ cell_tidy c) ->
  exists x, row_text L sep col cs = Ok x /\ tidy x /\ vis_len x = row_width L (vis_len sep) col (length cs).
Proof.
  intros Hsep. induction cs as [|c r IH]; intros col H.
  - exists []. split; [reflexivity|]. split; [apply tidy_nil|reflexivity].
  - destruct (H 0 c eq_refl) as (Hl & Hw & Ht). rewrite Nat.add_0_r in Hw.
    destruct (cell_text_ok _ c Hl Hw Ht) as (x & Hx & Hxt & Hxl).
    destruct (IH (S col)) as (y & Hy & Hyt & Hyl).
    { intros k c' Hk. specialize (H (S k) c' Hk). now rewrite Nat.add_succ_r in H. }
    cbn [row_text]. rewrite Hx, Hy. cbn [bind]. eexists. split; [reflexivity|].
    cbn [length row_width]. destruct (Nat.ltb 0 col).
    + split; [repeat apply tidy_app; assumption|].
      rewrite vis_len_app by exact Hsep. rewrite vis_len_app by exact Hxt. lia.
    + cbn [app]. split; [apply tidy_app; assumption|].
      rewrite vis_len_app by exact Hxt. lia.
Qed.

Lemma skipn_nth_cons {A} (d : A) : forall col l, col < length l -> skipn col l = nth col l d :: skipn (S col) l.
Proof.
  induction col as [|k IH]; intros [|x l] H; cbn [length] in H; try lia; [reflexivity|].
  cbn [skipn nth]. rewrite IH by lia. reflexivity.
Qed.

Lemma row_width_sum L s : forall n col, col + n <= length L ->
  row_width L s col n = sum (firstn n (skipn col L)) + (if Nat.eqb col 0 then n - 1 else n) * s.
Proof.
  induction n as [|k IH]; intros col H.
  - cbn. destruct (Nat.eqb col 0); reflexivity.
  - cbn [row_width]. rewrite IH by lia. rewrite (skipn_nth_cons 0 col L) by lia.
    cbn [firstn sum Nat.eqb]. destruct col as [|c]; cbn [Nat.ltb Nat.leb Nat.eqb]; lia.
Qed.

Lemma row_width_full L s : 0 < length L ->
  row_width L s 0 (length L) = sum L + (length L - 1) * s.
Proof. intros H. rewrite row_width_sum by lia. cbn [skipn Nat.eqb]. now rewrite firstn_all. Qed.

(* ---------- Collect prints the rows, one per line ---------- *)

Lemma bind_ok {A B} (x : outcome A) (f : A -> outcome B) b :
  bind x f = Ok b -> exists a, x = Ok a /\ f a = Ok b.
Proof. destruct x; cbn; try discriminate. eauto. Qed.

Lemma collect_row cols L sep : 0 < cols -> forall row rest i j x y,
  i mod cols = j -> j + length row <= cols ->
  row_text L sep j row = Ok x ->
  collect_from cols L sep (i + length row) rest = Ok y ->
  collect_from cols L sep i (row ++ rest)
  = Ok ((if Nat.ltb 0 i && Nat.eqb j 0 && negb (is_nil row) then nl else []) ++ x ++ y).
Proof.
  intros Hc. induction row as [|c row IH]; intros rest i j x y Hi Hj Hx Hy.
  - cbn in Hx. injection Hx as <-. cbn [length] in Hy. rewrite Nat.add_0_r in Hy.
    cbn [app is_nil negb]. now rewrite andb_false_r.
  - cbn [row_text] in Hx. apply bind_ok in Hx as (cx & Hcx & Hx). apply bind_ok in Hx as (rx & Hrx & Hx).
    injection Hx as <-. cbn [app collect_from]. rewrite Hi, Hcx. cbn [bind].
    cbn [length] in Hy, Hj. rewrite Nat.add_succ_r in Hy.
    destruct row as [|c' row'].
    + cbn in Hrx. injection Hrx as <-. cbn [app length] in *. rewrite Nat.add_0_r in Hy. rewrite Hy.
      cbn [bind is_nil negb]. rewrite andb_true_r, !app_nil_r, <- !app_assoc. reflexivity.
    + assert (Hi' : (S i) mod cols = S j) by (apply mod_succ; cbn [length] in Hj; lia).
      rewrite (IH rest (S i) (S j) rx y Hi' ltac:(cbn [length] in *; lia) Hrx Hy).
      cbn [bind is_nil negb Nat.eqb]. rewrite ?andb_true_r, ?andb_false_r. cbn [app].
      rewrite <- ?app_assoc. reflexivity.
Qed.

Lemma all_ok_length {A} (l : list (outcome A)) rs : all_ok l = Ok rs -> length rs = length l.
Proof.
  revert rs; induction l as [|x r IH]; intros rs; cbn [all_ok].
  - now intros [= <-].
  - intros H. apply bind_ok in H as (a & _ & H). apply bind_ok in H as (b & Hb & H). injection H as <-.
    cbn [length]. f_equal. now apply IH.
Qed.

Lemma join_cons s x r : r <> [] -> join s (x :: r) = x ++ s ++ join s r.
Proof. destruct r; [congruence|reflexivity]. Qed.

Lemma chunk_fuel_nil {A} f n : @chunk_fuel A f n [] = [].
Proof. destruct f; reflexivity. Qed.

Lemma collect_chunks cols L sep : 0 < cols -> forall f cs i rs,
  length cs <= f -> i mod cols = 0 ->
  all_ok (map (row_text L sep 0) (chunk_fuel f cols cs)) = Ok rs ->
  collect_from cols L sep i cs = Ok ((if Nat.ltb 0 i && negb (is_nil cs) then nl else []) ++ join nl rs).
Proof.
  intros Hc. induction f as [|k IH]; intros cs i rs Hl Hi Hrs.
  - destruct cs; [|cbn in Hl; lia]. cbn in Hrs. injection Hrs as <-. cbn. now rewrite andb_false_r.
  - destruct cs as [|c cs'].
    + cbn in Hrs. injection Hrs as <-. cbn. now rewrite andb_false_r.
    + cbn [chunk_fuel map all_ok] in Hrs.
      set (cs := c :: cs') in *. set (row := firstn cols cs) in *. set (rest := skipn cols cs) in *.
      apply bind_ok in Hrs as (x & Hx & Hrs). apply bind_ok in Hrs as (rs' & Hrs' & Hrs). injection Hrs as <-.
      assert (Hcs : cs = row ++ rest) by (symmetry; apply firstn_skipn).
      assert (Hrl : length rest <= k).
      { subst rest. rewrite skipn_length. subst cs. cbn [length] in *. lia. }
      assert (Hrow : row <> []).
      { subst row cs. destruct cols; [lia|discriminate]. }
      assert (Hrowl : length row <= cols) by apply firstn_le_length.
      destruct rest as [|c2 rest'] eqn:Erest.
      * rewrite chunk_fuel_nil in Hrs'. cbn in Hrs'. injection Hrs' as <-.
        rewrite Hcs. rewrite (collect_row cols L sep Hc row [] i 0 x [] Hi ltac:(lia) Hx eq_refl).
        cbn [join Nat.eqb]. rewrite app_nil_r, !andb_true_r.
        destruct row; [congruence|]. cbn [app is_nil negb]. now rewrite !andb_true_r.
      * assert (Hfull : length row = cols).
        { subst row. apply firstn_length_le. apply (f_equal (@length _)) in Erest.
          fold rest in Erest. subst rest. rewrite skipn_length in Erest. cbn [length] in Erest. lia. }
        assert (Hi' : (i + length row) mod cols = 0) by (rewrite Hfull; now apply mod_add_self).
        pose proof (IH (c2 :: rest') (i + length row) rs' Hrl Hi' Hrs') as Hy.
        rewrite Hcs, (collect_row cols L sep Hc row (c2 :: rest') i 0 x _ Hi ltac:(lia) Hx Hy).
        assert (Hne : rs' <> []).
        { apply all_ok_length in Hrs'. rewrite map_length in Hrs'. destruct k; [cbn in Hrl; lia|].
          cbn [chunk_fuel length] in Hrs'. destruct rs'; [discriminate|discriminate]. }
        rewrite (join_cons nl x rs' Hne).
        replace (Nat.ltb 0 (i + length row)) with true by (symmetry; apply Nat.ltb_lt; lia).
        cbn [is_nil negb andb Nat.eqb]. rewrite !andb_true_r.
        destruct row; [congruence|]. cbn [app is_nil negb]. reflexivity.
Qed.

(* ---------- every row of a well-built table ---------- *)

Lemma nth_error_firstn {A} n : forall (l : list A) k c,
  nth_error (firstn n l) k = Some c -> k < n /\ nth_error l k = Some c.
Proof.
  induction n as [|n IH]; intros [|x l] [|k] c H; cbn [firstn nth_error] in *; try discriminate.
  - split; [lia|exact H].
  - apply IH in H as [H1 H2]. split; [lia|exact H2].
Qed.

Lemma nth_error_skipn' {A} n : forall (l : list A) k, nth_error (skipn n l) k = nth_error l (n + k).
Proof.
  induction n as [|n IH]; intros [|x l] k; cbn [skipn Nat.add nth_error]; try reflexivity.
  - now destruct k.
  - apply IH.
Qed.

Definition row_fact (L : list nat) (s : nat) (ch : list cell) (r : bytes) : Prop :=
  tidy r /\ vis_len r = row_width L s 0 (length ch).

Lemma chunks_ok n L sep : 0 < n -> tidy sep -> forall f cs off,
  off mod n = 0 ->
  (forall i c, nth_error cs i = Some c ->
     c_len c = vis_len (c_value c) /\ c_len c <= nth ((off + i) mod n) L 0 /\ cell_tidy c) ->
  exists rs, all_ok (map (row_text L sep 0) (chunk_fuel f n cs)) = Ok rs /\
             Forall2 (row_fact L (vis_len sep)) (chunk_fuel f n cs) rs.
Proof.
  intros Hn Hsep. induction f as [|k IH]; intros cs off Hoff H.
  - exists []. split; [reflexivity|constructor].
  - destruct cs as [|c cs']; [exists []; split; [reflexivity|constructor]|].
    cbn [chunk_fuel map all_ok]. set (cs := c :: cs') in *.
    destruct (row_text_ok L sep Hsep (firstn n cs) 0) as (x & Hx & Hxt & Hxl).
    { intros j c' Hj. apply nth_error_firstn in Hj as [Hjn Hj]. specialize (H j c' Hj).
      rewrite (mod_add_small n off j Hn Hoff Hjn) in H. exact H. }
    destruct (IH (skipn n cs) (off + n)) as (rs & Hrs & Hf).
    { now apply mod_add_self. }
    { intros i c' Hi. rewrite nth_error_skipn' in Hi. specialize (H (n + i) c' Hi).
      now rewrite Nat.add_assoc in H. }
    exists (x :: rs). rewrite Hx, Hrs. split; [reflexivity|]. constructor; [split; assumption|exact Hf].
Qed.

(* rows of a table whose cell count is a multiple of the column count are all complete *)
Lemma chunk_full {A} n : 0 < n -> forall f (cs : list A), length cs <= f -> length cs mod n = 0 ->
  Forall (fun ch => length ch = n) (chunk_fuel f n cs).
Proof.
  intros Hn. induction f as [|k IH]; intros cs Hl Hm; [constructor|].
  destruct cs as [|c cs']; [constructor|]. cbn [chunk_fuel]. set (cs := c :: cs') in *.
  assert (Hge : n <= length cs).
  { destruct (Nat.lt_ge_cases (length cs) n) as [Hlt|]; [|assumption].
    rewrite Nat.mod_small in Hm by exact Hlt. subst cs. cbn [length] in Hm. lia. }
  constructor; [now apply firstn_length_le|].
  apply IH; rewrite skipn_length.
  - subst cs. cbn [length] in *. lia.
  - pose proof (Nat.div_mod_eq (length cs) n) as Hd. rewrite Hm, Nat.add_0_r in Hd.
    destruct (length cs / n) as [|q] eqn:Eq; [lia|].
    symmetry. apply Nat.mod_unique with (q := q); [lia|]. nia.
Qed.

Lemma Forall2_len {A B} (R : A -> B -> Prop) l1 l2 : Forall2 R l1 l2 -> length l1 = length l2.
Proof. induction 1; cbn [length]; congruence. Qed.

Lemma chunk_count {A} n : 0 < n -> forall f (cs : list A), length cs <= f -> length cs mod n = 0 ->
  length cs = length (chunk_fuel f n cs) * n.
Proof.
  intros Hn. induction f as [|k IH]; intros cs Hle Hm.
  - destruct cs; [reflexivity|cbn in Hle; lia].
  - destruct cs as [|c cs']; [reflexivity|]. cbn [chunk_fuel length]. set (cs := c :: cs') in *.
    assert (Hge : n <= length cs).
    { destruct (Nat.lt_ge_cases (length cs) n) as [Hlt|]; [|assumption].
      rewrite Nat.mod_small in Hm by exact Hlt. subst cs. cbn [length] in Hm. lia. }
    assert (Hm' : length (skipn n cs) mod n = 0).
    { rewrite skipn_length. pose proof (Nat.div_mod_eq (length cs) n) as Hd.
      rewrite Hm, Nat.add_0_r in Hd. destruct (length cs / n) as [|q] eqn:Eq; [lia|].
      symmetry. apply Nat.mod_unique with (q := q); [lia|]. nia. }
    assert (Hk : length (skipn n cs) <= k).
    { rewrite skipn_length. subst cs. cbn [length] in *. lia. }
    specialize (IH (skipn n cs) Hk Hm'). rewrite skipn_length in IH.
    change (S (length cs')) with (length cs). lia.
Qed.

(* the general statement: Collect succeeds, prints the rows one per line, and every row shows the
   widths of its columns plus the separators between them *)
Lemma table_rows cols sep ops t :
  build cols sep ops = Ok t -> tidy sep -> Forall op_ok ops ->
  exists rs, rows t = Ok rs /\ collect t = Ok (join nl rs ++ nl) /\
             Forall2 (row_fact (t_longest t) (vis_len sep)) (chunk (t_cols t) (t_cells t)) rs /\
             t_sep t = sep /\ length (t_longest t) = t_cols t /\ 1 < t_cols t.
Proof.
  unfold build. intros Hb Hsep Hops. apply bind_ok in Hb as (t0 & H0 & Hb). injection Hb as <-.
  destruct (inv_new _ _ _ H0) as (Hc & Hinv & Hnil).
  assert (Hn : 0 < t_cols t0) by lia.
  pose proof (inv_fold (t_cols t0) sep ops Hn t0 Hinv) as [I1 I2 I3 I4 I5 I6].
  assert (Htidy : Forall cell_tidy (t_cells (fold_left apply_op ops t0))).
  { apply tidy_fold; [exact Hops|]. rewrite Hnil. constructor. }
  set (t := fold_left apply_op ops t0) in *.
  destruct (chunks_ok (t_cols t0) (t_longest t) sep Hn Hsep (length (t_cells t)) (t_cells t) 0) as (rs & Hrs & Hf).
  { apply Nat.mod_0_l. lia. }
  { intros i c Hi. cbn [Nat.add]. split; [|split].
    - rewrite Forall_forall in I5. apply I5. eapply nth_error_In, Hi.
    - now apply I6.
    - rewrite Forall_forall in Htidy. apply Htidy. eapply nth_error_In, Hi. }
  assert (H0m : 0 mod t_cols t0 = 0) by (apply Nat.mod_0_l; lia).
  exists rs. unfold rows, collect, chunk. rewrite I1, I2. repeat split; auto.
  rewrite (collect_chunks (t_cols t0) (t_longest t) sep Hn (length (t_cells t)) (t_cells t) 0 rs
             (le_n _) H0m Hrs).
  reflexivity.
Qed.

(* table_rows_aligned *)
Lemma table_aligned cols sep ops t :
  build cols sep ops = Ok t -> tidy sep -> Forall op_ok ops ->
  length (t_cells t) mod t_cols t = 0 ->
  exists rs, rows t = Ok rs /\ collect t = Ok (join nl rs ++ nl) /\
             length rs = length (t_cells t) / t_cols t /\
             Forall (fun r => vis_len r = sum (t_longest t) + (t_cols t - 1) * vis_len sep) rs.
Proof.
  intros Hb Hsep Hops Hm.
  destruct (table_rows cols sep ops t Hb Hsep Hops) as (rs & Hr & Hc & Hf & _ & Hl & Hc1).
  exists rs. repeat split; auto.
  - (* number of rows *)
    pose proof (chunk_full (t_cols t) ltac:(lia) (length (t_cells t)) (t_cells t) (le_n _) Hm) as Hfull.
    fold (chunk (t_cols t) (t_cells t)) in Hfull.
    assert (Hlen : length (t_cells t) = length (chunk (t_cols t) (t_cells t)) * t_cols t).
    { unfold chunk. apply chunk_count; [lia|apply le_n|exact Hm]. }
    rewrite <- (Forall2_len _ _ _ Hf), Hlen. symmetry. apply Nat.div_mul. lia.
  - pose proof (chunk_full (t_cols t) ltac:(lia) (length (t_cells t)) (t_cells t) (le_n _) Hm) as Hfull.
    fold (chunk (t_cols t) (t_cells t)) in Hfull.
    clear Hr Hc. revert Hfull. induction Hf as [|ch r chs rs' [_ Hrw] _ IH]; intros Hfull; [constructor|].
    inversion Hfull as [|? ? Hch Hrest]; subst. constructor; [|now apply IH].
    rewrite Hrw, Hch, <- Hl. apply row_width_full. lia.
Qed.

(* a table whose cell count is not a multiple of the column count has a short last row *)
Definition ragged_ops : list op := [OCellL b!"a"; OCellL b!"b"; OCellL b!"c"].

Lemma table_ragged :
  exists t rs, build 2 b!" " ragged_ops = Ok t /\ rows t = Ok rs /\
               map vis_len rs = [3; 1].
Proof. eexists. eexists. split; [reflexivity|]. split; vm_compute; reflexivity. Qed.

(* a fill pattern that is not exactly one character wide breaks the alignment *)
Lemma table_wide_fill :
  exists t rs, build 2 b!" " [OCellL b!"abc"; OCellL b!"x"; OFill b!"=-"; OFill b!"=-"] = Ok t /\ rows t = Ok rs /\
               map vis_len rs = [6; 11].
Proof. eexists. eexists. split; [reflexivity|]. split; vm_compute; reflexivity. Qed.



(* ---------- valid UTF-8 is complete ---------- *)

(* a decoding step that is not "invalid byte, width 1" *)
Definition step_ok (rw : N * nat) : bool := negb ((fst rw =? rune_error)%N && Nat.eqb (snd rw) 1).

(* utf8.ValidString: Go's decoder never reports an invalid byte *)
Definition utf8_validb (s : bytes) : bool := forallb step_ok (decode_widths s).

Lemma decode_rune_stable s r w : s <> [] -> decode_rune s = (r, w) -> step_ok (r, w) = true ->
  w <= length s /\ forall x, decode_rune (firstn w s ++ x) = (r, w).
Proof.
  intros Hne H Hok. destruct s as [|b0 rest]; [congruence|]. unfold decode_rune in H.
  repeat match type of H with
         | context [if ?c then _ else _] => destruct c eqn:?
         | context [match ?l with [] => _ | _ :: _ => _ end] => destruct l
         end;
    injection H as <- <-; try (vm_compute in Hok; discriminate Hok);
    (split; [cbn [length]; lia|]); intros x; cbn [firstn app]; unfold decode_rune;
    repeat match goal with E : ?c = _ |- context [?c] => rewrite E end; reflexivity.
Qed.

Lemma utf8_valid_fuel : forall f s, length s <= f -> forallb step_ok (decode_fuel f s) = true -> utf8_complete s.
Proof.
  induction f as [|k IH]; intros s Hl H.
  - destruct s; [constructor|cbn in Hl; lia].
  - destruct s as [|b r]; [constructor|].
    rewrite decode_fuel_cons in H by discriminate. cbn [forallb] in H. apply andb_true_iff in H as [H1 H2].
    destruct (decode_rune (b :: r)) as [ru w] eqn:E. cbn [snd] in H2.
    destruct (decode_rune_stable (b :: r) ru w ltac:(discriminate) E H1) as [Hw Hst].
    pose proof (decode_rune_width (b :: r) ltac:(discriminate)) as Hpos. rewrite E in Hpos. cbn [snd] in Hpos.
    rewrite <- (firstn_skipn w (b :: r)). constructor.
    + split.
      * destruct w; [lia|]. discriminate.
      * intros x. rewrite Hst. rewrite firstn_length_le by exact Hw.
        specialize (Hst []). rewrite app_nil_r in Hst. now rewrite Hst.
    + apply IH; [|exact H2]. rewrite skipn_length. cbn [length] in *. lia.
Qed.

(* every valid UTF-8 string — any Unicode text — is complete *)
Lemma utf8_valid_complete s : utf8_validb s = true -> utf8_complete s.
Proof. apply utf8_valid_fuel. apply le_n. Qed.

(* the convenient form of tidy: valid UTF-8 visible text, no dangling escape prefix at the end *)
Lemma tidy_valid s : danglingb s = false -> utf8_validb (strip s) = true -> tidy s.
Proof. intros H1 H2. split; [exact H1|now apply utf8_valid_complete]. Qed.



(* ---------- column widths do not depend on the theme ---------- *)

(* what of an operation reaches numberOfColumns / longestCell / currentColumn *)
Definition shape (o : op) : nat + Z :=
  match o with
  | OCellL x | OCellR x | OFill x => inl (vis_len x)
  | OSkip n => inr n
  end.

Definition same_layout (t1 t2 : table) : Prop :=
  t_cols t1 = t_cols t2 /\ t_longest t1 = t_longest t2 /\ t_cur t1 = t_cur t2 /\
  length (t_cells t1) = length (t_cells t2).

Lemma same_layout_add t1 t2 x1 x2 f1 f2 r1 r2 : same_layout t1 t2 -> vis_len x1 = vis_len x2 ->
  same_layout (add_cell t1 x1 f1 r1) (add_cell t2 x2 f2 r2).
Proof.
  intros (H1 & H2 & H3 & H4) Hv. unfold same_layout, add_cell. cbn [t_cols t_longest t_cur t_cells c_len].
  rewrite H1, H2, H3, Hv, !app_length, H4. auto.
Qed.

Lemma same_layout_skip k : forall t1 t2, same_layout t1 t2 -> same_layout (skip_cells k t1) (skip_cells k t2).
Proof. induction k; intros t1 t2 H; cbn [skip_cells]; [exact H|]. apply IHk. now apply same_layout_add. Qed.

Lemma same_layout_fold ops1 : forall ops2 t1 t2, map shape ops1 = map shape ops2 -> same_layout t1 t2 ->
  same_layout (fold_left apply_op ops1 t1) (fold_left apply_op ops2 t2).
Proof.
  induction ops1 as [|o1 r1 IH]; intros [|o2 r2] t1 t2 Hm H; try discriminate; [exact H|].
  cbn [map] in Hm. injection Hm as Ho Hr. cbn [fold_left]. apply IH; [exact Hr|].
  destruct o1, o2; cbn [shape] in Ho; try discriminate; injection Ho as Ho; cbn [apply_op];
    try (now apply same_layout_add). subst. now apply same_layout_skip.
Qed.

(* a table described independently of the theme: each cell is a text with an optional style *)
Inductive sop :=
| SCell (right : bool) (style : option props) (text : bytes)
| SFill (style : option props) (text : bytes)
| SSkip (n : Z).

Definition styled (th : theme) (style : option props) (text : bytes) : bytes :=
  match style with None => text | Some p => format th p text end.

Definition op_of (th : theme) (s : sop) : op :=
  match s with
  | SCell false st x => OCellL (styled th st x)
  | SCell true st x => OCellR (styled th st x)
  | SFill st x => OFill (styled th st x)
  | SSkip n => OSkip n
  end.

Definition sop_ok (s : sop) : Prop :=
  match s with
  | SCell _ _ x => tidy x
  | SFill _ x => tidy x /\ vis_len x = 1
  | SSkip _ => True
  end.

Lemma styled_tidy th st x : theme_ok th -> tidy x -> tidy (styled th st x) /\ vis_len (styled th st x) = vis_len x.
Proof. intros Hth Hx. destruct st; cbn [styled]; [now apply format_tidy|auto]. Qed.

Lemma op_of_ok th s : theme_ok th -> sop_ok s -> op_ok (op_of th s).
Proof.
  intros Hth H. destruct s as [[|] st x|st x|n]; cbn [op_of op_ok sop_ok] in *; try exact I.
  - now apply styled_tidy.
  - now apply styled_tidy.
  - destruct H as [H1 H2]. destruct (styled_tidy th st x Hth H1) as [H3 H4]. split; [exact H3|congruence].
Qed.

Lemma op_of_shape th1 th2 s : theme_ok th1 -> theme_ok th2 -> sop_ok s -> shape (op_of th1 s) = shape (op_of th2 s).
Proof.
  intros H1 H2 H. destruct s as [[|] st x|st x|n]; cbn [op_of shape sop_ok] in *; try reflexivity; f_equal.
  - destruct (styled_tidy th1 st x H1 H), (styled_tidy th2 st x H2 H). congruence.
  - destruct (styled_tidy th1 st x H1 H), (styled_tidy th2 st x H2 H). congruence.
  - destruct H as [H _]. destruct (styled_tidy th1 st x H1 H), (styled_tidy th2 st x H2 H). congruence.
Qed.

(* the same table under two themes: same column widths, same number of cells, and (full rows)
   every row of either shows the same number of characters *)
Lemma table_theme_independent th1 th2 cols sep sops t1 t2 :
  theme_ok th1 -> theme_ok th2 -> tidy sep -> Forall sop_ok sops ->
  build cols sep (map (op_of th1) sops) = Ok t1 ->
  build cols sep (map (op_of th2) sops) = Ok t2 ->
  t_cols t1 = t_cols t2 /\ t_longest t1 = t_longest t2 /\ length (t_cells t1) = length (t_cells t2) /\
  (length (t_cells t1) mod t_cols t1 = 0 ->
   exists rs1 rs2, rows t1 = Ok rs1 /\ rows t2 = Ok rs2 /\ length rs1 = length rs2 /\
     forall r, In r (rs1 ++ rs2) -> vis_len r = sum (t_longest t1) + (t_cols t1 - 1) * vis_len sep).
Proof.
  intros H1 H2 Hsep Hs B1 B2.
  assert (Hl : same_layout t1 t2).
  { unfold build in B1, B2. apply bind_ok in B1 as (a & Ha & B1). apply bind_ok in B2 as (b & Hb & B2).
    rewrite Ha in Hb. injection Hb as <-. injection B1 as <-. injection B2 as <-.
    apply same_layout_fold; [|repeat split].
    rewrite !map_map. apply map_ext_in. intros s Hin. rewrite Forall_forall in Hs. now apply op_of_shape; auto. }
  destruct Hl as (L1 & L2 & _ & L4). repeat split; auto.
  intros Hm.
  assert (O1 : Forall op_ok (map (op_of th1) sops)).
  { apply Forall_map. eapply Forall_impl; [|exact Hs]. intros s. now apply op_of_ok. }
  assert (O2 : Forall op_ok (map (op_of th2) sops)).
  { apply Forall_map. eapply Forall_impl; [|exact Hs]. intros s. now apply op_of_ok. }
  destruct (table_aligned _ _ _ _ B1 Hsep O1 Hm) as (rs1 & R1 & _ & N1 & A1).
  assert (Hm2 : length (t_cells t2) mod t_cols t2 = 0) by (rewrite <- L4, <- L1; exact Hm).
  destruct (table_aligned _ _ _ _ B2 Hsep O2 Hm2) as (rs2 & R2 & _ & N2 & A2).
  exists rs1, rs2. repeat split; auto.
  - rewrite N1, N2, L4, L1. reflexivity.
  - intros r Hin. apply in_app_or in Hin as [Hin|Hin].
    + rewrite Forall_forall in A1. now apply A1.
    + rewrite Forall_forall in A2. rewrite L1, L2. now apply A2.
Qed.
