(* TextSer: the output of `klog print` as a document tree (C18). Definitions only.
   Models klog/app/text_serialiser.go (which props each kind of value gets, how Summary re-colours the
   tags inside a summary line), klog/parser/serialiser.go (serialiseRecord / SerialiseRecords: which
   lines a record prints) and the string assembled by cli/print.go.

   The values themselves (date, duration, range ... texts) are inputs here: C16 and C09 are about
   them. A summary line comes as its segmentation into tags and the text between them, which is what
   klog.HashTagPattern.ReplaceAllStringFunc visits (C14 is about the pattern). *)
From Klog Require Import Base.Prelude Model.Styler.
Open Scope N_scope.

(* (is_tag, text) *)
Definition seg := (bool * bytes)%type.
Definition seg_text (l : list seg) : bytes := flat_map snd l.

(* the StyleProps of text_serialiser.go *)
Definition pr_date : props := mk_props 1 0 false true.        (* TEXT, underlined *)
Definition pr_should : props := mk_props 9 0 false false.     (* PURPLE *)
Definition pr_summary : props := mk_props 2 0 false false.    (* TEXT_SUBDUED *)
Definition pr_tag : props := mk_props 2 0 true false.         (* TEXT_SUBDUED, bold *)
Definition pr_range : props := mk_props 7 0 false false.      (* BLUE_DARK *)
Definition pr_open : props := mk_props 8 0 false false.       (* BLUE_LIGHT *)
Definition pr_green : props := mk_props 4 0 false false.
Definition pr_red : props := mk_props 5 0 false false.

(* TextSerialiser.Summary on one line *)
Definition ser_summary (l : list seg) : piece :=
  Styled pr_summary
    (map (fun s : seg => if fst s then Styled pr_tag [Plain (snd s)] else Plain (snd s)) l).

Inductive entry_kind := KRange | KDuration | KOpenRange.

(* TextSerialiser.Range / Duration / OpenRange; a duration is red when its text starts with '-' *)
Definition ser_value (k : entry_kind) (t : bytes) : piece :=
  match k with
  | KRange => Styled pr_range [Plain t]
  | KOpenRange => Styled pr_open [Plain t]
  | KDuration => Styled (if has_prefix b!"-" t then pr_red else pr_green) [Plain t]
  end.

Record p_entry := mk_entry {
  pe_kind : entry_kind;
  pe_text : bytes;                 (* e.g. 8:00 - 9:00, -1h30m, 14:00 - ? *)
  pe_summary : list (list seg)     (* the lines of the entry summary *)
}.

Record p_record := mk_record {
  pr_date_text : bytes;            (* 2020-01-01 *)
  pr_should_text : bytes;          (* 8h! ; empty when the should-total is zero *)
  pr_summary_lines : list (list seg);
  pr_entries : list p_entry
}.

Definition indent : bytes := b!"    ".
Definition line := list piece.

(* serialiseRecord: the lines of one entry *)
Definition entry_lines (e : p_entry) : list line :=
  let first := [Plain indent; ser_value (pe_kind e) (pe_text e)] in
  match pe_summary e with
  | [] => [first]
  | l0 :: rest =>
    (if is_nil (seg_text l0) then first else first ++ [Plain b!" "; ser_summary l0])
    :: map (fun l => [Plain (indent ++ indent); ser_summary l]) rest
  end.

Definition record_lines (r : p_record) : list line :=
  ([Styled pr_date [Plain (pr_date_text r)]]
   ++ (if is_nil (pr_should_text r) then []
       else [Plain b!" ("; Styled pr_should [Plain (pr_should_text r)]; Plain b!")"]))
  :: map (fun l => [ser_summary l]) (pr_summary_lines r)
  ++ flat_map entry_lines (pr_entries r).

(* SerialiseRecords: an empty line between records *)
Fixpoint records_lines (rs : list p_record) : list line :=
  match rs with
  | [] => []
  | [r] => record_lines r
  | r :: rest => record_lines r ++ [] :: records_lines rest
  end.

Definition newline : piece := Plain [10].

(* Lines.ToString: every line followed by a line feed *)
Definition lines_doc (ls : list line) : list piece := flat_map (fun l => l ++ [newline]) ls.

(* Print.Run: "\n" + serialisedRecords.ToString() + "\n" (nothing is printed for no records) *)
Definition print_doc (rs : list p_record) : list piece :=
  match rs with
  | [] => []
  | _ => newline :: lines_doc (records_lines rs) ++ [newline]
  end.
