"""C15 — calendar periods tile the calendar exactly.

Suites (request -> one line, see coq/Model/SuitePeriod.v and harness/suite_period.go):
  dates     cal-date <y> <m> <d>       weekday, ISO year+week, quarter, PlusDays, Period(), Previous().Period(), Hash()
            cal-basic <y> <m> <d>      the part of cal-date that cannot panic, for the dates carrying known finding K4
  plus      cal-plus <y> <m> <d> <n>   Date.PlusDays(n)
  patterns  period-pattern <hex>       period.NewPeriodFromPatternString

The oracles below are written from the property text with Python's own calendar (datetime.date,
date.isocalendar, date.fromisocalendar) for years 1..9999 and the Gregorian rule for year 0; they are
evaluated on the implementation's output and share no code with the Coq model or the Go code.
"""
import sys, os, re
from datetime import date
sys.path.insert(0, os.path.dirname(os.path.dirname(os.path.abspath(__file__))))
from common import hx, unhx
from check import Suite

# ----------------------------------------------------------------------------- independent calendar

ERA = 146097                       # days in 400 Gregorian years
MIN_ORD = -365                     # 0000-01-01 (ordinal 1 = 0001-01-01, as in datetime)
MAX_ORD = date.max.toordinal()     # 9999-12-31 = 3652059


def leap(y):
    return (y % 4 == 0 and y % 100 != 0) or y % 400 == 0


def dim(y, m):
    if m == 2:
        return 29 if leap(y) else 28
    return 30 if m in (4, 6, 9, 11) else 31


def ordinal(y, m, d):
    """proleptic Gregorian day number; year 0 by the rule itself (a leap year that ends the day before 0001-01-01)"""
    if y >= 1:
        return date(y, m, d).toordinal()
    assert y == 0
    return -366 + sum(dim(0, k) for k in range(1, m)) + d


def from_ordinal(o):
    """(y, m, d) or None when outside 0000-01-01 .. 9999-12-31"""
    if o < MIN_ORD or o > MAX_ORD:
        return None
    if o >= 1:
        t = date.fromordinal(o)
        return (t.year, t.month, t.day)
    doy = o + 366
    m = 1
    while doy > dim(0, m):
        doy -= dim(0, m); m += 1
    return (0, m, doy)


def iso(y, m, d):
    """(iso year, iso week, weekday Monday=1)"""
    if y >= 1:
        c = date(y, m, d).isocalendar()
        return (c[0], c[1], c[2])
    # year 0 has the calendar of year 400 (the Gregorian cycle is 400 years = 20871 whole weeks)
    c = date(400, m, d).isocalendar()
    return (c[0] - 400, c[1], c[2])


def iso_monday(y, w):
    """ordinal of the Monday of ISO week w of ISO year y, or None if that year has no such week"""
    try:
        if y >= 1:
            return date.fromisocalendar(y, w, 1).toordinal()
        return date.fromisocalendar(400, w, 1).toordinal() - ERA
    except ValueError:
        return None


# self-checks of the year-0 rule against the 400-year cycle
assert ordinal(0, 1, 1) == date(400, 1, 1).toordinal() - ERA == MIN_ORD
assert ordinal(0, 12, 31) == 0 and from_ordinal(0) == (0, 12, 31) and from_ordinal(-365) == (0, 1, 1)
assert from_ordinal(ordinal(0, 2, 29)) == (0, 2, 29)


def show(ymd):
    return "%d-%d-%d" % ymd


def expected_periods(y, m, d):
    """the four true periods of a date as (since, until) ordinals: week, month, quarter, year"""
    o = ordinal(y, m, d)
    wd = (o - 1) % 7 + 1            # ordinal 1 = 0001-01-01 = Monday
    q = (m - 1) // 3 + 1
    return [(o - (wd - 1), o + (7 - wd)),
            (ordinal(y, m, 1), ordinal(y, m, dim(y, m))),
            (ordinal(y, 3 * q - 2, 1), ordinal(y, 3 * q, dim(y, 3 * q))),
            (ordinal(y, 1, 1), ordinal(y, 12, 31))]


def period_of_kind(kind, o):
    """true period (ordinals) of kind 0..3 that contains day number o (o may lie outside 0000..9999)"""
    if kind == 0:
        wd = (o - 1) % 7 + 1
        return (o - (wd - 1), o + (7 - wd))
    ymd = from_ordinal(o)
    if ymd is None:
        return None
    return expected_periods(*ymd)[kind]


def representable(p):
    return p is not None and MIN_ORD <= p[0] and p[1] <= MAX_ORD


KINDS = ["week", "month", "quarter", "year"]
PLUS = [1, -1, 7, -7, -25, -80]

# report buckets seen so far: hash -> bucket and bucket -> hash, per kind (day, week, month, quarter, year)
_hash_to_bucket = [dict() for _ in range(5)]
_bucket_to_hash = [dict() for _ in range(5)]


def parse_period_tok(t):
    a, b = t.split("/")
    return tuple(int(x) for x in a.split("-")), tuple(int(x) for x in b.split("-"))


def date_problems(req, out, record_hashes=True):
    """list of (kind_of_problem, text); kind 'edge-crash' = the code panics where the true period is not
    representable in 0000..9999 (K4), anything else is a plain violation"""
    cmd, ys, ms, ds = req.split(" ")
    y, m, d = int(ys), int(ms), int(ds)
    valid = 0 <= y <= 9999 and 1 <= m <= 12 and 1 <= d <= dim(y, m)
    f = out.split(" ")
    if not valid:
        return [] if out == "err" else [("bad", "%d-%d-%d is not a date of the calendar but NewDate accepted it: %s" % (y, m, d, out))]
    basic = cmd == "cal-basic"
    if f[0] != "ok" or len(f) != (10 if basic else 24):
        return [("bad", "valid date %d-%d-%d: unexpected output %r" % (y, m, d, out))]
    if basic:   # same layout with the PlusDays / Period() / Previous() fields left out
        f = f[:5] + [None] * 14 + f[5:]
    probs = []
    o = ordinal(y, m, d)
    iy, iw, wd = iso(y, m, d)
    if f[1] != str(wd):
        probs.append(("bad", "weekday of %s is %d, got %s" % (show((y, m, d)), wd, f[1])))
    if (f[2], f[3]) != (str(iy), str(iw)):
        probs.append(("bad", "ISO week of %s is %d-W%d, got %s-W%s" % (show((y, m, d)), iy, iw, f[2], f[3])))
    q = (m - 1) // 3 + 1
    if f[4] != str(q):
        probs.append(("bad", "quarter of %s is %d, got %s" % (show((y, m, d)), q, f[4])))
    for i, n in enumerate([] if basic else PLUS):
        want = from_ordinal(o + n)
        got = f[5 + i]
        if want is None:
            if got != "crash":   # no right answer exists; anything but a refusal is wrong
                probs.append(("bad", "%s plus %d days lies outside 0000..9999 but PlusDays returned %s" % (show((y, m, d)), n, got)))
        elif got != show(want):
            probs.append(("bad", "%s plus %d days is %s, got %s" % (show((y, m, d)), n, show(want), got)))
    exp = expected_periods(y, m, d)
    for k in range(0 if basic else 4):
        got = f[11 + k]
        e = exp[k]
        if not (e[0] <= o <= e[1]):
            probs.append(("bad", "oracle inconsistency"))
        if got == "crash":
            if representable(e):
                probs.append(("bad", "%s.Period() of %s panics although the period %s..%s is representable" % (KINDS[k], show((y, m, d)), show(from_ordinal(e[0])), show(from_ordinal(e[1])))))
            else:
                probs.append(("edge-crash", "%s.Period() of %s panics (the period reaches outside 0000..9999)" % (KINDS[k], show((y, m, d)))))
        else:
            try:
                s, u = parse_period_tok(got)
                so, uo = ordinal(*s), ordinal(*u)
            except Exception:
                probs.append(("bad", "unreadable period %r" % got)); continue
            if not (so <= o <= uo):
                probs.append(("bad", "%s period %s does not contain %s" % (KINDS[k], got, show((y, m, d)))))
            if (so, uo) != e:
                probs.append(("bad", "%s period of %s should be %s..%s, got %s" % (KINDS[k], show((y, m, d)), from_ordinal(e[0]), from_ordinal(e[1]), got)))
        # previous period: the period of the same kind that ends the day before this one begins
        gotp = f[15 + k]
        pe = period_of_kind(k, e[0] - 1)
        if gotp == "crash":
            if representable(pe):
                probs.append(("bad", "%s.Previous().Period() of %s panics although the previous period is representable" % (KINDS[k], show((y, m, d)))))
            else:
                probs.append(("edge-crash", "%s.Previous() of %s panics (the previous period reaches outside 0000..9999)" % (KINDS[k], show((y, m, d)))))
        else:
            try:
                s, u = parse_period_tok(gotp)
                so, uo = ordinal(*s), ordinal(*u)
            except Exception:
                probs.append(("bad", "unreadable period %r" % gotp)); continue
            if uo != e[0] - 1:
                probs.append(("bad", "previous %s of %s ends %s, not the day before %s" % (KINDS[k], show((y, m, d)), show(u), from_ordinal(e[0]))))
            if pe is None or (so, uo) != pe:
                probs.append(("bad", "previous %s of %s should be %s, got %s" % (KINDS[k], show((y, m, d)), pe, gotp)))
    # report buckets: same hash <=> same period
    monday = o - (wd - 1)
    buckets = [o, monday, (y, m), (y, q), y]
    for k in range(5):
        h = f[19 + k]
        if h == "crash":
            probs.append(("bad", "Hash() panics")); continue
        if not record_hashes:
            continue
        b = buckets[k]
        if _hash_to_bucket[k].setdefault(h, b) != b:
            probs.append(("bad", "%s bucket hash %s is shared by different periods (%s and %s)" % ((["day"] + KINDS)[k], h, _hash_to_bucket[k][h], b)))
        if _bucket_to_hash[k].setdefault(b, h) != h:
            probs.append(("bad", "%s bucket %s has two hashes (%s and %s)" % ((["day"] + KINDS)[k], b, _bucket_to_hash[k][b], h)))
    return probs


def oracle_date(req, out):
    p = date_problems(req, out)
    return "; ".join(t for _, t in p[:4]) if p else None


def oracle_plus(req, out):
    _, ys, ms, ds, ns = req.split(" ")
    y, m, d, n = int(ys), int(ms), int(ds), int(ns)
    valid = 0 <= y <= 9999 and 1 <= m <= 12 and 1 <= d <= dim(y, m)
    if not valid:
        return None if out == "err" else "invalid date accepted"
    want = from_ordinal(ordinal(y, m, d) + n)
    if want is None:
        return None if out == "ok crash" else "%s plus %d days lies outside 0000..9999 but PlusDays returned %s" % (show((y, m, d)), n, out)
    return None if out == "ok " + show(want) else "%s plus %d days is %s, got %s" % (show((y, m, d)), n, show(want), out)


def spec_pattern(s):
    """None = not a period pattern / names no existing period; else (since, until) ordinals (possibly beyond 9999-12-31)"""
    mt = re.fullmatch(rb"([0-9]{4})", s)
    if mt:
        y = int(mt.group(1))
        return (ordinal(y, 1, 1), ordinal(y, 12, 31))
    mt = re.fullmatch(rb"([0-9]{4})-([0-9]{2})", s)
    if mt:
        y, mo = int(mt.group(1)), int(mt.group(2))
        if not 1 <= mo <= 12:
            return None
        return (ordinal(y, mo, 1), ordinal(y, mo, dim(y, mo)))
    mt = re.fullmatch(rb"([0-9]{4})-Q([0-9])", s)
    if mt:
        y, q = int(mt.group(1)), int(mt.group(2))
        if not 1 <= q <= 4:
            return None
        return (ordinal(y, 3 * q - 2, 1), ordinal(y, 3 * q, dim(y, 3 * q)))
    mt = re.fullmatch(rb"([0-9]{4})-W([0-9]{1,2})", s)
    if mt:
        y, w = int(mt.group(1)), int(mt.group(2))
        mon = iso_monday(y, w)
        if mon is None:
            return None
        return (mon, mon + 6)
    return None


def oracle_pattern(req, out):
    s = unhx(req.split(" ")[1])
    want = spec_pattern(s)
    if out == "crash":
        return "period pattern %r makes NewPeriodFromPatternString panic (it must be accepted or rejected)" % s
    if want is None:
        return None if out == "err" else "%r names no period but was accepted: %s" % (s, out)
    if not representable(want):
        return None if out == "err" else "%r names a period reaching beyond 9999-12-31 but was accepted: %s" % (s, out)
    exp = "ok %s/%s" % (show(from_ordinal(want[0])), show(from_ordinal(want[1])))
    return None if out == exp else "pattern %r denotes %s, got %s" % (s, exp[3:], out)


# ----------------------------------------------------------------------------- known findings (narrow)

def k4_edge_period(req, out):
    """K4: Period()/Previous() panic exactly where the true (previous) period is not representable:
    dates of year 0000 (and 9999-12-27..31 for the week), and nothing else is wrong with the line"""
    if not req.startswith("cal-date "):
        return False
    _, ys, ms, ds = req.split(" ")
    y, m, d = int(ys), int(ms), int(ds)
    if not (y == 0 or (y == 9999 and m == 12 and d >= 27)):
        return False
    p = date_problems(req, out, record_hashes=False)
    return bool(p) and all(kind == "edge-crash" for kind, _ in p)


# ----------------------------------------------------------------------------- generators

QUICK_YEARS = [0, 1, 2, 3, 4, 5, 99, 100, 101, 399, 400, 401, 1582, 1600, 1699, 1700, 1752, 1800, 1899, 1900, 1901,
               1969, 1970, 1999, 2000, 2001, 2004, 2015, 2020, 2021, 2024, 2026, 2032, 2100, 2400, 4000, 8000,
               9995, 9996, 9997, 9998, 9999]


def years_for(tier, rng):
    if tier != "quick":
        return list(range(10000))
    ys = set(QUICK_YEARS)
    while len(ys) < 60:
        ys.add(rng.randrange(10000))
    return sorted(ys)


def gen_dates(tier, rng):
    out = []
    for y in years_for(tier, rng):
        for m in range(1, 13):
            n = dim(y, m)
            out.append("cal-date %d %d 0" % (y, m))
            for d in range(1, n + 1):
                out.append("cal-date %d %d %d" % (y, m, d))
            out.append("cal-date %d %d %d" % (y, m, n + 1))
        out.append("cal-date %d 0 1" % y)
        out.append("cal-date %d 13 1" % y)
        out.append("cal-date %d 2 30" % y)
        out.append("cal-date %d 1 32" % y)
    out += ["cal-date -1 12 31", "cal-date 10000 1 1", "cal-date -1 1 1", "cal-date 10000 12 31"]
    # the dates whose cal-date line carries known finding K4: compare everything that cannot panic separately
    for m in range(1, 13):
        for d in range(1, dim(0, m) + 1):
            out.append("cal-basic 0 %d %d" % (m, d))
    for d in range(20, 32):
        out.append("cal-basic 9999 12 %d" % d)
    return out


def gen_plus(tier, rng):
    out = []
    n = 20000 if tier == "quick" else 1000000
    span = MAX_ORD - MIN_ORD
    for i in range(n):
        r = rng.random()
        if r < 0.25:
            y = rng.choice([0, 0, 1, 9998, 9999, 9999])
        else:
            y = rng.randrange(10000)
        m = rng.randrange(1, 13)
        d = rng.randrange(1, dim(y, m) + 1)
        r = rng.random()
        if r < 0.3:
            k = rng.randrange(-800, 801)
        elif r < 0.5:
            k = rng.choice([365, 366, -365, -366, 1461, -1461, 36524, -36524, ERA, -ERA, 7 * 73, -7 * 27])
        elif r < 0.7:
            # land near one of the two ends of the calendar
            o = ordinal(y, m, d)
            k = rng.choice([MIN_ORD, MAX_ORD]) - o + rng.randrange(-40, 41)
        else:
            k = rng.randrange(-span - 1000, span + 1000)
        out.append("cal-plus %d %d %d %d" % (y, m, d, k))
    return out


MALFORMED_PATTERNS = ["", " ", "2", "20", "202", "20200", "02020", "2020-", "2020-1", "2020-001", "2020-1-", "20-01", "2020 01",
                      "2020/01", "2020.01", "2020-01-01", "2020-01-", "-2020", "+2020", "2020-Q", "2020-q1", "2020-Q10", "2020-Q01",
                      "2020-Q-1", "2020Q1", "2020-QQ", "2020-w05", "2020-W", "2020-W001", "2020-W123", "2020-W-1", "2020-W1x",
                      "2020-Wx1", "x2020-W10", "2020-W10x", "2020W10", "2020--W10", "2020-W 1", "2020-W1 ", " 2020-W1",
                      "2020 ", " 2020", "2020\n", "\n2020", "2020-01\n", "2020-Q1\n", "2020-W01\n", "2020\r", "2020\x00",
                      "２０２０", "2020-０１", "2020-Q１", "2020-W٥", "٢٠٢٠", "2020-W१", "202०", "2020\xff", "\xff\xff\xff\xff",
                      "2020-13", "2020-00", "2020-Q0", "2020-Q5", "2020-W00", "2020-W0", "2020-W53", "2021-W53", "2020-W54",
                      "9999-W52", "9999-W53", "9999-W99", "9999-W51", "0000-W01", "0000-W1", "0000-W53", "0000-W52",
                      "0000", "9999", "0000-01", "9999-12", "0000-Q1", "9999-Q4", "abcd", "20a0", "2020-0a", "2020-a1",
                      "2020-Qa", "2020-Wa", "2020-W1a", "2020-W0a", "2020-M01", "2020-D001", "2020-H1", "year", "Q1", "W10"]


def gen_patterns(tier, rng):
    out = []
    for s in MALFORMED_PATTERNS:
        out.append("period-pattern " + hx(_enc(s)))
    for y in years_for(tier, rng):
        out.append("period-pattern " + hx("%04d" % y))
        for m in range(0, 100):
            out.append("period-pattern " + hx("%04d-%02d" % (y, m)))
        for q in range(0, 10):
            out.append("period-pattern " + hx("%04d-Q%d" % (y, q)))
        for w in range(0, 10):
            out.append("period-pattern " + hx("%04d-W%d" % (y, w)))
        for w in range(0, 100):
            out.append("period-pattern " + hx("%04d-W%02d" % (y, w)))
    # mutations of valid patterns: one byte inserted / deleted / replaced
    alphabet = "0123456789-QWqw /\n\xc3"
    n = 4000 if tier == "quick" else 200000
    for _ in range(n):
        y = rng.choice([0, 9999, rng.randrange(10000)])
        base = rng.choice(["%04d" % y, "%04d-%02d" % (y, rng.randrange(0, 14)), "%04d-Q%d" % (y, rng.randrange(0, 6)),
                           "%04d-W%d" % (y, rng.randrange(0, 10)), "%04d-W%02d" % (y, rng.randrange(0, 56))])
        s = list(base)
        k = rng.randrange(3)
        i = rng.randrange(len(s) + 1)
        c = rng.choice(alphabet)
        if k == 0:
            s.insert(i, c)
        elif k == 1:
            del s[min(i, len(s) - 1)]
        else:
            s[min(i, len(s) - 1)] = c
        out.append("period-pattern " + hx("".join(s).encode("latin-1")))
    return out


def _enc(s):
    """bytes of a hand-written case: characters up to U+00FF that are meant as raw bytes stay raw"""
    if all(ord(c) < 128 for c in s):
        return s.encode("ascii")
    if all(ord(c) < 256 for c in s):
        return s.encode("latin-1")
    return s.encode("utf-8")


def hash_projection():
    """the five bucket hashes of a `cal-date` / `cal-basic` answer are compared up to a renaming: each is replaced by the
       ordinal of its first appearance (per kind, per side). The model's and the implementation's answers then agree exactly
       when both partition the dates seen so far into the same buckets; the hash NUMBERS themselves are nobody's business
       (the property only says: same bucket exactly when same period — which the oracle checks on the raw numbers)."""
    seen = [dict() for _ in range(5)]
    def f(req, line):
        if not (req.startswith("cal-date ") or req.startswith("cal-basic ")) or not line.startswith("ok "):
            return line
        toks = line.split(" ")
        if len(toks) < 6:
            return line
        for k in range(5):
            h = toks[len(toks) - 5 + k]
            if h.isdigit():
                toks[len(toks) - 5 + k] = "#%d" % seen[k].setdefault(int(h), len(seen[k]))     # int keys: the thorough tier sees 3.6 million day hashes
        return " ".join(toks)
    return f

def gen_dates_tz(tier, rng):
    """the calendar does not depend on where the program runs: the same requests with the process in a time zone whose daylight
       saving switches at MIDNIGHT (the switch-over day has no 00:00 there), for the years around now and a sample of others"""
    out = []
    years = [2019, 2022, 2023, 2024, 2025] if tier == "quick" else list(range(1990, 2040)) + [1900, 2000, 2100, 2400]
    for y in years:
        for m in range(1, 13):
            for d in range(1, dim(y, m) + 1):
                out.append("cal-date %d %d %d" % (y, m, d))
    return out

def suites():
    return [
        Suite("dates", gen_dates, oracle=oracle_date, exhaustive=lambda t: t != "quick", project=hash_projection,
              rule="every date of the chosen years (quick: 60 boundary/century/leap/random years; thorough: all 3,652,425 dates of 0000..9999) "
                   "plus day 0 / day n+1 / month 0 / month 13 neighbours; non-trivial = a valid date"),
        Suite("dates-santiago", gen_dates_tz, oracle=oracle_date, project=hash_projection, env={"TZ": "America/Santiago"},
              rule="every date of 2019, 2022-2025 (thorough: 1990-2039, 1900, 2000, 2100, 2400) with the harness process running in TZ=America/Santiago (daylight saving starts at midnight); non-trivial = a valid date"),
        Suite("dates-havana", gen_dates_tz, oracle=oracle_date, project=hash_projection, env={"TZ": "America/Havana"},
              rule="the same in TZ=America/Havana"),
        Suite("plus", gen_plus, oracle=oracle_plus, exhaustive=lambda t: False,
              rule="random date x day increment (small, year/century/era sized, landing near either end of the calendar, arbitrary); "
                   "non-trivial = result inside 0000..9999",
              nontrivial=lambda req, out: out.startswith("ok ") and out != "ok crash"),
        Suite("patterns", gen_patterns, oracle=oracle_pattern, exhaustive=lambda t: t != "quick",
              rule="per year (quick: the 60 years; thorough: all 10,000): every string matching one of the four regexps "
                   "(YYYY, YYYY-00..99, YYYY-Q0..9, YYYY-W0..9, YYYY-W00..99) + hand-written malformed strings + byte mutations; "
                   "non-trivial = accepted pattern"),
    ]
