(* Eval: klog/service/evaluate.go (Total, ShouldTotalSum, Diff) and service/record.go (CloseOpenRanges).
   Definitions only. Duration.Plus goes through safemath: overflow is a panic (Crash). *)
From Klog Require Import Base.Prelude Model.Calendar Model.Values Model.Record.
Open Scope Z_scope.

Fixpoint sum64 (acc : Z) (xs : list Z) : outcome Z :=
  match xs with
  | [] => Ok acc
  | x :: r => match dur_plus acc x with Ok v => sum64 v r | Err e => Err e | Crash c => Crash c end
  end.

Definition all_entries (rs : list record) : list entry := flat_map rec_entries rs.

(* service.Total *)
Definition total (rs : list record) : outcome Z := sum64 0 (map entry_minutes (all_entries rs)).

(* service.ShouldTotalSum *)
Definition should_total_sum (rs : list record) : outcome Z := sum64 0 (map should_minutes rs).

(* service.Diff: actual.Minus(should) = actual.Plus(NewDuration(0, -should)) *)
Definition diff (should actual : Z) : outcome Z := dur_plus actual (- should).

(* Record.EndOpenRange: the first open range becomes a range with the default format *)
Fixpoint end_open_range (es : list entry) (end_ : time) : option (list entry) :=
  match es with
  | [] => None
  | e :: r =>
    match e_value e with
    | VOpen o =>
      match new_range (o_start o) end_ true with
      | Ok rg => Some ({| e_value := VRange rg; e_summary := e_summary e |} :: r)
      | _ => None
      end
    | _ => match end_open_range r end_ with Some r' => Some (e :: r') | None => None end
    end
  end.

Definition EUncloseable : error := EOther 1.

(* service.CloseOpenRanges at the instant (today, hour:minute) *)
Fixpoint close_loop (today before : cdate) (now_t : time) (rs : list record) : outcome (list record) :=
  match rs with
  | [] => Ok []
  | r :: rest =>
    match open_range_of r with
    | None => let* rest' := close_loop today before now_t rest in Ok (r :: rest')
    | Some _ =>
      let* end_ :=
        (if cdate_eqb (dt (rec_date r)) today then Ok now_t
         else if cdate_eqb (dt (rec_date r)) before then
           match time_plus now_t 1440 with Ok t => Ok t | Crash c => Crash c | Err _ => Err EUncloseable end
         else Err EUncloseable) in
      match end_open_range (rec_entries r) end_ with
      | None => Err EUncloseable
      | Some es =>
        let* rest' := close_loop today before now_t rest in
        Ok ({| rec_date := rec_date r; rec_should := rec_should r; rec_summary := rec_summary r; rec_entries := es |} :: rest')
      end
    end
  end.

Definition close_open_ranges (today : cdate) (h m : Z) (rs : list record) : outcome (list record) :=
  let* before := plus_days today (-1) in
  let* now_t := new_time h m 0 true in
  close_loop today before now_t rs.
