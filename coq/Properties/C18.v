(* C18 — property theorems (stub). *)
From Klog Require Import Base.Prelude.
